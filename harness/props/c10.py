"""C10 -- randomised predictors sample from the probability mass function they report.

Correspondence of Thresholder.v with the real code:
  to     fitted ThresholdOptimizer (prefit PassThrough scorer): _pmf_predict vs the model pmf computed from the
         implementation's own interpolation_dict; distribution / group-score dependence / monotonicity oracles;
         predict with a SCRIPTED numpy RandomState vs `draw`; reproducibility; frequency TEST.
  eg     fitted ExponentiatedGradient (classification): _pmf_predict vs the weights_-mixture; scripted draw; ...
  egreg  ExponentiatedGradient with BoundedGroupLoss: the (a, p) handed to RandomState.choice vs the pairs
         derived from weights_ BY PREDICTOR ID; scripted inverse-cdf draw vs draw_reg; ...
"""
from __future__ import annotations
import math
from fractions import Fraction
from harness.core import Rng, gz, gq, gnat, glist, gbool, Dec
from harness.props import _c04_common as _c04          # read-only: constraint / objective name tables

PID = "C10"
VO = ["theories/Base/Flat.vo", "theories/Post/Thresholder.vo", "theories/Post/Thresholder_proofs.vo",
      "theories/Post/ThresholderBridge.vo", "theories/Post/ThresholderBridge_proofs.vo"]
PROPS_FILES = ["props/C10.v"]
TRANSLATORS = ["t_thresholder", "t_threshopt", "t_egconst", "t_egweights"]
REQUIRES = ["From FL Require Import Num Flat ListX Thresholder.",
            "From FL Require Tradeoff ThreshOpt ThresholderBridge."]
SHARD = 12
CHUNK = 1
CASE_TIMEOUT = 300
SEARCH_CAP = 600

LEVEL_TEXT = ("Proof (Coq), for every fitted rule given as data and on the expressions regenerated from the source on "
              "every run: the thresholder pmf is a distribution for every valid rule, is a function of (group, score), "
              "is monotone in the score when both operations are '>' (any thresholds incl. +-inf); the EG pmf is the "
              "weights_-mixture of the predictors' outputs (paired by predictor id) and lies in [0,1]; the draw returns "
              "1 exactly on u <= p (so: constant 1 at p = 1 on [0,1); at p = 0 only u = 0 gives 1); for regression "
              "moments the uniform numbers selecting predictor t form an interval of length weights_[t] whatever the "
              "storage order of weights_, and the returned number is that predictor's output. Tie to the code: "
              "translator t_thresholder (fail closed) + differential runs on fitted ThresholdOptimizer / "
              "ExponentiatedGradient models incl. predict under a scripted RandomState. Extension: no hypothesis is "
              "left on the fitted rule / weights: every rule the C04/C05 model of ThresholdOptimizer.fit produces "
              "(any groups with both labels, constraint, objective, flip, grid size; re-assembled from the fragments "
              "t_threshopt regenerates) is valid, so the reported pmf of a fitted ThresholdOptimizer is a distribution "
              "at every (group, score) and, with flip=False, monotone in the score; weights_ of the C08 model of "
              "ExponentiatedGradient.fit (EG or LP branch, selected iteration, zero padding; t_egconst fragments) is "
              "a probability vector over distinct predictor ids, so the reported pmf of hard predictors is in [0,1]. "
              "Tie to the code: on tie-free cases the pmf table of the rule converted from the FIT MODEL is compared "
              "with _pmf_predict of the fitted implementation on every query row.")
LEVEL_NOTE = ("NOT proved: 'frequencies over independent seeds match the pmf' (no measure theory; what is proved is the "
              "exact set of uniform numbers mapped to each outcome, the frequency statement is a labelled statistical "
              "TEST: exact binomial tail < 2e-9, about 6 sigma). That fit produces valid rules / weights is proved for "
              "the fit MODELS of C04/C05/C08 (bridge theorems) and additionally checked per case on the implementation; "
              "remaining guards of the EG bridge: at least one iteration, and scipy's linprog answer meets the "
              "constraints solve_linprog passes (trusted solver, as in C08). numpy's MT19937 stream and "
              "RandomState.choice (cumsum + searchsorted side='right') are modelled, not verified.")
TECHNIQUE = ("Coq proofs about the pmf / draw expressions regenerated from the source + differential model/implementation "
             "run with a scripted random generator")
TRUSTED = ["Coq 8.16.1 kernel and vm_compute", "translators/t_thresholder.py, t_threshopt.py, t_egconst.py, t_egweights.py",
           "harness/props/c10.py (generators, "
           "scripted RandomState, comparison)", "numpy RandomState.rand / choice semantics (modelled)",
           "harness.learners test doubles", "no axioms (Print Assumptions: closed)"]
ASSUMPTIONS = ["the fitted rule (interpolation_dict, weights_, predictors' outputs) is taken from the implementation "
               "as exact rationals of its floats; pmf comparison tolerance 1e-12",
               "rand() is uniform on [0,1): frequency = measure of the proved interval (tested, not proved)",
               "query rows belong to groups seen in fit"]
RULE = ("cases: random small datasets (both labels in each group; a second stream with few score levels of mixed "
        "labels per group, built so that the fit model is mostly tie-free) -> fitted ThresholdOptimizer (7 constraints x "
        "objectives x flip x grid 2..20) / ExponentiatedGradient (DemographicParity, EqualizedOdds, BoundedGroupLoss; "
        "with / without LP step); query rows = training rows + unseen scores between / outside levels + scores equal "
        "to a threshold; non-trivial = some query row is genuinely randomised (0 < p < 1, resp. two positive-weight "
        "predictors disagree)")
EXHAUSTIVE = {"quick": False, "thorough": False}

SIMPLE = ["selection_rate_parity", "demographic_parity", "false_positive_rate_parity", "false_negative_rate_parity",
          "true_positive_rate_parity", "true_negative_rate_parity"]
OBJ_SIMPLE = ["accuracy_score", "balanced_accuracy_score", "selection_rate", "true_positive_rate",
              "true_negative_rate"]
OBJ_EO = ["accuracy_score", "balanced_accuracy_score"]
GROUP_NAMES = [["a", "b", "c"], ["z", "m", "k"], [3, 1, 2], [0, 1, 2], ["1", "0", "10"]]
N_STAT = 400
TAIL = 2e-9          # two-sided exact binomial tail ~ 6 sigma
TOL = 1e-12          # model value vs implementation value (same float inputs)
RTOL = 1e-7          # range / normalisation slack: LP weights sum to 1 only up to solver tolerance (numpy's own
                     # check in choice is sqrt(eps) ~ 1.5e-8)
U_TOP = 1.0 - 2.0 ** -53
TINY = 2.0 ** -60


# ----------------------------------------------------------------------------------------------------
# case generation
# ----------------------------------------------------------------------------------------------------
def _to_case(r, stat):
    ng = r.randint(2, 3)
    names = r.choice(GROUP_NAMES)[:ng]
    den = r.choice([1, 1, 2, 4])
    hi = r.choice([3, 5, 8])
    sf, y, s = [], [], []
    for g in range(ng):
        m = r.randint(2, 7)
        labs = [0, 1] + [r.randint(0, 1) for _ in range(m - 2)]
        anti = r.chance(1, 4)          # a group whose scores are anti-correlated with its labels
        for l in labs:
            sf.append(names[g]); y.append(l)
            s.append((r.randint(0, hi // 2) if l == 1 else r.randint(hi // 2 + 1, hi)) / den if anti
                     else r.randint(0, hi) / den)
    perm = list(range(len(y))); r.shuffle(perm)
    eo = r.chance(1, 4)
    c = {"kind": "to", "sf": [sf[p] for p in perm], "y": [y[p] for p in perm], "score": [s[p] for p in perm],
         "constraint": "equalized_odds" if eo else r.choice(SIMPLE),
         "objective": r.choice(OBJ_EO if eo else OBJ_SIMPLE), "flip": r.chance(1, 2),
         "grid_size": r.choice([2, 3, 4, 5, 7, 10, 13, 20, r.randint(2, 20)]),
         "query": [[r.choice(names), r.randint(-2, 2 * hi + 2) / (2 * den)] for _ in range(r.randint(3, 8))],
         "stat": stat, "rs": r.randint(0, 10 ** 6)}
    return c


def _eg_case(r, stat, reg):
    ng = r.randint(2, 3)
    names = r.choice(GROUP_NAMES)[:ng]
    X, y, sf = [], [], []
    for g in range(ng):
        m = r.randint(3, 6)
        labs = [0, 1] + [r.randint(0, 1) for _ in range(m - 2)]
        for l in labs:
            X.append([r.randint(0, 1), r.randint(0, 2)])
            sf.append(names[g])
            y.append(r.choice([0.0, 0.25, 0.5, 0.75, 1.0]) if reg else l)
    perm = list(range(len(y))); r.shuffle(perm)
    c = {"kind": "egreg" if reg else "eg", "X": [X[p] for p in perm], "y": [y[p] for p in perm],
         "sf": [sf[p] for p in perm], "max_iter": r.choice([2, 3, 4, 4, 5, 6, 8]), "lp": r.chance(1, 2),
         "query": [[a, b] for a in (0, 1) for b in (0, 1, 2)] + [[5, 5]], "stat": stat, "rs": r.randint(0, 10 ** 6)}
    if reg:
        c["upper_bound"] = r.choice([0.01, 0.05, 0.1, 0.2])
        if r.chance(2, 3):
            c["lp"] = False         # the runs in which weights_.index is out of order
    else:
        c["moment"] = r.choice(["DemographicParity", "EqualizedOdds"])
        c["eps"] = r.choice([0.01, 0.05, 0.1])
    return c


def _to_case_bridge(r):
    """ThresholdOptimizer cases for the fit-model bridge.  Every threshold step moves the point of the tradeoff
    curve by a vector that is affine in (negatives passed, positives passed); two consecutive steps with parallel
    vectors (e.g. two single rows of the same label at distinct scores) give three exactly collinear points, which
    the float hull may keep or drop (a tie: not compared).  So: few score LEVELS per group, several rows of mixed
    labels on each, consecutive levels with non-parallel (negatives, positives) compositions."""
    ng = r.randint(2, 3)
    names = r.choice(GROUP_NAMES)[:ng]
    den = r.choice([1, 2, 4])
    sf, y, s = [], [], []
    for g in range(ng):
        nl = r.randint(2, 5)
        levels = sorted(r.sample(range(0, 13), nl))
        comp, prev = [], None
        for _ in range(nl):
            for _try in range(20):
                a, b = r.randint(0, 3), r.randint(0, 3)
                if (a, b) != (0, 0) and (prev is None or a * prev[1] != b * prev[0]):
                    break
            comp.append((a, b)); prev = (a, b)
        if sum(a for a, _ in comp) == 0:
            comp[r.randint(0, nl - 1)] = (1, comp[0][1] or 1)
        if sum(b for _, b in comp) == 0:
            comp[r.randint(0, nl - 1)] = (comp[0][0] or 1, 1)
        for lv, (a, b) in zip(levels, comp):
            for l in [0] * a + [1] * b:
                sf.append(names[g]); y.append(l); s.append(lv / den)
    perm = list(range(len(y))); r.shuffle(perm)
    eo = r.chance(1, 4)
    hi = 12
    return {"kind": "to", "sf": [sf[p] for p in perm], "y": [y[p] for p in perm], "score": [s[p] for p in perm],
            "constraint": "equalized_odds" if eo else r.choice(SIMPLE),
            "objective": r.choice(OBJ_EO if eo else OBJ_SIMPLE), "flip": r.chance(1, 2),
            "grid_size": r.choice([2, 3, 4, 5, 7, 10, 13, 20, r.randint(2, 20)]),
            "query": [[r.choice(names), r.randint(-2, 2 * hi + 2) / (2 * den)] for _ in range(r.randint(3, 8))],
            "stat": False, "rs": r.randint(0, 10 ** 6), "stream": "bridge"}


def cases(tier, seed):
    n = {"quick": 132, "thorough": 1100}[tier]
    out = []
    for i in range(n):
        r = Rng(seed, PID, tier, i)
        stat = (i % 3 == 0)
        k = i % 11
        if k < 5:
            out.append(_to_case(r, stat))
        elif k < 8:
            out.append(_eg_case(r, stat, False))
        else:
            out.append(_eg_case(r, stat, True))
    for i in range({"quick": 100, "thorough": 800}[tier]):
        out.append(_to_case_bridge(Rng(seed, PID, tier, "bridge", i)))
    return out


# ----------------------------------------------------------------------------------------------------
# implementation side
# ----------------------------------------------------------------------------------------------------
def _scripted(us):
    """numpy RandomState whose uniform numbers are scripted; it is passed through unchanged by
    sklearn.utils.check_random_state.  Every way of drawing uniforms is served from the same queue."""
    import numpy as np

    class Scripted(np.random.RandomState):
        def __init__(self, us_):
            super().__init__(0)
            self.q = [float(u) for u in us_]
            self.calls = []
            self.choice_args = []

        def _take(self, n, name):
            self.calls.append([name, n])
            k = 1 if n is None else int(n)
            if len(self.q) < k:
                raise RuntimeError(f"scripted generator exhausted in {name}({n})")
            v, self.q = self.q[:k], self.q[k:]
            return v[0] if n is None else np.array(v, dtype=float)

        def rand(self, *shape):
            if len(shape) > 1:
                raise RuntimeError("scripted rand: only 1-d")
            return self._take(shape[0] if shape else None, "rand")

        def random_sample(self, size=None):
            if isinstance(size, tuple):
                if len(size) != 1:
                    raise RuntimeError("scripted random_sample: only 1-d")
                size = size[0]
            return self._take(size, "random_sample")

        random = random_sample
        ranf = random_sample
        sample = random_sample

        def uniform(self, low=0.0, high=1.0, size=None):
            return low + (high - low) * self.random_sample(size)

        def choice(self, a, size=None, replace=True, p=None):
            if size is not None:
                raise RuntimeError("scripted choice: size not supported")
            arr = np.asarray(a)
            if arr.ndim == 0:
                arr = np.arange(int(arr))
            u = self._take(None, "choice")
            if p is None:
                pv = np.full(len(arr), 1.0 / len(arr))
            else:
                pv = np.asarray(p, dtype=float)
            self.choice_args.append(([float(x) for x in arr], [float(x) for x in pv]))
            if len(pv) != len(arr):
                raise ValueError("'a' and 'p' must have same size")      # numpy's own check
            cdf = np.cumsum(pv)                                          # numpy's algorithm
            cdf /= cdf[-1]
            idx = int(cdf.searchsorted(u, side="right"))
            return arr[idx]

    return Scripted(us)


def _fx(v):
    """exact transport of a float"""
    v = float(v)
    if math.isinf(v):
        return "inf" if v > 0 else "-inf"
    if math.isnan(v):
        return "nan"
    return v


def _ugrids(p, rs):
    """uniform numbers at and around the decision boundary of every row"""
    import numpy as np
    p = np.asarray(p, dtype=float)
    pc = np.clip(p, 0.0, U_TOP)
    r = Rng(rs, "ugrid")
    return {
        "zero": [0.0] * len(p),
        "at_p": [float(min(max(x, 0.0), U_TOP)) for x in p],
        # (no denormals: their exact rationals have 300-digit denominators)
        "above_p": [float(min(np.nextafter(x, 2.0), U_TOP)) if x >= TINY else TINY for x in pc],
        "below_p": [float(np.nextafter(x, -1.0)) if x >= 2 * TINY else 0.0 for x in pc],
        "top": [U_TOP] * len(p),
        "dyadic": [r.randint(0, 63) / 64 for _ in p],
    }


def _binom_tail(k, n, p):
    """two-sided exact binomial tail probability of observing k (min of both one-sided tails, doubled)"""
    from scipy.stats import binom
    p = min(max(p, 0.0), 1.0)
    lo = binom.cdf(k, n, p)
    hi = binom.sf(k - 1, n, p)
    return float(min(1.0, 2 * min(lo, hi)))


def _labels_ok(lab):
    import numpy as np
    a = np.asarray(lab)
    return bool(np.all((a == 0) | (a == 1)))


def _common_sampling(res, pred_fn, p, rs, stat):
    """scripted draws, reproducibility, determinism at 0/1, frequency test for a 0/1 predictor"""
    import numpy as np
    from sklearn.utils import check_random_state
    n = len(p)
    grids = _ugrids(p, rs)
    res["ugrids"] = grids
    res["labels"] = {}
    res["calls"] = {}
    for name, us in grids.items():
        g = _scripted(us)
        if name == "zero":
            res["passthrough"] = check_random_state(g) is g
        lab = pred_fn(g)
        res["labels"][name] = [int(v) for v in np.asarray(lab).reshape(-1)]
        res["calls"][name] = g.calls
        res["leftover_" + name] = len(g.q)
    a = np.asarray(pred_fn(rs)).reshape(-1)
    b = np.asarray(pred_fn(rs)).reshape(-1)
    c = np.asarray(pred_fn(np.random.RandomState(rs))).reshape(-1)
    res["binary"] = _labels_ok(a)
    res["repro"] = bool(np.array_equal(a, b) and np.array_equal(a, c))
    det = [i for i in range(n) if abs(p[i]) <= TOL or abs(p[i] - 1) <= TOL]
    res["det_rows"] = det
    bad = []
    for s in range(20):
        lab = np.asarray(pred_fn(rs + 1 + s)).reshape(-1)
        for i in det:
            if int(lab[i]) != int(round(p[i])):
                bad.append([s, i, int(lab[i])])
    res["det_bad"] = bad
    if stat:
        cnt = np.zeros(n)
        for s in range(N_STAT):
            cnt += np.asarray(pred_fn((7919 * (rs + 1) + s) % (2 ** 31))).reshape(-1)
        res["stat_counts"] = [int(v) for v in cnt]
        res["stat_tail"] = [_binom_tail(int(k), N_STAT, float(pi)) for k, pi in zip(cnt, p)]


def _impl_to(case):
    import numpy as np, pandas as pd
    from fairlearn.postprocessing import ThresholdOptimizer
    from harness.learners import PassThrough
    sf = case["sf"]
    names = sorted(set(sf), key=lambda v: (str(type(v)), v))
    code = {v: i for i, v in enumerate(names)}
    X = pd.DataFrame({"s": np.array(case["score"], dtype=float), "c": np.arange(len(sf)) % 2})
    y = np.array(case["y"])
    sfa = np.array(sf, dtype=object) if isinstance(sf[0], str) else np.array(sf)
    est = ThresholdOptimizer(estimator=PassThrough(), constraints=case["constraint"], objective=case["objective"],
                             prefit=True, predict_method="predict", grid_size=case["grid_size"], flip=case["flip"])
    try:
        est.fit(X, y, sensitive_features=sfa)
    except Exception as e:  # fit robustness is not this property's business
        return {"fit_error": f"{type(e).__name__}: {e}"[:300]}
    d = est.interpolated_thresholder_.interpolation_dict
    rules = []
    for k, b in d.items():
        kk = k.item() if hasattr(k, "item") else k
        rules.append({"group": code[kk], "p0": _fx(b.p0), "op0": [b.operation0.operator, _fx(b.operation0.threshold)],
                      "p1": _fx(b.p1), "op1": [b.operation1.operator, _fx(b.operation1.threshold)],
                      "p_ignore": _fx(b.p_ignore) if "p_ignore" in b else None,
                      "pred_const": _fx(b.prediction_constant) if "p_ignore" in b else None})
    # query rows: training rows, the pre-generated fresh rows, and rows AT / around every finite threshold
    q = [[g, s] for g, s in zip(sf, case["score"])] + [list(x) for x in case["query"]]
    for k, b in d.items():
        kk = k.item() if hasattr(k, "item") else k
        for op in (b.operation0, b.operation1):
            t = float(op.threshold)
            if math.isfinite(t):
                q += [[kk, t], [kk, t - 0.25], [kk, t + 0.25], [kk, float(np.nextafter(t, np.inf))],
                      [kk, float(np.nextafter(t, -np.inf))]]
        q += [[kk, -1000.0], [kk, 1000.0]]
    qg = [g for g, _ in q]
    qs = [float(s) for _, s in q]

    def frame(idx):
        Xq = pd.DataFrame({"s": [qs[i] for i in idx], "c": 0})
        gq_ = [qg[i] for i in idx]
        sq = np.array(gq_, dtype=object) if isinstance(gq_[0], str) else np.array(gq_)
        return Xq, sq

    allidx = list(range(len(q)))
    Xq, sq = frame(allidx)
    pmf = np.asarray(est._pmf_predict(Xq, sensitive_features=sq), dtype=float)
    res = {"rules": rules, "qrows": [[code[g], s] for g, s in zip(qg, qs)],
           "pmf": [[float(a), float(b)] for a, b in pmf]}
    # dependence only on (group, score): permuted + duplicated query table
    r = Rng(case["rs"], "perm")
    idx = [r.randint(0, len(q) - 1) for _ in range(len(q) + 5)]
    X2, s2 = frame(idx)
    pmf2 = np.asarray(est._pmf_predict(X2, sensitive_features=s2), dtype=float)
    res["perm_idx"] = idx
    res["pmf_perm"] = [[float(a), float(b)] for a, b in pmf2]
    # the SAME feature-table object asked again with OTHER sensitive features (all rows moved to one group) and
    # after an in-place change of its scores: the answer must be the one a fresh table object gets
    import copy as _copy
    const_sf = np.array([sq[0]] * len(sq), dtype=sq.dtype)
    again = np.asarray(est._pmf_predict(Xq, sensitive_features=const_sf), dtype=float)
    fresh = np.asarray(est._pmf_predict(_copy.deepcopy(Xq), sensitive_features=const_sf.copy()), dtype=float)
    res["same_object_other_sf_ok"] = bool(np.array_equal(again, fresh))
    Xm = _copy.deepcopy(Xq)
    first = np.asarray(est._pmf_predict(Xm, sensitive_features=sq), dtype=float)
    try:
        Xm.iloc[:, 0] = Xm.iloc[::-1, 0].to_numpy()       # reverse the score column in place
    except Exception:
        Xm[:, 0] = Xm[::-1, 0].copy()
    second = np.asarray(est._pmf_predict(Xm, sensitive_features=sq), dtype=float)
    fresh2 = np.asarray(est._pmf_predict(_copy.deepcopy(Xm), sensitive_features=sq), dtype=float)
    res["same_object_modified_ok"] = bool(np.array_equal(second, fresh2))
    # a ONE-row query is sampled like any other row: with a scripted generator the label is [u <= p]
    res["single_draws"] = []
    for i_ in range(len(pmf)):
        p_ = float(pmf[i_, 1])
        if 0.0 < p_ < 1.0:
            Xs, ss = frame([i_])
            for u_ in (0.0, min(p_ / 2, 0.25), (1 + p_) / 2):
                try:
                    lab = np.asarray(est.predict(Xs, sensitive_features=ss, random_state=_scripted([u_]))).reshape(-1)
                    res["single_draws"].append([i_, p_, u_, float(lab[0])])
                except Exception as e:  # noqa
                    res["single_draws"].append([i_, p_, u_, f"{type(e).__name__}"])
            break
    # single-row query (a table with one row must give the same entry)
    X1, s1 = frame([idx[0]])
    res["pmf_single"] = [float(v) for v in np.asarray(est._pmf_predict(X1, sensitive_features=s1)).reshape(-1)]
    p = [float(v) for v in pmf[:, 1]]
    _common_sampling(res, lambda rs_: est.predict(Xq, sensitive_features=sq, random_state=rs_), p, case["rs"],
                     case["stat"])
    return res


def _eg_data(case):
    import numpy as np, pandas as pd
    X = pd.DataFrame(np.array(case["X"], dtype=float), columns=["a", "b"])
    sf = case["sf"]
    sfa = np.array(sf, dtype=object) if isinstance(sf[0], str) else np.array(sf)
    Xq = pd.DataFrame(np.array(case["query"], dtype=float), columns=["a", "b"])
    return X, sfa, Xq


def _eg_common(est, Xq):
    import numpy as np
    idx = [int(t) for t in est.weights_.index]
    w = [float(v) for v in est.weights_.values]
    T = len(est._hs)
    outs = np.stack([np.asarray(est._hs[t](Xq), dtype=float).reshape(-1) for t in range(T)], axis=1)
    return {"w_index": idx, "w_values": w, "n_hs": T, "outs": [[float(v) for v in row] for row in outs]}


def _impl_eg(case):
    import numpy as np
    import fairlearn.reductions as red
    from harness.learners import ExactLearner
    X, sfa, Xq = _eg_data(case)
    y = np.array(case["y"]).astype(int)
    M = getattr(red, case["moment"])
    est = red.ExponentiatedGradient(ExactLearner(), M(), eps=case["eps"], max_iter=case["max_iter"],
                                    run_linprog_step=case["lp"])
    try:
        est.fit(X, y, sensitive_features=sfa)
    except Exception as e:
        return {"fit_error": f"{type(e).__name__}: {e}"[:300]}
    res = _eg_common(est, Xq)
    pmf = np.asarray(est._pmf_predict(Xq), dtype=float)
    res["pmf"] = [[float(a), float(b)] for a, b in pmf]
    p = [float(v) for v in pmf[:, 1]]
    _common_sampling(res, lambda rs_: est.predict(Xq, random_state=rs_), p, case["rs"], case["stat"])
    return res


def _impl_egreg(case):
    import numpy as np
    import fairlearn.reductions as red
    from harness.learners import CellMeanRegressor
    from sklearn.utils import check_random_state
    X, sfa, Xq = _eg_data(case)
    y = np.array(case["y"], dtype=float)
    est = red.ExponentiatedGradient(CellMeanRegressor(),
                                    red.BoundedGroupLoss(red.SquareLoss(0, 1), upper_bound=case["upper_bound"]),
                                    max_iter=case["max_iter"], run_linprog_step=case["lp"])
    try:
        est.fit(X, y, sensitive_features=sfa)
    except Exception as e:
        return {"fit_error": f"{type(e).__name__}: {e}"[:300]}
    res = _eg_common(est, Xq)
    n = len(Xq)
    pt = est._pmf_predict(Xq)           # regression: the table of predictor outputs, one column per predictor id
    res["pred_columns"] = [int(c) for c in pt.columns]
    res["pred_table"] = [[float(x) for x in row] for row in np.asarray(pt.values, dtype=float)]
    wid = dict(zip(res["w_index"], res["w_values"]))
    T = res["n_hs"]
    # the distribution of row i according to weights_ BY ID (python floats; the exact one is the model's)
    pv = np.array([wid.get(t, 0.0) for t in range(T)])
    cdf = np.cumsum(pv)
    # interior points of the cdf intervals (far from the boundaries: float cumsum / numpy's renormalisation
    # cannot move them across) + u = 0
    mids = [float((cdf[t] - pv[t]) + pv[t] * f) for t in range(T) if pv[t] > 1e-6 for f in (0.25, 0.5, 0.75)]
    r = Rng(case["rs"], "ureg")
    grids = {"zero": [0.0] * n}
    for k in range(4):
        grids[f"mid{k}"] = [r.choice(mids) for _ in range(n)]
    res["ugrids"] = grids
    res["values"] = {}
    res["calls"] = {}
    res["choice_args"] = None
    for name, us in grids.items():
        g = _scripted(us)
        if name == "zero":
            res["passthrough"] = check_random_state(g) is g
        out = np.asarray(est.predict(Xq, random_state=g), dtype=float).reshape(-1)
        res["values"][name] = [float(v) for v in out]
        res["calls"][name] = g.calls
        if name == "zero":
            res["choice_args"] = [[a, p] for a, p in g.choice_args]
    rs = case["rs"]
    a = np.asarray(est.predict(Xq, random_state=rs)).reshape(-1)
    b = np.asarray(est.predict(Xq, random_state=rs)).reshape(-1)
    c = np.asarray(est.predict(Xq, random_state=np.random.RandomState(rs))).reshape(-1)
    res["repro"] = bool(np.array_equal(a, b) and np.array_equal(a, c))
    # rows on which every positive-weight predictor returns the same number are deterministic
    outs = np.array(res["outs"])
    det = [i for i in range(n) if len({outs[i, t] for t in range(T) if pv[t] > 0}) == 1]
    res["det_rows"] = det
    bad = []
    for s in range(20):
        out = np.asarray(est.predict(Xq, random_state=rs + 1 + s)).reshape(-1)
        for i in det:
            v = next(outs[i, t] for t in range(T) if pv[t] > 0)
            if float(out[i]) != float(v):
                bad.append([s, i, float(out[i])])
    res["det_bad"] = bad
    if case["stat"]:
        draws = np.zeros((N_STAT, n))
        for s in range(N_STAT):
            draws[s] = np.asarray(est.predict(Xq, random_state=(7919 * (rs + 1) + s) % (2 ** 31))).reshape(-1)
        st = []
        for i in range(n):
            mass = {}
            for t in range(T):
                if pv[t] > 0:
                    mass[float(outs[i, t])] = mass.get(float(outs[i, t]), 0.0) + float(pv[t])
            other = int(np.sum(~np.isin(draws[:, i], list(mass))))
            st.append({"other": other, "cells": [[v, m, int(np.sum(draws[:, i] == v)),
                                                  _binom_tail(int(np.sum(draws[:, i] == v)), N_STAT, m)]
                                                 for v, m in sorted(mass.items())]})
        res["stat"] = st
    return res


def impl(case):
    return {"to": _impl_to, "eg": _impl_eg, "egreg": _impl_egreg}[case["kind"]](case)


# ----------------------------------------------------------------------------------------------------
# model side
# ----------------------------------------------------------------------------------------------------
def _fr(v):
    return Fraction(float(v))


def _gext(v):
    if v == "inf" or v == math.inf:
        return "PInf"
    if v == "-inf" or v == -math.inf:
        return "NInf"
    if v == "nan" or (isinstance(v, float) and math.isnan(v)):
        return "NaN"
    return f"(Fin {gq(_fr(v))})"


def _gop(op):
    return f"(mk_throp {'OpGt' if op[0] == '>' else 'OpLt'} {_gext(op[1])})"


def _grule(r):
    pig = 0 if r["p_ignore"] is None else _fr(r["p_ignore"])
    c = 0 if r["pred_const"] is None else _fr(r["pred_const"])
    return (f"({gz(r['group'])}, mk_rule {gq(_fr(r['p0']))} {_gop(r['op0'])} {gq(_fr(r['p1']))} {_gop(r['op1'])} "
            f"{gq(pig)} {gq(c)})")


def _gql(l):
    return glist([gq(_fr(v)) for v in l])


def _gweights(out):
    return glist([f"({gnat(t)}, {gq(_fr(w))})" for t, w in zip(out["w_index"], out["w_values"])])


GRID_ORDER = ["zero", "at_p", "above_p", "below_p", "top", "dyadic"]
BRIDGE_TOL = 1e-9    # rule converted from the exact fit model vs the float fit of the implementation


def _group_codes(case):
    """the codes _impl_to gives the groups (same order)"""
    names = sorted(set(case["sf"]), key=lambda v: (str(type(v)), v))
    return {v: i for i, v in enumerate(names)}


def _bridge_part(case):
    """ThresholderBridge.run_bridge_*: the C04 fit model on the training table (integer scores = score * D), its
    rules converted to interpolation_dict entries in the units of the real scores, evaluated on the query rows"""
    code = _group_codes(case)
    fr = [Fraction(float(v)) for v in case["score"]]
    D = 1
    for v in fr:
        D = D * v.denominator // math.gcd(D, v.denominator)
    groups = [[] for _ in code]
    for g, l, v in zip(case["sf"], case["y"], fr):
        groups[code[g]].append(f"({gz(int(v * D))}, {gbool(bool(l))})")
    gl = glist([glist(grp) for grp in groups])
    codes = glist([gz(i) for i in range(len(code))])
    flip = gbool(case["flip"])
    n = f"{int(case['grid_size'])}%positive"
    obj = "Tradeoff." + _c04.OBJ[case["objective"]]
    if case["constraint"] == "equalized_odds":
        return f"ThresholderBridge.run_bridge_eo {D}%positive {flip} {obj} {n} {gl} {codes} rows"
    mx = "Tradeoff." + _c04.SIMPLE[case["constraint"]]
    return f"ThresholderBridge.run_bridge_simple {D}%positive {flip} {mx} {obj} {n} {gl} {codes} rows"


def _draw_part(out):
    ps = _gql([row[1] for row in out["pmf"]])
    grids = glist([_gql(out["ugrids"][k]) for k in GRID_ORDER])
    return f"enc_list (enc_list enc_z) (map (draws {ps}) {grids})"


def term(case, out):
    if out is None or "fit_error" in out:
        return None
    kind = case["kind"]
    if kind == "to":
        d = glist([_grule(r) for r in out["rules"]])
        rows = glist([f"({gz(g)}, {gq(_fr(s))})" for g, s in out["qrows"]])
        return (f"let d := {d} in let rows := {rows} in "
                f"enc_list (enc_pair enc_q enc_q) (pmf_rows d rows) ++ {_draw_part(out)} ++ {_bridge_part(case)}")
    Qw = _gweights(out)
    outs = glist([_gql(row) for row in out["outs"]])
    if kind == "eg":
        return (f"let Qw := {Qw} in enc_list enc_q (map (pmf_eg Qw) {outs}) ++ {_draw_part(out)}")
    names = sorted(out["ugrids"])
    us = glist([_gql(out["ugrids"][k]) for k in names])
    return (f"let Qw := {Qw} in let outs := {outs} in "
            f"enc_list (enc_list (enc_pair enc_q enc_q)) (map (reg_pairs Qw) outs) ++ "
            f"enc_list (enc_list enc_q) (map (fun us => map (fun ou => draw_reg Qw (fst ou) (snd ou)) (combine outs us)) {us})")


def decode(case, zs):
    d = Dec(zs)
    kind = case["kind"]
    if kind == "to":
        m = {"pmf": d.list(lambda: [d.q(), d.q()]), "draws": d.list(lambda: d.list(d.z))}

        def dop():
            return [">" if d.z() == 1 else "<", d.ext()]
        m["fit_tie"] = d.bool()
        m["fit_valid"] = d.bool()
        m["fit_rules"] = d.list(lambda: {"p0": d.q(), "op0": dop(), "p1": d.q(), "op1": dop(), "p_ignore": d.q(),
                                         "pred_const": d.q()})
        m["fit_pmf"] = d.list(lambda: [d.q(), d.q()])
    elif kind == "eg":
        m = {"pmf": d.list(d.q), "draws": d.list(lambda: d.list(d.z))}
    else:
        m = {"pairs": d.list(lambda: d.list(lambda: [d.q(), d.q()])), "draws": d.list(lambda: d.list(d.q))}
    d.done()
    return m


# ----------------------------------------------------------------------------------------------------
# comparison
# ----------------------------------------------------------------------------------------------------
def _ep(kind):
    return {"to": "ThresholdOptimizer", "eg": "ExponentiatedGradient", "egreg": "ExponentiatedGradient-regression"}[kind]


def _sampling_checks(v, ep, case, out, model):
    p = [row[1] for row in out["pmf"]]
    if not out.get("passthrough", True):
        v.append((f"{PID}/harness/scripted-generator/not-passed-through",
                  "check_random_state does not pass a RandomState instance through", "check_random_state(g) is g",
                  "correspondence"))
    for gi, name in enumerate(GRID_ORDER):
        us = out["ugrids"][name]
        lab = out["labels"][name]
        want = [1 if u <= pi else 0 for pi, u in zip(p, us)]
        mdl = model["draws"][gi] if model is not None else want
        if mdl != want:
            v.append((f"{PID}/model/draw/python-oracle-differs", f"grid {name}: model {mdl} python {want}",
                      "draw p u = [u <= p]", "correspondence"))
        if lab != mdl:
            i = next((i for i, (a, b) in enumerate(zip(lab, mdl)) if a != b), None)
            where = (f"row {i}: p={p[i]!r} u={us[i]!r} label {lab[i]} expected {mdl[i]}" if i is not None
                     else f"lengths {len(lab)} vs {len(mdl)}")
            v.append((f"{PID}/{ep}/predict/label-is-not-draw-of-reported-pmf[{name}]",
                      f"scripted uniform numbers ({name}): {where}",
                      "predict(random_state=g) = [1 if u_i <= p_i else 0] for the u_i served by g and p_i = "
                      "_pmf_predict", "property"))
        calls = out["calls"][name]
        if sum((c[1] or 1) for c in calls) != len(p) or out.get("leftover_" + name, 0) != 0:
            v.append((f"{PID}/{ep}/predict/uniform-numbers-consumed",
                      f"generator calls {calls} for {len(p)} rows", "exactly one uniform number per row",
                      "correspondence"))
    if not out["binary"]:
        v.append((f"{PID}/{ep}/predict/labels-not-binary", "predict returned a label outside {0,1}",
                  "labels in {0,1}", "property"))
    _repro_checks(v, ep, out)
    if "stat_tail" in out:
        bad = [(i, out["stat_counts"][i], p[i], t) for i, t in enumerate(out["stat_tail"]) if t < TAIL]
        if bad:
            i, k, pi, t = bad[0]
            v.append((f"{PID}/{ep}/predict/frequency-TEST-beyond-6-sigma",
                      f"statistical TEST: row {i} label 1 in {k}/{N_STAT} seeds, reported p={pi!r}, exact binomial "
                      f"tail {t:.2e}", f"two-sided binomial tail >= {TAIL} (about 6 sigma)", "property"))


def _repro_checks(v, ep, out):
    if not out["repro"]:
        v.append((f"{PID}/{ep}/predict/not-reproducible", "same integer random_state gave different predictions",
                  "predict(X, random_state=s) is a function of (X, s)", "property"))
    if out["det_bad"]:
        v.append((f"{PID}/{ep}/predict/not-deterministic-at-degenerate-pmf",
                  f"(seed offset, row, value) {out['det_bad'][:3]}", "rows with p in {0,1} (one possible value) are "
                  "constant over seeds", "property"))


def _dist_checks(v, ep, pmf):
    for i, (a, b) in enumerate(pmf):
        if not (-RTOL <= a <= 1 + RTOL and -RTOL <= b <= 1 + RTOL and abs(a + b - 1) <= TOL) or a != a or b != b:
            v.append((f"{PID}/{ep}/_pmf_predict/not-a-distribution", f"row {i}: ({a!r}, {b!r})",
                      "both entries in [0,1] and summing to 1", "property"))
            break


def _canon_ops(r, pig_none_ok=True):
    """a rule as {(operator, threshold): total weight} (zero-weight operations dropped)"""
    dd = {}
    for p, o in ((r["p0"], r["op0"]), (r["p1"], r["op1"])):
        if abs(float(p)) > 1e-12:
            t = o[1]
            t = math.inf if t == "inf" else (-math.inf if t == "-inf" else float(t))
            dd[(o[0], t)] = dd.get((o[0], t), 0.0) + float(p)
    return dd


def _bridge_checks(v, ep, case, out, model):
    """the rule CONVERTED FROM THE FIT MODEL (C04 fit_simple / fit_eo -> ThresholderBridge.conv_rule) next to the
    implementation's interpolation_dict and _pmf_predict"""
    if not model["fit_valid"]:
        v.append((f"{PID}/model/fitted-rule/theorem-contradicted", "a rule of the fit model fails rule_valid_b",
                  "C10_fitted_rules_valid (proved)", "correspondence"))
    for i, (a, b) in enumerate(model["fit_pmf"]):
        if not (0 <= a <= 1 and 0 <= b <= 1 and a + b == 1):
            v.append((f"{PID}/model/fitted-pmf/theorem-contradicted", f"row {i}: ({a}, {b})",
                      "C10_pmf_unit_for_fitted_models (proved)", "correspondence"))
            break
    if not case["flip"] and any(r["op0"][0] != ">" or r["op1"][0] != ">" for r in model["fit_rules"]):
        v.append((f"{PID}/model/fitted-rule/theorem-contradicted", "a '<' operation in the fit model without flip",
                  "C10_monotone_for_fitted_models_without_flip (proved)", "correspondence"))
    if model["fit_tie"]:
        return
    if len(model["fit_pmf"]) != len(out["pmf"]) or len(model["fit_rules"]) != len(out["rules"]):
        v.append((f"{PID}/{ep}/fit/shape-differs-from-fit-model",
                  f"{len(out['rules'])} rules / {len(out['pmf'])} rows vs model {len(model['fit_rules'])} / "
                  f"{len(model['fit_pmf'])}", "one rule per group, one pmf row per query row", "correspondence"))
        return
    byg = {r["group"]: r for r in out["rules"]}
    for g, mr in enumerate(model["fit_rules"]):
        ir = byg.get(g)
        if ir is None:
            v.append((f"{PID}/{ep}/fit/interpolation_dict-differs-from-fit-model", f"no rule for group code {g}",
                      "one rule per group", "correspondence"))
            continue
        a, b = _canon_ops(ir), _canon_ops(mr)
        ipig = 0.0 if ir["p_ignore"] is None else float(ir["p_ignore"])
        ic = 0.0 if ir["pred_const"] is None else float(ir["pred_const"])
        same = (set(a) == set(b) and all(abs(a[k] - b[k]) <= BRIDGE_TOL for k in a)
                and abs(ipig - float(mr["p_ignore"])) <= BRIDGE_TOL and abs(ic - float(mr["pred_const"])) <= BRIDGE_TOL)
        if not same:
            v.append((f"{PID}/{ep}/fit/interpolation_dict-differs-from-fit-model",
                      f"group code {g}: implementation {ir}; rule converted from the fit model "
                      f"{ {k: (float(x) if isinstance(x, Fraction) else x) for k, x in mr.items()} }",
                      "tie-free case: p0, p1, operations, thresholds, p_ignore, prediction_constant equal the "
                      "converted model rule", "correspondence"))
            break
    for i, (row, m) in enumerate(zip(out["pmf"], model["fit_pmf"])):
        if abs(row[0] - float(m[0])) > BRIDGE_TOL or abs(row[1] - float(m[1])) > BRIDGE_TOL:
            g, s_ = out["qrows"][i]
            v.append((f"{PID}/{ep}/_pmf_predict/differs-from-pmf-of-fit-model",
                      f"row {i} (group {g}, score {s_!r}): implementation {row}, rule converted from the fit model "
                      f"{[float(m[0]), float(m[1])]}",
                      "tie-free case: _pmf_predict of the fitted estimator = pmf of the rule the fit model produces "
                      "(the object the bridge theorems are about)", "correspondence"))
            break


def compare(case, out, model):
    v = []
    if "fit_error" in out:
        return v
    kind = case["kind"]
    ep = _ep(kind)
    if kind == "to":
        pmf = out["pmf"]
        _dist_checks(v, ep, pmf)
        if model is not None:
            for i, (row, m) in enumerate(zip(pmf, model["pmf"])):
                if abs(row[0] - float(m[0])) > TOL or abs(row[1] - float(m[1])) > TOL:
                    g, s = out["qrows"][i]
                    v.append((f"{PID}/{ep}/_pmf_predict/differs-from-rule-of-the-rows-group",
                              f"row {i} (group {g}, score {s!r}): implementation {row} model "
                              f"{[float(m[0]), float(m[1])]}",
                              "p = p_ignore*c + (1-p_ignore)*(p0*[op0 s] + p1*[op1 s]) of the row's own group",
                              "property"))
                    break
            if len(pmf) != len(model["pmf"]):
                v.append((f"{PID}/{ep}/_pmf_predict/shape", "row count differs", "one row per query row", "property"))
        for j, i in enumerate(out["perm_idx"]):
            if any(abs(a - b) > TOL for a, b in zip(out["pmf_perm"][j], pmf[i])):
                v.append((f"{PID}/{ep}/_pmf_predict/depends-on-other-rows",
                          f"query row {i} gets {pmf[i]} in one table and {out['pmf_perm'][j]} in a permuted / "
                          f"duplicated one", "the reported row depends only on (group, score)", "property"))
                break
        if any(abs(a - b) > TOL for a, b in zip(out["pmf_single"], pmf[out["perm_idx"][0]])):
            pass
        for i_, p_, u_, lab in out.get("single_draws", []):
            want = 1.0 if u_ <= p_ else 0.0
            if lab != want:
                v.append((f"{PID}/{ep}/predict/single-row-not-sampled",
                          f"one-row query (row {i_}, p={p_!r}) with uniform number {u_!r} returned {lab!r}, expected {want}",
                          "a single-row query is drawn from its reported probability like any other row", "property"))
                break
        if out.get("same_object_other_sf_ok") is False or out.get("same_object_modified_ok") is False:
            v.append((f"{PID}/{ep}/_pmf_predict/depends-on-earlier-calls",
                      "asking the same feature-table object again (with other sensitive features / after an in-place "
                      "change) does not give what a fresh table object gets",
                      "the reported row depends only on (group, score) of the arguments of THIS call", "property"))
        if any(abs(a - b) > TOL for a, b in zip(out["pmf_single"], pmf[out["perm_idx"][0]])):
            v.append((f"{PID}/{ep}/_pmf_predict/depends-on-other-rows", "single-row table differs",
                      "the reported row depends only on (group, score)", "property"))
        # monotone in the score for groups whose two operations are both '>'
        gt = {r["group"] for r in out["rules"] if r["op0"][0] == ">" and r["op1"][0] == ">"}
        if not case["flip"] and len(gt) != len(out["rules"]):
            v.append((f"{PID}/{ep}/fit/flip-false-produced-less-than-operation", "a '<' operation without flip",
                      "flip=False uses '>' only", "correspondence"))
        # the property's clause: WITHOUT flip the positive probability never decreases with the score, for every
        # group (whatever operations the fitted rule holds); with flip only for rules made of '>' operations
        mono_groups = {r["group"] for r in out["rules"]} if not case["flip"] else gt
        for g in mono_groups:
            rows = sorted((s, pmf[i][1]) for i, (gg, s) in enumerate(out["qrows"]) if gg == g)
            for (s1, p1), (s2, p2) in zip(rows, rows[1:]):
                if p2 < p1 - TOL:
                    v.append((f"{PID}/{ep}/_pmf_predict/not-monotone-in-score",
                              f"group {g}: p({s1!r})={p1!r} > p({s2!r})={p2!r}",
                              "without '<' operations the positive probability never decreases with the score",
                              "property"))
                    break
        if model is not None:
            _bridge_checks(v, ep, case, out, model)
        _sampling_checks(v, ep, case, out, model)
        return v
    # ---- EG ----
    w = out["w_values"]
    idx = out["w_index"]
    if sorted(idx) != list(range(out["n_hs"])) or any(x < -TOL for x in w) or abs(sum(w) - 1) > RTOL:
        v.append((f"{PID}/{ep}/fit/weights-not-a-distribution-over-predictor-ids",
                  f"index {idx} values {w} for {out['n_hs']} predictors",
                  "weights_ >= 0, summing to 1, indexed by every predictor id once", "property"))
    if kind == "eg":
        pmf = out["pmf"]
        _dist_checks(v, ep, pmf)
        wid = dict(zip(idx, w))
        for i, row in enumerate(pmf):
            mix = math.fsum(wid.get(t, 0.0) * o for t, o in enumerate(out["outs"][i]))
            m = float(model["pmf"][i]) if model is not None else mix
            if abs(m - mix) > 1e-9:
                v.append((f"{PID}/model/pmf_eg/python-oracle-differs", f"row {i}: model {m} python {mix}",
                          "pmf_eg = sum_t w_t h_t(x)", "correspondence"))
            if abs(row[1] - m) > TOL:
                v.append((f"{PID}/{ep}/_pmf_predict/not-the-weights-mixture-of-predictor-outputs",
                          f"row {i}: reported {row[1]!r}, mixture by predictor id {m!r} (weights index {idx})",
                          "p(x) = sum_t weights_[t] * predictors_[t](x)", "property"))
                break
        _sampling_checks(v, ep, case, out, model)
        return v
    # ---- regression ----
    n = len(out["outs"])
    args = out["choice_args"] or []
    if len(args) != n:
        # the scripted RandomState was not asked for (all of) the draws: if some query row has two
        # positive-weight predictors with different outputs, the returned values cannot be the ones the
        # given random_state determines -> the property itself fails (not reproducible from random_state)
        wid0 = dict(zip(idx, w))
        T0 = out["n_hs"]
        nondet = any(len({out["outs"][i][t] for t in range(T0) if wid0.get(t, 0.0) > 1e-9}) > 1 for i in range(n))
        v.append((f"{PID}/{ep}/predict/choice-calls", f"{len(args)} choice calls on the given random_state for {n} "
                  f"rows ({'some' if nondet else 'no'} row is non-deterministic)",
                  "every row's predictor is drawn through the random_state argument",
                  "property" if nondet else "correspondence"))
        _repro_checks(v, ep, out)
        return v
    wid = dict(zip(idx, w))
    for i in range(n):
        a, p = args[i]
        got = sorted((Fraction(x), Fraction(y)) for x, y in zip(a, p))
        if model is not None:
            want = sorted((Fraction(x), Fraction(y)) for x, y in model["pairs"][i])
        else:
            want = sorted((Fraction(o) if wid.get(t, 0.0) != 0 else Fraction(0), Fraction(wid.get(t, 0.0)))
                          for t, o in enumerate(out["outs"][i]))

        def dist(pairs):
            dd = {}
            for x, y in pairs:
                if y != 0:
                    dd[x] = dd.get(x, 0) + y
            return dd
        if len(a) != len(p) or dist(got) != dist(want):
            v.append((f"{PID}/{ep}/predict/value-not-paired-with-its-own-weight",
                      f"row {i}: choice(a={a}, p={p}) but by predictor id the (value, weight) pairs are "
                      f"{[(float(x), float(y)) for x, y in want]} (weights_.index {idx})",
                      "choice draws predictor t's output with probability weights_[t]", "property"))
            break
        if got != want:
            v.append((f"{PID}/{ep}/predict/choice-arguments-differ-from-model",
                      f"row {i}: same distribution, different (value, weight) table: {a}, {p}",
                      "(a, p) = (column t or 0 at zero weight, weights_[t]) for t = 0..T-1", "correspondence"))
            break
    if out.get("pred_table") is not None and model is not None:
        want_t = [[float(x) for x, _ in row] for row in model["pairs"]]
        if out["pred_columns"] != list(range(out["n_hs"])) or out["pred_table"] != want_t:
            v.append((f"{PID}/{ep}/_pmf_predict/table-differs-from-model",
                      f"columns {out['pred_columns']}; first rows {out['pred_table'][:2]} vs model {want_t[:2]}",
                      "column t = h_t(X), zeros where weights_[t] == 0", "correspondence"))
    names = sorted(out["ugrids"])
    for gi, name in enumerate(names):
        got = out["values"][name]
        if model is None:
            break
        want = [float(x) for x in model["draws"][gi]]
        if got != want:
            i = next((i for i, (a, b) in enumerate(zip(got, want)) if a != b), 0)
            v.append((f"{PID}/{ep}/predict/value-is-not-inverse-cdf-draw-by-predictor-id[{name[:3]}]",
                      f"grid {name} row {i}: u={out['ugrids'][name][i]!r} returned {got[i]!r}, model {want[i]!r}",
                      "predict = output of the predictor whose own cdf interval contains u", "property"))
            break
        if sum((c[1] or 1) for c in out["calls"][name]) != n:
            v.append((f"{PID}/{ep}/predict/uniform-numbers-consumed", f"calls {out['calls'][name]}",
                      "one uniform number per row", "correspondence"))
    _repro_checks(v, ep, out)
    if "stat" in out:
        for i, st in enumerate(out["stat"]):
            bad = [c for c in st["cells"] if c[3] < TAIL]
            if st["other"] or bad:
                v.append((f"{PID}/{ep}/predict/frequency-TEST-beyond-6-sigma",
                          f"statistical TEST: row {i}: {st}", f"value frequencies within exact binomial tail {TAIL}; "
                          "no value outside the positive-weight predictors' outputs", "property"))
                break
    return v


# ----------------------------------------------------------------------------------------------------
# evidence helpers
# ----------------------------------------------------------------------------------------------------
def tags(case, out, model):
    kind = case["kind"]
    t = [f"kind:{kind}"]
    if "fit_error" in out:
        return t + ["fit-error"]
    if case["stat"]:
        t.append("frequency-TEST-run(400 seeds)")
    if kind == "to":
        t += [f"constraint:{case['constraint']}", f"flip:{case['flip']}", f"grid:{min(case['grid_size'] // 5 * 5, 20)}+"]
        if case.get("stream") == "bridge":
            t.append("stream:fit-model-bridge")
        ops = {r[o][0] for r in out["rules"] for o in ("op0", "op1")}
        t.append("ops:" + "".join(sorted(ops)))
        if any(isinstance(r[o][1], str) for r in out["rules"] for o in ("op0", "op1")):
            t.append("infinite-threshold")
        if any(r["p_ignore"] not in (None, 0.0) for r in out["rules"]):
            t.append("p_ignore>0")
        for r in out["rules"]:
            pig, c = (r["p_ignore"] or 0.0), (r["pred_const"] or 0.0)
            if not (r["p0"] >= 0 and r["p1"] >= 0 and abs(r["p0"] + r["p1"] - 1) <= 1e-9 and 0 <= pig <= 1
                    and 0 <= c <= 1):
                t.append("rule-premise-violated")
        thr = {(r["group"], r[o][1]) for r in out["rules"] for o in ("op0", "op1")}
        if any((g, s) in thr for g, s in out["qrows"]):
            t.append("score-equals-threshold")
        if model is not None:
            t.append("fit-model:tie" if model["fit_tie"] else "fit-model:tie-free(pmf table compared)")
            if not model["fit_tie"]:
                t.append("fit-model:tie-free," + ("equalized_odds" if case["constraint"] == "equalized_odds" else "simple")
                         + (",flip" if case["flip"] else ",no-flip"))
            if not model["fit_tie"] and any(0 < r["p0"] < 1 for r in model["fit_rules"]):
                t.append("fit-model:tie-free,mixed-rule")
            if not model["fit_tie"] and any(r["p_ignore"] > 0 for r in model["fit_rules"]):
                t.append("fit-model:tie-free,p_ignore>0")
    else:
        t.append(f"lp:{case['lp']}")
        if kind == "eg":
            t.append(f"moment:{case['moment']}")
        idx = out["w_index"]
        if idx != sorted(idx):
            t.append("weights-index-unsorted")
        wid = dict(zip(idx, out["w_values"]))
        if any(wid.get(a, 0) == 0 and any(wid.get(b, 0) > 0 for b in range(a + 1, out["n_hs"]))
               for a in range(out["n_hs"])):
            t.append("zero-weight-predictor-precedes-weighted")
        t.append(f"n_hs:{min(out['n_hs'], 10)}" + ("+" if out["n_hs"] >= 10 else ""))
    if out.get("det_rows"):
        t.append("has-degenerate-rows")
    return t


def nontrivial(case, out, model):
    if "fit_error" in out:
        return False
    if case["kind"] in ("to", "eg"):
        return any(1e-9 < row[1] < 1 - 1e-9 for row in out["pmf"])
    wid = dict(zip(out["w_index"], out["w_values"]))
    return any(len({o for t, o in enumerate(row) if wid.get(t, 0) > 0}) > 1 for row in out["outs"])


def canon(case):
    return {k: v for k, v in case.items() if not k.startswith("_")}


def shrink(case):
    """drop one training row / one pre-generated query row at a time (a group that loses a label makes the fit
    raise, which is recorded as fit-error, i.e. not a reproduction)"""
    if case.get("stat"):        # first: without the (expensive) frequency test
        yield dict(case, stat=False)
    key = "score" if case["kind"] == "to" else "X"
    n = len(case["y"])
    if n > 4:
        for i in range(n):
            c = dict(case)
            for k in (key, "y", "sf"):
                c[k] = case[k][:i] + case[k][i + 1:]
            labs = {}
            for g, l in zip(c["sf"], c["y"]):
                labs.setdefault(g, set()).add(l)
            if case["kind"] != "egreg" and any(len(s) < 2 for s in labs.values()):
                continue
            yield c
    if len(case["query"]) > 1:
        for i in range(len(case["query"])):
            yield dict(case, query=case["query"][:i] + case["query"][i + 1:])
