"""C07 -- reduction identity: sample re-weighting is the exact gradient of the Lagrangian."""
from __future__ import annotations
from fractions import Fraction
from harness.core import Rng, gz, gq, glist, gopt, gnat, Dec, num_close
from harness.props import _c06_common as K
from harness.props import c06 as C6
from harness.props._c06_common import F, fs

PID = "C07"
VO = ["theories/Reductions/Moments.vo", "theories/Reductions/Moments_proofs.vo",
      "theories/Reductions/Reduction.vo", "theories/Reductions/Reduction_proofs.vo",
      "theories/Reductions/MomentsIO.vo", "theories/Base/Flat.vo",
      # the BoundedGroupLoss cases reuse C06's term, which also evaluates the MeanLoss model
      "theories/Reductions/MomentBridge.vo", "theories/Reductions/MomentBridgeIO.vo",
      # second phase: optional multiplier of the loss moments, single-label branch, linearity; their wire glue
      "theories/Reductions/ReductionExt.vo", "theories/Reductions/ReductionExt_proofs.vo",
      "theories/Reductions/ReductionIO.vo"]
PROPS_FILES = ["props/C07.v"]
TRANSLATORS = ["t_moments", "t_reduction"]
REQUIRES = ["From FL Require Import Num Flat Moments Reduction MomentsIO MomentBridge MomentBridgeIO ReductionExt "
            "ReductionIO."]
SEARCH_CAP = 800         # cases searched after a broken obligation (the thorough generator, next seed)
SHARD = 25
CHUNK = 2
CASE_TIMEOUT = 1200      # wall-clock alarm per case; a case needs ~1-3 s, the margin absorbs a heavily shared machine
TOL = 1e-8

LEVEL_TEXT = ("Proof (Coq) about the executable models Moments.v / Reduction.v: for every parity moment, ratio, "
              "dataset, EVERY multiplier vector (no sign condition) and any two soft predictors, "
              "lambda.gamma(h) - lambda.gamma(h') = -(1/n) sum_i w_i (h_i - h'_i) with w = signed_weights(lambda) "
              "(exchange of two finite sums over the same matrix U); the same for ErrorRate with "
              "w_i = -c_fp + (c_fp + c_fn) y_i; for BoundedGroupLoss lambda.gamma(h) = (1/n) sum_i w_i loss_i(h), "
              "w_i = lambda_g(i)/P(g(i)); on hard hypotheses the weighted 0/1 error against labels 1[w>0] with weights "
              "|w| orders hypotheses exactly as objective + lambda.(gamma - bound), also after the n/sum|w| rescaling of "
              "_call_oracle; project_lambda is non-negative and never lowers the Lagrangian for r = 1, eps >= 0, "
              "lambda >= 0, and is the identity for r != 1; all three signed_weights are linear in the multiplier; "
              "signed_weights() of a loss moment is the all-ones vector = the weights of the multiplier prob_attr, "
              "which turn (1/n) sum w_i loss_i into the mean loss; in the single-label branch of _call_oracle the "
              "untrained constant classifier has weighted error 0 and minimises the Lagrangian over hard hypotheses. "
              "Tie to the code: translator t_moments (signed_weights "
              "expression and the U-column expressions, fail closed), translator t_reduction (whole bodies of "
              "UtilityParity.project_lambda and ConditionalLossMoment.signed_weights; ErrorRate costs / index / gamma / "
              "signed_weights; the weight, relabel, abs, normalise and single-label lines of _call_oracle, the rest "
              "of it literally; props/C07.v C07_src_* are closed by conversion only) + differential run of the same Gallina "
              "definitions against signed_weights / project_lambda and against the (y', w') that "
              "_Lagrangian._call_oracle and GridSearch.fit hand to a recording estimator; the identities are also "
              "evaluated on the implementation's own gamma / signed_weights (property oracle).")
LEVEL_NOTE = ("Trusted: Coq kernel + vm_compute; the harness (generators, canonical index keys, comparison); pandas "
              "Series alignment / DataFrame.dot and float64 arithmetic are modelled over exact rationals (1e-8). "
              "Relabelling of rows whose exact weight is 0 is not compared (their label cannot matter).")
TECHNIQUE = "Coq proof on an executable model + source translator + differential model/implementation run + identity residual on the implementation"
TRUSTED = ["Coq 8.16.1 kernel and vm_compute", "translators/t_moments.py", "translators/t_reduction.py", "harness/props/c07.py, c06.py, _c06_common.py", "pandas / numpy "
           "(modelled)", "no axioms (Print Assumptions: closed)"]
ASSUMPTIONS = ["labels are 0/1; predictions in [0,1] for the ErrorRate identities (the parity identity needs neither)",
               "float64 results are compared with exact rationals at 1e-8 on small / dyadic inputs",
               "rows whose exact signed weight is 0 are excluded from the relabelling comparison"]
RULE = ("cases: C06 datasets (n<=14, 2..4 groups, 0..3 control strata, degenerate strata forced) x five parity "
        "moments x {default, difference, ratio in {1, 9/10, 1/2, 1/4}} x ErrorRate cost pairs; per dataset every "
        "unit multiplier, 3 random non-negative dyadic multipliers and one signed multiplier; zero / one / unit / "
        "soft / random hard predictors; BoundedGroupLoss with both losses; non-trivial = index non-empty, some "
        "event with >= 2 groups and a multiplier that changes at least one label; in every second case (hash of "
        "the case) every moment / objective object - also those handed to _Lagrangian and GridSearch - is first "
        "loaded with other data (same shape, then one row fewer and two groups) and exercised; zero, all-ones, "
        "sum-of-two and repeated multipliers for the linearity / repeatability oracles; ErrorRate multipliers "
        "0, 1, 2, -1/2, 3/4")
EXHAUSTIVE = {"quick": False, "thorough": False}
PARTIAL = []

NCASES = {"quick": 160, "thorough": 2000}
MAXIDX = 48


def cases(tier, seed):
    out = []
    for i in range(NCASES[tier]):
        r = Rng(seed, PID, tier, i)
        if i % 8 == 7:
            ng = r.randint(1, 4)
            m = r.randint(max(ng, 2), 12)       # n = 1 breaks _validate_and_reformat_input (squeeze -> 0-d)
            g = [r.randint(0, ng - 1) for _ in range(m)]
            lo, hi = r.choice([("0", "1"), ("-1/2", "3/2"), ("1/4", "3/4"), ("0", "2")])
            yq = [fs(Fraction(r.randint(-4, 8), 4)) for _ in range(m)]
            hs = [["0"] * m, ["1"] * m] + [[fs(Fraction(r.randint(-8, 16), 8)) for _ in range(m)] for _ in range(4)]
            lams = [["1" if j == t else "0" for j in range(4)] for t in range(4)] + \
                   [[fs(Fraction(r.randint(0, 12), 4)) for _ in range(4)] for _ in range(3)]
            out.append({"fam": "bgl", "loss": r.choice(["sq", "abs"]), "lo": lo, "hi": hi, "ub": r.choice([None, "1"]),
                        "yq": yq, "g": g, "hs": hs, "lams": lams})
            continue
        d = K.gen_dataset(r)
        n = len(d["y"])
        while True:
            db, rb, slack = K.gen_bounds(r)
            if not (db is not None and rb is not None) and not (rb is not None and not (0 < F(rb) <= 1)):
                break
        costs = r.choice([None, None, ("1", "1"), ("2", "1"), ("1/2", "3"), ("0", "1"), ("1", "0")])
        hs = K.gen_predictors(r, n)
        nh_soft = len(hs)
        for _ in range(3):
            hs.append([str(r.randint(0, 1)) for _ in range(n)])
        lams = []
        for _ in range(3):
            lams.append([fs(Fraction(r.randint(0, 16), 4)) if r.chance(1, 2) else "0" for _ in range(MAXIDX)])
        signed = [fs(Fraction(r.randint(-8, 8), 4)) for _ in range(MAXIDX)]
        out.append({"fam": "parity", "moment": list(K.KINDS)[(i // 8 + i) % 5], "db": db, "rb": rb, "slack": slack,
                    "fp": None if costs is None else costs[0], "fn": None if costs is None else costs[1],
                    **d, "hs": hs, "lams": lams, "signed": signed})
    return out


# --------------------------------------------------------------------------- implementation
def impl(case):
    import numpy as np, pandas as pd
    if case["fam"] == "bgl":
        return impl_bgl(case)
    import fairlearn.reductions as red
    from fairlearn.reductions._exponentiated_gradient._lagrangian import _Lagrangian
    X, y, kw = K.data_kwargs(case)
    n = len(y)
    m = K.make_moment(case)
    pre = K.preload_flag(case)
    if pre:
        _decoy(m, X, y, kw)
    m.load_data(X, y, **kw)
    mk_obj = (lambda: red.ErrorRate()) if case["fp"] is None else \
        (lambda: red.ErrorRate(costs={"fp": float(F(case["fp"])), "fn": float(F(case["fn"]))}))
    obj = mk_obj()
    if pre:
        _decoy(obj, X, y, kw)
    obj.load_data(X, y, **kw)
    index = K.canon_index(m)
    nidx = len(index)
    idx = list(m.index)
    lams = [["1" if j == t else "0" for j in range(nidx)] for t in range(nidx)]
    lams += [l[:nidx] for l in case["lams"]]
    nonneg = [True] * len(lams)
    lams.append(case["signed"][:nidx]); nonneg.append(False)
    H = [np.array([float(F(x)) for x in h]) for h in case["hs"]]
    hard = [all(F(x) in (0, 1) for x in h) for h in case["hs"]]
    G = [m.gamma(K.fixed(h)) for h in case["hs"]]
    E = [float(obj.gamma(K.fixed(h)).iloc[0]) for h in case["hs"]]
    bound = m.bound()
    wobj = obj.signed_weights().values.astype(float)
    pairs = [(a, 0) for a in range(1, len(H))] + [(a, a + 1) for a in range(1, len(H) - 1)]
    res = {"index": index, "lams": lams, "sw": [], "proj": [], "proj_ok": True, "resid": 0.0, "resid_at": None,
           "obj_resid": 0.0, "proj_neg": 0.0, "proj_drop": 0.0, "eg": [], "gs": [], "cs_resid": 0.0,
           "cs_at": None, "wobj": [float(v) for v in wobj]}
    for a, b in pairs:
        ro = E[a] - E[b] + float(np.sum(wobj * (H[a] - H[b]))) / n
        if abs(ro) > abs(res["obj_resid"]):
            res["obj_resid"] = ro
    lag_m, lag_o = K.make_moment(case), mk_obj()
    if pre:          # _Lagrangian.__init__ loads both objects itself: what it uses must come from THAT load only
        _decoy(lag_m, X, y, kw)
        _decoy(lag_o, X, y, kw)
    lag = _Lagrangian(X=X, y=y, estimator=K.Rec(), constraints=lag_m, B=10.0, objective=lag_o, **kw)
    lvs = []
    for t, lam in enumerate(lams):
        lv = pd.Series([float(F(v)) for v in lam], index=m.index, dtype=float)
        lvs.append(lv)
        w = m.signed_weights(lv)
        sw = np.asarray(w.values, dtype=float)
        res["sw"].append([float(v) for v in sw])
        pr = m.project_lambda(lv) if nidx else lv      # (an empty index makes lambda_vec["+"] raise KeyError)
        if set(pr.index) != set(idx) or len(pr) != nidx:
            res["proj_ok"] = False
            res["proj"].append(None)
        else:
            res["proj"].append([float(pr[tup]) for tup in idx])
        lg = [float(lv.dot(g)) for g in G]
        for a, b in pairs:
            rr = lg[a] - lg[b] + float(np.sum(sw * (H[a] - H[b]))) / n
            if abs(rr) > abs(res["resid"]):
                res["resid"] = rr; res["resid_at"] = [t, a, b]
        if nonneg[t] and res["proj"][-1] is not None:
            pv = pd.Series(res["proj"][-1], index=m.index, dtype=float)
            res["proj_neg"] = min(res["proj_neg"], float(pv.min()) if nidx else 0.0)
            for g in G:
                drop = float(lv.dot(g - bound) - pv.dot(g - bound))
                res["proj_drop"] = max(res["proj_drop"], drop)
        try:
            est = lag._call_oracle(pd.Series(lv.values, index=lag.constraints.index))
            rec = K.recorded(est)
        except ValueError as e:      # every weight exactly 0: 0/0 = NaN weights are rejected by sklearn
            rec = {"kind": "error", "msg": str(e)[:80]}
        res["eg"].append(rec)
        # cost-sensitive equivalence on the (y', w') the estimator really received and the implementation's own
        # Lagrangian; _call_oracle normalises the weights by n / sum|w|, which is undone here
        if rec["kind"] == "rec":
            tot = float(np.sum(np.abs(wobj + sw)))
            yy = np.array(rec["y"]); ww = np.array(rec["w"]) * tot / n
            hh = [a for a in range(len(H)) if hard[a]]
            Ew = [float(np.sum(ww * (H[a] != yy))) for a in hh]
            Lv = [E[a] + float(lv.dot(G[a] - bound)) for a in hh]
            for i in range(1, len(hh)):
                rr = (Ew[i] - Ew[0]) - n * (Lv[i] - Lv[0])
                if abs(rr) > abs(res["cs_resid"]):
                    res["cs_resid"] = rr; res["cs_at"] = [t, hh[i], hh[0]]
    res["nonneg"] = nonneg
    default_costs = case["fp"] is None or (F(case["fp"]) == 1 and F(case["fn"]) == 1)
    if nidx and default_costs:          # GridSearch always uses the default objective ErrorRate()
        grid = pd.DataFrame({t: lv for t, lv in enumerate(lvs)})
        gs_m = K.make_moment(case)
        if pre:
            _decoy(gs_m, X, y, kw)
        gs = red.GridSearch(K.Rec(), constraints=gs_m, grid=grid)
        gs.fit(X, y, **kw)
        res["gs"] = [K.recorded(p) for p in gs.predictors_]
    # ---- second phase: linearity in the multiplier, repeatability, ErrorRate with a multiplier
    SW = [np.asarray(v, dtype=float) for v in res["sw"]]
    lin = {"zero": 0.0, "ones": 0.0, "comb": 0.0, "add": 0.0, "repeat": 0.0, "gamma": 0.0, "at": None}

    def upd(key, arr, at=None):
        v = float(np.max(np.abs(arr))) if len(arr) else 0.0
        if v > lin[key]:
            lin[key] = v
            lin["at"] = at if at is not None else lin["at"]
    upd("zero", np.asarray(m.signed_weights(pd.Series(0.0, index=m.index, dtype=float)).values, dtype=float))
    base = sum((SW[j] for j in range(nidx)), np.zeros(n))
    upd("ones", np.asarray(m.signed_weights(pd.Series(1.0, index=m.index, dtype=float)).values, dtype=float) - base)
    for t in range(nidx, len(lams)):
        comb = sum((float(F(lams[t][j])) * SW[j] for j in range(nidx)), np.zeros(n))
        upd("comb", SW[t] - comb, t)
    if len(lams) >= nidx + 2:
        a, b = lvs[nidx], lvs[nidx + 1]
        upd("add", np.asarray(m.signed_weights(a + b).values, dtype=float) - SW[nidx] - SW[nidx + 1])
    for t in (0, len(lams) - 1):          # the same call again, after all the others
        upd("repeat", np.asarray(m.signed_weights(lvs[t]).values, dtype=float) - SW[t], t)
    for a in (1, len(H) - 1):             # gamma is not disturbed by the calls in between
        upd("gamma", np.asarray((m.gamma(K.fixed(case["hs"][a])) - G[a]).values, dtype=float))
    res["lin"] = lin
    res["er_index"] = [str(v) for v in obj.index]
    res["er_lam"] = []
    res["er_lin"] = 0.0
    for l in ER_LAMS:
        lv1 = pd.Series([float(F(l))], index=obj.index, dtype=float)
        wl = np.asarray(obj.signed_weights(lv1).values, dtype=float)
        res["er_lam"].append([float(v) for v in wl])
        res["er_lin"] = max(res["er_lin"], float(np.max(np.abs(wl - float(F(l)) * wobj))))
        pl = obj.project_lambda(lv1)
        if list(pl.index) != list(lv1.index) or float(pl.iloc[0]) != float(lv1.iloc[0]):
            res["er_lin"] = float("inf")
    res["er_lin"] = max(res["er_lin"], float(np.max(np.abs(np.asarray(obj.signed_weights().values, dtype=float) - wobj))))
    return res


ER_LAMS = ["0", "1", "2", "-1/2", "3/4"]


def _decoy(m, X, y, kw):
    """two decoy loads before the real one: K.decoy_load (same shape: labels flipped / reversed, groups rotated - the
    group sizes stay the same) and a smaller data set (last row dropped, two alternating groups) whose index, group
    sizes and n differ; which of the two comes first alternates with n, so that state kept from the FIRST load
    and state kept from the PREVIOUS load both show"""
    import numpy as np, pandas as pd
    n = len(y)

    def small():
        if n < 4:
            return
        ya = np.asarray(y)[: n - 1]
        kw2 = {k: list(v)[: n - 1] for k, v in kw.items()}
        kw2["sensitive_features"] = [K.GNAMES[i % 2] for i in range(n - 1)]
        try:
            m.load_data(X.iloc[: n - 1], pd.Series(ya[::-1].copy()), **kw2)
            m.gamma(lambda X_: np.ones(n - 1))
            m.signed_weights(pd.Series(1.0, index=m.index))
        except Exception:
            pass
    if n % 2:
        small()
        K.decoy_load(m, X, y, kw)
    else:
        K.decoy_load(m, X, y, kw)
        small()


def impl_bgl(case):
    """C06's BoundedGroupLoss run + signed_weights() / linearity / MeanLoss weights"""
    import numpy as np, pandas as pd
    import fairlearn.reductions as red
    from fairlearn.reductions._moments.bounded_group_loss import MeanLoss
    res = C6.impl_bgl(case)
    L = red.SquareLoss if case["loss"] == "sq" else red.AbsoluteLoss
    lo, hi = float(F(case["lo"])), float(F(case["hi"]))
    n = len(case["g"])
    X = pd.DataFrame({"id": list(range(n))})
    y = pd.Series([float(F(v)) for v in case["yq"]])
    kw = {"sensitive_features": [K.GNAMES[g] for g in case["g"]]}
    m = red.BoundedGroupLoss(L(lo, hi), upper_bound=None if case["ub"] is None else float(F(case["ub"])))
    ml = MeanLoss(L(lo, hi))
    for o in (m, ml):
        if K.preload_flag(case):
            _decoy(o, X, y, kw)
        o.load_data(X, y, **kw)
    ng = len(m.index)
    arr = lambda s: np.asarray(s.values, dtype=float)
    ext = {"index": [K.GNAMES.index(g) for g in m.index]}
    w_none = arr(m.signed_weights())
    ext["w_none"] = [float(v) for v in w_none]
    ext["prob_attr"] = [float(v) for v in m.prob_attr.values]
    ext["dolv"] = [float(v) for v in m.default_objective_lambda_vec.values]
    ext["w_prob"] = [float(v) for v in arr(m.signed_weights(m.prob_attr))]
    units = [arr(m.signed_weights(pd.Series([1.0 if j == t else 0.0 for j in range(ng)], index=m.index))) for t in range(ng)]
    lin = {"zero": float(np.max(np.abs(arr(m.signed_weights(pd.Series(0.0, index=m.index)))))),
           "ones": float(np.max(np.abs(arr(m.signed_weights(pd.Series(1.0, index=m.index))) - sum(units, np.zeros(n))))),
           "comb": 0.0, "add": 0.0, "repeat": 0.0, "proj": 0.0}
    LV, WS = [], []
    for lam in case.get("lams", []):
        lv = pd.Series([float(F(v)) for v in lam][:ng], index=m.index)
        w = arr(m.signed_weights(lv))
        LV.append(lv); WS.append(w)
        comb = sum((float(lv.iloc[j]) * units[j] for j in range(ng)), np.zeros(n))
        lin["comb"] = max(lin["comb"], float(np.max(np.abs(w - comb))))
        pl = m.project_lambda(lv)
        if list(pl.index) != list(lv.index) or any(float(a) != float(b) for a, b in zip(pl.values, lv.values)):
            lin["proj"] = 1.0
    if len(LV) >= 2:
        a, b = LV[-1], LV[-2]
        lin["add"] = float(np.max(np.abs(arr(m.signed_weights(a + b)) - WS[-1] - WS[-2])))
    if LV:
        lin["repeat"] = float(np.max(np.abs(arr(m.signed_weights(LV[0])) - WS[0])))
    lin["repeat"] = max(lin["repeat"], float(np.max(np.abs(arr(m.signed_weights()) - w_none))))
    ext["lin"] = lin
    # MeanLoss (the default objective): unit weights, and the mean-loss identity on the implementation's numbers
    ext["ml_none"] = [float(v) for v in arr(ml.signed_weights())]
    ext["ml_two"] = [float(v) for v in arr(ml.signed_weights(pd.Series([2.0], index=ml.index)))]
    mres = 0.0
    for h in case["hs"]:
        gm = ml.gamma(K.fixed(h))
        lossv = np.asarray(ml.tags["loss"].values, dtype=float)
        mres = max(mres, abs(float(gm.iloc[0]) - float(np.sum(arr(ml.signed_weights()) * lossv)) / n))
        gb = m.gamma(K.fixed(h))           # BoundedGroupLoss with the multiplier prob_attr gives the same number
        mres = max(mres, abs(float(gb.dot(m.prob_attr)) - float(np.sum(w_none * np.asarray(m.tags["loss"].values, dtype=float))) / n))
    ext["ml_resid"] = mres
    res["ext"] = ext
    return res


# --------------------------------------------------------------------------- model
def term(case, out):
    if case["fam"] == "bgl":
        return f"run_bgl_ext {C6.g_lrows(case)} ++ ({C6.term(case, out)})"
    if out is None:
        return None
    fp = F(case["fp"]) if case["fp"] is not None else 1
    fn = F(case["fn"]) if case["fn"] is not None else 1
    specs = []
    for lam in out["lams"]:
        spec = []
        for (s, ev, eg), v in zip(out["index"], lam):
            if eg and F(v) != 0:
                spec.append(f"({gz(s)}, {gnat(eg[0])}, {gq(F(v))})")
        specs.append(glist(spec))
    args = (f"{case['moment']} {K.g_oq(case['db'])} {K.g_oq(case['rb'])} {gq(F(case['slack']))} "
            f"{gq(fp)} {gq(fn)} {K.g_rows(case)} {glist(specs)}")
    return f"run_red {args} ++ run_red_ext {args} {K.g_qs(ER_LAMS)}"


def decode(case, zs):
    if case["fam"] == "bgl":
        d = Dec(zs)
        ext = {"w_none": d.list(d.q), "prob_attr": d.list(d.q), "w_prob": d.list(d.q)}
        mod = C6.decode(case, zs[d.i:])
        mod["ext"] = ext
        return mod
    d = Dec(zs)
    if d.z() == 0:
        if d.z() != 0:
            raise ValueError("run_red and run_red_ext disagree on the configuration")
        d.done()
        return {"config_error": True}
    index = K.dec_index(d)

    def one():
        return {"lam": d.list(d.q), "sw": d.list(d.q), "proj": d.list(d.q), "w": d.list(d.q),
                "relabel": d.list(d.q), "reweight": d.list(d.q), "reweight_eg": d.opt(lambda: d.list(d.q))}
    per = d.list(one)
    if d.z() != 1:
        raise ValueError("run_red and run_red_ext disagree on the configuration")
    er_index = d.list(d.z)
    er_lam = d.list(lambda: d.list(d.q))
    dummy = d.list(lambda: d.opt(d.q))
    d.done()
    return {"config_error": False, "index": index, "per": per, "er_index": er_index, "er_lam": er_lam, "dummy": dummy}


# --------------------------------------------------------------------------- comparison
def _vec_close(a, b, tol=TOL):
    return len(a) == len(b) and all(num_close(x, y, atol=tol, rtol=tol) for x, y in zip(a, b))


def _cmp_oracle(rec, mp, normalised):
    """compare a recorded (y', w') with the model's relabel / reweight; rows of exact weight 0 are skipped for labels"""
    sig = [i for i, w in enumerate(mp["w"]) if w != 0]
    if rec["kind"] == "error":
        return normalised and mp["reweight_eg"] is None
    if rec["kind"] == "dummy":
        return all(rec["constant"] == float(mp["relabel"][i]) for i in sig)
    want = mp["reweight_eg"] if normalised else mp["reweight"]
    if want is None:
        return True          # every weight is exactly 0: the implementation divides 0 by 0, nothing to compare
    if any(rec["y"][i] != float(mp["relabel"][i]) for i in sig):
        return False
    return _vec_close(rec["w"], want, 1e-7)


def compare(case, out, model):
    v = []
    if case["fam"] == "bgl":
        if out["index"] != model["index"]:
            v.append((f"{PID}/BoundedGroupLoss/index/differs-from-model", f"{out['index']} vs {model['index']}",
                      "index = groups that occur", "correspondence"))
            return v
        if abs(out["resid"]) > TOL:
            v.append((f"{PID}/BoundedGroupLoss/loss-identity/residual", f"lambda.gamma(h) - (1/n) sum w_i loss_i = "
                      f"{out['resid']}", "lambda.gamma(h) = (1/n) sum_i w_i loss_i(h), w = signed_weights(lambda)",
                      "property"))
        for a, b in zip(out["sw"], model["sw"]):
            if not _vec_close(a, b):
                v.append((f"{PID}/BoundedGroupLoss/signed_weights/differs-from-model", f"{a} vs {b}",
                          "w_i = lambda_g(i) / P(g(i))", "correspondence"))
                break
        return v + _compare_bgl_ext(out["ext"], model["ext"])
    name = K.KINDS[case["moment"]]
    if model["config_error"]:
        v.append((f"{PID}/harness/config", "generator produced an invalid bound configuration", "", "correspondence"))
        return v
    pos = C6.compare_index(PID, name, out["index"], model["index"], [])
    if pos is None:
        v.append((f"{PID}/{name}/index/differs-from-model", "constraint index differs from the model's (see C06)",
                  "index = {+,-} x (event, group) pairs that occur", "correspondence"))
        return v
    ip, mp = pos
    keys = list(ip)
    if abs(out["resid"]) > TOL:
        v.append((f"{PID}/{name}/reduction-identity/residual",
                  f"lambda.gamma(h) - lambda.gamma(h') + (1/n) sum w_i (h_i - h'_i) = {out['resid']} at "
                  f"(lambda #, h #, h' #) = {out['resid_at']}",
                  "lambda.gamma(h) - lambda.gamma(h') = -(1/n) sum_i w_i (h_i - h'_i), w = signed_weights(lambda)",
                  "property"))
    if abs(out["obj_resid"]) > TOL:
        v.append((f"{PID}/ErrorRate/objective-identity/residual", f"residual {out['obj_resid']}",
                  "err(h) - err(h') = -(1/n) sum_i w_i (h_i - h'_i), w_i = -c_fp + (c_fp + c_fn) y_i", "property"))
    if not out["proj_ok"]:
        v.append((f"{PID}/{name}/project_lambda/index", "project_lambda does not return a vector over index",
                  "projection is indexed by index", "property"))
    if out["proj_neg"] < -TOL or out["proj_drop"] > TOL:
        v.append((f"{PID}/{name}/project_lambda/unsound",
                  f"projected multipliers: min {out['proj_neg']}, Lagrangian drop {out['proj_drop']}",
                  "project_lambda(lambda) >= 0 and L(h, project lambda) >= L(h, lambda) for every h", "property"))
    if abs(out["cs_resid"]) > 1e-7:
        v.append((f"{PID}/{name}/cost-sensitive/residual",
                  f"E(h) - E(h') - n (L(h) - L(h')) = {out['cs_resid']} at (lambda #, h #, h' #) = {out['cs_at']}",
                  "weighted 0/1 error against (1[w>0], |w|) orders hard hypotheses as objective + lambda.gamma",
                  "property"))
    if len(out["lams"]) != len(model["per"]):
        v.append((f"{PID}/harness/lambda-count", "model evaluated a different number of multipliers", "", "correspondence"))
        return v
    for t, (lam, per) in enumerate(zip(out["lams"], model["per"])):
        if any(F(lam[ip[k]]) != per["lam"][mp[k]] for k in keys):
            v.append((f"{PID}/harness/lambda-alignment", f"multiplier #{t} not aligned with the model index", "",
                      "correspondence"))
            break
        if not _vec_close(out["sw"][t], per["sw"]):
            v.append((f"{PID}/{name}/signed_weights/differs-from-model",
                      f"multiplier #{t}: implementation {out['sw'][t]} model {[str(x) for x in per['sw']]}",
                      "signed_weights = utility_diff * U.lambda", "correspondence"))
            break
        pr = out["proj"][t]
        if pr is not None and any(not num_close(pr[ip[k]], per["proj"][mp[k]], TOL, TOL) for k in keys):
            v.append((f"{PID}/{name}/project_lambda/differs-from-model",
                      f"multiplier #{t}: implementation {pr} model {[str(x) for x in per['proj']]} (model order)",
                      "ratio = 1: (max(l+ - l-, 0), max(l- - l+, 0)); otherwise the identity", "correspondence"))
            break
        if not _cmp_oracle(out["eg"][t], per, True):
            v.append((f"{PID}/_call_oracle/relabel-reweight/differs-from-model",
                      f"multiplier #{t}: estimator received {out['eg'][t]}; model labels {[str(x) for x in per['relabel']]} "
                      f"weights {[str(x) for x in (per['reweight_eg'] or [])]}",
                      "y' = 1[w>0], w' = n |w| / sum |w|, w = objective weights + signed_weights(lambda)",
                      "correspondence"))
            break
        if out["gs"] and not _cmp_oracle(out["gs"][t], per, False):
            v.append((f"{PID}/GridSearch.fit/relabel-reweight/differs-from-model",
                      f"multiplier #{t}: estimator received {out['gs'][t]}; model labels {[str(x) for x in per['relabel']]} "
                      f"weights {[str(x) for x in per['reweight']]}",
                      "y' = 1[w>0], w' = |w|, w = objective weights + signed_weights(lambda)", "correspondence"))
            break
    # ---- second phase
    lin = out["lin"]
    worst = max(lin[k] for k in ("zero", "ones", "comb", "add"))
    if worst > TOL:
        v.append((f"{PID}/{name}/signed_weights/not-linear",
                  f"|w(0)| = {lin['zero']}, |w(1) - sum_j w(e_j)| = {lin['ones']}, |w(lam) - sum_j lam_j w(e_j)| = "
                  f"{lin['comb']} (multiplier #{lin['at']}), |w(a+b) - w(a) - w(b)| = {lin['add']}",
                  "signed_weights is linear in the multiplier (w(0) = 0, w(a+b) = w(a) + w(b))", "property"))
    if lin["repeat"] > TOL or lin["gamma"] > TOL:
        v.append((f"{PID}/{name}/signed_weights/state-dependent",
                  f"the same call repeated differs by {lin['repeat']}; gamma after the calls differs by {lin['gamma']}",
                  "signed_weights / project_lambda / gamma depend on the last load_data and their argument only",
                  "property"))
    if out["er_lin"] > TOL:
        v.append((f"{PID}/ErrorRate/signed_weights/not-linear", f"max |w(l) - l w()| = {out['er_lin']}",
                  "ErrorRate.signed_weights(l) = l * signed_weights(), project_lambda is the identity", "property"))
    if len(out["er_index"]) != len(model["er_index"]) or out["er_index"] != ["all"] * len(model["er_index"]):
        v.append((f"{PID}/ErrorRate/index/differs-from-model", f"{out['er_index']} vs {model['er_index']}",
                  "index = [all]", "correspondence"))
    for l, a, b in zip(ER_LAMS, out["er_lam"], model["er_lam"]):
        if not _vec_close(a, b):
            v.append((f"{PID}/ErrorRate/signed_weights-lambda/differs-from-model",
                      f"l = {l}: implementation {a} model {[str(x) for x in b]}",
                      "w_i = l * (-c_fp + (c_fp + c_fn) y_i)", "correspondence"))
            break
    for t, (per, dm) in enumerate(zip(model["per"], model["dummy"])):
        if any(w == 0 for w in per["w"]) or not per["w"]:
            continue          # a row of exact weight 0: its label is decided by float noise
        rec = out["eg"][t]
        got = rec["constant"] if rec["kind"] == "dummy" else None
        if (dm is None) != (got is None) or (dm is not None and float(dm) != got):
            v.append((f"{PID}/_call_oracle/single-label/differs-from-model",
                      f"multiplier #{t}: implementation {rec['kind']} {got}; model constant {dm}",
                      "one relabelled class c: DummyClassifier(constant=c), otherwise the estimator is trained",
                      "correspondence"))
            break
    return v


def _compare_bgl_ext(o, mo):
    v = []
    nm = "BoundedGroupLoss"
    if not _vec_close(o["w_none"], mo["w_none"]):
        v.append((f"{PID}/{nm}/signed_weights-default/differs-from-model", f"{o['w_none']} vs {[str(x) for x in mo['w_none']]}",
                  "signed_weights() = 1 for every row", "correspondence"))
    if not _vec_close(o["prob_attr"], mo["prob_attr"]) or not _vec_close(o["dolv"], mo["prob_attr"]):
        v.append((f"{PID}/{nm}/prob_attr/differs-from-model", f"{o['prob_attr']} / {o['dolv']} vs {[str(x) for x in mo['prob_attr']]}",
                  "prob_attr = default_objective_lambda_vec = group size / n", "correspondence"))
    if not _vec_close(o["w_prob"], mo["w_prob"]):
        v.append((f"{PID}/{nm}/signed_weights-prob_attr/differs-from-model", f"{o['w_prob']} vs {[str(x) for x in mo['w_prob']]}",
                  "signed_weights(prob_attr) = 1 for every row", "correspondence"))
    lin = o["lin"]
    if max(lin[k] for k in ("zero", "ones", "comb", "add")) > TOL:
        v.append((f"{PID}/{nm}/signed_weights/not-linear",
                  f"|w(0)| = {lin['zero']}, |w(1) - sum_j w(e_j)| = {lin['ones']}, |w(lam) - sum_j lam_j w(e_j)| = "
                  f"{lin['comb']}, |w(a+b) - w(a) - w(b)| = {lin['add']}",
                  "signed_weights is linear in the multiplier (w(0) = 0, w(a+b) = w(a) + w(b))", "property"))
    if lin["repeat"] > TOL or lin["proj"] > 0:
        v.append((f"{PID}/{nm}/signed_weights/state-dependent",
                  f"the same call repeated differs by {lin['repeat']}; project_lambda identity violated: {lin['proj']}",
                  "signed_weights / project_lambda depend on the last load_data and their argument only", "property"))
    if o["ml_resid"] > TOL or any(abs(x - 1.0) > TOL for x in o["ml_none"]) or any(abs(x - 2.0) > TOL for x in o["ml_two"]):
        v.append((f"{PID}/MeanLoss/mean-loss-identity/residual",
                  f"residual {o['ml_resid']}; signed_weights() = {o['ml_none']}; signed_weights([2]) = {o['ml_two']}",
                  "mean loss = (1/n) sum_i w_i loss_i with w = signed_weights() = 1 (= weights of the multiplier prob_attr)",
                  "property"))
    return v


def tags(case, out, model):
    if case["fam"] == "bgl":
        return ["fam:bgl", f"loss:{case['loss']}", "decoy-load:" + ("yes" if K.preload_flag(case) else "no")]
    t = ["fam:parity", f"moment:{case['moment']}",
         "strata:" + ("none" if case["c"] is None else str(len(set(case["c"])))),
         "bound:" + ("default" if case["db"] is None and case["rb"] is None else "difference" if case["rb"] is None
                     else f"ratio={case['rb']}"),
         f"index:{len(out['index'])}", "costs:" + ("default" if case["fp"] is None else f"{case['fp']},{case['fn']}")]
    if any(r["kind"] == "dummy" for r in out["eg"]):
        t.append("oracle:some-dummy")
    t.append("decoy-load:" + ("yes" if K.preload_flag(case) else "no"))
    if model and not model.get("config_error") and any(
            dm is not None and all(w != 0 for w in per["w"]) for per, dm in zip(model["per"], model["dummy"])):
        t.append("single-label:compared")
    return t


def nontrivial(case, out, model):
    if case["fam"] == "bgl":
        return len(set(case["g"])) >= 2
    if not C6.nontrivial(dict(case, fam="parity"), {"index": out["index"], "config_error": False}, None):
        return False
    base = [1.0 if y == 1 else 0.0 for y in case["y"]]
    return any(r["kind"] == "rec" and r["y"] != base for r in out["eg"])


def canon(case):
    return {k: v for k, v in case.items() if not k.startswith("_")}


def shrink(case):
    if case["fam"] == "bgl":
        yield from C6.shrink(case)
        return
    if len(case["lams"]) > 0:
        yield dict(case, lams=[])
    if len(case["hs"]) > 3:
        for i in range(2, len(case["hs"])):
            yield dict(case, hs=case["hs"][:2] + [case["hs"][i]])
    yield from K.shrink_rows(case)
