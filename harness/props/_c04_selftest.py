"""Self-test of translators/t_threshopt.py (not part of the check): applies 23 source mutations to private copies of
fairlearn/postprocessing under /tmp, regenerates Gen_threshopt.v and compiles props/C04.v, props/C05.v against it in a
private directory; every mutation must either make the translator raise or break a *_is_source theorem.
Run: cd /verif && python harness/props/_c04_selftest.py"""
import sys, shutil, subprocess, tempfile
from pathlib import Path
sys.path.insert(0, "/verif")
from translators import t_threshopt as T
TO = "_threshold_optimizer.py"; TC = "_tradeoff_curve_utilities.py"; OP = "_threshold_operation.py"
MUTS = {
 "e01 idxmin (simple)": (TO, [("i_best = overall_tradeoff_curve.idxmax()", "i_best = overall_tradeoff_curve.idxmin()")]),
 "e02 idxmin (EO)": (TO, [("i_best_EO = objective_values.idxmax()", "i_best_EO = objective_values.idxmin()")]),
 "e03 flip leaks into the flip=False path": (TC, [('operations = [(">", actual_counts)]\n', 'operations = [(">", actual_counts), ("<", flipped_counts)]\n')]),
 "e04 sort by [y, x]": (TC, [('by=["x", "y"]', 'by=["y", "x"]')]),
 "e05 threshold = scores[i] (no midpoint)": (TC, [("threshold = (threshold + scores[i]) / 2", "threshold = scores[i]")]),
 "e06 guard with and": (TC, [("if n_positive == 0 or n_negative == 0:", "if n_positive == 0 and n_negative == 0:")]),
 "e07 prediction_constant = y_best": (TO, [("prediction_constant=self._x_best", "prediction_constant=self._y_best")]),
 "e08 weight 1/n": (TO, [("p_sensitive_feature_value = len(group) / n", "p_sensitive_feature_value = 1 / n")]),
 "e09 p0/p1 swapped in Bunch (simple)": (TO, [("p0=best_interpolation.p0", "p0=best_interpolation.p1"), ("p1=best_interpolation.p1", "p1=best_interpolation.p0")]),
 "e10 ascending=False": (TC, [('.sort_values(by=["x", "y"])', '.sort_values(by=["x", "y"], ascending=False)')]),
 "e11 flipped counts wrong": (TC, [("true_positives=(n_positive - count[1]),\n            true_negatives=count[0],", "true_positives=count[1],\n            true_negatives=count[0],")]),
 "e12 searchsorted side=left": (TC, [('side="right"', 'side="left"')]),
 "e13 operator >= ": (OP, [("return y_hat > self._threshold", "return y_hat >= self._threshold")]),
 "e14 EO false_positives from n_positive": (TO, [("false_positives=(n_negative * self._x_grid)", "false_positives=(n_positive * self._x_grid)")]),
 "e15 _tradeoff_curve default y_metric": (TC, [('] = "true_positive_rate",\n) -> pd.DataFrame:\n    """Get a convex hull', '] = "selection_rate",\n) -> pd.DataFrame:\n    """Get a convex hull')]),
 "e16 amax": (TO, [("np.amin(y_values, axis=1)", "np.amax(y_values, axis=1)")]),
 "e17 unknown selection shape": (TO, [("i_best = overall_tradeoff_curve.idxmax()", "i_best = int(overall_tradeoff_curve.values[::-1].argmax())")]),
 "e18 count += 2": (TC, [("count[labels[i]] += 1", "count[labels[i]] += 2")]),
 "e19 p_ignore zero branch returns 1": (TO, [("                p_ignore = 0\n", "                p_ignore = 1\n")]),
 "e20 n_negative = n": (TO, [("n_negative = n - n_positive\n        self._tradeoff_curve", "n_negative = n\n        self._tradeoff_curve")]),
 "e21 EO objective added: selection_rate": (TO, [('OBJECTIVES_FOR_EQUALIZED_ODDS = {\n    "accuracy_score",', 'OBJECTIVES_FOR_EQUALIZED_ODDS = {\n    "selection_rate",\n    "accuracy_score",')]),
 "e22 EO row at own argmax": (TO, [(".transpose()[i_best_EO]", '.iloc[self._tradeoff_curve[sensitive_feature_value]["y"].idxmax()]')]),
 "e23 dispatch: x_metric_ for EO path swapped": (TO, [("self.y_metric_ = self.objective", "self.y_metric_ = self.x_metric_")]),
}
COQ = Path("/verif/coq")
WORK = None
def build(repo, tag):
    d = Path(tempfile.mkdtemp(prefix="g_", dir=WORK))
    (d / "gen").mkdir(); (d / "props").mkdir()
    try:
        txt = T.translate(repo)["Gen_threshopt.v"]
    except Exception as e:
        shutil.rmtree(d); return f"translator RAISES (fail closed): {str(e)[:150]}"
    (d / "gen/Gen_threshopt.v").write_text(txt)
    for g in ("Gen_metricdict.v", "Gen_hull.v"):
        shutil.copy(COQ / "gen" / g, d / "gen" / g)
    res = []
    for P in ("C04", "C05"):
        shutil.copy(COQ / "props" / f"{P}.v", d / "props" / f"{P}.v")
    for f in ("gen/Gen_metricdict.v", "gen/Gen_hull.v", "gen/Gen_threshopt.v", "props/C04.v", "props/C05.v"):
        r = subprocess.run(["coqc", "-Q", str(COQ / "theories"), "FL", "-Q", str(d / "gen"), "FLGen", "-Q", str(d / "props"), "FLProps",
                            "-w", "-notation-overridden", str(d / f)], capture_output=True, text=True)
        if r.returncode != 0:
            err = r.stderr.strip().splitlines()
            loc = next((l for l in err if l.startswith("File")), "")
            import re
            m = re.search(r"line (\d+)", loc)
            thm = ""
            if m and f.startswith("props"):
                lines = (d / f).read_text().splitlines()[: int(m.group(1))]
                thm = next((l.split()[1] for l in reversed(lines) if l.startswith(("Theorem", "Example"))), "")
            res.append(f"{f}: FAILS at {thm or loc}: {' '.join(err[-2:])[:110]}")
        else:
            res.append(f"{f}: ok") if f.startswith("props") else None
    shutil.rmtree(d)
    return "; ".join(x for x in res if x)
if __name__ == "__main__":
    WORK = tempfile.mkdtemp(prefix="ext_C04_tr_")
    print("unchanged /repo ->", build(Path("/repo"), "base"))
    for name, (rel, pairs) in MUTS.items():
        r = Path(tempfile.mkdtemp(prefix="r_", dir=WORK))
        shutil.copytree("/repo/fairlearn/postprocessing", r / "fairlearn/postprocessing")
        p = r / "fairlearn/postprocessing" / rel
        s = p.read_text()
        for a, b in pairs:
            assert s.count(a) == 1, (name, a, s.count(a))
            s = s.replace(a, b)
        p.write_text(s)
        print(name, "->", build(r, name))
        shutil.rmtree(r)
    shutil.rmtree(WORK)
