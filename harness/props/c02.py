"""C02 -- MetricFrame aggregates are the documented functions of by_group and overall."""
from __future__ import annotations
import json
import math
from fractions import Fraction
from harness.core import Rng, gq, gz, glist, Dec, num_close
from harness.props import c01 as _c01

PID = "C02"
VO = ["theories/Metrics/Aggregates.vo", "theories/Metrics/Aggregates_proofs.vo", "theories/Base/Flat.vo"]
PROPS_FILES = ["props/C02.v"]
TRANSLATORS = ["t_ratio", "t_aggregates"]
REQUIRES = ["From FL Require Import Num Flat Aggregates."]
SHARD = 40
CHUNK = 8
CASE_TIMEOUT = 120
PARTIAL = ["C02_ratio_between_le_one_partial", "C02_ratio_between_le_one_refuted",
           "C02_coerce_nonscalar_is_nan_partial"]

LEVEL_TEXT = ("Proof (Coq), per metric column and control level, on IEEE-like extended rationals with pandas' "
              "NaN-skipping min/max: difference(between_groups) = group_max - group_min; both differences >= 0; "
              "ratio(to_overall) <= 1 for all cells, stated on the fold ratio_sub_one regenerated from the source; "
              "ratio in [0,1] for non-negative cells (both methods); between <= 2 * to_overall; to_overall <= "
              "between when overall is a positive-weight mean of the non-empty groups; raise = coerce on scalar "
              "cells. 'ratio(between_groups) <= 1' is REFUTED for negative cells (min/max of -2,-1 is 2) and proved "
              "for non-negative cells. WHOLE TABLES (extension): apply_grouping / difference / ratio are regenerated "
              "from the source by translator t_aggregates as functions over rows keyed by control level (python "
              "cells: int / float / bool / non-scalar, the errors='coerce' filter, the grouping function, skipna, "
              "the subtrahend choice, the min/max quotient, the fold) and stated equal to the model's definitions; "
              "C02_per_control_level: every aggregate of the whole table is, level by level, the no-control "
              "aggregate of that level's cells and of that level's OWN overall value (rows in any order: "
              "C02_table_keyed); no control features = one level; the column functions equal the per-level model on "
              "scalar cells; under 'coerce' a non-scalar cell counts as NaN (partial: ratio(to_overall) is not "
              "filtered by the source). Tie to the code: translators t_ratio + t_aggregates + differential run of the "
              "same Gallina definitions (per level AND whole table with key lookup) on the implementation's own "
              "by_group/overall tables in all 16 variants.")
LEVEL_NOTE = ("Trusted: Coq kernel + vm_compute; translators t_ratio, t_aggregates (the mapping pandas method -> table "
              "primitive, e.g. groupby(level=control)/unstack/index alignment -> key lookup); pandas min/max/abs/division/unstack alignment "
              "are modelled (tied by correspondence), not verified; non-scalar cells are outside the model "
              "(coerce = NaN is modelled, raise on non-scalars is not).")
TECHNIQUE = "Coq proof about an executable model of the aggregates + source-regenerated fold + differential run"
TRUSTED = ["Coq 8.16.1 kernel and vm_compute", "translators/t_ratio.py", "translators/t_aggregates.py", "harness/props/c02.py, c01.py (generators, "
           "metric callables, comparison)", "pandas Series/DataFrame min, max, abs, division, group-by on index levels "
           "(modelled)", "no axioms (Print Assumptions: closed)"]
ASSUMPTIONS = ["cells are scalar floats (finite or NaN); by_group and overall are taken from the implementation "
               "(exact binary rationals) so the aggregates are checked as functions of those tables",
               "ratio <= 1 for between_groups needs non-negative cells (refuted otherwise: known finding)"]
RULE = ("cases: datasets as in C01 (n 1..12, 1..3 sensitive, 0..2 control columns, every container) with numeric "
        "metrics (count, weighted selection rate, weighted accuracy, a signed weighted mean), degenerate patterns "
        "forced (all-equal groups, zero overall, zero group values); each case evaluates group_min/group_max x "
        "errors and difference/ratio x method x errors; inequalities are checked on the implementation's numbers; "
        "one dedicated negative-metric case (known finding); three extra streams: integer-valued frames (only "
        "count-like metrics, cells arrive as ints, zero counts), dicts of >= 2 metrics where one metric's ratio to "
        "overall is NaN for a non-empty group (0/0, or the metric itself returns NaN) while another metric's is "
        "finite, zero-valued group cells inside a control level. non-trivial = at least two non-empty groups in "
        "some control level and not all of them equal")
EXHAUSTIVE = {"quick": False, "thorough": False}

KINDS = ["cnt", "sr", "acc", "sgn"]
COUNTS = ["cnt", "npos", "nerr"]         # integer-valued: the cells arrive as python / numpy ints
EXTRA_N = {"quick": 60, "thorough": 600}  # cases per extra stream
MEANS = {"sr", "acc", "sgn"}
NEG_SIG = "C02/MetricFrame/ratio-between_groups/exceeds-one-for-negative-metric"
METHODS = ["between_groups", "to_overall"]
ERRORS = ["raise", "coerce"]


def _metric(r, n, name, kind):
    params = []
    if kind != "cnt" and r.chance(1, 2):
        params.append(["sample_weight", [r.randint(1, 4) for _ in range(n)]])
    return {"name": name, "kind": kind, "params": params}


def _random_case(r):
    c = _c01._random_case(r)
    n = c["n"]
    c["callable"] = r.chance(1, 3)
    if c["callable"]:
        k = r.choice(["sr", "acc", "sgn", "cnt"])
        c["metrics"] = [_metric(r, n, k, k)]
    else:
        ks = r.sample(KINDS, r.randint(1, 3))
        c["metrics"] = [_metric(r, n, k, k) for k in ks]
    pat = r.choice(["random", "random", "random", "all0", "all1", "eq_label", "neq_label", "by_group"])
    c["pattern"] = pat
    if pat == "all0":
        c["y_pred"] = [0] * n
    elif pat == "all1":
        c["y_pred"] = [1] * n
    elif pat == "eq_label":
        c["y_pred"] = list(c["label"])
    elif pat == "neq_label":
        c["y_pred"] = [1 - l for l in c["label"]]
    elif pat == "by_group":      # prediction determined by the first sensitive column: zero and one groups
        c["y_pred"] = [code % 2 for code in c["sf"][0]["codes"]]
    return c


def _negative_case():
    return {"kind": "negative", "n": 4, "label": [1, 1, 0, 0], "y_pred": [0, 0, 0, 0], "pattern": "negative",
            "sf": [{"alpha": ["a", "b", "c", "d"], "codes": [0, 0, 1, 1]}], "cf": [],
            "sf_container": "list", "cf_container": None, "sf_names": ["sA"], "cf_names": [], "callable": True,
            "metrics": [{"name": "sgn", "kind": "sgn", "params": []}]}


def _force_cf(r, c):
    if not c["cf"]:
        c["cf"] = [_c01._feat(r, c["n"], True)]
        c["cf_container"] = _c01._container(r, 1, c["n"])
        c["cf_names"] = ["cA"]


def _int_case(r):
    """integer-valued frame: every metric count-like, so by_group is an int64 frame unless an intersection is empty"""
    c = _c01._random_case(r)
    n = c["n"]
    if r.chance(1, 2):          # one sensitive column, no control: no empty intersection, the cells stay ints
        c["sf"], c["sf_names"] = c["sf"][:1], c["sf_names"][:1]
        c["sf_container"] = _c01._container(r, 1, n)
        c["cf"], c["cf_names"], c["cf_container"] = [], [], None
    c["callable"] = r.chance(1, 3)
    ks = [r.choice(COUNTS)] if c["callable"] else r.sample(COUNTS, r.randint(1, 3))
    c["metrics"] = [{"name": k, "kind": k, "params": []} for k in ks]
    c["pattern"] = r.choice(["int", "int", "int_all0", "int_by_group"])
    if c["pattern"] == "int_all0":
        c["y_pred"] = [0] * n
    elif c["pattern"] == "int_by_group":
        c["y_pred"] = [code % 2 for code in c["sf"][0]["codes"]]
    return c


def _nanratio_case(r):
    """dict of >= 2 metrics; ONE metric's ratio to overall is NaN for a non-empty group (0/0 or a NaN cell)"""
    c = _c01._random_case(r)
    n = c["n"]
    c["callable"] = False
    bad = r.choice(["npos", "sr", "prec", "prec"])
    good = r.sample(["cnt", "acc", "nerr"], r.randint(1, 2))
    ks = [bad] + good
    if r.chance(1, 2):
        ks.reverse()
    c["metrics"] = [_metric(r, n, k, k) if k in ("sr", "acc") else {"name": k, "kind": k, "params": []} for k in ks]
    mode = r.choice(["level0", "group0", "all0"])
    if mode == "level0":        # no positive prediction inside control level 0: overall 0 there, 0/0 for its groups
        _force_cf(r, c)
        c["y_pred"] = [0 if c["cf"][0]["codes"][i] == 0 else c["y_pred"][i] for i in range(n)]
    elif mode == "group0":      # no positive prediction in the groups with first sensitive code 0
        c["y_pred"] = [0 if c["sf"][0]["codes"][i] == 0 else 1 for i in range(n)]
    else:
        c["y_pred"] = [0] * n
    c["pattern"] = "nanratio_" + mode
    return c


def _zerolevel_case(r):
    """zero-valued group cells inside a control level (errors='coerce' must keep a 0 a 0)"""
    c = _c01._random_case(r)
    n = c["n"]
    _force_cf(r, c)
    c["callable"] = r.chance(1, 3)
    if c["callable"]:
        k = r.choice(["sr", "npos", "nerr", "acc"])
        ks = [k]
    else:
        ks = r.sample(["sr", "npos", "nerr", "acc", "cnt", "sgn"], r.randint(1, 3))
    c["metrics"] = [_metric(r, n, k, k) if k in ("sr", "acc", "sgn") else {"name": k, "kind": k, "params": []}
                    for k in ks]
    z = r.randint(0, 1)
    c["y_pred"] = [0 if c["sf"][0]["codes"][i] % 2 == z else c["y_pred"][i] for i in range(n)]
    if r.chance(1, 2):          # and no error there either: accuracy 1 / error count 0
        c["label"] = [c["y_pred"][i] if c["sf"][0]["codes"][i] % 2 == z else c["label"][i] for i in range(n)]
    c["pattern"] = "zero_in_level"
    return c


def cases(tier, seed):
    out = [_negative_case()]
    for i in range({"quick": 300, "thorough": 3000}[tier]):
        out.append(_random_case(Rng(seed, PID, "rand", i)))
    for stream, gen in (("int", _int_case), ("nanratio", _nanratio_case), ("zerolevel", _zerolevel_case)):
        for i in range(EXTRA_N[tier]):
            out.append(gen(Rng(seed, PID, stream, i)))
    return out


def _make_metric(kind, name):
    import numpy as np
    if kind == "npos":          # number of positive predictions: a python int, zero for some groups
        def f(y_true, y_pred, **kw):
            return int(np.sum(np.asarray(y_pred) == 1))
        f.__name__ = name
        return f
    if kind == "nerr":          # number of errors: a numpy integer
        def f(y_true, y_pred, **kw):
            return np.sum((np.asarray(y_true) % 2) != np.asarray(y_pred))
        f.__name__ = name
        return f
    if kind == "prec":          # precision; NaN (returned by the metric itself) without positive predictions
        def f(y_true, y_pred, **kw):
            yp = np.asarray(y_pred) == 1
            pp = int(np.sum(yp))
            if pp == 0:
                return float("nan")
            return float(np.sum(yp & ((np.asarray(y_true) % 2) == 1)) / pp)
        f.__name__ = name
        return f
    if kind != "sgn":
        assert kind in ("cnt", "sr", "acc"), kind
        return _c01._make_metric(kind, name)

    def f(y_true, y_pred, **kw):
        w = kw.get("sample_weight")
        w = np.ones(len(y_true)) if w is None else np.asarray(w, dtype=float)
        x = (2 * np.asarray(y_pred) - 1) * (1 + np.asarray(y_true) % 2)
        return float(np.sum(w * x) / np.sum(w))
    f.__name__ = name
    return f


def _num(v):
    import numpy as np
    if v is None:
        return "nan"
    if isinstance(v, (int, float, np.integer, np.floating)):
        f = float(v)
        if math.isnan(f):
            return "nan"
        if math.isinf(f):
            return "inf" if f > 0 else "-inf"
        return f
    return ["other", repr(v)]


def _pykind(v):
    import numpy as np
    if isinstance(v, (bool, np.bool_)):
        return "b"
    if isinstance(v, (int, np.integer)):
        return "i"
    if isinstance(v, (float, np.floating)):
        return "f"
    return "o"


def _table(obj, names, alphas, has_cf, callable_):
    """normalise an overall / aggregate result to {metric: [[control key, value], ...]}"""
    import pandas as pd
    if not has_cf:
        if callable_:
            return {names[0]: [[[], _num(obj)]]}
        return {str(k): [[[], _num(v)]] for k, v in obj.items()}
    if isinstance(obj, pd.Series):
        obj = obj.to_frame(name=names[0])
    return {str(c): [[_c01._key(idx, alphas), _num(obj[c][idx])] for idx in obj.index] for c in obj.columns}


def impl(case):
    import pandas as pd
    from fairlearn.metrics import MetricFrame
    y_true = [2 * i + l for i, l in enumerate(case["label"])]
    fns = {m["name"]: _make_metric(m["kind"], m["name"]) for m in case["metrics"]}
    names = [m["name"] for m in case["metrics"]]
    if case["callable"]:
        m = case["metrics"][0]
        metrics = fns[m["name"]]
        sp = {p: list(v) for p, v in m["params"]} or None
    else:
        metrics = fns
        sp = {m["name"]: {p: list(v) for p, v in m["params"]} for m in case["metrics"] if m["params"]} or None
    kw = {}
    if case["cf"]:
        kw["control_features"] = _c01._features(case["cf"], case["cf_container"], case["cf_names"])
    mf = MetricFrame(metrics=metrics, y_true=y_true, y_pred=list(case["y_pred"]),
                     sensitive_features=_c01._features(case["sf"], case["sf_container"], case["sf_names"]),
                     sample_params=sp, **kw)
    galph = [f["alpha"] for f in case["cf"]] + [f["alpha"] for f in case["sf"]]
    calph = [f["alpha"] for f in case["cf"]]
    has_cf, cal = bool(case["cf"]), case["callable"]
    bg = mf.by_group
    if isinstance(bg, pd.Series):
        bg = bg.to_frame(name=names[0])
    res = {"by_group": {str(c): [[_c01._key(idx, galph), _num(bg[c][idx])] for idx in bg.index] for c in bg.columns},
           "overall": _table(mf.overall, names, calph, has_cf, cal), "agg": {}}
    res["by_group_kind"] = {str(c): [_pykind(bg[c][idx]) for idx in bg.index] for c in bg.columns}

    def run(label, thunk):
        try:
            res["agg"][label] = _table(thunk(), names, calph, has_cf, cal)
        except Exception as e:  # noqa
            res["agg"][label] = f"EXC {type(e).__name__}: {str(e)[:120]}"
    for e in ERRORS:
        run(f"group_min/{e}", lambda: mf.group_min(errors=e))
        run(f"group_max/{e}", lambda: mf.group_max(errors=e))
        for me in METHODS:
            run(f"difference/{me}/{e}", lambda: mf.difference(method=me, errors=e))
            run(f"ratio/{me}/{e}", lambda: mf.ratio(method=me, errors=e))
    return res


def _levels(case, out, name):
    """[(control key, [cells], overall)] for one metric, in the order of the overall table"""
    ncf = len(case["cf"])
    lv = []
    for ckey, ov in out["overall"][name]:
        cells = [v for k, v in out["by_group"][name] if k[:ncf] == ckey]
        lv.append((ckey, cells, ov))
    return lv


def _gext(v):
    if v == "nan":
        return "NaN"
    if v == "inf":
        return "PInf"
    if v == "-inf":
        return "NInf"
    return f"(Fin {gq(Fraction(v))})"


def _scalar_tables(case, out):
    return all(not isinstance(v, list) for nm in out["by_group"] for _, v in out["by_group"][nm]) and \
        all(not isinstance(v, list) for nm in out["overall"] for _, v in out["overall"][nm])


def _gpy(v, kind):
    """python cell literal: ints stay ints (PyInt), everything else numeric is a float"""
    if kind == "i" and not isinstance(v, str) and float(v) == int(v):
        return f"(PyInt {gz(int(v))})"
    if kind == "b" and not isinstance(v, str):
        return f"(PyBool {'true' if v else 'false'})"
    return f"(PyFloat {_gext(v)})"


def _gkey(k):
    return glist(k, gz)


def term(case, out):
    if out is None or not _scalar_tables(case, out):
        return None
    ncf = len(case["cf"])
    parts = []
    for m in case["metrics"]:
        nm = m["name"]
        lv = _levels(case, out, nm)
        parts.append("run_aggregates " + glist([f"({glist([_gext(c) for c in cells])}, {_gext(ov)})"
                                                for _, cells, ov in lv]))
        # the whole tables, rows in the implementation's order, pairing left to the model's key lookup
        kinds = out["by_group_kind"][nm]
        if ncf:
            rows = glist([f"({_gkey(k[:ncf])}, {_gpy(v, kd)})" for (k, v), kd in zip(out["by_group"][nm], kinds)])
            ovt = glist([f"({_gkey(k)}, {_gext(v)})" for k, v in out["overall"][nm]])
            parts.append(f"run_table {rows} {ovt}")
        else:
            cells = glist([_gpy(v, kd) for (_, v), kd in zip(out["by_group"][nm], kinds)])
            parts.append(f"run_column {cells} {_gext(out['overall'][nm][0][1])}")
    return " ++ ".join(parts)


AGG_ORDER = ["group_min", "group_max", "difference/between_groups", "difference/to_overall",
             "ratio/between_groups", "ratio/to_overall"]


def decode(case, zs):
    d = Dec(zs)
    res = {}
    ncf = len(case["cf"])
    table = {}
    for m in case["metrics"]:
        res[m["name"]] = d.list(lambda: {e: {a: d.ext() for a in AGG_ORDER} for e in ERRORS})
        if ncf:
            per_err = d.list(lambda: d.list(lambda: (list(d.key()), {a: d.ext() for a in AGG_ORDER})))
        else:
            per_err = d.list(lambda: [([], {a: d.ext() for a in AGG_ORDER})])
        table[m["name"]] = {e: t for e, t in zip(ERRORS, per_err)}
    d.done()
    res["__table__"] = table
    return res


def _f(v):
    return {"nan": math.nan, "inf": math.inf, "-inf": -math.inf}.get(v, v) if isinstance(v, str) else v


def compare(case, out, model):
    v = []
    if not _scalar_tables(case, out):
        v.append((f"{PID}/MetricFrame/by_group/non-scalar-cell", "a numeric metric produced a non-scalar cell",
                  "scalar cells", "property"))
        return v
    tol = 1e-9
    for m in case["metrics"]:
        nm = m["name"]
        lv = _levels(case, out, nm)
        for li, (ckey, cells, ov) in enumerate(lv):
            fc = [_f(c) for c in cells]
            fin = [c for c in fc if not math.isnan(c)]
            fov = _f(ov)
            nonneg = all(c >= 0 for c in fin) and (math.isnan(fov) or fov >= 0)
            got = {}
            for e in ERRORS:
                for a in AGG_ORDER:
                    label = f"{a}/{e}"
                    t = out["agg"][label]
                    if isinstance(t, str):
                        v.append((f"{PID}/MetricFrame/{a.replace('/', '-')}/raises-on-scalar-cells",
                                  f"{label}: {t}", "aggregates of scalar cells do not raise", "property"))
                        continue
                    hit = [val for k, val in t.get(nm, []) if k == ckey]
                    if len(hit) != 1:
                        v.append((f"{PID}/MetricFrame/{a.replace('/', '-')}/control-level-missing",
                                  f"{label}: metric {nm} control key {ckey}: found {hit}",
                                  "one aggregate per control level", "property"))
                        continue
                    got[(a, e)] = hit[0]
                    if isinstance(hit[0], list):
                        v.append((f"{PID}/MetricFrame/{a.replace('/', '-')}/non-scalar-result",
                                  f"{label}: {hit[0]}", "scalar aggregate", "property"))
                        continue
                    if model is not None:
                        mv = model[nm][li][e][a]
                        if not num_close(_f(hit[0]), mv):
                            v.append((f"{PID}/MetricFrame/{a.replace('/', '-')}/differs-from-model",
                                      f"{label} metric {nm} control {ckey}: implementation {hit[0]} model {mv} "
                                      f"(cells {cells}, overall {ov})",
                                      f"{a} equals Aggregates.{a.split('/')[0]}", "property"))
            # ---- the whole-table model (regenerated functions, key lookup) at this control key ----
            if model is not None:
                for e in ERRORS:
                    trows = [r for k, r in model["__table__"][nm][e] if k == ckey]
                    if len(trows) != 1:
                        v.append((f"{PID}/MetricFrame/table/control-level-missing-in-table-model",
                                  f"metric {nm} errors={e}: control key {ckey} occurs {len(trows)} times in the model "
                                  f"table", "one record per control level", "correspondence"))
                        continue
                    for a in AGG_ORDER:
                        if (a, e) in got and not isinstance(got[(a, e)], list) \
                                and not num_close(_f(got[(a, e)]), trows[0][a]):
                            v.append((f"{PID}/MetricFrame/{a.replace('/', '-')}/differs-from-table-model",
                                      f"{a}/{e} metric {nm} control {ckey}: implementation {got[(a, e)]} whole-table "
                                      f"model {trows[0][a]} (cells {cells}, overall {ov})",
                                      f"{a} of the whole table equals Aggregates.mf_... at this control key",
                                      "property"))
            # ---- property oracles on the implementation's own numbers ----
            for e in ERRORS:
                g = {a: _f(got[(a, e)]) for a in AGG_ORDER if (a, e) in got and not isinstance(got[(a, e)], list)}
                if len(g) != len(AGG_ORDER):
                    continue
                db, do = g["difference/between_groups"], g["difference/to_overall"]
                rb, ro = g["ratio/between_groups"], g["ratio/to_overall"]
                for a, x in (("difference-between_groups", db), ("difference-to_overall", do)):
                    if x < -tol:
                        v.append((f"{PID}/MetricFrame/{a}/negative", f"{x} (metric {nm}, cells {cells})",
                                  "difference >= 0", "property"))
                if fin and abs(db - (max(fin) - min(fin))) > tol:
                    v.append((f"{PID}/MetricFrame/difference-between_groups/not-max-minus-min",
                              f"{db} vs {max(fin) - min(fin)}", "difference = group_max - group_min", "property"))
                if ro > 1 + tol:
                    v.append((f"{PID}/MetricFrame/ratio-to_overall/exceeds-one", f"{ro} (cells {cells}, overall {ov})",
                              "ratio <= 1", "property"))
                if rb > 1 + tol:
                    if case["kind"] == "negative":      # the dedicated case of the known finding
                        if e == "raise":
                            v.append((NEG_SIG, f"ratio(between_groups) = {rb} for cells {cells}",
                                      "ratio <= 1", "property"))
                    elif nonneg:                          # normal stream: oracle on non-negative tables only
                        v.append((f"{PID}/MetricFrame/ratio-between_groups/exceeds-one",
                                  f"{rb} (cells {cells})", "ratio <= 1 for non-negative cells", "property"))
                if nonneg and (rb < -tol or ro < -tol):
                    v.append((f"{PID}/MetricFrame/ratio/negative-for-nonnegative-metric", f"{rb}, {ro}",
                              "ratio >= 0 for non-negative metrics", "property"))
                if not math.isnan(fov) and fin and db > 2 * do + tol:
                    v.append((f"{PID}/MetricFrame/difference/between-exceeds-twice-to_overall",
                              f"between {db} to_overall {do}", "between <= 2 * to_overall", "property"))
                if m["kind"] in MEANS and fin and do > db + tol:
                    v.append((f"{PID}/MetricFrame/difference/to_overall-exceeds-between-for-mean-metric",
                              f"to_overall {do} between {db} (metric {nm}, cells {cells}, overall {ov})",
                              "to_overall <= between for weighted means", "property"))
    return v


def _nan_ratio_rows(case, out, name):
    """(row index) of non-empty groups whose ratio to their level's overall is NaN / finite"""
    ncf = len(case["cf"])
    sizes = _c01._groups(case)
    ov = {tuple(k): v for k, v in out["overall"][name]}
    nan_rows, fin_rows = set(), set()
    for i, (k, v) in enumerate(out["by_group"][name]):
        if tuple(k) not in sizes:
            continue
        o = ov.get(tuple(k[:ncf]))
        if v == "nan" or o == "nan" or (v == 0.0 and o == 0.0):
            nan_rows.add(i)
        elif not isinstance(v, str) and not isinstance(o, str) and o != 0.0:
            fin_rows.add(i)
    return nan_rows, fin_rows


def tags(case, out, model):
    t = [f"kind:{case['kind']}", f"pattern:{case['pattern']}", f"sf:{len(case['sf'])}", f"cf:{len(case['cf'])}",
         "callable" if case["callable"] else f"dict:{len(case['metrics'])}"]
    t += [f"metric:{m['kind']}" for m in case["metrics"]]
    if _scalar_tables(case, out):
        zero_ov = nan_cell = zero_cell = alleq = False
        for m in case["metrics"]:
            for _, cells, ov in _levels(case, out, m["name"]):
                fin = [c for c in cells if c != "nan"]
                zero_ov |= ov == 0.0
                nan_cell |= len(fin) < len(cells)
                zero_cell |= any(c == 0.0 for c in fin)
                alleq |= len(fin) >= 2 and len(set(fin)) == 1
        t += [f"zero-overall:{zero_ov}", f"nan-cell:{nan_cell}", f"zero-cell:{zero_cell}", f"all-equal-groups:{alleq}"]
        kinds = out.get("by_group_kind", {})
        t.append(f"int-cells:{any('i' in ks for ks in kinds.values())}")
        t.append(f"all-int-frame:{bool(kinds) and all(set(ks) == {'i'} for ks in kinds.values())}")
        sizes = _c01._groups(case)
        t.append("metric-returns-nan-for-nonempty-group:" + str(any(
            v == "nan" and tuple(k) in sizes for nm in out["by_group"] for k, v in out["by_group"][nm])))
        t.append("zero-cell-inside-control-level:" + str(bool(case["cf"]) and any(
            v == 0.0 for nm in out["by_group"] for _, v in out["by_group"][nm])))
        rr = {m["name"]: _nan_ratio_rows(case, out, m["name"]) for m in case["metrics"]}
        t.append("one-metric-nan-ratio-others-finite:" + str(any(
            rr[a][0] & rr[b][1] for a in rr for b in rr if a != b)))
    return t


def nontrivial(case, out, model):
    if not _scalar_tables(case, out):
        return False
    for m in case["metrics"]:
        for _, cells, ov in _levels(case, out, m["name"]):
            fin = [c for c in cells if c != "nan"]
            if len(fin) >= 2 and len(set(fin)) >= 2:
                return True
    return False


def canon(case):
    return {k: v for k, v in case.items() if not k.startswith("_")}


def shrink(case):
    for c in _c01.shrink(case):
        c["pattern"] = case["pattern"]
        yield c
