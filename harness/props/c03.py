"""C03 -- named fairness metrics equal their first-principles definitions."""
from __future__ import annotations
import itertools
import math
from fractions import Fraction
from harness.core import Rng, gz, gq, glist, gopt, gnat, Dec, num_close

PID = "C03"
VO = ["theories/Metrics/BaseRates.vo", "theories/Metrics/BaseRates_proofs.vo", "theories/Metrics/Aggregates.vo",
      "theories/Metrics/Aggregates_proofs.vo", "theories/Metrics/Disagg.vo", "theories/Metrics/Fairness.vo", "theories/Metrics/Fairness_proofs.vo",
      "theories/Base/Flat.vo"]
PROPS_FILES = ["props/C03.v"]
TRANSLATORS = ["t_fairness", "t_labels", "t_ratio"]
REQUIRES = ["From FL Require Import Num Flat BaseRates Aggregates Fairness."]
SHARD = 8
CHUNK = 1
CASE_TIMEOUT = 900

LEVEL_TEXT = ("Proof (Coq): each function is modelled as the composition the code writes (one base-metric call per "
              "observed group on the sliced columns + one on all rows, then the C02 aggregates; equalized odds = the "
              "(tpr, fpr) frame followed by builtin max / min or Series.mean). Proved, for every 0/1 data set with >= 1 "
              "row, any grouping (single-member groups, groups without positives / negatives) and positive weights: "
              "the returned value is a finite scalar equal to max_g rate_g - min_g rate_g, max_g |rate_g - rate_all|, "
              "min_g / max_g (NaN iff max_g = 0), min_g fold(rate_g / rate_all), group min / max, where rate_g is the "
              "C14 weighted ratio on filter (group = g) rows; differences and ratios lie in [0,1]; equalized odds = "
              "max / min / mean of the TPR and FPR aggregates; the derived-metric dispatcher partitions the keyword "
              "arguments and calls the same frame. Tie to the code: translator t_fairness (fail closed) regenerates the "
              "six named compositions, the dispatcher's classification / transform chains and METRICS_SPEC on every run "
              "and props/C03.v proves them equal to the model's definitions (t_labels / t_ratio do the same for the "
              "reused C14 / C02 kernels); exhaustive differential run (all 0/1 label / "
              "prediction vectors x all groupings up to n = 3 (quick) / 4 (thorough), unweighted and with every weight "
              "vector over {1,2,3} for n <= 3) + random data sets, for the six named and 30 generated functions; "
              "generated functions over sklearn metrics without a model are compared with the equivalent MetricFrame call.")
LEVEL_NOTE = ("Trusted: Coq kernel + vm_compute; translators t_fairness (Python ast -> Gallina terms over the model's "
              "primitives metric_frame / apply_transform / py_max / py_min / series_mean), t_labels / t_ratio (label "
              "function and ratio fold of the reused C14 / C02 models); MetricFrame itself (group slicing, one call per "
              "group; C01's subject) is modelled as mask selection; sklearn confusion_matrix / accuracy_score / zero_one_loss, numpy dot, pandas "
              "group-by, min / max / mean are modelled, not verified; one sensitive column, no control features; "
              "scalar-ness of the returned object is checked by the correspondence run only.")
TECHNIQUE = "Coq proofs composing the C14 and C02 lemmas on an executable model + exhaustive small-scope differential run"
TRUSTED = ["Coq 8.16.1 kernel and vm_compute", "translators/t_fairness.py, t_labels.py, t_ratio.py",
           "harness/props/c03.py (enumeration, comparison)",
           "sklearn.metrics.confusion_matrix / accuracy_score / zero_one_loss, numpy, pandas group-by and reductions "
           "(modelled)", "no axioms (Print Assumptions: closed)"]
ASSUMPTIONS = ["labels and predictions are 0/1 with pos_label at its default; groups are strings compared through "
               "order-preserving integer codes; one sensitive feature passed as a list",
               "weights are positive (small integers or dyadic rationals); results compared with atol = rtol = 1e-9; "
               "NaN is compared with NaN"]
RULE = ("cases: (enum) one block per (n, assignment of rows to groups up to renaming, weight mode, part) holding every "
        "(y_true, y_pred) in {0,1}^n x {0,1}^n, unweighted or with every weight vector over {1,2,3} (quick, n = 3 "
        "weighted: every data set is visited but each with 3 of the 6 named functions + 1 other in rotation; "
        "thorough: all 16 variants of the named functions + 6 of the 30 generated calls in rotation); (rand) one random "
        "data set n <= 12, 1..4 groups, dyadic weights, with all functions, one dispatcher variant and the generated "
        "functions without a model against a harness-built MetricFrame; non-trivial = the case holds a data set with "
        ">= 2 groups whose selection rates or true positive rates differ")
EXHAUSTIVE = {"quick": False, "thorough": True}

# ---------------------------------------------------------------------------------------------
# model value order (Fairness.run_one)
# ---------------------------------------------------------------------------------------------
BASES = ["selection_rate", "true_positive_rate", "true_negative_rate", "false_positive_rate",
         "false_negative_rate", "accuracy_score", "zero_one_loss"]
METHODS = ["between_groups", "to_overall"]
AGGS = ["worst_case", "mean"]


def _model_keys():
    ks = []
    for b in BASES:
        for t in ("difference", "ratio"):
            for m in METHODS:
                ks.append(f"{b}/{t}/{m}")
        ks.append(f"{b}/group_min")
        ks.append(f"{b}/group_max")
    for m in METHODS:
        for a in AGGS:
            ks.append(f"equalized_odds/difference/{m}/{a}")
            ks.append(f"equalized_odds/ratio/{m}/{a}")
    return ks


MODEL_KEYS = _model_keys()

# generated functions over sklearn metrics without a model: compared with a harness-built MetricFrame
FRAME_ONLY = [("balanced_accuracy_score", "group_min"), ("precision_score", "group_min"), ("recall_score", "group_min"),
              ("roc_auc_score", "group_min"), ("mean_absolute_error", "group_max"), ("mean_squared_error", "group_max"),
              ("r2_score", "group_min"), ("f1_score", "group_min"), ("log_loss", "group_max")]


def _full_calls():
    """(label, function name, kwargs, model key) -- every public function whose value the model gives"""
    cs = []
    for t in ("difference", "ratio"):
        for m in METHODS:
            cs.append((f"demographic_parity_{t}/{m}", f"demographic_parity_{t}", {"method": m}, f"selection_rate/{t}/{m}"))
            cs.append((f"equal_opportunity_{t}/{m}", f"equal_opportunity_{t}", {"method": m},
                       f"true_positive_rate/{t}/{m}"))
            for a in AGGS:
                cs.append((f"equalized_odds_{t}/{m}/{a}", f"equalized_odds_{t}", {"method": m, "agg": a},
                           f"equalized_odds/{t}/{m}/{a}"))
    for b in BASES:
        for t in ("difference", "ratio"):
            for m in METHODS:
                cs.append((f"{b}_{t}/{m}", f"{b}_{t}", {"method": m}, f"{b}/{t}/{m}"))
    cs.append(("accuracy_score_group_min", "accuracy_score_group_min", {}, "accuracy_score/group_min"))
    cs.append(("zero_one_loss_group_max", "zero_one_loss_group_max", {}, "zero_one_loss/group_max"))
    return cs


FULL = _full_calls()
# the six named functions with their default method / agg (arguments omitted)
NAMED = [("demographic_parity_difference/default", "demographic_parity_difference", {}, "selection_rate/difference/between_groups"),
         ("demographic_parity_ratio/default", "demographic_parity_ratio", {}, "selection_rate/ratio/between_groups"),
         ("equal_opportunity_difference/default", "equal_opportunity_difference", {}, "true_positive_rate/difference/between_groups"),
         ("equal_opportunity_ratio/default", "equal_opportunity_ratio", {}, "true_positive_rate/ratio/between_groups"),
         ("equalized_odds_difference/default", "equalized_odds_difference", {}, "equalized_odds/difference/between_groups/worst_case"),
         ("equalized_odds_ratio/default", "equalized_odds_ratio", {}, "equalized_odds/ratio/between_groups/worst_case")]


def _calls_for(profile, k):
    """calls made for the k-th (data set, weight option) of a case"""
    if profile == "full":
        return FULL
    if profile == "all":
        return NAMED + FULL
    if profile == "wide":
        # every variant of the six named functions + six of the 30 generated calls in rotation
        gen = FULL[16:]
        return FULL[:16] + [gen[(6 * k + j) % len(gen)] for j in range(6)]
    # "named": three of the six named functions with their defaults (alternating halves) + one of the
    # others in rotation
    return NAMED[(k % 2)::2] + [FULL[k % len(FULL)]]


# ---------------------------------------------------------------------------------------------
# enumeration
# ---------------------------------------------------------------------------------------------
def _assignments(n, kmax=3):
    """restricted growth strings: assignments of n rows to <= kmax groups up to renaming"""
    out = []

    def rec(pre, mx):
        if len(pre) == n:
            out.append(list(pre))
            return
        for g in range(min(mx + 1, kmax - 1) + 1):
            rec(pre + [g], max(mx, g))
    rec([0], 0)
    return out


MAXN = {"quick": 3, "thorough": 4}
LETTERS = "abcd"


def _enum_items(case):
    n, assign, perm = case["n"], case["assign"], case["perm"]
    sf = [LETTERS[perm[g]] for g in assign]
    vecs = [list(v) for v in itertools.product([0, 1], repeat=n)]
    pairs = [(t, p) for t in vecs for p in vecs]
    lo = case["part"] * case["psize"]
    pairs = pairs[lo:lo + case["psize"]]
    if case["weights"] == "none":
        wopts = [None]
    else:
        wopts = [list(w) for w in itertools.product([1, 2, 3], repeat=n)]
    return [[t, p, sf, wopts] for t, p in pairs]


def _items(case):
    if case.get("items") is not None:
        return case["items"]
    return _enum_items(case)


def _rand_case(r, i):
    n = r.randint(1, 12)
    ng = min(r.randint(1, 4), n)
    names = r.sample(list(LETTERS), ng)
    pat = r.choice(["random", "random", "random", "single", "nopos", "allpos", "perfect"])
    sf_idx = [r.randint(0, ng - 1) for _ in range(n)]
    if pat == "single" and n >= 2 and ng >= 2:      # force a single-member group
        pos = r.randint(0, n - 1)
        sf_idx = [0 if j == pos else 1 + (s % (ng - 1)) for j, s in enumerate(sf_idx)]
    sf = [names[s] for s in sf_idx]
    yt = [r.randint(0, 1) for _ in range(n)]
    yp = [r.randint(0, 1) for _ in range(n)]
    g0 = sf[0]
    if pat == "nopos":            # a group without positive labels: TPR denominator empty
        yt = [0 if s == g0 else y for s, y in zip(sf, yt)]
    elif pat == "allpos":         # a group without negative labels: FPR denominator empty
        yt = [1 if s == g0 else y for s, y in zip(sf, yt)]
    elif pat == "perfect":
        yp = list(yt)
    if r.chance(1, 3):
        w = None
    else:
        w = [r.choice([0.25, 0.5, 0.75, 1, 1.5, 2, 2.5, 3, 4]) for _ in range(n)]
    disp = {"base": r.choice(BASES), "transform": r.choice(["difference", "ratio"]),
            "kind": r.randint(0, 3), "method": r.choice(METHODS)}
    if disp["kind"] == 2 or disp["kind"] == 3:
        pass      # no weights reach the metric in these variants
    return {"kind": "rand", "items": [[yt, yp, sf, [w]]], "profile": "all", "dispatch": disp, "frame_only": True,
            "pattern": pat}


def cases(tier, seed):
    unw, wtd = [], []
    for n in range(1, MAXN[tier] + 1):
        for ai, assign in enumerate(_assignments(n)):
            ng = max(assign) + 1
            perms = list(itertools.permutations(range(3), ng))
            perm = list(Rng(seed, PID, "perm", n, ai).choice(perms))
            psize = 64 if n != 3 else 16      # smaller blocks spread evenly over the workers
            for part in range((4 ** n + psize - 1) // psize):
                unw.append({"kind": "enum", "n": n, "assign": assign, "perm": perm, "weights": "none", "part": part,
                            "psize": psize, "profile": "full"})
    for n in range(1, 4):
        for ai, assign in enumerate(_assignments(n)):
            ng = max(assign) + 1
            perms = list(itertools.permutations(range(3), ng))
            perm = list(Rng(seed, PID, "permw", n, ai).choice(perms))
            profile = "full" if n <= 2 else ("wide" if tier == "thorough" else "named")
            psize = {1: 4, 2: 8, 3: (8 if profile == "named" else 4)}[n]
            for part in range((4 ** n + psize - 1) // psize):
                if tier == "quick" and n == 3 and part % 8 != ai % 8:
                    continue      # quick: a quarter of the weighted n = 3 blocks (all of them in thorough)
                wtd.append({"kind": "enum", "n": n, "assign": assign, "perm": perm, "weights": "all123", "part": part,
                            "psize": psize, "profile": profile})
    rnd = [_rand_case(Rng(seed, PID, "rand", i), i) for i in range({"quick": 200, "thorough": 3000}[tier])]
    # order: small exhaustive blocks, random data sets, then the big blocks (the search that follows a broken
    # obligation takes the first SEARCH_CAP cases of the thorough list)
    small = [c for c in unw if c["n"] <= 3]
    return small + rnd + [c for c in unw if c["n"] > 3] + wtd


SEARCH_CAP = 8 + 300


# ---------------------------------------------------------------------------------------------
# implementation side
# ---------------------------------------------------------------------------------------------
def _res(thunk):
    import numpy as np
    try:
        r = thunk()
    except Exception as e:  # noqa
        return ["exc", type(e).__name__]
    try:
        vals = [float(x) for x in np.asarray(r, dtype=float).reshape(-1)]
    except Exception as e:  # noqa
        return ["other", repr(r)[:80]]
    return ["ok", vals, int(np.ndim(r))]


def _datasets(case):
    k = 0
    for t, p, sf, wopts in _items(case):
        for w in wopts:
            yield k, t, p, sf, w
            k += 1



def _wcont(w, k=0):
    """the weights in one of the accepted containers; pandas containers carry NON-default index labels
    (rows must still pair with the weights by position)"""
    if w is None:
        return None
    w = list(w)
    n = len(w)
    if k % 3 == 0 or n == 0:
        return w
    import numpy as np, pandas as pd
    if k % 3 == 1:
        return np.array(w, dtype=float)
    perm = [(i * 3 + 1) % n for i in range(n)]
    if len(set(perm)) != n:
        perm = list(range(n - 1, -1, -1))
    if n == 1:
        perm = [7]
    return pd.Series([float(x) for x in w], index=perm)


def impl(case):
    import fairlearn.metrics as fm
    import sklearn.metrics as skm
    from fairlearn.metrics import MetricFrame
    profile = case.get("profile", "full")
    out = {"values": [], "dispatch": None, "frame_only": None}
    for k, t, p, sf, w in _datasets(case):
        row = []
        for label, fname, kw, mkey in _calls_for(profile, k):
            f = getattr(fm, fname)
            # containers: lists (the default of this property); weights omitted when None on even k
            if w is None and k % 2 == 0:
                row.append(_res(lambda: f(list(t), list(p), sensitive_features=list(sf), **kw)))
            else:
                row.append(_res(lambda: f(list(t), list(p), sensitive_features=list(sf),
                                          sample_weight=_wcont(w, k), **kw)))
        out["values"].append(row)
    if case.get("dispatch"):
        d = case["dispatch"]
        t, p, sf, wopts = _items(case)[0]
        w = wopts[0]
        f = getattr(fm, f"{d['base']}_{d['transform']}")
        kind = d["kind"]
        if kind == 0:
            th = lambda: f(list(t), list(p), sensitive_features=list(sf), sample_weight=_wcont(w, k + 1),
                           method=d["method"])
        elif kind == 1:
            th = lambda: f(list(t), list(p), method=d["method"], sample_weight=_wcont(w, k + 2),
                           sensitive_features=list(sf))
        elif kind == 2:
            th = lambda: f(list(t), list(p), sensitive_features=list(sf), method=d["method"])
        else:
            th = lambda: f(list(t), list(p), sensitive_features=list(sf), sample_weight=None, method=d["method"])
        out["dispatch"] = _res(th)
    if case.get("frame_only"):
        t, p, sf, wopts = _items(case)[0]
        w = wopts[0]
        fo = []
        for bname, tr in FRAME_ONLY:
            f = getattr(fm, f"{bname}_{tr}")
            base = getattr(skm, bname)
            sp = {} if w is None else {"sample_weight": list(w)}
            a = _res(lambda: f(list(t), list(p), sensitive_features=list(sf), **sp))
            b = _res(lambda: getattr(MetricFrame(metrics=base, y_true=list(t), y_pred=list(p),
                                                 sensitive_features=list(sf), sample_params=sp), tr)())
            fo.append([a, b])
        out["frame_only"] = fo
    return out


# ---------------------------------------------------------------------------------------------
# model side
# ---------------------------------------------------------------------------------------------
def _code(s):
    return ord(s)


def _gw(w):
    return gopt(w, lambda w_: glist([Fraction(x) for x in w_], gq))


def _gitem(it):
    t, p, sf, wopts = it
    return (f"({glist(t, gz)}, {glist(p, gz)}, {glist(map(_code, sf), gz)}, "
            f"{glist([_gw(w) for w in wopts])})")


_B = {"selection_rate": "BSel", "true_positive_rate": "BTpr", "true_negative_rate": "BTnr",
      "false_positive_rate": "BFpr", "false_negative_rate": "BFnr", "accuracy_score": "BAcc", "zero_one_loss": "BZol"}
_T = {"difference": "TDiff", "ratio": "TRatio"}
_M = {"between_groups": "Between", "to_overall": "ToOverall"}


def term(case, out):
    items = _items(case)
    s = f"run_block {glist(map(_gitem, items))}"
    if case.get("dispatch"):
        d = case["dispatch"]
        t, p, sf, wopts = items[0]
        s += (f" ++ run_dispatch {_B[d['base']]} {_T[d['transform']]} {gnat(d['kind'])} {_M[d['method']]} "
              f"{glist(t, gz)} {glist(p, gz)} {glist(map(_code, sf), gz)} {_gw(wopts[0])}")
    return s


def decode(case, zs):
    d = Dec(zs)
    vals = []
    for _ in _datasets(case):
        vals.append({k: d.opt(d.ext) for k in MODEL_KEYS})
    disp = d.opt(d.ext) if case.get("dispatch") else None
    d.done()
    return {"values": vals, "dispatch": disp}


# ---------------------------------------------------------------------------------------------
# comparison
# ---------------------------------------------------------------------------------------------
def _same(o, m):
    """implementation result o = ['ok', vals, ndim] against the model value m (Fraction / nan / inf)"""
    return len(o[1]) == 1 and num_close(o[1][0], m)


def _same_res(a, b):
    if a[0] != b[0]:
        return False
    if a[0] == "exc":
        return a[1] == b[1]
    if a[0] != "ok":
        return a == b
    if len(a[1]) != len(b[1]) or a[2] != b[2]:
        return False
    for x, y in zip(a[1], b[1]):
        if math.isnan(x) != math.isnan(y):
            return False
        if not math.isnan(x) and abs(x - y) > 1e-12 + 1e-12 * abs(y):
            return False
    return True


def compare(case, out, model):
    v = []
    seen = set()

    def add(sig, what, oracle, kind="property"):
        if sig not in seen:
            seen.add(sig)
            v.append((sig, what, oracle, kind))

    profile = case.get("profile", "full")
    ds = list(_datasets(case))
    if len(out["values"]) != len(ds) or model is None or len(model["values"]) != len(ds):
        return [(f"{PID}/harness/call-count", f"{len(ds)} data sets, {len(out['values'])} result rows",
                 "one result row per data set", "correspondence")]
    for (k, t, p, sf, w), row, mv in zip(ds, out["values"], model["values"]):
        calls = _calls_for(profile, k)
        for (label, fname, kw, mkey), o in zip(calls, row):
            m = mv[mkey]
            call = f"{fname}({t}, {p}, sensitive_features={sf}, sample_weight={w}, {kw})"
            if o[0] != "ok":
                if m is not None:
                    add(f"{PID}/{fname}/exception/raises-where-defined",
                        f"{call} -> {o[1]}; the definition gives {m}", "no exception on an input the definition accepts")
                continue
            if m is None:
                add(f"{PID}/{fname}/exception/accepts-rejected-input", f"{call} returned {o[1]}; the model rejects it",
                    "exception iff the model rejects", "correspondence")
                continue
            if o[2] != 0:
                add(f"{PID}/{fname}/scalar/non-scalar-result",
                    f"{call} returned an object of ndim {o[2]} ({o[1]})", "np.ndim(result) == 0")
            if not _same(o, m):
                add(f"{PID}/{fname}/value/differs-from-definition",
                    f"{call} returned {o[1]}; the first-principles value is {m}",
                    "value equals the aggregate of the per-group weighted rates computed from the rows")
    if case.get("dispatch"):
        d = case["dispatch"]
        o, m = out["dispatch"], model["dispatch"]
        fname = f"{d['base']}_{d['transform']}"
        call = f"{fname} keyword variant {d['kind']} method={d['method']} on {_items(case)[0]}"
        if o[0] != "ok":
            if m is not None:
                add(f"{PID}/{fname}/dispatch/raises-where-defined", f"{call} -> {o[1]}; the definition gives {m}",
                    "keyword dispatch: no exception")
        elif m is None or not _same(o, m) or o[2] != 0:
            add(f"{PID}/{fname}/dispatch/differs-from-frame-call", f"{call} returned {o[1:]}; the frame call gives {m}",
                "derived metric = MetricFrame call with the dispatched keyword arguments")
    if case.get("frame_only"):
        for (bname, tr), (a, b) in zip(FRAME_ONLY, out["frame_only"]):
            if not _same_res(a, b):
                add(f"{PID}/{bname}_{tr}/derived/differs-from-frame-call",
                    f"{bname}_{tr} on {_items(case)[0]} gives {a}; MetricFrame(metrics={bname}).{tr}() gives {b}",
                    "generated function = MetricFrame(metrics=base, sample_params).transform()")
    return v


# ---------------------------------------------------------------------------------------------
# evidence helpers
# ---------------------------------------------------------------------------------------------
def _ds_tags(t, p, sf, w):
    groups = sorted(set(sf))
    tg = [f"groups:{len(groups)}", "weighted" if w is not None else "unweighted", f"n:{min(len(t), 12)}"]
    sizes = [sum(1 for s in sf if s == g) for g in groups]
    if 1 in sizes:
        tg.append("single-member-group")
    if any(all(y == 0 for y, s in zip(t, sf) if s == g) for g in groups):
        tg.append("group-without-positives")
    if any(all(y == 1 for y, s in zip(t, sf) if s == g) for g in groups):
        tg.append("group-without-negatives")
    return tg


def tags(case, out, model):
    tg = [f"kind:{case['kind']}", f"profile:{case.get('profile', 'full')}"]
    for k, t, p, sf, w in _datasets(case):
        tg += ["ds:" + x for x in _ds_tags(t, p, sf, w)]
    if model is not None:
        for mv in model["values"]:
            if any(isinstance(x, float) and math.isnan(x) for x in mv.values()):
                tg.append("ds:some-ratio-nan")
    return tg


def nontrivial(case, out, model):
    if model is None:
        return False
    for mv in model["values"]:
        a = mv["selection_rate/difference/between_groups"]
        b = mv["true_positive_rate/difference/between_groups"]
        if (a is not None and a != 0) or (b is not None and b != 0):
            return True
    return False


def canon(case):
    return {k: v for k, v in case.items() if not k.startswith("_")}


def shrink(case):
    items = _items(case)
    base = dict(case, items=items, profile="all")
    if len(items) > 1:
        h = len(items) // 2
        yield dict(base, items=items[:h])
        yield dict(base, items=items[h:])
        if len(items) <= 8:
            for i in range(len(items)):
                yield dict(base, items=items[:i] + items[i + 1:])
        return
    t, p, sf, wopts = items[0]
    if len(wopts) > 1:
        h = len(wopts) // 2
        yield dict(base, items=[[t, p, sf, wopts[:h]]])
        yield dict(base, items=[[t, p, sf, wopts[h:]]])
        return
    w = wopts[0]
    if len(t) > 1:
        for i in range(len(t)):
            w2 = None if w is None else w[:i] + w[i + 1:]
            yield dict(base, items=[[t[:i] + t[i + 1:], p[:i] + p[i + 1:], sf[:i] + sf[i + 1:], [w2]]])
    if w is not None:
        yield dict(base, items=[[t, p, sf, [None]]])
