"""C11 -- sample weights mean multiplicity: weight k is k copies of the row."""
from __future__ import annotations
import math
from fractions import Fraction
from harness.core import Rng, gz, gq, glist, Dec, num_close

PID = "C11"
VO = ["theories/Metrics/BaseRates.vo", "theories/Metrics/BaseRates_proofs.vo", "theories/Metrics/Weights.vo",
      "theories/Metrics/Weights_proofs.vo", "theories/Base/Flat.vo"]
PROPS_FILES = ["props/C11.v"]
TRANSLATORS = ["t_labels"]
REQUIRES = ["From FL Require Import Num Flat BaseRates Weights."]
SHARD = 25
CHUNK = 4
CASE_TIMEOUT = 300

LEVEL_TEXT = ("Proof (Coq): for the four confusion-matrix rates (label function regenerated from the source), "
              "selection_rate and mean_prediction: integer weight k = k unit-weight copies with the weights omitted, "
              "multiplying all weights by c > 0 changes nothing, omitted weights = all ones; slicing rows by a group "
              "mask commutes with replication and rescaling, hence the same per group (single weighted-row groups "
              "included). Tie to the code: translator t_labels + differential run: the implementation is run "
              "weighted / replicated / rescaled / omitted / all-ones for the six base metrics, MetricFrame with "
              "sample_params (callable and dict metrics) and the six named fairness metrics; base-metric and "
              "by-group values are also compared with the model.")
LEVEL_NOTE = ("Trusted: Coq kernel + vm_compute; translator t_labels; sklearn confusion_matrix / numpy dot modelled; "
              "MetricFrame's group slicing is modelled as a boolean mask (select); the aggregation of by-group values "
              "into the named fairness metrics is not modelled: for those the oracle is the metamorphic relation on "
              "the implementation only.")
TECHNIQUE = "Coq proofs (replication / rescaling / slicing lemmas) + metamorphic and differential runs of the implementation"
TRUSTED = ["Coq 8.16.1 kernel and vm_compute", "translators/t_labels.py", "harness/props/c11.py (generators, comparison)",
           "sklearn.metrics.confusion_matrix, numpy dot, pandas group-by (modelled / exercised)",
           "no axioms (Print Assumptions: closed)"]
ASSUMPTIONS = ["labels are 0/1 (pos_label left to its default); the encoding side is C14",
               "integer weights 1..4, scalings 1/2, 3, 7/4 (exact in binary floating point); results compared with "
               "atol = rtol = 1e-9"]
RULE = ("cases: random data sets of 1..10 rows over 1..3 groups (a single-row group forced in a third of the cases) "
        "with integer weights 1..4 and a scaling c; kinds rotate base / frame-dict / frame-callable / fairness; "
        "non-trivial = some weight differs from another (not all equal) and some weight exceeds 1")
EXHAUSTIVE = {"quick": False, "thorough": False}

SIX = ["true_positive_rate", "false_negative_rate", "false_positive_rate", "true_negative_rate",
       "selection_rate", "mean_prediction"]
FAIR = ["demographic_parity_difference", "demographic_parity_ratio", "equalized_odds_difference",
        "equalized_odds_ratio", "equal_opportunity_difference", "equal_opportunity_ratio"]
VARIANTS = ["weighted", "replicated", "scaled", "omitted", "ones"]
SCALES = ["1/2", "3", "7/4", "1/1099511627776", "1048576"]   # incl. 2^-40 (tiny totals) and 2^20
KINDS = ["base", "frame-dict", "frame-callable", "fair"]


def cases(tier, seed):
    n = {"quick": 300, "thorough": 3000}[tier]
    out = []
    for i in range(n):
        r = Rng(seed, PID, i)
        kind = KINDS[i % 4]
        rows = r.randint(1, 10)
        ng = min(r.randint(1, 3), rows)
        sf = [r.randint(0, ng - 1) for _ in range(rows)]
        if (i // 4) % 3 == 0 and rows >= 2:
            # force a group that consists of a single (weighted) row; at most 3 groups in total
            pos = r.randint(0, rows - 1)
            keep = sorted({s for j, s in enumerate(sf) if j != pos})[:2]
            sf = [9 if j == pos else (s if s in keep else keep[0]) for j, s in enumerate(sf)]
        lv = sorted(set(sf))          # renumber the groups densely
        sf = [lv.index(s) for s in sf]
        yt = [r.randint(0, 1) for _ in range(rows)]
        yp = [r.randint(0, 1) for _ in range(rows)]
        ks = [r.randint(1, 4) for _ in range(rows)]
        if r.chance(1, 4):
            ks[r.randint(0, rows - 1)] = 4
        out.append({"kind": kind, "sf": sf, "y_true": yt, "y_pred": yp, "ks": ks, "c": r.choice(SCALES),
                    "metric": r.choice(SIX), "method": r.choice(["between_groups", "to_overall"]),
                    "agg": r.choice(["worst_case", "mean"])})
    return out


def _val(x):
    import numpy as np
    a = np.asarray(x, dtype=float).reshape(-1)
    return [[float(v) for v in a], int(np.ndim(x))]


def _try(f):
    try:
        return ["ok"] + _val(f())
    except Exception as e:  # noqa
        return ["exc", type(e).__name__ + ": " + str(e)[:120]]


def impl(case):
    import numpy as np
    import fairlearn.metrics as fm
    yt, yp = np.array(case["y_true"]), np.array(case["y_pred"])
    ks = np.array(case["ks"])
    sfc = np.array(case["sf"])
    # sensitive features travel as plain lists: a ONE-element ndarray is rejected by MetricFrame
    # ("Feature array has too many dimensions", np.squeeze in _process_features) with or without
    # weights -- a container matter outside this property (reported separately)
    sf = [f"g{s}" for s in case["sf"]]
    c = float(Fraction(case["c"]))
    w = ks.astype(float)
    ryt, ryp, rsf = np.repeat(yt, ks), np.repeat(yp, ks), [str(x) for x in np.repeat(np.array(sf), ks)]
    # (y_true, y_pred, sensitive, weights or None) per variant
    import pandas as pd
    n_ = len(yt)
    perm = [(i * 5 + 2) % n_ for i in range(n_)]
    if len(set(perm)) != n_:
        perm = list(range(n_ - 1, -1, -1))
    # implementation-only variants (no model counterpart): the weights in a pandas Series whose index labels
    # are a permutation (rows must still pair by position), and a second use of the very same argument objects
    data = {"weighted": (yt, yp, sf, w), "replicated": (ryt, ryp, rsf, None), "scaled": (yt, yp, sf, c * w),
            "omitted": (yt, yp, sf, None), "ones": (yt, yp, sf, np.ones(len(yt))),
            "weighted_labelled": (yt, yp, sf, pd.Series(w, index=perm)),
            "weighted_again": (yt, yp, sf, w),
            # column-shaped (n,1) weights: selection_rate / mean_prediction squeeze them explicitly (the four
            # rates hand weights to sklearn, which rejects 2-D weights: they get the 1-D weights here)
            "weighted_column": (yt, yp, sf, w.reshape(-1, 1))}
    sp_first = {}
    kind = case["kind"]
    res = {}
    if kind == "base":
        for name in SIX:
            f = getattr(fm, name)
            res[name] = {}
            for vn, (a, b, _, sw) in data.items():
                # the weighted call receives the weights as a plain list of ints for half of the metrics
                sw_ = sw if (sw is None or vn != "weighted" or SIX.index(name) % 2) else [int(k) for k in ks]
                if vn == "weighted_column" and name not in ("selection_rate", "mean_prediction"):
                    sw_ = w
                res[name][vn] = _try(lambda: f(a, b) if sw_ is None else f(a, b, sample_weight=sw_))
        return res
    if kind in ("frame-dict", "frame-callable"):
        names = SIX if kind == "frame-dict" else [case["metric"]]
        for vn, (a, b, s, sw) in data.items():
            try:
                if kind == "frame-dict":
                    metrics = {n: getattr(fm, n) for n in names}
                    sp = None if sw is None else {n: {"sample_weight": sw} for n in names}
                else:
                    metrics = getattr(fm, names[0])
                    sp = None if sw is None else {"sample_weight": sw}
                if vn == "weighted":
                    sp_first["sp"] = sp
                elif vn == "weighted_again":
                    sp = sp_first.get("sp", sp)       # the SAME dict object a second time
                mf = fm.MetricFrame(metrics=metrics, y_true=a, y_pred=b, sensitive_features=s, sample_params=sp)
                ov, bg = mf.overall, mf.by_group
                for n in names:
                    o = ov[n] if kind == "frame-dict" else ov
                    col = bg[n] if kind == "frame-dict" else bg
                    res.setdefault(n, {})[vn] = {"overall": ["ok"] + _val(o),
                                                 "groups": {str(g): ["ok"] + _val(col[g]) for g in col.index}}
            except Exception as e:  # noqa
                for n in names:
                    res.setdefault(n, {})[vn] = {"overall": ["exc", type(e).__name__ + ": " + str(e)[:120]],
                                                 "groups": {}}
        return res
    if kind == "fair":
        for name in FAIR:
            f = getattr(fm, name)
            kw = {"method": case["method"]}
            if name.startswith("equalized_odds"):
                kw["agg"] = case["agg"]
            res[name] = {}
            for vn, (a, b, s, sw) in data.items():
                res[name][vn] = _try(lambda: f(a, b, sensitive_features=s, sample_weight=sw, **kw))
        return res
    raise ValueError(kind)


def term(case, out):
    groups = sorted(set(case["sf"]))
    ks = glist([f"{int(k)}%positive" for k in case["ks"]])
    return (f"c11_eval {gq(Fraction(case['c']))} {glist(groups, gz)} {glist(case['sf'], gz)} "
            f"{glist(case['y_true'], gz)} {glist(case['y_pred'], gz)} {ks}")


def decode(case, zs):
    d = Dec(zs)
    groups = sorted(set(case["sf"]))

    def six():
        vals = {}
        for i, n in enumerate(SIX):
            vals[n] = d.opt(d.q) if i < 4 else d.opt(d.ext)
        return vals

    def view():
        return {vn: six() for vn in VARIANTS}

    res = {"overall": view(), "groups": {f"g{g}": view() for g in groups}}
    d.done()
    return res


def _same(a, b):
    """two implementation results agree (both raised, or equal scalars up to tolerance, nan = nan)"""
    if a[0] != b[0]:
        return False
    if a[0] == "exc":
        return True
    if len(a[1]) != len(b[1]):
        return False
    for x, y in zip(a[1], b[1]):
        if math.isnan(x) or math.isnan(y):
            if not (math.isnan(x) and math.isnan(y)):
                return False
        elif math.isinf(x) or math.isinf(y):
            if x != y:
                return False
        elif abs(x - y) > 1e-9 + 1e-9 * abs(y):
            return False
    return True


def _vs_model(a, m):
    if a[0] == "exc":
        return m is None
    if m is None:
        return False
    return len(a[1]) == 1 and num_close(a[1][0], m)


REL = [("weighted", "replicated", "weight k differs from k unit-weight copies"),
       ("weighted", "scaled", "rescaling all weights changes the result"),
       ("omitted", "ones", "omitted weights differ from all-ones weights"),
       ("weighted", "weighted_labelled", "weights carried in a pandas Series with permuted index labels are not "
                                         "paired with the rows by position"),
       ("weighted", "weighted_again", "a second call with the very same argument objects gives another result"),
       ("weighted", "weighted_column", "weights given as an (n,1) column differ from the same weights as a vector")]


def compare(case, out, model):
    v = []
    seen = set()

    def add(sig, what, oracle, kind="property"):
        if sig not in seen:
            seen.add(sig)
            v.append((sig, what, oracle, kind))

    kind = case["kind"]
    if kind in ("base", "fair"):
        for name, per in out.items():
            meta_ok = True
            for a, b, msg in REL:
                if not _same(per[a], per[b]):
                    meta_ok = False
                    add(f"{PID}/{name}/{b}/differs-from-{a}", f"{name}: {msg}: {a} -> {per[a][1:]}, {b} -> {per[b][1:]}",
                        f"{name}({a}) = {name}({b})")
            for vn in VARIANTS:
                if per[vn][0] == "ok" and per[vn][2] != 0:
                    add(f"{PID}/{name}/{vn}/non-scalar-result", f"{name} ({vn}) returned ndim {per[vn][2]}: {per[vn][1]}",
                        "np.ndim(result) == 0")
            if kind == "base":
                for vn in VARIANTS:
                    m = model["overall"][vn][name]
                    if not _vs_model(per[vn], m):
                        add(f"{PID}/{name}/{vn}/differs-from-model",
                            f"{name} ({vn}) returned {per[vn][1:]}; the model gives {m}",
                            "value equals the model value", "correspondence" if meta_ok else "property")
        return v
    for name, per in out.items():
        label = f"MetricFrame[{'dict' if kind == 'frame-dict' else 'callable'}].{name}"
        meta_ok = True
        for a, b, msg in REL:
            if not _same(per[a]["overall"], per[b]["overall"]):
                meta_ok = False
                add(f"{PID}/{label}/overall-{b}/differs-from-{a}",
                    f"{label}.overall: {msg}: {per[a]['overall'][1:]} vs {per[b]['overall'][1:]}", "overall values agree")
            ga, gb = per[a]["groups"], per[b]["groups"]
            if set(ga) != set(gb):
                meta_ok = False
                add(f"{PID}/{label}/by_group-{b}/group-set-differs", f"groups {sorted(ga)} vs {sorted(gb)}",
                    "same groups")
                continue
            for g in ga:
                if not _same(ga[g], gb[g]):
                    meta_ok = False
                    single = case["sf"].count(int(g[1:])) == 1
                    add(f"{PID}/{label}/by_group-{b}/differs-from-{a}",
                        f"{label}.by_group[{g}]{' (single-row group)' if single else ''}: {msg}: "
                        f"{ga[g][1:]} vs {gb[g][1:]}", "by_group values agree group by group")
        for vn in VARIANTS:
            views = [("overall", per[vn]["overall"], model["overall"][vn][name])]
            views += [(g, r, model["groups"][g][vn][name]) for g, r in per[vn]["groups"].items()
                      if g in model["groups"]]
            for where, r, m in views:
                if r[0] == "ok" and r[2] != 0:
                    add(f"{PID}/{label}/{vn}/non-scalar-cell", f"{label} ({vn}) [{where}] holds an array: {r[1]}",
                        "every cell is a scalar")
                if not _vs_model(r, m):
                    add(f"{PID}/{label}/{vn}/differs-from-model",
                        f"{label} ({vn}) [{where}] = {r[1:]}; the model gives {m}", "value equals the model value",
                        "correspondence" if meta_ok else "property")
    return v


def tags(case, out, model):
    sizes = [case["sf"].count(g) for g in set(case["sf"])]
    return [f"kind:{case['kind']}", f"rows:{len(case['sf'])}", f"groups:{len(sizes)}",
            f"single-row-group:{1 in sizes}", f"scale:{case['c']}"]


def nontrivial(case, out, model):
    ks = case["ks"]
    return max(ks) > 1 and (len(ks) == 1 or len(set(ks)) > 1)


def canon(case):
    return {k: v for k, v in case.items() if not k.startswith("_")}


def shrink(case):
    n = len(case["sf"])
    cols = ["sf", "y_true", "y_pred", "ks"]
    if n > 1:
        for i in range(n):
            c = dict(case)
            for k in cols:
                c[k] = case[k][:i] + case[k][i + 1:]
            lv = sorted(set(c["sf"]))
            c["sf"] = [lv.index(s) for s in c["sf"]]
            yield c
    for i in range(n):
        if case["ks"][i] > 1:
            c = dict(case)
            c["ks"] = case["ks"][:i] + [case["ks"][i] - 1] + case["ks"][i + 1:]
            yield c
