"""C12 -- rows are matched by position, not by container type, index label or row order."""
from __future__ import annotations
from fractions import Fraction
from harness.core import Rng, gz, gq, glist, Dec, num_close

PID = "C12"
VO = ["theories/Misc/Containers.vo", "theories/Misc/Containers_proofs.vo", "theories/Base/Flat.vo",
      "theories/Metrics/Disagg.vo", "theories/Metrics/Disagg_proofs.vo", "theories/Metrics/Disagg_ext.vo",
      "theories/Metrics/Disagg_perm.vo", "theories/Misc/Ingest.vo", "theories/Misc/Ingest_proofs.vo"]
PROPS_FILES = ["props/C12.v"]
TRANSLATORS = ["t_ingest"]
REQUIRES = ["From FL Require Import Num Flat ListX Containers Disagg Disagg_ext."]
SHARD = 100
CHUNK = 1
CASE_TIMEOUT = 600
SEARCH_CAP = 90       # cases searched after a broken obligation (thorough generator, next seed)

LEVEL_TEXT = ("Proof (Coq) of the three halves of the property on a model of positional ingestion and group-wise "
              "statistics: containers with equal values give equal rows whatever their kind / index labels "
              "(position_invariance; label alignment is shown to be a different function on the index schemes used), "
              "joint row permutation leaves the index and every group's count / weight sum / weighted value sum "
              "unchanged (perm_invariance), an injective renaming of group labels renames exactly the index entries "
              "(relabel_equivariance). The last two are ALSO proved on the real MetricFrame model of C01 "
              "(Disagg.mf_by_group / mf_overall, any value / cell type and metric family): "
              "C12_metricframe_perm_invariance (joint permutation of y_true, y_pred, every sample parameter and "
              "feature column by an index list: by_group and overall are equal tables, for callables that are "
              "invariant under joint permutation of their argument columns), C12_metricframe_relabel (strictly "
              "monotone renaming of one sensitive feature's codes: the same table with that key component renamed) "
              "and C12_metricframe_relabel_injective (any injective renaming: equal up to the order of the index); "
              "the MetricFrame cases evaluate that model (Disagg_ext.apply_perm / perm_spec / perm_cols) on the "
              "original, the permuted and the relabelled data against the implementation. 'Every entry point consumes "
              "containers by position' is an OBLIGATION on the source: translators/t_ingest.py (fail closed, ast only) "
              "executes MetricFrame.__init__, load_data of the five parity moments and of ErrorRate, ThresholdOptimizer.fit and "
              "InterpolatedThresholder._pmf_predict with every helper of the anchored files abstractly over the "
              "provenance of row data (positional / default-index pandas / labelled pandas / caller's container) and "
              "regenerates the table of ingestion sites (pandas constructors, stores into frames and column dicts, "
              "conversions to arrays, .index assignments: 33 sites); C12_ingestion_sites_positional proves the "
              "regenerated table equal to the expected one with every site positional, and "
              "C12_entry_points_by_position that every analysed entry point therefore computes on "
              "Containers.by_position of the containers reaching its sites, so position_invariance applies "
              "(C12_labelled_site_not_invariant: one labelled site breaks it). The property is about glue, so the deciding weight is the correspondence: every "
              "entry point (MetricFrame, fairness metrics, the parity moments, ThresholdOptimizer fit+predict, "
              "GridSearch, ExponentiatedGradient) is run on the same data presented in container x index-label "
              "variants per argument (list, ndarray, Series, one-column DataFrame named 0 / named, dict of arrays; "
              "default, shuffled, offset, reversed, all-duplicate, string index) and every variant must equal both the "
              "all-ndarray baseline and the Coq model's group statistics computed from the positional values.")
LEVEL_NOTE = ("Trusted: Coq kernel + vm_compute; harness/props/c12.py (variant construction, comparison); "
              "translators/t_ingest.py (its provenance rules for numpy / pandas / sklearn calls: np.asarray, list, "
              ".values, check_array give positional arrays, pd.Series / pd.DataFrame of those a default index, "
              "element-wise pandas operations keep the index kind). pandas / "
              "numpy conversion functions are modelled as 'strip to the value list' and validated only by the run. "
              "EG / GridSearch / ThresholdOptimizer variants are compared with the baseline run (no Coq model of them "
              "in this property).")
TECHNIQUE = "Coq theorems on a positional-ingestion + group-statistics model; differential run over container/index variants"
TRUSTED = ["Coq 8.16.1 kernel and vm_compute", "harness/props/c12.py", "pandas/numpy conversions (modelled as "
           "positional)", "translators/t_ingest.py (provenance rules of the numpy / pandas / sklearn calls it knows)",
           "no axioms (Print Assumptions: closed)"]
ASSUMPTIONS = ["metrics used in the MetricFrame runs are ratios of the three group sums of the model "
               "(count, selection_rate = mean_prediction on binary predictions, with sample weights)",
               "t_ingest: a dict given to MetricFrame as sensitive_features / control_features holds 1d arrays (as "
               "documented); a dict of pandas Series with different index labels is aligned by label by "
               "pd.DataFrame.from_dict (_metric_frame.py, _process_features) and is outside the checked domain",
               "t_ingest: the user's estimator may return any container (_get_soft_predictions is RAW); sklearn "
               "check_array returns an ndarray"]
RULE = ("one case = one random dataset x one entry point x ~60..130 variants (each argument alone in every container "
        "kind x index scheme, plus random all-argument combinations, a joint row permutation and a label bijection); "
        "non-trivial = at least one variant carries non-default index labels and the data have >= 2 groups with "
        "different statistics")
EXHAUSTIVE = {"quick": False, "thorough": False}

KINDS = ["list", "ndarray", "Series", "DataFrame0", "DataFrameN"]
SCHEMES = ["default", "shuffled", "offset", "reversed", "dup", "strings"]
ENTRIES = ["mf", "mf", "fm", "moment", "moment", "to", "to", "gs", "eg"]


def _single_variants(args):
    out = []
    for a in args:
        for k in KINDS:
            if k in ("list", "ndarray"):
                out.append({a: [k, "default"]})
            else:
                for s in SCHEMES:
                    out.append({a: [k, s]})
    return out


def cases(tier, seed):
    n_cases = {"quick": 36, "thorough": 360}[tier]
    out = []
    for i in range(n_cases):
        r = Rng(seed, PID, i)
        entry = ENTRIES[i % len(ENTRIES)]
        n = r.randint(6, 12)
        ng = r.randint(2, 3)
        groups = [r.choice(["a", "b", "c"][:ng]) for _ in range(n)]
        groups[0], groups[1] = "a", "b"
        # both labels in each group (ThresholdOptimizer guard) for to; harmless elsewhere
        y = [r.randint(0, 1) for _ in range(n)]
        if entry == "to":
            rows = []
            for g in sorted(set(groups)):
                rows += [(g, 0), (g, 1)]
            while len(rows) < n:
                rows.append((r.choice(sorted(set(groups))), r.randint(0, 1)))
            r.shuffle(rows)
            groups = [g for g, _ in rows]; y = [l for _, l in rows]; n = len(rows)
        yp = [r.randint(0, 1) for _ in range(n)]
        score = [r.randint(0, 4) for _ in range(n)]
        w = [r.choice([1, 2, 3, 1, 1]) for _ in range(n)]
        cf = [r.choice(["x", "y"]) for _ in range(n)] if r.chance(1, 3) and entry in ("mf", "moment") else None
        args = {"mf": ["y_true", "y_pred", "sw", "sf"] + (["cf"] if cf else []),
                "fm": ["y_true", "y_pred", "sw", "sf"],
                "moment": ["X", "y_true", "sf"] + (["cf"] if cf else []),
                "to": ["X", "y_true", "sf", "Xq", "sfq"],
                "gs": ["X", "y_true", "sf"], "eg": ["X", "y_true", "sf"]}[entry]
        var = _single_variants(args)
        if entry in ("gs", "eg"):       # fits are slower: sample the single-argument variants
            var = r.sample(var, 14 if tier == "quick" else 30)
        elif entry in ("to",) and tier == "quick":
            must = [v for v in var if "y_true" in v]
            var = must + r.sample([v for v in var if "y_true" not in v], 40)
        elif tier == "quick":
            var = r.sample(var, 60)
        for _ in range(6 if entry in ("gs", "eg") else 20):
            v = {}
            for a in args:
                k = r.choice(KINDS)
                v[a] = [k, "default" if k in ("list", "ndarray") else r.choice(SCHEMES)]
            var.append(v)
        if entry in ("mf", "fm"):
            v = {a: ["dict" if a in ("sf", "cf") else "ndarray", "default"] for a in args}
            var.append(v)
        perm = list(range(n)); r.shuffle(perm)
        out.append({"entry": entry, "y": y, "yp": yp, "score": score, "w": w, "sf": groups, "cf": cf,
                    "variants": var, "perm": perm, "vseed": r.randint(0, 10 ** 9),
                    "moment": r.choice(["DemographicParity", "TruePositiveRateParity", "EqualizedOdds",
                                        "ErrorRateParity", "FalsePositiveRateParity"]),
                    "constraint": "equalized_odds" if (i // len(ENTRIES)) % 2 == 0 and i % len(ENTRIES) == 5 else
                    r.choice(["demographic_parity", "equalized_odds", "true_positive_rate_parity",
                              "false_negative_rate_parity", "selection_rate_parity"])})
    return out


# ------------------------------------------------------------------ implementation side
def _index(n, scheme, rng):
    import numpy as np
    if scheme == "default":
        return None
    if scheme == "shuffled":
        return list(rng.permutation(n))
    if scheme == "offset":
        return list(range(100, 100 + n))
    if scheme == "reversed":
        return list(range(n - 1, -1, -1))
    if scheme == "dup":
        return [0] * n
    if scheme == "strings":
        return [f"r{j}" for j in rng.permutation(n)]
    raise ValueError(scheme)


def _wrap(values, kind, scheme, rng, name="v"):
    """values: list (1-D) or list of lists (2-D feature matrix)"""
    import numpy as np, pandas as pd
    arr = np.array(values)
    n = len(values)
    idx = _index(n, scheme, rng)
    if arr.ndim == 2:       # X: only ndarray / DataFrame are accepted containers
        if kind in ("list", "ndarray"):
            return arr
        cols = ["s", "c"][:arr.shape[1]] if kind != "DataFrame0" else list(range(arr.shape[1]))
        return pd.DataFrame(arr, columns=cols, index=idx)
    if kind == "list":
        return list(values)
    if kind == "ndarray":
        return arr
    if kind == "Series":
        return pd.Series(arr, index=idx, name=name)
    if kind == "DataFrame0":
        return pd.DataFrame({0: arr}, index=idx)
    if kind == "DataFrameN":
        return pd.DataFrame({name: arr}, index=idx)
    if kind == "dict":
        return {name: arr}
    raise ValueError(kind)


def _canon_frame(obj):
    """pandas result -> sorted list of (key, value)"""
    import pandas as pd, numpy as np
    out = []
    def ks(k):
        return "/".join(str(x) for x in k) if isinstance(k, tuple) else str(k)
    if isinstance(obj, pd.DataFrame):
        for col in obj.columns:
            for k, v in obj[col].items():
                out.append([str(col) + "|" + ks(k), float(v)])
    elif isinstance(obj, pd.Series):
        for k, v in obj.items():
            out.append([ks(k), float(v)])
    else:
        out.append(["", float(obj)])
    return sorted(out)


def _run_entry(case, spec, rng, perm=None, relabel=None):
    import numpy as np, pandas as pd
    entry = case["entry"]
    def col(name):
        v = case[name]
        if v is None:
            return None
        v = list(v)
        if perm is not None:
            v = [v[p] for p in perm]
        return v
    y, yp, score, w, sf, cf = col("y"), col("yp"), col("score"), col("w"), col("sf"), col("cf")
    if relabel:
        sf = [relabel[g] for g in sf]
    n = len(y)
    def W(arg, values, name):
        k, s = spec.get(arg, ["ndarray", "default"])
        if entry in ("mf", "fm") and arg in ("sf", "cf") and k == "DataFrame0":
            k = "DataFrameN"      # MetricFrame rejects non-string feature (column) names by design (C20)
        return _wrap(values, k, s, rng, name)
    Xv = [[float(score[i]), float(i % 2)] for i in range(n)]
    if entry == "mf":
        from fairlearn.metrics import MetricFrame, selection_rate, mean_prediction, count
        sw = W("sw", [float(x) for x in w], "sw")
        mf = MetricFrame(metrics={"sr": selection_rate, "mp": mean_prediction, "cnt": count},
                         y_true=W("y_true", y, "yt"), y_pred=W("y_pred", yp, "yp"),
                         sensitive_features=W("sf", sf, "sfeat"),
                         control_features=None if cf is None else W("cf", cf, "cfeat"),
                         sample_params={"sr": {"sample_weight": sw}, "mp": {"sample_weight": sw}})
        return {"by_group": _canon_frame(mf.by_group), "overall": _canon_frame(mf.overall),
                "diff": _canon_frame(mf.difference()), "ratio": _canon_frame(mf.ratio(method="to_overall"))}
    if entry == "fm":
        import fairlearn.metrics as fmx
        res = {}
        for fn in ("demographic_parity_difference", "demographic_parity_ratio", "equalized_odds_difference",
                   "equalized_odds_ratio", "equal_opportunity_difference", "true_positive_rate_difference",
                   "selection_rate_difference", "accuracy_score_group_min"):
            res[fn] = float(getattr(fmx, fn)(W("y_true", y, "yt"), W("y_pred", yp, "yp"),
                                             sensitive_features=W("sf", sf, "sfeat"),
                                             sample_weight=W("sw", [float(x) for x in w], "sw")))
        return res
    if entry == "moment":
        import fairlearn.reductions as red
        m = getattr(red, case["moment"])()
        kw = {"sensitive_features": W("sf", sf, "sfeat")}
        if cf is not None:
            kw["control_features"] = W("cf", cf, "cfeat")
        m.load_data(W("X", Xv, "X"), W("y_true", y, "yt"), **kw)
        h = lambda X_: (np.asarray(X_)[:, 0] >= 2).astype(float)
        g = m.gamma(h)
        lam = pd.Series([(j % 3) / 2.0 for j in range(len(m.index))], index=m.index)
        sw_ = m.signed_weights(lam)
        return {"gamma": _canon_frame(g), "sw": [float(v) for v in np.asarray(sw_)],
                "bound": _canon_frame(m.bound())}
    if entry == "to":
        from fairlearn.postprocessing import ThresholdOptimizer
        from harness.learners import PassThrough
        to = ThresholdOptimizer(estimator=PassThrough(), constraints=case["constraint"], prefit=True,
                                predict_method="predict", grid_size=9)
        to.fit(W("X", Xv, "X"), W("y_true", y, "yt"), sensitive_features=W("sf", sf, "sfeat"))
        p = to._pmf_predict(W("Xq", Xv, "X"), sensitive_features=W("sfq", sf, "sfeat"))[:, 1]
        pr = to.predict(W("Xq", Xv, "X"), sensitive_features=W("sfq", sf, "sfeat"), random_state=7)
        return {"pmf": [float(v) for v in p], "pred": [float(v) for v in np.asarray(pr).reshape(-1)]}
    if entry in ("gs", "eg"):
        import fairlearn.reductions as red
        from harness.learners import ExactLearner
        Xb = [[float(score[i] >= 2), float(i % 2)] for i in range(n)]
        if entry == "gs":
            est = red.GridSearch(ExactLearner(), red.DemographicParity(), grid_size=5)
        else:
            est = red.ExponentiatedGradient(ExactLearner(), red.DemographicParity(), max_iter=4)
        est.fit(W("X", Xb, "X"), W("y_true", y, "yt"), sensitive_features=W("sf", sf, "sfeat"))
        Xq = np.array(Xb)
        if entry == "gs":
            return {"preds": [[float(v) for v in p.predict(Xq)] for p in est.predictors_],
                    "best": int(est.best_idx_), "lam": [[float(v) for v in est.lambda_vecs_[c]]
                                                         for c in est.lambda_vecs_.columns]}
        return {"pmf": [float(v) for v in est._pmf_predict(Xq)[:, 1]],
                "weights": [float(v) for v in est.weights_], "gap": float(est.best_gap_)}
    raise ValueError(entry)


def impl(case):
    import numpy as np
    rng = np.random.RandomState(case["vseed"] % (2 ** 31))
    res = {"variants": []}
    base = _run_entry(case, {}, rng)
    res["base"] = base
    for spec in case["variants"]:
        try:
            res["variants"].append({"ok": _run_entry(case, spec, rng)})
        except Exception as e:  # a variant that raises while the baseline works is a finding
            res["variants"].append({"exc": f"{type(e).__name__}: {str(e)[:200]}"})
    if case["entry"] in ("mf", "fm", "moment"):
        try:
            res["perm"] = {"ok": _run_entry(case, {}, rng, perm=case["perm"])}
        except Exception as e:
            res["perm"] = {"exc": f"{type(e).__name__}: {str(e)[:200]}"}
    if case["entry"] == "mf":
        rl = RELABEL
        try:
            res["relabel"] = {"ok": _run_entry(case, {}, rng, relabel=rl), "map": rl}
        except Exception as e:
            res["relabel"] = {"exc": f"{type(e).__name__}: {str(e)[:200]}"}
    return res


# ------------------------------------------------------------------ model side
def _codes(vals):
    lv = sorted(set(vals))
    return {v: i for i, v in enumerate(lv)}, lv


RELABEL = {"a": "zeta", "b": "alpha", "c": "mid"}
MF_METRICS = [("sr", 1, True), ("mp", 1, True), ("cnt", 0, False)]   # name, Disagg.metric_kind, weighted


def _gname(s_):
    return glist([ord(ch) for ch in s_], gz)


def _mf_term(case):
    """Disagg.mf_by_group / mf_overall on the positional data, on the jointly permuted data (permuted INSIDE
    Coq with Disagg_ext.apply_perm / perm_spec / perm_cols) and on the data with relabelled sensitive feature"""
    sf, cf = case["sf"], case["cf"]
    scm, _ = _codes(sf)
    rcm, _ = _codes([RELABEL[g] for g in sf])
    w = glist(case["w"], gz)
    ms = glist([f"(Build_metric_spec Z {_gname(nm)} {_gname(nm)} "
                + (f"[(n_sample_weight, {w})]" if weighted else "[]") + ")" for nm, _, weighted in MF_METRICS])
    kinds = glist([f"({_gname(nm)}, {gz(k)})" for nm, k, _ in MF_METRICS])
    sfs = f"[({_gname('sensitive_feature_0')}, {glist([scm[g] for g in sf], gz)})]"
    sfs_r = f"[({_gname('sensitive_feature_0')}, {glist([rcm[RELABEL[g]] for g in sf], gz)})]"
    if cf:
        ccm, _ = _codes(cf)
        cfs = f"[({_gname('control_feature_0')}, {glist([ccm[g] for g in cf], gz)})]"
    else:
        cfs = "[]"
    pi = "[" + "; ".join(str(p) for p in case["perm"]) + "]%nat"
    return (f"(let yt := {glist(case['y'], gz)} in let yp := {glist(case['yp'], gz)} in let ms := {ms} in "
            f"let sfs := {sfs} in let cfs := {cfs} in let pi := {pi} in let f := fnc {kinds} in "
            f"let id := (fun z : Z => z) in "
            f"enc_table (mf_by_group Z id ccell f yt yp ms sfs cfs) ++ enc_table (mf_overall Z id ccell f yt yp ms sfs cfs) "
            f"++ enc_table (mf_by_group Z id ccell f (apply_perm pi yt) (apply_perm pi yp) (map (perm_spec pi) ms) "
            f"(perm_cols pi sfs) (perm_cols pi cfs)) "
            f"++ enc_table (mf_overall Z id ccell f (apply_perm pi yt) (apply_perm pi yp) (map (perm_spec pi) ms) "
            f"(perm_cols pi sfs) (perm_cols pi cfs)) "
            f"++ enc_table (mf_by_group Z id ccell f yt yp ms {sfs_r} cfs))")


def term(case, out):
    if case["entry"] not in ("mf", "fm", "moment"):
        return None
    t = _stats_term(case)
    if case["entry"] == "mf":
        t = f"({t}) ++ {_mf_term(case)}"
    return t


def _stats_term(case):
    sf, cf = case["sf"], case["cf"]
    keys = [(c, s) for c, s in zip(cf, sf)] if cf else [(s,) for s in sf]
    cm, lv = _codes(keys)
    if case["entry"] == "moment":
        val = [Fraction(1 if s >= 2 else 0) for s in case["score"]]
        w = [Fraction(1)] * len(sf)
    else:
        val = [Fraction(v) for v in case["yp"]]
        w = [Fraction(x) for x in case["w"]]
    g = glist([cm[k] for k in keys], gz)
    return (f"let rows := zip3 {g} {glist(val, gq)} {glist(w, gq)} in "
            f"enc_list (fun kv => enc_z (fst kv) ++ enc_nat (fst (snd kv)) ++ enc_q (fst (snd (snd kv))) ++ "
            f"enc_q (snd (snd (snd kv)))) (Containers.by_group rows)")


def decode(case, zs):
    d = Dec(zs)
    items = d.list(lambda: (d.z(), d.nat(), d.q(), d.q()))
    res = {"stats": [[g, c, ws, wv] for g, c, ws, wv in items]}
    if case["entry"] == "mf":
        from harness.props.c01 import _dtable
        for k in ("by_group", "overall", "perm_by_group", "perm_overall", "relabel_by_group"):
            res[k] = _dtable(d)
    d.done()
    return res


def _model_canon(table, levels):
    """Disagg table -> the sorted (key string, value) list of _canon_frame; levels = per key component the
    sorted label list"""
    out = []
    if table is None:
        return None
    for key, row in table:
        ks = "/".join(str(lv[c]) for c, lv in zip(key, levels))
        for nm, _, _ in MF_METRICS:
            v = float("nan") if row is None else row.get(nm)
            if v == "nan":
                v = float("nan")
            out.append([(f"{nm}|{ks}" if key else nm), v])
    return sorted(out, key=lambda kv: kv[0])


def _canon_close(impl_items, model_items, tol):
    if model_items is None or len(impl_items) != len(model_items):
        return False
    for (ki, vi), (km, vm) in zip(sorted(impl_items, key=lambda kv: kv[0]), model_items):
        if ki != km or isinstance(vm, (str, list)) or not num_close(vi, vm, tol, tol):
            return False
    return True


def _close_struct(a, b, tol=1e-9):
    if isinstance(a, dict) and isinstance(b, dict):
        return a.keys() == b.keys() and all(_close_struct(a[k], b[k], tol) for k in a)
    if isinstance(a, (list, tuple)) and isinstance(b, (list, tuple)):
        return len(a) == len(b) and all(_close_struct(x, y, tol) for x, y in zip(a, b))
    if isinstance(a, str) or isinstance(b, str):
        return a == b
    if isinstance(a, (int, float)) and isinstance(b, (int, float)):
        return num_close(a, b, tol, tol)
    return a == b


def compare(case, out, model):
    v = []
    entry = case["entry"]
    base = out["base"]
    tol = 1e-9
    for spec, r in zip(case["variants"], out["variants"]):
        nondef = {a: ks for a, ks in spec.items() if ks != ["ndarray", "default"]}
        if "exc" in r:
            v.append((f"{PID}/{entry}/variant/raises", f"variant {nondef} raises {r['exc']} while the all-ndarray "
                      f"baseline works", "every accepted container / index variant gives the baseline result",
                      "property"))
            break
        if not _close_struct(r["ok"], base, tol):
            v.append((f"{PID}/{entry}/variant/differs-from-baseline", f"variant {nondef} gives a different result",
                      "every accepted container / index variant gives the baseline result", "property"))
            break
    if "perm" in out:
        r = out["perm"]
        if "exc" in r:
            v.append((f"{PID}/{entry}/row-permutation/raises", r["exc"], "joint row permutation", "property"))
        else:
            a, b = dict(r["ok"]), dict(base)
            if entry == "moment":         # signed weights are permuted with the rows
                sw = a.pop("sw"); sw0 = b.pop("sw")
                if not _close_struct(sw, [sw0[p] for p in case["perm"]], tol):
                    v.append((f"{PID}/moment/row-permutation/signed-weights-not-permuted", "signed weights of the "
                              "permuted data are not the permuted signed weights", "perm_invariance", "property"))
            if not _close_struct(a, b, tol):
                v.append((f"{PID}/{entry}/row-permutation/changes-result", "jointly permuting all rows changes the "
                          "result", "perm_invariance", "property"))
    if "relabel" in out:
        r = out["relabel"]
        if "exc" in r:
            v.append((f"{PID}/mf/relabel/raises", r["exc"], "label bijection", "property"))
        else:
            rl = r["map"]
            def ren(items):
                o = []
                for k, val in items:
                    parts = k.split("|")
                    # keys look like "metric|x/a" (control level / sensitive level) or "metric|a"
                    comps = parts[-1].split("/")
                    comps[-1] = rl.get(comps[-1], comps[-1])
                    o.append(["|".join(parts[:-1] + ["/".join(comps)]), val])
                return sorted(o)
            if not _close_struct(ren(base["by_group"]), r["ok"]["by_group"], tol) or \
                    not _close_struct(base["overall"], r["ok"]["overall"], tol) or \
                    not _close_struct(base["diff"], r["ok"]["diff"], tol):
                v.append((f"{PID}/mf/relabel/not-equivariant", "renaming group labels by a bijection does more than "
                          "rename the index entries", "relabel_equivariance", "property"))
    # MetricFrame: the real model (Disagg) on the original, the permuted (inside Coq) and the relabelled data
    if model is not None and entry == "mf":
        sf, cf = case["sf"], case["cf"]
        slv = sorted(set(sf)); rlv = sorted(RELABEL[g] for g in set(sf)); clv = sorted(set(cf)) if cf else None
        glv = ([clv] if cf else []) + [slv]
        grl = ([clv] if cf else []) + [rlv]
        olv = [clv] if cf else []
        checks = [("by_group", base["by_group"], model["by_group"], glv, "by_group equals Disagg.mf_by_group"),
                  ("overall", base["overall"], model["overall"], olv, "overall equals Disagg.mf_overall")]
        if "ok" in out.get("perm", {}):
            checks += [("perm_by_group", out["perm"]["ok"]["by_group"], model["perm_by_group"], glv,
                        "by_group of the permuted data equals mf_by_group of the data permuted by apply_perm"),
                       ("perm_overall", out["perm"]["ok"]["overall"], model["perm_overall"], olv,
                        "overall of the permuted data equals mf_overall of the data permuted by apply_perm")]
        if "ok" in out.get("relabel", {}):
            checks.append(("relabel_by_group", out["relabel"]["ok"]["by_group"], model["relabel_by_group"], grl,
                           "by_group of the relabelled data equals mf_by_group with the renamed codes"))
        for obs, got, mt, lv, oracle in checks:
            if not _canon_close(got, _model_canon(mt, lv), tol):
                v.append((f"{PID}/mf/{obs}/differs-from-metricframe-model",
                          f"implementation {got} vs model {_model_canon(mt, lv)}", oracle, "property"))
                break
        if model["perm_by_group"] != model["by_group"] or model["perm_overall"] != model["overall"]:
            v.append((f"{PID}/harness/model-perm", "the model itself is not permutation invariant on this input "
                      "(contradicts C12_metricframe_perm_invariance)", "theorem", "correspondence"))
    # baseline vs Coq model (group statistics from positional values)
    if model is not None:
        sf, cf = case["sf"], case["cf"]
        keys = [(c, s) for c, s in zip(cf, sf)] if cf else [(s,) for s in sf]
        cm, lv = _codes(keys)
        st = {lv[g]: (c, ws, wv) for g, c, ws, wv in model["stats"]}
        if entry == "mf":
            got = dict((k, val) for k, val in base["by_group"])
            for key, (c, ws, wv) in st.items():
                ks = "/".join(str(x) for x in key)
                exp = {"cnt": c, "sr": wv / ws, "mp": wv / ws}
                for mname, e in exp.items():
                    g_ = got.get(f"{mname}|{ks}")
                    if g_ is None or not num_close(g_, e, tol, tol):
                        v.append((f"{PID}/mf/by_group/differs-from-model", f"{mname}[{ks}] = {g_}, model {e}",
                                  "by_group equals the group statistics of the positional rows", "property"))
                        return v
        if entry == "fm" and not cf:
            rates = [wv / ws for (c, ws, wv) in st.values()]
            e = max(rates) - min(rates)
            if not num_close(base["demographic_parity_difference"], e, tol, tol):
                v.append((f"{PID}/fm/demographic_parity_difference/differs-from-model",
                          f"{base['demographic_parity_difference']} vs model {e}", "max - min of group selection rates",
                          "property"))
        if entry == "moment" and case["moment"] == "DemographicParity":
            tot_c = sum(c for c, _, _ in st.values())
            got = dict(base["gamma"])
            if cf is None:
                tot_v = sum(wv for _, _, wv in st.values())
                for key, (c, ws, wv) in st.items():
                    e = wv / c - tot_v / tot_c
                    cand = [val for k, val in got.items() if k.startswith("+/") and k.endswith(f"/{key[0]}")]
                    if len(cand) != 1 or not num_close(cand[0], e, tol, tol):
                        v.append((f"{PID}/moment/gamma/differs-from-model", f"gamma[+,{key}] = {cand}, model {e}",
                                  "gamma[+,all,g] = mean_g(h) - mean(h) on positional rows", "property"))
                        break
    return v


def tags(case, out, model):
    t = [f"entry:{case['entry']}", f"n:{len(case['y'])}", f"variants:{len(case['variants']) // 20 * 20}+"]
    if case["cf"]:
        t.append("control-features")
    for spec in case["variants"][:200]:
        for a, (k, s) in spec.items():
            t.append(f"scheme:{s}") if k not in ("list", "ndarray", "dict") else t.append(f"kind:{k}")
    return t


def nontrivial(case, out, model):
    nd = any(s not in ("default",) for spec in case["variants"] for _, s in spec.values())
    if model is not None:
        rates = {(c, ws, wv) for _, c, ws, wv in model["stats"]}
        return nd and len(rates) >= 2
    return nd and len(set(case["sf"])) >= 2


def canon(case):
    return {k: v for k, v in case.items() if not k.startswith("_")}


def shrink(case):
    var = case["variants"]
    if len(var) > 1:
        h = len(var) // 2
        yield dict(case, variants=var[:h])
        yield dict(case, variants=var[h:])
