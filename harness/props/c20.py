"""C20 -- inconsistent or unsupported inputs are rejected, never silently processed."""
from __future__ import annotations
import re
from fractions import Fraction
from harness.core import Rng, gz, gnat, gq, gbool, glist, gopt, Dec

PID = "C20"
VO = ["theories/Misc/Validate.vo", "theories/Misc/Validate_proofs.vo", "theories/Base/Flat.vo",
      "theories/Misc/ValidateSrc.vo", "theories/Misc/ValidateSrc_proofs.vo"]
PROPS_FILES = ["props/C20.v"]
TRANSLATORS = ["t_tables", "t_validate"]
REQUIRES = ["From FL Require Import Num Flat Validate."]
SHARD = 40
CHUNK = 1
CASE_TIMEOUT = 300
SEARCH_CAP = 4000

LEVEL_TEXT = ("Proof (Coq): for an executable model of the validation of every entry point (MetricFrame, the parity "
              "moments' constructors and load_data, ErrorRate, ExponentiatedGradient.fit, GridSearch constructor and "
              "fit, ThresholdOptimizer.fit, CorrelationRemover.fit, predict / transform), acceptance is characterised "
              "exactly (Accept <-> well formed) and every listed defect -- any two arguments differing in length, a "
              "label outside {0,1} at any position, a missing sensitive feature, a group lacking a label, a "
              "combination outside the constraint / objective tables regenerated from the source, control features "
              "for ThresholdOptimizer, conflicting / out-of-range bounds, costs and weights, duplicate or non-string "
              "feature names, predict before fit -- is rejected for EVERY abstract input. Tie to the code: translator "
              "t_tables (tables + the check chain at the top of ThresholdOptimizer.fit, fail closed), translator "
              "t_validate (every guard of _validate_and_reformat_input and its callers, UtilityParity / ErrorRate / "
              "GridSearch constructors, the degenerate-label guard, MetricFrame.__init__ / _process_features / "
              "GroupFeature, CorrelationRemover, check_is_fitted in every predict / transform, regenerated as "
              "(condition, operands, flags, position) and proved to MEAN the model's decision functions: "
              "C20_src_*) and a "
              "differential run entry point x argument x container x defect x position: the implementation must "
              "raise iff the model rejects (NotFittedError where stated) and must not raise on the valid twin.")
LEVEL_NOTE = ("Trusted: Coq kernel + vm_compute; translators t_tables and t_validate; the abstraction of concrete containers to "
              "lengths / label codes / names done by harness/props/c20.py; sklearn check_array / "
              "check_consistent_length and pandas column assignment are modelled by their length test only. "
              "The order of checks is modelled and compared through the exception message of single-defect inputs.")
TECHNIQUE = ("Coq proof over an executable validation model + differential model/implementation run + table and "
             "guard translators")
TRUSTED = ["Coq 8.16.1 kernel and vm_compute", "translators/t_tables.py", "translators/t_validate.py (decoding of "
           "the guards into the tags of ValidateSrc.v)", "harness/props/c20.py (generators, "
           "abstraction of containers to lengths/labels/names, comparison)", "sklearn check_array / "
           "check_consistent_length / check_is_fitted and pandas length checks (modelled by their outcome)",
           "no axioms (Print Assumptions: closed)"]
ASSUMPTIONS = ["containers are the documented ones (list, ndarray, Series, single-column DataFrame; ndarray / "
               "DataFrame for X); sensitive / control values contain no NaN",
               "a negative difference_bound, a negative ratio_bound_slack and infinite costs are accepted by the "
               "code and not claimed to be rejected",
               "'before fit' = fit was never called (predict after a FAILED fit is recorded as an observation only)"]
RULE = ("cases: batches of ~10-25 calls sharing random valid base data: the valid twin plus every defect kind x "
        "variant (length off by +1/-1/+3 at first/middle/last position, non-binary label value x position "
        "first/middle/last/random, None / empty / omitted argument, degenerate group x missing label, table "
        "combinations, bounds / costs / weight grids, names) for one (entry point, argument, container); "
        "non-trivial = the batch has a valid twin accepted by model and implementation and at least one defect "
        "rejected by both")
EXHAUSTIVE = {"quick": False, "thorough": True}

# ----------------------------------------------------------------------------------------------
# vocabulary
# ----------------------------------------------------------------------------------------------
MOMENTS = ["DemographicParity", "TruePositiveRateParity", "FalsePositiveRateParity", "EqualizedOdds",
           "ErrorRateParity", "ErrorRate"]
PARITY = MOMENTS[:5]
CONT_X = ["ndarray", "DataFrame"]
CONT_V = ["list", "ndarray", "Series", "DataFrame"]
SIMPLE = ["selection_rate_parity", "demographic_parity", "false_positive_rate_parity",
          "false_negative_rate_parity", "true_positive_rate_parity", "true_negative_rate_parity"]
CONSTRAINT_POOL = SIMPLE + ["equalized_odds", "foo", None, "Demographic_parity", "", "equalized_odds ",
                            "selection_rate", "accuracy_score", "error_rate_parity"]
OBJECTIVE_POOL = ["selection_rate", "true_positive_rate", "true_negative_rate", "accuracy_score",
                  "balanced_accuracy_score", "false_positive_rate", "false_negative_rate", "foo", None,
                  "Accuracy_score", "", "demographic_parity", "equalized_odds", "precision_score", "roc_auc_score"]
KIND = {0: "Accept", 1: "MissingY", 2: "EmptyY", 3: "NonBinary", 4: "EmptyX", 5: "LenXY", 6: "LenXSf", 7: "LenXCf",
        8: "MissingSf", 9: "UnexpectedKw", 10: "BothBounds", 11: "RatioRange", 12: "BadCosts", 13: "NotMoment",
        14: "SelectionRule", 15: "ConstraintWeight", 16: "BadObjective", 17: "NoEstimator", 18: "Constraint",
        19: "Objective", 20: "Control", 21: "Degenerate", 22: "LenTruePred", 23: "LenSampleParam", 24: "LenFeature",
        25: "NonStringName", 26: "DuplicateName", 27: "ListNonScalar", 28: "EmptyList", 29: "NoFeatures",
        30: "MissingColumn", 31: "NotFitted"}
# what the unchanged implementation answers for a single-defect input of that kind: (exception type, fragment)
EXPECT = {
    1: [("ValueError", "Must supply nonempty y")], 2: [("ValueError", "Must supply nonempty y")],
    3: [("ValueError", "Supplied y labels are not 0 or 1"), ("TypeError", "not supported between")],
    4: [("ValueError", "Found array with 0 sample")], 5: [("ValueError", "X and y must have same number of rows")],
    6: [("ValueError", "inconsistent numbers of samples")], 7: [("ValueError", "inconsistent numbers of samples")],
    8: [("ValueError", "Must specify sensitive_features"), ("TypeError", "missing 1 required keyword-only")],
    9: [("TypeError", "unexpected keyword argument")],
    10: [("ValueError", "Only one of difference_bound and ratio_bound")], 11: [("ValueError", "ratio must lie between")],
    12: [("ValueError", "costs needs to be a dictionary")],
    13: [("RuntimeError", "Unsupported disparity metric"), ("AttributeError", "load_data")],
    14: [("RuntimeError", "Unsupported selection rule")], 15: [("RuntimeError", "constraint_weight between")],
    16: [("ValueError", "Objective needs to be of the same type")],
    17: [("ValueError", "base estimator cannot be")], 18: [("ValueError", "only the following constraints are supported")],
    19: [("ValueError", "only the following objectives are supported")],
    20: [("ValueError", "Control features are not supported")], 21: [("ValueError", "Degenerate labels")],
    22: [("ValueError", "inconsistent numbers of samples")], 23: [("ValueError", "Length of values")],
    24: [("ValueError", "inconsistent numbers of samples")],
    25: [("ValueError", "must be a string"), ("ValueError", "must be strings")],
    26: [("ValueError", "duplicate feature name")], 27: [("ValueError", "Feature lists must be of scalar types")],
    28: [("IndexError", "")], 29: [("AssertionError", "")], 30: [("ValueError", "not found in the input data")],
    31: [("NotFittedError", "")],
}
NONBINARY_VALUES = [2, -1, 0.5, "nan", 3, 1.5, -0.0 + 7, "str:1", "inf"]
LEN_DELTAS = [1, -1, 3]
POSITIONS = ["first", "middle", "last"]


# ----------------------------------------------------------------------------------------------
# base data
# ----------------------------------------------------------------------------------------------
def _base(r):
    """valid data: every group has both labels; returns dict with python lists"""
    ng = r.randint(2, 3)
    names = r.sample(["a", "b", "c", "d"], ng)
    rows = []
    for g in names:
        k = r.randint(2, 4)
        labs = [0, 1] + [r.randint(0, 1) for _ in range(k - 2)]
        for l in labs:
            rows.append((g, l))
    r.shuffle(rows)
    n = len(rows)
    sf = [g for g, _ in rows]
    y = [l for _, l in rows]
    cf = [r.choice(["x", "y"]) for _ in range(n)]
    score = [r.randint(0, 4) for _ in range(n)]
    style = r.choice(["int", "int", "float", "bool"])      # valid twins also use 0.0/1.0 and False/True labels
    if style == "float":
        y = [float(v) for v in y]
    elif style == "bool":
        y = [bool(v) for v in y]
    return {"n": n, "X": [[s, i % 2] for i, s in enumerate(score)], "y": y, "sf": sf, "cf": cf}


def _pos(n, where, r):
    return {"first": 0, "middle": n // 2, "last": n - 1}.get(where, None) if where != "random" else r.randint(0, n - 1)


def _resize(lst, delta, where, r):
    n = len(lst)
    p = _pos(n, where, r)
    if delta > 0:
        at = p if where != "last" else n
        return lst[:at] + [lst[(p + j) % n] for j in range(delta)] + lst[at:]
    return lst[:p] + lst[p + 1:]


def _call(base, conts, **kw):
    c = {"X": base["X"], "y": base["y"], "sf": base["sf"], "cf": None, "conts": dict(conts), "arg": None,
         "defect": None, "variant": ""}
    c.update(kw)
    return c


def _data_defects(base, conts, arg, r, family, tier, with_cf_twin):
    """twin + the data defects of one argument; family in moment / reduction / to"""
    tw = _call(base, conts, cf=(base["cf"] if with_cf_twin else None))
    calls = [tw]

    def add(**kw):
        c = dict(tw)
        c.update(kw)
        c["arg"] = arg
        calls.append(c)
    deltas = LEN_DELTAS
    poss = POSITIONS
    for d in deltas:
        for w in poss:
            if tier == "quick" and not r.chance(1, 2) and not (d, w) in ((1, "last"), (-1, "first"), (3, "middle")):
                continue
            if arg == "X":
                add(X=_resize(base["X"], d, w, r), defect="length", variant=f"{d:+d}@{w}")
            elif arg == "y":
                add(y=_resize(base["y"], d, w, r), defect="length", variant=f"{d:+d}@{w}")
            elif arg == "sf":
                add(sf=_resize(base["sf"], d, w, r), defect="length", variant=f"{d:+d}@{w}")
            elif arg == "cf" and family != "to":
                add(cf=_resize(base["cf"], d, w, r), defect="length", variant=f"{d:+d}@{w}")
    if arg == "y":
        vals = list(NONBINARY_VALUES)
        r.shuffle(vals)
        for j, w in enumerate(["first", "middle", "last", "random"]):
            p = _pos(base["n"], w, r)
            y2 = list(base["y"])
            y2[p] = vals[j]
            add(y=y2, defect="nonbinary", variant=f"{vals[j]}@{w}")
        if tier == "thorough":
            for j, v in enumerate(vals[4:]):
                p = r.randint(0, base["n"] - 1)
                y2 = list(base["y"])
                y2[p] = v
                add(y=y2, defect="nonbinary", variant=f"{v}@random")
        add(y=None, defect="none", variant="None")
        add(y=[], defect="empty", variant="[]")
        if family == "to":
            for w in POSITIONS:
                for l in (0, 1):
                    p = _pos(base["n"], w, r)
                    g = base["sf"][p]
                    y2 = [(1 - l if s == g else v) for v, s in zip(base["y"], base["sf"])]
                    add(y=y2, defect="degenerate", variant=f"group@{w}-lacks-{l}")
    if arg == "sf":
        add(sf=None, defect="missing", variant="None")
        add(sf="omitted", defect="missing", variant="omitted")
    if arg == "cf" and family == "to":
        add(cf=base["cf"], defect="control", variant="given")
        add(cf=_resize(base["cf"], 1, "last", r), defect="control", variant="given+1")
    return calls


# ----------------------------------------------------------------------------------------------
# case generation
# ----------------------------------------------------------------------------------------------
def _conts(r, arg=None, cont=None):
    c = {"X": r.choice(CONT_X), "y": r.choice(CONT_V), "sf": r.choice(CONT_V), "cf": r.choice(CONT_V)}
    if arg:
        c[arg] = cont
    return c


def _mf_feat(r, n, cont, names=None, name=None):
    return {"cont": cont, "len": n, "names": names, "name": name}


def _mf_batches(tier, seed, rep):
    out = []
    k = 0
    fconts = ["list", "ndarray", "ndarray2", "Series", "SeriesNamed", "DataFrame", "DataFrame2", "dict"]

    def feat(r, n, cont, pre):
        if cont == "SeriesNamed":
            return _mf_feat(r, n, "Series", name=pre + r.choice(["s", "race", "sex"]))
        if cont in ("DataFrame", "dict"):
            return _mf_feat(r, n, cont, names=[pre + "f0"])
        if cont == "DataFrame2":
            return _mf_feat(r, n, "DataFrame", names=[pre + "f0", pre + "f1", pre + "f2"][:r.randint(2, 3)])
        if cont == "ndarray2":
            return dict(_mf_feat(r, n, "ndarray"), ncols=r.randint(2, 3))
        return _mf_feat(r, n, cont)
    for arg, conts in (("y_true", CONT_V), ("y_pred", CONT_V), ("sample_weight", CONT_V),
                       ("sensitive_features", fconts), ("control_features", fconts)):
        for cont in conts:
            k += 1
            r = Rng(seed, PID, "mf", rep, arg, cont)
            if tier == "quick" and arg in ("y_true", "y_pred", "sample_weight") and not r.chance(1, 2):
                continue
            n = r.randint(4, 9)
            cs = {"y_true": r.choice(CONT_V), "y_pred": r.choice(CONT_V), "sample_weight": r.choice(CONT_V)}
            if arg in cs:
                cs[arg] = cont
            sfc = cont if arg == "sensitive_features" else r.choice(fconts)
            cfc = cont if arg == "control_features" else r.choice(fconts + [None])
            tw = {"yt": n, "yp": n, "sw": (n if arg == "sample_weight" or r.chance(1, 2) else None),
                  "sf": feat(r, n, sfc, "s_"), "cf": (feat(r, n, cfc, "c_") if cfc else None), "conts": cs,
                  "metrics": r.choice(["callable", "dict"]), "arg": None, "defect": None, "variant": ""}
            calls = [tw]

            def add(**kw):
                c = dict(tw)
                c.update(kw)
                c["arg"] = arg
                calls.append(c)
            key = {"y_true": "yt", "y_pred": "yp", "sample_weight": "sw"}.get(arg)
            for d in LEN_DELTAS:
                if key:
                    add(**{key: n + d}, defect="length", variant=f"{d:+d}")
                else:
                    f = dict(tw["sf" if arg == "sensitive_features" else "cf"])
                    f["len"] = n + d
                    add(**{("sf" if arg == "sensitive_features" else "cf"): f}, defect="length", variant=f"{d:+d}")
            if arg in ("sensitive_features", "control_features"):
                fk = "sf" if arg == "sensitive_features" else "cf"
                f0 = tw[fk]
                bad_names = [{"ns": 0}, {"ns": 3}, {"ns": "tuple"}, {"ns": 1.5}]
                if f0["cont"] == "Series":
                    for b in bad_names[:4]:
                        add(**{fk: dict(f0, name=b)}, defect="nonstring-name", variant=str(b["ns"]))
                if f0["cont"] in ("DataFrame", "dict") and f0["names"]:
                    m = len(f0["names"])
                    for w, p in (("first", 0), ("middle", m // 2), ("last", m - 1)):
                        b = r.choice(bad_names[:4] if f0["cont"] == "DataFrame" else bad_names[:2])
                        nm = list(f0["names"])
                        nm[p] = b
                        add(**{fk: dict(f0, names=nm)}, defect="nonstring-name", variant=f"{b['ns']}@{w}")
                    if f0["cont"] == "DataFrame" and m >= 2:
                        i, j = r.sample(range(m), 2)
                        nm = list(f0["names"])
                        nm[i] = nm[j]
                        add(**{fk: dict(f0, names=nm)}, defect="duplicate-name", variant=f"within@{i}={j}")
                # the same name in sensitive and control features
                other = "cf" if fk == "sf" else "sf"
                if tw[other] is not None:
                    mine = _declared(tw[fk], 0 if fk == "sf" else 1)
                    theirs = _declared(tw[other], 1 if fk == "sf" else 0)
                    tgt = r.choice(theirs)
                    if f0["cont"] == "Series":
                        add(**{fk: dict(f0, name=tgt)}, defect="duplicate-name", variant="across")
                    elif f0["cont"] in ("DataFrame", "dict") and f0["names"]:
                        p = r.randint(0, len(f0["names"]) - 1)
                        nm = list(f0["names"])
                        nm[p] = tgt
                        add(**{fk: dict(f0, names=nm)}, defect="duplicate-name", variant=f"across@{p}")
                    elif tw[other]["cont"] == "Series":
                        # this feature gets a generated name: give the other one exactly that name
                        add(**{other: dict(tw[other], name=r.choice(mine))}, defect="duplicate-name",
                            variant="generated-name")
                if f0["cont"] == "list":
                    add(**{fk: dict(f0, cont="list-nonscalar")}, defect="list-nonscalar", variant="")
            out.append({"ep": "MetricFrame", "calls": calls})
    return out


def _declared(f, base):
    pre = "sensitive_feature_" if base == 0 else "control_feature_"
    if f["cont"] in ("DataFrame", "dict"):
        return list(f["names"])
    if f["cont"] == "Series" and f.get("name") is not None:
        return [f["name"]]
    if f["cont"] == "ndarray" and f.get("ncols"):
        return [pre + str(i) for i in range(f["ncols"])]
    return [pre + "0"]


def cases(tier, seed):
    out = []
    reps = 1 if tier == "quick" else 3
    k = 0
    for rep in range(reps):
        # ---- data defects: moments' load_data, reductions' fit, ThresholdOptimizer.fit ------------------
        eps = [("load_data", m) for m in MOMENTS] + [("ExponentiatedGradient.fit", None),
                                                     ("GridSearch.fit", None), ("ThresholdOptimizer.fit", None)]
        for ep, mom in eps:
            family = "moment" if ep == "load_data" else ("to" if ep.startswith("Threshold") else "reduction")
            for arg, conts in (("X", CONT_X), ("y", CONT_V), ("sf", CONT_V), ("cf", CONT_V)):
                for ci, cont in enumerate(conts):
                    k += 1
                    if tier == "quick":
                        # round-robin: every (argument, container) pair is covered across the entry points
                        if family == "moment" and (MOMENTS.index(mom) + ci + seed) % 3 != 0:
                            continue
                        if family == "reduction" and not Rng(seed, PID, "pick", k).chance(1, 2):
                            continue
                    r = Rng(seed, PID, "data", rep, ep, mom, arg, cont)
                    base = _base(r)
                    m = mom or r.choice(MOMENTS[:5])
                    with_cf = (arg == "cf" and family != "to") or (family != "to" and r.chance(1, 3))
                    calls = _data_defects(base, _conts(r, arg, cont), arg, r, family, tier, with_cf)
                    c = {"ep": ep, "moment": m, "calls": calls}
                    if family == "to":
                        c["constraint"] = r.choice(SIMPLE + ["equalized_odds"])
                        c["objective"] = r.choice(["accuracy_score", "balanced_accuracy_score"])
                    out.append(c)
        # ---- two defects at once: the model's ORDER of checks decides which one is reported ---------------
        for ep in ("load_data", "ExponentiatedGradient.fit", "GridSearch.fit", "ThresholdOptimizer.fit"):
            r = Rng(seed, PID, "order", rep, ep)
            base = _base(r)
            tw = _call(base, _conts(r))
            ybad = list(base["y"])
            ybad[r.randint(0, base["n"] - 1)] = r.choice([2, -1, 0.5])
            two = dict(arg="order", defect="two-defects")
            calls = [tw,
                     dict(tw, y=_resize(ybad, 1, "last", r), variant="nonbinary+y-length", **two),
                     dict(tw, y=None, sf=None, variant="y-none+sf-none", **two),
                     dict(tw, y=[], sf=_resize(base["sf"], 1, "first", r), variant="y-empty+sf-length", **two),
                     dict(tw, y=_resize(base["y"], 3, "middle", r), sf=None, variant="y-length+sf-none", **two),
                     dict(tw, X=_resize(base["X"], -1, "middle", r), sf=_resize(base["sf"], 1, "last", r),
                          variant="X-length+sf-length", **two)]
            c = {"ep": ep, "moment": r.choice(MOMENTS if ep == "load_data" else PARITY), "calls": calls}
            if ep.startswith("Threshold"):
                c["constraint"], c["objective"] = "equalized_odds", "accuracy_score"
                calls += [dict(tw, constraint="foo", cf=base["cf"], variant="constraint+control", **two),
                          dict(tw, objective="selection_rate", y=ybad, variant="objective+nonbinary", **two),
                          dict(tw, cf=base["cf"], y=ybad, variant="control+nonbinary", **two),
                          dict(tw, cf=base["cf"], sf=None, variant="control+sf-none", **two),
                          dict(tw, estimator_none=True, constraint="foo", variant="estimator-none+constraint", **two),
                          dict(tw, y=[1 if s == base["sf"][0] else v for v, s in zip(ybad, base["sf"])],
                               variant="nonbinary+degenerate", **two)]
            else:
                calls += [dict(tw, sf=_resize(base["sf"], 1, "middle", r), cf=_resize(base["cf"], -1, "first", r),
                               variant="sf-length+cf-length", **two),
                          dict(tw, sf=None, cf=_resize(base["cf"], 1, "last", r), variant="sf-none+cf-length", **two)]
            out.append(c)
        r = Rng(seed, PID, "order-mf", rep)
        n = r.randint(4, 8)
        tw = {"yt": n, "yp": n, "sw": n, "sf": _mf_feat(r, n, "DataFrame", names=["s_a", "s_b"]),
              "cf": _mf_feat(r, n, "DataFrame", names=["c_a", "c_b"]),
              "conts": {"y_true": r.choice(CONT_V), "y_pred": r.choice(CONT_V), "sample_weight": r.choice(CONT_V)},
              "metrics": "callable", "arg": None, "defect": None, "variant": ""}
        two = dict(arg="order", defect="two-defects")
        ns = {"ns": 0}
        out.append({"ep": "MetricFrame", "calls": [
            tw,
            dict(tw, yp=n + 1, sf=dict(tw["sf"], names=[ns, "s_b"]), variant="pred-length+nonstring", **two),
            dict(tw, sw=n - 1, sf=dict(tw["sf"], len=n + 1), variant="param-length+sf-length", **two),
            dict(tw, sf=dict(tw["sf"], names=[ns, "s_b"], len=n + 1), variant="nonstring-first+sf-length", **two),
            dict(tw, sf=dict(tw["sf"], names=["s_a", ns], len=n + 1), variant="sf-length+nonstring-second", **two),
            dict(tw, sf=dict(tw["sf"], names=["s_a", "s_a"]), cf=dict(tw["cf"], names=["c_a", ns]),
                 variant="duplicate+cf-nonstring", **two),
            dict(tw, sf=dict(tw["sf"], names=["s_a", "s_a"]), cf=dict(tw["cf"], len=n + 3),
                 variant="duplicate+cf-length", **two),
            dict(tw, sf=_mf_feat(r, n + 1, "Series", name=ns), variant="series-length+nonstring", **two),
            dict(tw, sf=dict(tw["sf"], names=["s_a", "c_b"]), cf=dict(tw["cf"], len=n - 1),
                 variant="shared-name+cf-length", **two)]})
        # ---- regression moment: non-binary labels are fine, control features are not a keyword ---------
        for ep in ("load_data", "ExponentiatedGradient.fit", "GridSearch.fit"):
            r = Rng(seed, PID, "bgl", rep, ep)
            base = _base(r)
            conts = _conts(r)
            tw = _call(base, conts)
            calls = [tw]
            for v in (2, 0.5, -1, 3):
                y2 = list(base["y"])
                y2[r.randint(0, base["n"] - 1)] = v
                calls.append(dict(tw, y=y2, variant=f"nonbinary-ok-{v}"))
            calls.append(dict(tw, cf=base["cf"], arg="cf", defect="unexpected-keyword", variant="control_features"))
            calls.append(dict(tw, sf=None, arg="sf", defect="missing", variant="None"))
            calls.append(dict(tw, y=_resize(base["y"], 1, "middle", r), arg="y", defect="length", variant="+1@middle"))
            out.append({"ep": ep, "moment": "BoundedGroupLoss", "calls": calls})
        # ---- constructors: bounds, costs, GridSearch weight / rule / constraints ----------------------
        half, tiny = [1, 2], [1, 1024]
        bounds = [(None, None), ([1, 8], None), (0, None), ([-1, 4], None), (None, half), (None, 1), (None, tiny),
                  (None, 0), (None, [-1, 2]), (None, [3, 2]), (None, 2), (None, [1025, 1024]), (None, "nan"),
                  (None, "inf"), (None, "-inf"), ([1, 8], half), (0, 1), ([1, 8], 0), ([-1, 4], [3, 2]),
                  ([1, 8], "nan"), ("nan", half)]
        for m in PARITY:
            r = Rng(seed, PID, "bounds", rep, m)
            # the boundary values 0, 1, just above 1 and both-given are always included
            must = [(None, None), (None, 0), (None, 1), (None, [1025, 1024]), ([1, 8], half)]
            sel = bounds if tier == "thorough" else must + r.sample([b for b in bounds if b not in must], 8)
            calls = []
            for d, q in sel:
                bad = q is not None and (d is not None or not _in01(q, lo_open=True))
                calls.append({"diff": d, "ratio": q, "arg": ("ratio_bound" if q is not None else "difference_bound"),
                              "defect": (("both-bounds" if d is not None else "ratio-range") if bad else None),
                              "variant": f"{d}/{q}"})
            out.append({"ep": "moment.__init__", "moment": m, "calls": calls})
        costs = [None, {"fp": 1, "fn": 1}, {"fp": 0, "fn": [1, 2]}, {"fp": 3, "fn": 0}, {"fn": 2, "fp": 1},
                 {"fp": "inf", "fn": 1},
                 {"fp": [-1, 2], "fn": 1}, {"fp": 1, "fn": -1}, {"fp": 0, "fn": 0}, {"fp": 0.0, "fn": -0.0},
                 {"fp": 1}, {"fn": 1}, {}, {"fp": 1, "fn": 1, "tp": 1}, {"FP": 1, "fn": 1}, {"fp": 1, "f n": 1},
                 {"fp": "nan", "fn": 1}, {"fp": 1, "fn": "nan"}, {"fp": "-inf", "fn": 1}, "list", "tuple", "number"]
        calls = []
        for c in costs:
            bad = not _costs_ok(c)
            kind = None
            if bad:
                kind = ("not-dict" if isinstance(c, str) else "wrong-keys" if set(c) != {"fp", "fn"} else
                        "both-zero" if all(_numv(v) == 0 for v in c.values()) else "negative-or-nan")
            calls.append({"costs": c, "arg": "costs", "defect": kind, "variant": str(c)})
        out.append({"ep": "ErrorRate.__init__", "calls": calls})
        weights = [0, 1, half, [1, 8], [7, 8], 0.0, 1.0, [-1, 8], [9, 8], 2, -1, "nan", "inf", "-inf", [1025, 1024],
                   [-1, 1024]]
        calls = []
        for w in weights:
            calls.append({"cw": w, "rule": True, "constraints": "DemographicParity", "arg": "constraint_weight",
                          "defect": None if _in01(w, lo_open=False) else "weight-range", "variant": str(w)})
        calls.append({"cw": half, "rule": False, "constraints": "DemographicParity", "arg": "selection_rule",
                      "defect": "selection-rule", "variant": "foo"})
        for bad in ("str", "None", "class"):
            calls.append({"cw": half, "rule": True, "constraints": bad, "arg": "constraints",
                          "defect": "not-a-moment", "variant": bad})
        calls.append({"cw": [9, 8], "rule": True, "constraints": "BoundedGroupLoss", "arg": "constraint_weight",
                      "defect": "weight-range", "variant": "9/8-bgl"})
        out.append({"ep": "GridSearch.__init__", "calls": calls})
        # ---- ExponentiatedGradient: objective of the other moment type, constraints not a moment --------
        r = Rng(seed, PID, "egcfg", rep)
        base = _base(r)
        tw = _call(base, _conts(r))
        out.append({"ep": "ExponentiatedGradient.fit", "moment": "DemographicParity", "calls": [
            tw, dict(tw, objective="ErrorRate", variant="objective-ErrorRate"),
            dict(tw, objective="MeanLoss", arg="objective", defect="objective-type", variant="MeanLoss"),
            dict(tw, constraints="str", arg="constraints", defect="not-a-moment", variant="str")]})
        # ---- ThresholdOptimizer: constraint x objective tables, estimator None --------------------------
        combos = [(c, o) for c in CONSTRAINT_POOL for o in OBJECTIVE_POOL]
        r = Rng(seed, PID, "combos", rep)
        if tier == "quick":
            must = [(c, o) for c in SIMPLE[:2] + ["equalized_odds"] for o in OBJECTIVE_POOL[:7]]
            rest = [x for x in combos if x not in must]
            combos = must + r.sample(rest, 70)
        elif rep > 0:
            combos = []
        for i in range(0, len(combos), 16):
            rb = Rng(seed, PID, "combo-base", rep, i)
            base = _base(rb)
            conts = _conts(rb)
            calls = []
            for c, o in combos[i:i + 16]:
                ok = (c in SIMPLE and o in OBJECTIVE_POOL[:5]) or (c == "equalized_odds" and o in OBJECTIVE_POOL[3:5])
                calls.append(dict(_call(base, conts), constraint=c, objective=o,
                                  arg=("constraints" if not (c in SIMPLE or c == "equalized_odds") else "objective"),
                                  defect=None if ok else "unsupported-combo", variant=f"{c}/{o}"))
            if i == 0:
                calls.append(dict(_call(base, conts), constraint="demographic_parity", objective="accuracy_score",
                                  estimator_none=True, arg="estimator", defect="estimator-none", variant="None"))
            out.append({"ep": "ThresholdOptimizer.fit", "calls": calls})
        # ---- MetricFrame --------------------------------------------------------------------------------
        out += _mf_batches(tier, seed, rep)
        # ---- CorrelationRemover -------------------------------------------------------------------------
        for cont in CONT_X:
            r = Rng(seed, PID, "cr", rep, cont)
            n = r.randint(4, 8)
            ncol = r.randint(2, 4)
            cols = [f"c{j}" for j in range(ncol)] if cont == "DataFrame" else list(range(ncol))
            calls = []
            ids_ok = r.sample(cols, r.randint(1, ncol - 1))
            calls.append({"rows": n, "ncol": ncol, "cont": cont, "ids": ids_ok, "arg": None, "defect": None, "variant": ""})
            calls.append({"rows": n, "ncol": ncol, "cont": cont, "ids": [], "arg": None, "defect": None, "variant": "no-ids"})
            missing = (["zz", "c" + str(ncol), 0, "C0"] if cont == "DataFrame" else [ncol, ncol + 3, -1, "c0"])
            for w, mval in zip(["first", "middle", "last", "only"], missing):
                ids = list(ids_ok)
                p = {"first": 0, "middle": len(ids) // 2, "last": len(ids), "only": None}[w]
                ids = [mval] if p is None else ids[:p] + [mval] + ids[p:]
                calls.append({"rows": n, "ncol": ncol, "cont": cont, "ids": ids, "arg": "sensitive_feature_ids",
                              "defect": "missing-column", "variant": f"{mval}@{w}"})
            calls.append({"rows": 0, "ncol": ncol, "cont": cont, "ids": ids_ok, "arg": "X", "defect": "empty",
                          "variant": "0-rows"})
            out.append({"ep": "CorrelationRemover.fit", "calls": calls})
        # ---- predict / transform before fit ---------------------------------------------------------------
        methods = [("ExponentiatedGradient", "predict"), ("ExponentiatedGradient", "_pmf_predict"),
                   ("GridSearch", "predict"), ("GridSearch", "predict_proba"),
                   ("ThresholdOptimizer", "predict"), ("ThresholdOptimizer", "_pmf_predict"),
                   ("InterpolatedThresholder", "predict"), ("InterpolatedThresholder", "_pmf_predict"),
                   ("CorrelationRemover", "transform")]
        if rep == 0:
            methods += [("AdversarialFairnessClassifier", "predict"), ("AdversarialFairnessRegressor", "predict")]
        for est in sorted({e for e, _ in methods}):
            r = Rng(seed, PID, "predict", rep, est)
            base = _base(r)
            calls = []
            for e, meth in methods:
                if e != est:
                    continue
                for state in ("unfitted", "fitted", "failed-fit"):
                    if state == "failed-fit" and est.startswith("Adversarial"):
                        continue
                    calls.append(dict(_call(base, _conts(r)), estimator=e, method=meth, state=state,
                                      arg="state", defect=("not-fitted" if state == "unfitted" else None),
                                      variant=state, observe=(state == "failed-fit")))
            out.append({"ep": "predict", "calls": calls})
    return out


def _numv(v):
    if isinstance(v, str):
        return {"nan": float("nan"), "inf": float("inf"), "-inf": float("-inf")}[v]
    if isinstance(v, list):
        return v[0] / v[1]
    return v


def _in01(v, lo_open):
    x = _numv(v)
    return (0 < x <= 1) if lo_open else (0 <= x <= 1)


def _costs_ok(c):
    if c is None:
        return True
    if not isinstance(c, dict) or set(c) != {"fp", "fn"}:
        return False
    a, b = _numv(c["fp"]), _numv(c["fn"])
    return a >= 0 and b >= 0 and a + b > 0


# ----------------------------------------------------------------------------------------------
# implementation side
# ----------------------------------------------------------------------------------------------
def _lab(v):
    if isinstance(v, str):
        if v.startswith("str:"):
            return v[4:]
        return {"nan": float("nan"), "inf": float("inf"), "-inf": float("-inf")}[v]
    return v


def _mk(vals, cont, name="col"):
    import numpy as np, pandas as pd
    if vals is None:
        return None
    if cont == "list":
        return list(vals)
    if cont == "ndarray":
        return np.array(vals)
    if cont == "Series":
        return pd.Series(vals)
    if cont == "DataFrame":
        return pd.DataFrame({name: list(vals)})
    raise ValueError(cont)


def _mkX(rows, cont):
    import numpy as np, pandas as pd
    a = np.array(rows, dtype=float).reshape(len(rows), 2)
    return a if cont == "ndarray" else pd.DataFrame(a, columns=["s", "c"])


def _moment(name):
    import fairlearn.reductions as red
    if name == "BoundedGroupLoss":
        return red.BoundedGroupLoss(red.SquareLoss(0, 4), upper_bound=0.5)
    if name == "MeanLoss":
        from fairlearn.reductions._moments.bounded_group_loss import MeanLoss
        return MeanLoss(red.SquareLoss(0, 4))
    return getattr(red, name)()


def _data_args(c):
    cs = c["conts"]
    X = _mkX(c["X"], cs["X"])
    y = None if c["y"] is None else _mk([_lab(v) for v in c["y"]], cs["y"], "label")
    kw = {}
    if c["sf"] != "omitted":
        kw["sensitive_features"] = _mk(c["sf"], cs["sf"], "sf")
    if c["cf"] is not None:
        kw["control_features"] = _mk(c["cf"], cs["cf"], "cf")
    return X, y, kw


def _num_arg(v):
    return None if v is None else _numv(v)


def _safe_metric(y_true, y_pred, sample_weight=None):
    return float(len(y_true))


def _mf_feature(f, r):
    import numpy as np, pandas as pd
    if f is None:
        return None
    n = f["len"]
    col = lambda j: [r.choice(["p", "q", "r"]) for _ in range(n)]

    def nm(x):
        if isinstance(x, dict):
            v = x["ns"]
            return ("a", "b") if v == "tuple" else v
        return x
    cont = f["cont"]
    if cont == "list":
        return col(0)
    if cont == "list-nonscalar":
        return [[v] for v in col(0)]
    if cont == "ndarray":
        k = f.get("ncols")
        if k:
            return np.array([col(j) for j in range(k)], dtype=object).T.reshape(n, k)
        return np.array(col(0))
    if cont == "Series":
        return pd.Series(col(0), name=nm(f.get("name")))
    names = [nm(x) for x in f["names"]]
    if cont == "dict":
        return {k: col(j) for j, k in enumerate(names)}
    df = pd.DataFrame(np.array([col(j) for j in range(len(names))], dtype=object).T.reshape(n, len(names)))
    df.columns = pd.Index(names, dtype=object)
    return df


def _fitted(est, c, fail=False):
    """returns (estimator, predict kwargs) in the requested state"""
    import numpy as np
    import fairlearn.reductions as red
    from harness.learners import PassThrough, ExactLearner
    X, y, kw = _data_args(c)
    sf = kw["sensitive_features"]
    ybad = None if y is None else (list(y)[:-1] if not hasattr(y, "iloc") else y.iloc[:-1])
    if est == "ExponentiatedGradient":
        e = red.ExponentiatedGradient(ExactLearner(), red.DemographicParity(), max_iter=3)
        return e, {}, (lambda: e.fit(X, ybad if fail else y, sensitive_features=sf))
    if est == "GridSearch":
        e = red.GridSearch(ExactLearner(), red.DemographicParity(), grid_size=3)
        return e, {}, (lambda: e.fit(X, ybad if fail else y, sensitive_features=sf))
    if est == "ThresholdOptimizer":
        from fairlearn.postprocessing import ThresholdOptimizer
        e = ThresholdOptimizer(estimator=PassThrough(), prefit=True, predict_method="predict", grid_size=5)
        return e, {"sensitive_features": sf}, (lambda: e.fit(X, ybad if fail else y, sensitive_features=sf))
    if est == "InterpolatedThresholder":
        from fairlearn.postprocessing._interpolated_thresholder import InterpolatedThresholder
        from fairlearn.postprocessing._threshold_operation import ThresholdOperation
        from sklearn.utils import Bunch
        d = {g: Bunch(p0=0.5, operation0=ThresholdOperation(">", 1.5), p1=0.5, operation1=ThresholdOperation(">", 2.5))
             for g in set(c["sf"])}
        e = InterpolatedThresholder(None if fail else PassThrough(), d, prefit=True, predict_method="predict")
        return e, {"sensitive_features": sf}, (lambda: e.fit(X, y))
    if est == "CorrelationRemover":
        from fairlearn.preprocessing import CorrelationRemover
        ids = ["zz"] if fail else (["c"] if hasattr(X, "columns") else [1])
        e = CorrelationRemover(sensitive_feature_ids=ids)
        return e, {}, (lambda: e.fit(X))
    if est.startswith("Adversarial"):
        import fairlearn.adversarial as adv
        e = getattr(adv, est)(backend="torch", predictor_model=[3], adversary_model=[2], epochs=1, batch_size=4,
                              random_state=0)
        Xa = np.asarray(X, dtype=float)
        return e, {}, (lambda: e.fit(Xa, np.asarray([float(_lab(v)) for v in c["y"]]),
                                     sensitive_features=np.asarray(c["sf"])))
    raise ValueError(est)


def _exec(case, c):
    import numpy as np, pandas as pd
    import fairlearn.reductions as red
    from harness.learners import PassThrough, ExactLearner, CellMeanRegressor
    ep = case["ep"]
    if ep == "load_data":
        X, y, kw = _data_args(c)
        _moment(case["moment"]).load_data(X, y, **kw)
    elif ep in ("ExponentiatedGradient.fit", "GridSearch.fit"):
        X, y, kw = _data_args(c)
        mom = case["moment"]
        learner = CellMeanRegressor() if mom == "BoundedGroupLoss" else ExactLearner()
        cons = "demographic_parity" if c.get("constraints") == "str" else _moment(mom)
        if ep.startswith("Exp"):
            obj = _moment(c["objective"]) if c.get("objective") else None
            e = red.ExponentiatedGradient(learner, cons, objective=obj, max_iter=2)
        else:
            e = red.GridSearch(learner, cons, grid_size=2)
        e.fit(X, y, **kw)
    elif ep == "ThresholdOptimizer.fit":
        from fairlearn.postprocessing import ThresholdOptimizer
        X, y, kw = _data_args(c)
        e = ThresholdOptimizer(estimator=None if c.get("estimator_none") else PassThrough(),
                               constraints=c.get("constraint", case.get("constraint")),
                               objective=c.get("objective", case.get("objective")),
                               prefit=True, predict_method="predict", grid_size=5)
        e.fit(X, y, **kw)
    elif ep == "moment.__init__":
        kw = {}
        if c["diff"] is not None:
            kw["difference_bound"] = _num_arg(c["diff"])
        if c["ratio"] is not None:
            kw["ratio_bound"] = _num_arg(c["ratio"])
        getattr(red, case["moment"])(**kw)
    elif ep == "ErrorRate.__init__":
        cs = c["costs"]
        if isinstance(cs, dict):
            cs = {k: _numv(v) for k, v in cs.items()}
        elif cs == "list":
            cs = [1.0, 1.0]
        elif cs == "tuple":
            cs = (("fp", 1.0), ("fn", 1.0))
        elif cs == "number":
            cs = 1.0
        red.ErrorRate(costs=cs)
    elif ep == "GridSearch.__init__":
        cons = {"str": "demographic_parity", "None": None, "class": red.DemographicParity}.get(c["constraints"])
        if c["constraints"] in ("DemographicParity", "BoundedGroupLoss"):
            cons = _moment(c["constraints"])
        kw = {} if c["rule"] else {"selection_rule": "foo"}
        red.GridSearch(ExactLearner(), cons, constraint_weight=_numv(c["cw"]), **kw)
    elif ep == "MetricFrame":
        from fairlearn.metrics import MetricFrame
        r = Rng("mf-data", c["yt"], c["yp"])
        cs = c["conts"]
        yt = _mk([r.randint(0, 1) for _ in range(c["yt"])], cs["y_true"], "y")
        yp = _mk([r.randint(0, 1) for _ in range(c["yp"])], cs["y_pred"], "p")
        sp = None
        if c["sw"] is not None:
            w = _mk([float(r.randint(1, 4)) for _ in range(c["sw"])], cs["sample_weight"], "w")
            sp = {"sample_weight": w}
        metrics = _safe_metric
        if c["metrics"] == "dict":
            metrics = {"m": _safe_metric, "k": _safe_metric}
            sp = None if sp is None else {"k": sp}
        kw = {}
        if c["cf"] is not None:
            kw["control_features"] = _mf_feature(c["cf"], r)
        MetricFrame(metrics=metrics, y_true=yt, y_pred=yp, sensitive_features=_mf_feature(c["sf"], r),
                    sample_params=sp, **kw)
    elif ep == "CorrelationRemover.fit":
        from fairlearn.preprocessing import CorrelationRemover
        r = Rng("cr-data", c["rows"], c["ncol"])
        a = np.array([[float(r.randint(0, 9)) for _ in range(c["ncol"])] for _ in range(c["rows"])],
                     dtype=float).reshape(c["rows"], c["ncol"])
        X = a if c["cont"] == "ndarray" else pd.DataFrame(a, columns=[f"c{j}" for j in range(c["ncol"])])
        CorrelationRemover(sensitive_feature_ids=c["ids"]).fit(X)
    elif ep == "predict":
        e, pkw, fit = _fitted(c["estimator"], c, fail=(c["state"] == "failed-fit"))
        if c["state"] == "fitted":
            fit()
        elif c["state"] == "failed-fit":
            try:
                fit()
            except Exception:
                pass
            else:
                raise RuntimeError("harness: the failing fit did not fail")
        X, _, _ = _data_args(c)
        if c["estimator"].startswith("Adversarial"):
            X = np.asarray(X, dtype=float)
        getattr(e, c["method"])(X, **pkw)
    else:
        raise ValueError(ep)


def impl(case):
    from harness import core
    res = []
    for c in case["calls"]:
        try:
            _exec(case, c)
            res.append({"raised": False})
        except core.CaseTimeout:
            raise
        except Exception as e:  # noqa
            res.append({"raised": True, "exc": type(e).__name__, "msg": str(e)[:200]})
    return res


# ----------------------------------------------------------------------------------------------
# model side
# ----------------------------------------------------------------------------------------------
def _lab_code(v):
    if isinstance(v, str):
        return 9 if v == "nan" else 11 if v.startswith("str:") else 12
    if isinstance(v, bool):
        return int(v)
    if v == 0:
        return 0
    if v == 1:
        return 1
    if isinstance(v, int):
        return v
    return 7 + int(abs(v) * 2) + 20


def _codes(vals):
    first = {}
    return [first.setdefault(v, len(first)) for v in vals]


def _gdata(c):
    y = None if c["y"] is None else [_lab_code(v) for v in c["y"]]
    sf = None if c["sf"] in (None, "omitted") else _codes(c["sf"])
    cf = None if c["cf"] is None else _codes(c["cf"])
    lz = lambda l: glist(l, gz)
    return f"(mkData {gnat(len(c['X']))} {gopt(y, lz)} {gopt(sf, lz)} {gopt(cf, lz)})"


def _gext(v):
    if v is None:
        return None
    if isinstance(v, str):
        return {"nan": "NaN", "inf": "PInf", "-inf": "NInf"}[v]
    if isinstance(v, list):
        return f"(Fin {gq(Fraction(v[0], v[1]))})"
    return f"(Fin {gq(Fraction(v))})"


def _gstr(s):
    return gopt(None if s is None else [ord(ch) for ch in s], lambda l: glist(l, gz))


def _name_code(x, table):
    if isinstance(x, dict):
        return f"(NNonStr {gz(len(table) + 50)})"
    m = re.fullmatch(r"(sensitive|control)_feature_(\d+)", x)
    if m:
        return f"(NStr {gz(-(1 + (0 if m.group(1) == 'sensitive' else 1) + 2 * int(m.group(2))))})"
    return f"(NStr {gz(table.setdefault(x, len(table) + 1))})"


def _gfeat(f, table):
    cont = f["cont"]
    if cont == "list":
        k = "FList"
    elif cont == "list-nonscalar":
        k = "FListNonScalar"
    elif cont == "ndarray":
        k = f"(FArray {gnat(f.get('ncols') or 1)})"
    elif cont == "Series":
        k = "(FSeries " + gopt(f.get("name"), lambda x: _name_code(x, table)) + ")"
    else:
        k = "(FFrame " + glist(f["names"], lambda x: _name_code(x, table)) + ")"
    return f"(mkFeats {k} {gnat(f['len'])})"


def _verdict(case, c):
    ep = case["ep"]
    if ep == "load_data":
        return f"validate_load {case['moment']} {_gdata(c)}"
    if ep in ("ExponentiatedGradient.fit", "GridSearch.fit"):
        est = "ExpGrad" if ep.startswith("Exp") else "GridSearch"
        cons = "None" if c.get("constraints") == "str" else f"(Some {case['moment']})"
        obj = gopt(c.get("objective"))
        return f"validate_reduction (mkRed {est} {cons} true (Fin (1#2)) {obj} {_gdata(c)})"
    if ep == "ThresholdOptimizer.fit":
        return (f"validate_threshold_optimizer std_tables (mkTO {gbool(not c.get('estimator_none'))} "
                f"{_gstr(c.get('constraint', case.get('constraint')))} "
                f"{_gstr(c.get('objective', case.get('objective')))} {_gdata(c)})")
    if ep == "moment.__init__":
        return f"validate_bounds (mkBounds {gopt(_gext(c['diff']))} {gopt(_gext(c['ratio']))})"
    if ep == "ErrorRate.__init__":
        cs = c["costs"]
        if cs is None:
            return "validate_costs CostsNone"
        if isinstance(cs, str):
            return "validate_costs CostsNotDict"
        key = lambda k: {"fp": 0, "fn": 1}.get(k, 2 + sum(map(ord, k)))
        items = glist(cs.items(), lambda kv: f"({gz(key(kv[0]))}, {_gext(kv[1])})")
        return f"validate_costs (CostsDict {items})"
    if ep == "GridSearch.__init__":
        cons = f"(Some {c['constraints']})" if c["constraints"] in ("DemographicParity", "BoundedGroupLoss") else "None"
        return (f"validate_gs_ctor (mkRed GridSearch {cons} {gbool(c['rule'])} {_gext(c['cw'])} None "
                f"(mkData 0%nat None None None))")
    if ep == "MetricFrame":
        table = {}
        params = [] if c["sw"] is None else [c["sw"]]
        return (f"validate_metric_frame (mkMF {gnat(c['yt'])} {gnat(c['yp'])} {glist(params, gnat)} "
                f"{_gfeat(c['sf'], table)} {gopt(c['cf'], lambda f: _gfeat(f, table))})")
    if ep == "CorrelationRemover.fit":
        cols = list(range(c["ncol"]))

        def code(i):
            if c["cont"] == "DataFrame":
                m = re.fullmatch(r"c(\d+)", i) if isinstance(i, str) else None
                return int(m.group(1)) if m and int(m.group(1)) < c["ncol"] else 1000 + sum(map(ord, str(i)))
            return i if isinstance(i, int) and 0 <= i < c["ncol"] else 1000 + sum(map(ord, str(i)))
        return (f"validate_correlation_remover (mkCR {gnat(c['rows'])} {glist(cols, gz)} "
                f"{glist([code(i) for i in c['ids']], gz)})")
    if ep == "predict":
        e = {"ExponentiatedGradient": "EExpGrad", "GridSearch": "EGridSearch", "ThresholdOptimizer":
             "EThresholdOptimizer", "InterpolatedThresholder": "EInterpolatedThresholder",
             "CorrelationRemover": "ECorrelationRemover", "AdversarialFairnessClassifier": "EAdversarialClassifier",
             "AdversarialFairnessRegressor": "EAdversarialRegressor"}[c["estimator"]]
        return f"validate_predict {e} {gbool(c['state'] == 'fitted')}"
    raise ValueError(ep)


def term(case, out):
    vs = [f"enc_verdict ({_verdict(case, c)})" for c in case["calls"]]
    return "enc_nat " + gnat(len(vs)) + " ++ " + " ++ ".join(vs)


def decode(case, zs):
    d = Dec(zs)
    ks = d.list(d.z)
    d.done()
    return ks


# ----------------------------------------------------------------------------------------------
# comparison
# ----------------------------------------------------------------------------------------------
def _epname(case, c):
    ep = case["ep"]
    if ep == "load_data":
        return f"{case['moment']}.load_data"
    if ep == "moment.__init__":
        return f"{case['moment']}.__init__"
    if ep == "predict":
        return f"{c['estimator']}.{c['method']}"
    if case.get("moment") == "BoundedGroupLoss":
        return f"{ep}[BoundedGroupLoss]"
    return ep


def compare(case, out, model):
    v = []
    for c, o, k in zip(case["calls"], out, model):
        ep = _epname(case, c)
        arg = c.get("arg") or "all"
        defect = c.get("defect")
        if c.get("observe"):
            continue
        if defect is not None and k == 0:
            v.append((f"{PID}/harness/{ep}/defect-accepted-by-model", f"the model accepts the input labelled "
                      f"{defect} ({c.get('variant')}): generator / model mismatch", "model rejects labelled defects",
                      "correspondence"))
            continue
        if defect is None and k != 0:
            v.append((f"{PID}/harness/{ep}/twin-rejected-by-model", f"the model rejects the valid twin with "
                      f"{KIND.get(k)}", "model accepts valid twins", "correspondence"))
            continue
        if k != 0 and not o["raised"]:
            v.append((f"{PID}/{ep}/{arg}/{defect}-accepted",
                      f"defective input ({defect}: {c.get('variant')}) is processed without an exception; the model "
                      f"rejects it with {KIND.get(k)}", "a defective input raises an exception", "property"))
        elif k == 0 and o["raised"]:
            v.append((f"{PID}/{ep}/{arg}/valid-twin-raised",
                      f"valid input ({c.get('variant')}) raises {o['exc']}: {o['msg'][:120]}",
                      "a valid input is accepted", "correspondence"))
        elif k == 31 and o["exc"] != "NotFittedError":
            v.append((f"{PID}/{ep}/{arg}/not-NotFittedError",
                      f"prediction before fit raises {o['exc']} ({o['msg'][:80]}) instead of NotFittedError",
                      "prediction before fit raises NotFittedError", "property"))
        elif k != 0 and not any(o["exc"] == t and frag in o["msg"] for t, frag in EXPECT[k]):
            v.append((f"{PID}/{ep}/{arg}/{defect}-other-check-fired",
                      f"input with defect {defect} ({c.get('variant')}) raises {o['exc']}: "
                      f"{o['msg'][:100]!r}, not the check the model places first ({KIND.get(k)})",
                      "the rejection comes from the modelled check", "correspondence"))
    return v


def tags(case, out, model):
    t = [f"ep:{case['ep']}"]
    for c, o, k in zip(case["calls"], out, model or []):
        t.append(f"defect:{c.get('defect') or 'valid-twin'}")
        t.append(f"model:{KIND.get(k)}")
        if c.get("observe"):
            t.append(f"obs:{c['estimator']}.{c['method']}-after-failed-fit:" + (o["exc"] if o["raised"] else "no-exception"))
        cs = c.get("conts")
        if cs and c.get("arg") in cs:
            t.append(f"cont:{c['arg']}={cs[c['arg']]}")
    return t


def nontrivial(case, out, model):
    if model is None:
        return False
    twin = any(c.get("defect") is None and k == 0 and not o["raised"] for c, o, k in zip(case["calls"], out, model))
    rej = any(c.get("defect") is not None and k != 0 and o["raised"] for c, o, k in zip(case["calls"], out, model))
    return twin and rej


def canon(case):
    return {k: v for k, v in case.items() if not k.startswith("_")}


def shrink(case):
    calls = case["calls"]
    if len(calls) > 1:
        for c in calls[:64]:
            yield dict(case, calls=[c])
