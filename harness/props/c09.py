"""C09 -- GridSearch trains a faithful best response per grid point and picks the argmin."""
from __future__ import annotations
import itertools
from fractions import Fraction
from harness.core import Rng, gz, gq, gnat, gbool, glist, gopt, Dec, num_close

PID = "C09"
VO = ["theories/Base/Num.vo", "theories/Base/ListX.vo", "theories/Base/Flat.vo",
      "theories/Reductions/Grid.vo", "theories/Reductions/Grid_proofs.vo",
      "theories/Reductions/Moments.vo", "theories/Reductions/Moments_proofs.vo",
      "theories/Reductions/Reduction.vo", "theories/Reductions/Reduction_proofs.vo",
      "theories/Reductions/GridSearch.vo", "theories/Reductions/GridSearch_proofs.vo"]
PROPS_FILES = ["props/C09.v"]
TRANSLATORS = ["t_grid", "t_gridsearch"]
REQUIRES = ["From FL Require Import Num ListX Flat Grid Moments Reduction GridSearch."]
SHARD = 12
CHUNK = 2
CASE_TIMEOUT = 300
SEARCH_CAP = 600

LEVEL_TEXT = ("Proof (Coq): for the `values` rule and budget update regenerated from "
              "_GridGenerator.accumulate_integer_grid on every run, the integer lattice has sum|c_i| <= n "
              "(= n when forced), no duplicates and at least n+1 points; n_units is the least admissible n; for "
              "grid_size >= 2, limit > 0 and a basis whose columns all have their index entries the grid consists of "
              "exactly grid_size pairwise distinct non-negative vectors of L1 norm <= limit (== limit for loss "
              "moments); the selection returns the first index minimising (1-w)*objective + w*max(gamma). "
              "Fit loop (model FL.GridSearch: signed weights of the constraints + objective unless in the span, "
              "relabel 1[w>0], reweight |w|, DummyClassifier when one label, abstract learner, records, "
              "losses.index(min(losses)), predict): for every parity moment / ratio / cost pair / non-empty binary "
              "dataset and every multiplier vector, an exact cost-sensitive learner over a class H yields a recorded "
              "predictor that minimises objective + lambda.gamma (recorded values) and the Lagrangian over H "
              "(corollary of C07 cost_sensitive_equiv); for BoundedGroupLoss an exact weighted-loss regressor yields a "
              "minimiser of lambda.gamma (corollary of C07 loss_identity); recorded objective / gamma are those of the "
              "recorded predictor; predict delegates to the first arg-min; exhaustive search is an exact learner for "
              "every finite class. "
              "Tie to the code: translators t_grid and t_gridsearch (fail closed; relabel / reweight / weight sum / "
              "trade-off loss / selection expressions regenerated and proved to be the model's, the rest of fit and "
              "predict compared literally) + differential run of the Gallina grid against GridSearch.lambda_vecs_ "
              "entry by entry and of the Gallina fit loop (exact per-cell vote / weighted cell means as the learner) "
              "against objectives_ / gammas_ per grid point and the selected loss value. Also checked on the "
              "implementation's own numbers on every run: each predictor minimises objective + lambda.gamma over the "
              "enumerated class, recorded objective / gamma equal an independent recomputation, the loss at best_idx_ "
              "is the minimum, predict / predict_proba delegate to predictors_[best_idx_].")
LEVEL_NOTE = ("Trusted: Coq kernel + vm_compute; translators t_grid, t_gridsearch; the harness oracles (enumeration of "
              "all labelings of the distinct feature rows, closed-form weighted cell means for BoundedGroupLoss). The "
              "basis model (up_cols / bgl_cols), the start of the n_units search at a floating-point guess, the "
              "label alignment of the multipliers with the constraint index (align_grid) and the identification of "
              "harness.learners.ExactLearner / CellMeanRegressor with the Gallina exact_learn / mean_learn are tied by "
              "correspondence only; that sklearn's DummyClassifier / copy.deepcopy behave as modelled is assumed.")
TECHNIQUE = ("Coq proof about the grid generator, the fit loop and the selection rule on source-regenerated kernels + "
             "differential model/implementation run + property oracles on the real GridSearch.fit with an exact learner")
TRUSTED = ["Coq 8.16.1 kernel and vm_compute", "translators/t_grid.py", "translators/t_gridsearch.py",
           "harness/props/c09.py (generators, oracles, comparison)",
           "harness.learners.ExactLearner / CellMeanRegressor (exact best responses over cell functions)",
           "pandas sort order of the constraint index and label alignment (modelled)",
           "no axioms (Print Assumptions: closed)"]
ASSUMPTIONS = ["grid_size >= 2, grid_limit > 0, at least one (event, non-last group) cell present (true dimension "
               ">= 1; otherwise _GridGenerator divides by zero -- outside the property's quantifier)",
               "grid_offset = None, grid = None (the generated grid is used)",
               "best response is compared by Lagrangian VALUE (ties in the learner's weighted vote are not unique); "
               "recorded objective / gamma are compared with the fit-loop model entry by entry unless the model's "
               "vote margin is 0 at that grid point (then objective + lambda.gamma is compared)",
               "the best-response theorems assume an exact learner over the class (satisfiable: exhaustive search)"]
RULE = ("cases: random datasets n <= 14, 2..4 groups (random order of first appearance, empty (event, group) cells "
        "allowed and forced in a share of cases), 2..5 distinct feature rows, the five parity moments with difference "
        "and ratio bounds and BoundedGroupLoss(SquareLoss) with dyadic targets, grid_size 2..60, grid_limit in "
        "{1/2, 2, 37/10}, constraint_weight in {0, 1/4, 1/2, 1}; non-trivial = at least two distinct trained "
        "predictors and losses that are not all equal")
EXHAUSTIVE = {"quick": False, "thorough": False}
PARTIAL = []

PARITY = ["DemographicParity", "TruePositiveRateParity", "FalsePositiveRateParity", "EqualizedOdds",
          "ErrorRateParity"]
LIMITS = ["1/2", "2", "37/10"]
WEIGHTS = ["0", "1/4", "1/2", "1"]
TOL = 1e-9


# ----------------------------------------------------------------------------------------------
# data-side description of the constraint index and of the basis (python twin used only to pick
# admissible inputs and to lay out names; the model recomputes all of it from the codes)
# ----------------------------------------------------------------------------------------------
def _events(case):
    m, y = case["moment"], case["y"]
    if m in ("DemographicParity", "ErrorRateParity"):
        return [0] * len(y)
    if m == "TruePositiveRateParity":
        return [1 if v == 1 else None for v in y]
    if m == "FalsePositiveRateParity":
        return [0 if v == 0 else None for v in y]
    if m == "EqualizedOdds":
        return [int(v) for v in y]
    raise ValueError(m)


def _event_name(case, e):
    return "all" if case["moment"] in ("DemographicParity", "ErrorRateParity") else f"label={e}"


def _first_uniq(seq):
    out = []
    for v in seq:
        if v not in out:
            out.append(v)
    return out


def _basis_dim(case):
    """number of basis columns the (repaired) code allocates; also whether some candidate cell is empty"""
    g = case["g"]
    if case["moment"] == "BoundedGroupLoss":
        return len(set(g)), False
    ev = _events(case)
    cells = {(e, k) for e, k in zip(ev, g) if e is not None}
    cand = [(e, k) for e in _first_uniq([e for e in ev if e is not None]) for k in _first_uniq(g)[:-1]]
    present = [c for c in cand if c in cells]
    return len(present), len(present) < len(cand)


def _admissible(case):
    d, _ = _basis_dim(case)
    if case["moment"] == "BoundedGroupLoss":
        return d >= 2 and len(set(case["y"])) >= 2
    return d >= 1 and len(set(case["y"])) == 2


def _index_names(case):
    g = case["g"]
    if case["moment"] == "BoundedGroupLoss":
        return [f"g{k}" for k in sorted(set(g))]
    ev = _events(case)
    cells = sorted({(e, k) for e, k in zip(ev, g) if e is not None})
    return [[s, _event_name(case, e), f"g{k}"] for s in "+-" for e, k in cells]


# ----------------------------------------------------------------------------------------------
# generators
# ----------------------------------------------------------------------------------------------
def _mk(r, moment, force_empty=False):
    for _ in range(200):
        n = r.randint(4, 14)
        ng = r.randint(2, min(4, n))
        g = list(range(ng)) + [r.randint(0, ng - 1) for _ in range(n - ng)]
        r.shuffle(g)
        d = r.randint(2, min(5, n))
        x = list(range(d)) + [r.randint(0, d - 1) for _ in range(n - d)]
        r.shuffle(x)
        if moment == "BoundedGroupLoss":
            y = [str(Fraction(r.randint(0, 4), 4)) for _ in range(n)]
        else:
            y = [r.randint(0, 1) for _ in range(n)]
            if force_empty:
                k = r.choice(_first_uniq(g)[:-1])
                lab = r.randint(0, 1)
                y = [(1 - lab) if gi == k else yi for gi, yi in zip(g, y)]
        case = {"moment": moment, "x": x, "x2": [r.randint(0, 1) for _ in range(n)] if r.chance(1, 4) else None,
                "y": y, "g": g}
        if case["x2"] is not None and len({(a, b) for a, b in zip(x, case["x2"])}) > 5:
            case["x2"] = None
        if moment != "BoundedGroupLoss":
            if r.chance(1, 2):
                case["bound"] = {"difference_bound": r.choice(["1/100", "1/8", "1/4"])}
            else:
                case["bound"] = {"ratio_bound": r.choice(["1/2", "3/4", "7/8", "1"]),
                                 "ratio_bound_slack": r.choice(["0", "1/16"])}
        else:
            case["bound"] = {"upper_bound": "1/4"}
        if _admissible(case):
            return case
    raise RuntimeError("could not generate an admissible dataset")


def cases(tier, seed):
    n = {"quick": 120, "thorough": 1200}[tier]
    out = []
    moments = PARITY + ["BoundedGroupLoss"]
    for i in range(n):
        r = Rng(seed, PID, tier, i)
        moment = moments[i % len(moments)]
        force_empty = moment in ("TruePositiveRateParity", "FalsePositiveRateParity", "EqualizedOdds") \
            and r.chance(1, 3)
        c = _mk(r, moment, force_empty)
        c["grid_size"] = r.choice([2, 3, 4, 5, 7, 9, 10, 13]) if r.chance(1, 2) else r.randint(2, 60)
        c["grid_limit"] = r.choice(LIMITS)
        c["constraint_weight"] = r.choice(WEIGHTS)
        # a container estimator (sklearn Pipeline): its fitted state lives in NESTED objects, so every grid
        # point needs a deep, independent copy of the estimator
        c["wrap"] = "pipeline" if Rng(seed, PID, tier, "wrap", i).chance(1, 4) else None
        out.append(c)
    return out


# ----------------------------------------------------------------------------------------------
# implementation side
# ----------------------------------------------------------------------------------------------
def _moment(case):
    import fairlearn.reductions as red
    b = {k: float(Fraction(v)) for k, v in case["bound"].items()}
    if case["moment"] == "BoundedGroupLoss":
        return red.BoundedGroupLoss(red.SquareLoss(0, 1), upper_bound=b["upper_bound"])
    return getattr(red, case["moment"])(**b)


def _frame(case):
    import numpy as np, pandas as pd
    cols = {"a": case["x"]}
    if case.get("x2") is not None:
        cols["b"] = case["x2"]
    X = pd.DataFrame(cols)
    if case["moment"] == "BoundedGroupLoss":
        y = np.array([float(Fraction(v)) for v in case["y"]])
    else:
        y = np.array(case["y"])
    sf = np.array([f"g{k}" for k in case["g"]])
    return X, y, sf


def _fl(v):
    return [float(x) for x in v]


def impl(case):
    import numpy as np, pandas as pd
    from fairlearn.reductions import GridSearch
    from harness.learners import ExactLearner, CellMeanRegressor
    X, y, sf = _frame(case)
    reg = case["moment"] == "BoundedGroupLoss"
    base = CellMeanRegressor() if reg else ExactLearner()
    kw = {}
    if case.get("wrap") == "pipeline":
        from sklearn.pipeline import Pipeline
        from sklearn.preprocessing import FunctionTransformer
        base = Pipeline([("id", FunctionTransformer()), ("clf", base)])
        kw["sample_weight_name"] = "clf__sample_weight"
    import hashlib, json as _json
    prehist = int(hashlib.sha1(_json.dumps({k_: v_ for k_, v_ in case.items() if not str(k_).startswith("_")},
                                            sort_keys=True, default=str).encode()).hexdigest(), 16) % 3 == 0
    if prehist:
        # the same estimator object first configured differently and fitted, then re-configured through
        # set_params: everything checked below must describe the last fit only
        est = GridSearch(base, _moment(case), **kw, constraint_weight=0.5, grid_size=3, grid_limit=1.0)
        try:
            est.fit(X, y, sensitive_features=sf)
        except Exception:
            pass
        est.set_params(constraint_weight=float(Fraction(case["constraint_weight"])), grid_size=case["grid_size"],
                       grid_limit=float(Fraction(case["grid_limit"])))
    else:
        est = GridSearch(base, _moment(case), **kw,
                         constraint_weight=float(Fraction(case["constraint_weight"])),
                         grid_size=case["grid_size"], grid_limit=float(Fraction(case["grid_limit"])))
    try:
        est.fit(X, y, sensitive_features=sf)
    except Exception as e:  # fit must train one predictor per grid point: an exception is a finding
        return {"fit_error": f"{type(e).__name__}: {e}"[:300]}
    idx = est.lambda_vecs_.index
    res = {"index": [list(t) if isinstance(t, tuple) else t for t in idx],
           "lambda_cols": [int(c) for c in est.lambda_vecs_.columns],
           "lambdas": [_fl(est.lambda_vecs_[c].values) for c in est.lambda_vecs_.columns],
           "gamma_index_same": list(est.gammas_.index) == list(idx),
           "gammas": [_fl(est.gammas_[c].values) for c in est.gammas_.columns],
           "objectives": _fl(est.objectives_), "best_idx": int(est.best_idx_),
           "n_predictors": len(est.predictors_),
           "dummy": [type(p).__name__ == "DummyClassifier" for p in est.predictors_]}
    preds = [np.asarray(p.predict(X)).reshape(-1) for p in est.predictors_]
    res["preds"] = [_fl(p) for p in preds]
    res["predict"] = _fl(np.asarray(est.predict(X)).reshape(-1))
    if not reg:
        res["proba"] = [_fl(r) for r in np.asarray(est.predict_proba(X))]
        res["proba_best"] = [_fl(r) for r in np.asarray(est.predictors_[est.best_idx_].predict_proba(X))]
    # ---- independent recomputation: fresh moment / objective on the same data ----
    m2 = _moment(case)
    m2.load_data(X, y, sensitive_features=sf)
    o2 = m2.default_objective()
    o2.load_data(X, y, sensitive_features=sf)

    def ev(p):
        p = np.asarray(p, dtype=float)
        g = m2.gamma(lambda _X: p).reindex(idx)
        return float(o2.gamma(lambda _X: p).iloc[0]), np.asarray(g.values, dtype=float)

    re = [ev(p) for p in preds]
    res["obj_re"] = [o for o, _ in re]
    res["gamma_re"] = [_fl(g) for _, g in re]
    lam = [np.asarray(l) for l in res["lambdas"]]
    rows = [tuple(r) for r in X.values.tolist()]
    cells = sorted(set(rows))
    cell_of = np.array([cells.index(r) for r in rows])
    if not reg:
        # the hypothesis class: every labeling of the distinct feature rows
        klass = []
        for lab in itertools.product([0, 1], repeat=len(cells)):
            klass.append(ev(np.array(lab)[cell_of]))
        res["class_size"] = len(klass)
        res["L_min"] = [float(min(o + l.dot(g) for o, g in klass)) for l in lam]
        res["L_pred"] = [float(o + l.dot(g)) for l, (o, g) in zip(lam, re)]
    else:
        # lambda.gamma(h) = sum_i (lambda_g(i) / n_g(i)) (y_i - h(x_i))^2 ; minimised by weighted cell means
        names = list(idx)
        gcount = {nm: int((sf == nm).sum()) for nm in names}
        L_min = []
        for l in lam:
            w = np.array([l[names.index(s)] / gcount[s] for s in sf])
            tot = 0.0
            for c in range(len(cells)):
                sel = cell_of == c
                ws, ys = w[sel], y[sel]
                if ws.sum() > 0:
                    mu = (ws * ys).sum() / ws.sum()
                    tot += float((ws * (ys - mu) ** 2).sum())
            L_min.append(tot)
        res["class_size"] = -1
        res["L_min"] = L_min
        res["L_pred"] = [float(l.dot(g)) for l, (_, g) in zip(lam, re)]
    # ---- a USER-SUPPLIED grid: columns picked / reordered from the generated one and relabelled with arbitrary
    # integers; column labels must never be used as positions into the per-point records
    import hashlib as _h, json as _j
    hv = int(_h.sha1(_j.dumps({k_: v_ for k_, v_ in case.items() if not str(k_).startswith("_")},
                                sort_keys=True, default=str).encode()).hexdigest(), 16)
    if hv % 4 == 1 and len(est.lambda_vecs_.columns) >= 3:
        cols = list(est.lambda_vecs_.columns)
        k = len(cols)
        order = [cols[(i * 2 + 1) % k] for i in range(k)]
        order = list(dict.fromkeys(order))[: max(3, min(k, 6))]
        labels = [(7 * (i + 2)) % 23 + (3 if i % 2 else 0) for i in range(len(order))]
        labels = [l + 31 * j for j, l in enumerate(labels)] if len(set(labels)) != len(labels) else labels
        g2 = est.lambda_vecs_[order].copy()
        g2.columns = labels
        base2 = CellMeanRegressor() if reg else ExactLearner()
        kw2 = {}
        if case.get("wrap") == "pipeline":
            from sklearn.pipeline import Pipeline
            from sklearn.preprocessing import FunctionTransformer
            base2 = Pipeline([("id", FunctionTransformer()), ("clf", base2)])
            kw2["sample_weight_name"] = "clf__sample_weight"
        est2 = GridSearch(base2, _moment(case), **kw2, grid=g2,
                          constraint_weight=float(Fraction(case["constraint_weight"])))
        try:
            est2.fit(X, y, sensitive_features=sf)
            w_ = float(Fraction(case["constraint_weight"]))
            losses = [(1 - w_) * float(o) + w_ * float(est2.gammas_.iloc[:, i].max())
                      for i, o in enumerate(est2.objectives_)]
            bi = est2.best_idx_
            preds2 = [_fl(np.asarray(p.predict(X)).reshape(-1)) for p in est2.predictors_]
            res["custom"] = {"labels": [int(l) for l in labels], "best_idx": int(bi), "losses": losses,
                             "n": len(est2.predictors_), "preds": preds2,
                             "predict": _fl(np.asarray(est2.predict(X)).reshape(-1)),
                             "lambda_cols": [int(c) for c in est2.lambda_vecs_.columns],
                             "lambdas_same": bool(np.allclose(est2.lambda_vecs_.values, g2.values))}
        except Exception as e:  # noqa
            res["custom"] = {"error": f"{type(e).__name__}: {e}"[:200], "labels": [int(l) for l in labels]}
    return res


# ----------------------------------------------------------------------------------------------
# model side
# ----------------------------------------------------------------------------------------------
def _fq(v):
    return gq(Fraction(float(v)))


def term(case, out):
    reg = case["moment"] == "BoundedGroupLoss"
    groups = glist(case["g"], gz)
    if reg:
        basis = (f"let groups := {groups} in let cols := bgl_cols groups in let negs := bgl_negs groups in "
                 f"let m := bgl_m groups in let force := true in ")
    else:
        events = glist(_events(case), lambda e: gopt(e, gz))
        basis = (f"let events := {events} in let groups := {groups} in let cols := up_cols events groups in "
                 f"let negs := up_negs events groups in let m := up_m events groups in let force := false in ")
    if out is not None and "fit_error" in out:
        return None
    if out is not None and out.get("objectives") and len(out["objectives"]) == len(out["gammas"]):
        objs = glist(out["objectives"], _fq)
        gammas = glist([glist(g, _fq) for g in out["gammas"]])
    else:
        objs, gammas = "nil", "nil"
    cw = gq(Fraction(case['constraint_weight']))
    cells = sorted(set(_xrows(case)))
    xs = glist([cells.index(t) for t in _xrows(case)], gz)
    if reg:
        rows = glist([f"({gq(Fraction(y))}, {gz(g)})" for y, g in zip(case["y"], case["g"])])
        fit = f"run_loss (Square 0 1) {cw} (({rows}) : list lrow) {xs} gs limit"
    else:
        rows = glist([f"(mkRow {gz(y)} {gz(g)} None)" for y, g in zip(case["y"], case["g"])])
        fit = f"run_cls {KIND[case['moment']]} {gq(_ratio(case))} {cw} {rows} {xs} gs limit"
    return (basis + f"let gs := {gnat(case['grid_size'])} in let limit := {gq(Fraction(case['grid_limit']))} in "
            f"enc_bool (good_basis m cols negs) ++ enc_bool (true_dim_pos negs force) ++ enc_nat m ++ "
            f"enc_opt enc_z (n_units negs force gs) ++ "
            f"enc_opt (enc_list (enc_list enc_q)) (grid m cols negs force gs limit) ++ "
            f"enc_opt (enc_pair enc_nat enc_q) (select {cw} "
            f"(({objs}) : list Q) (({gammas}) : list (list Q))) ++ {fit}")


KIND = {"DemographicParity": "DP", "TruePositiveRateParity": "TPR", "FalsePositiveRateParity": "FPR",
        "EqualizedOdds": "EO", "ErrorRateParity": "ERP"}


def _xrows(case):
    if case.get("x2") is not None:
        return [(a, b) for a, b in zip(case["x"], case["x2"])]
    return [(a,) for a in case["x"]]


def _ratio(case):
    return Fraction(case["bound"]["ratio_bound"]) if "ratio_bound" in case["bound"] else Fraction(1)


def decode(case, zs):
    d = Dec(zs)
    res = {"good_basis": d.bool(), "true_dim_pos": d.bool(), "m": d.nat(), "n_units": d.opt(d.z),
           "grid": d.opt(lambda: d.list(lambda: d.list(d.q))),
           "select": d.opt(lambda: (d.nat(), d.q()))}
    reg = case["moment"] == "BoundedGroupLoss"
    if d.z() == 0:
        res["fit"] = None
    else:
        keys = d.list(d.z) if reg else d.list(lambda: (d.z(), d.z(), d.z()))

        def point():
            lam = d.list(d.q)
            dummy = d.bool()
            margin = Fraction(1) if reg else d.q()
            return {"lam": lam, "dummy": dummy, "margin": margin, "obj": d.q(), "gamma": d.list(d.q)}
        res["fit"] = {"keys": keys, "points": d.list(point), "select": d.opt(lambda: (d.nat(), d.q()))}
    d.done()
    return res


# ----------------------------------------------------------------------------------------------
# comparison
# ----------------------------------------------------------------------------------------------
def _loss(w, obj, gam):
    return (1 - w) * obj + w * max(gam)


def compare(case, out, model):
    v = []
    E = "GridSearch.fit"
    if "fit_error" in out:
        cls = "raises-all-zero-sample-weights" if "at least one non-zero" in out["fit_error"] else "raises"
        return [(f"{PID}/{E}/fit/{cls}", f"fit raised {out['fit_error']}",
                 "fit trains one predictor per multiplier vector", "property")]
    cu = out.get("custom")
    if cu is not None:
        if "error" in cu:
            v.append((f"{PID}/{E}/custom-grid/raises", f"fit / predict with a user-supplied grid whose columns are "
                      f"labelled {cu['labels']} raised {cu['error']}", "a user-supplied grid is used column by column",
                      "property"))
        else:
            b_ = cu["best_idx"]
            if not (0 <= b_ < cu["n"]) or cu["losses"][b_] > min(cu["losses"]) + 1e-9:
                v.append((f"{PID}/{E}/custom-grid/best_idx-not-the-argmin",
                          f"user-supplied grid with column labels {cu['labels']}: best_idx_={b_}, losses by position "
                          f"{cu['losses']}", "best_idx_ is the POSITION of the minimum trade-off loss", "property"))
            elif cu["predict"] != cu["preds"][b_]:
                v.append((f"{PID}/{E}/custom-grid/predict-does-not-delegate",
                          f"predict differs from predictors_[best_idx_={b_}] (labels {cu['labels']})",
                          "predict delegates to the selected predictor", "property"))
            if not cu["lambdas_same"] or cu["lambda_cols"] != cu["labels"]:
                v.append((f"{PID}/{E}/custom-grid/lambda_vecs-differ", "lambda_vecs_ is not the supplied grid",
                          "lambda_vecs_ holds the supplied vectors under their labels", "property"))
    gs = case["grid_size"]
    limit = float(Fraction(case["grid_limit"]))
    w = float(Fraction(case["constraint_weight"]))
    lam = out["lambdas"]
    _, has_empty = _basis_dim(case)
    # ---- (1) property oracles on the implementation's own grid ----
    if len(lam) != gs or out["n_predictors"] != gs or len(out["objectives"]) != gs or len(out["gammas"]) != gs:
        v.append((f"{PID}/{E}/lambda_vecs/count", f"{len(lam)} multiplier vectors, {out['n_predictors']} predictors "
                  f"for grid_size={gs}", "exactly grid_size vectors / predictors / records", "property"))
    dup = next(((i, j) for i in range(len(lam)) for j in range(i + 1, len(lam))
                if max(abs(a - b) for a, b in zip(lam[i], lam[j])) <= TOL), None)
    if dup:
        cls = "duplicate-empty-event-group-cell" if has_empty else "duplicate"
        v.append((f"{PID}/{E}/lambda_vecs/{cls}", f"grid columns {dup[0]} and {dup[1]} are the same vector "
                  f"{lam[dup[0]]}", "multiplier vectors pairwise distinct", "property"))
    for i, l in enumerate(lam):
        if min(l) < -1e-12:
            v.append((f"{PID}/{E}/lambda_vecs/negative-entry", f"column {i} has entry {min(l)}",
                      "all multipliers >= 0", "property"))
            break
    for i, l in enumerate(lam):
        if sum(abs(x) for x in l) > limit + TOL:
            v.append((f"{PID}/{E}/lambda_vecs/l1-norm-exceeds-limit", f"column {i}: L1 norm "
                      f"{sum(abs(x) for x in l)} > grid_limit {limit}", "L1 norm <= grid_limit", "property"))
            break
    # ---- (2) best response: Lagrangian VALUE of each predictor vs the minimum over the class ----
    for i, (lp, lm) in enumerate(zip(out["L_pred"], out["L_min"])):
        if lp > lm + TOL * (1 + abs(lm)):
            v.append((f"{PID}/{E}/predictors/not-a-best-response", f"grid point {i} (lambda={lam[i]}): "
                      f"objective+lambda.gamma of predictors_[{i}] is {lp}, the class minimum is {lm}",
                      "predictors_[i] minimises objective + lambda_i.gamma over the hypothesis class", "property"))
            break
    # ---- (3) recorded objective / gamma describe the recorded predictor ----
    if not out["gamma_index_same"]:
        v.append((f"{PID}/{E}/gammas/index-differs", "gammas_ index differs from lambda_vecs_ index",
                  "gammas_ and lambda_vecs_ share the constraint index", "property"))
    for i in range(min(len(out["objectives"]), len(out["obj_re"]))):
        if not num_close(out["objectives"][i], out["obj_re"][i]):
            v.append((f"{PID}/{E}/objectives/not-the-predictors-objective", f"objectives_[{i}]="
                      f"{out['objectives'][i]} but predictors_[{i}] has objective {out['obj_re'][i]}",
                      "objectives_[i] = objective of predictors_[i]'s own predictions", "property"))
            break
    for i in range(min(len(out["gammas"]), len(out["gamma_re"]))):
        if len(out["gammas"][i]) != len(out["gamma_re"][i]) or \
                any(not num_close(a, b) for a, b in zip(out["gammas"][i], out["gamma_re"][i])):
            v.append((f"{PID}/{E}/gammas/not-the-predictors-gamma", f"gammas_[{i}]={out['gammas'][i]} but "
                      f"predictors_[{i}] has gamma {out['gamma_re'][i]}",
                      "gammas_[i] = gamma of predictors_[i]'s own predictions", "property"))
            break
    # ---- (4) selection: compare VALUES (immune to ties), on the recomputed numbers ----
    true_losses = [_loss(w, o, g) for o, g in zip(out["obj_re"], out["gamma_re"])]
    b = out["best_idx"]
    if not (0 <= b < len(true_losses)):
        v.append((f"{PID}/{E}/best_idx/out-of-range", f"best_idx_={b}", "0 <= best_idx_ < grid_size", "property"))
    elif true_losses[b] > min(true_losses) + TOL:
        v.append((f"{PID}/{E}/best_idx/not-the-argmin", f"loss at best_idx_={b} is {true_losses[b]}, the minimum "
                  f"over the trained predictors is {min(true_losses)} (constraint_weight={w})",
                  "best_idx_ minimises (1-w)*objective + w*max(gamma)", "property"))
    # ---- (5) predict / predict_proba delegate to the selected predictor ----
    if 0 <= b < len(out["preds"]) and out["predict"] != out["preds"][b]:
        v.append((f"{PID}/GridSearch.predict/output/not-the-selected-predictor",
                  f"predict(X)={out['predict']} but predictors_[{b}].predict(X)={out['preds'][b]}",
                  "predict(X) == predictors_[best_idx_].predict(X)", "property"))
    if "proba" in out and out["proba"] != out["proba_best"]:
        v.append((f"{PID}/GridSearch.predict_proba/output/not-the-selected-predictor",
                  "predict_proba(X) differs from predictors_[best_idx_].predict_proba(X)",
                  "predict_proba(X) == predictors_[best_idx_].predict_proba(X)", "property"))
    # ---- (6) correspondence with the model ----
    if model is None:
        return v
    if not (model["good_basis"] and model["true_dim_pos"]) or model["grid"] is None:
        v.append((f"{PID}/model/guard/not-satisfied", f"model guard good_basis={model['good_basis']} "
                  f"true_dim_pos={model['true_dim_pos']} on a generated input (generator or basis-model defect)",
                  "generated inputs satisfy the guard of C09_grid_vectors", "correspondence"))
        return v
    names = _index_names(case)
    if out["index"] != names or out["lambda_cols"] != list(range(len(lam))):
        v.append((f"{PID}/{E}/lambda_vecs/index-layout", f"index {out['index']} expected {names}",
                  "constraint index = (sign, event, group) sorted", "correspondence"))
        return v
    mg = model["grid"]
    bad = None
    if len(mg) != len(lam):
        bad = f"model grid has {len(mg)} columns, implementation {len(lam)}"
    else:
        for i, (a, bq) in enumerate(zip(lam, mg)):
            if len(a) != len(bq) or any(not num_close(x, q) for x, q in zip(a, bq)):
                bad = (f"column {i}: implementation {a} model {[str(q) for q in bq]} "
                       f"(model n_units={model['n_units']})")
                break
    if bad:
        v.append((f"{PID}/{E}/lambda_vecs/differs-from-model", bad, "lambda_vecs_ equals Grid.grid column by column",
                  "correspondence"))
    if model["select"] is not None and len(out["objectives"]) == len(out["gammas"]) and 0 <= b < len(out["gammas"]):
        mi, mv = model["select"]
        rec = [_loss(w, o, g) for o, g in zip(out["objectives"], out["gammas"])]
        if abs(rec[b] - float(mv)) > TOL:
            v.append((f"{PID}/{E}/best_idx/loss-differs-from-model", f"recorded loss at best_idx_={b} is {rec[b]}, "
                      f"model minimum {float(mv)} at index {mi}", "loss at best_idx_ = Grid.select minimum",
                      "correspondence"))
        else:
            others = [abs(x - float(mv)) for j, x in enumerate(rec) if j != mi]
            if b != mi and (not others or min(others) > 1e-6):
                v.append((f"{PID}/{E}/best_idx/index-differs-from-model", f"best_idx_={b}, model {mi} with a unique "
                          f"minimum", "best_idx_ = Grid.select index when the minimum is unique", "correspondence"))
    v += _compare_fit(case, out, model, w)[0]
    return v


def _impl_keys(case, out):
    """implementation index entries as the model's keys"""
    if case["moment"] == "BoundedGroupLoss":
        return [int(str(nm)[1:]) for nm in out["index"]]
    ks = []
    for s_, ev, g in out["index"]:
        ks.append((1 if s_ == "+" else 0, 2 if ev == "all" else int(str(ev).split("=")[1]), int(str(g)[1:])))
    return ks


def _compare_fit(case, out, model, w):
    """(7) the Gallina fit loop (model grid -> signed weights -> relabel / reweight -> exact learner -> records ->
    select) against objectives_ / gammas_ per grid point and the loss value at best_idx_"""
    v = []
    st = {"strong": 0, "weak": 0}
    E = "GridSearch.fit"
    fit = model.get("fit")
    if fit is None:
        v.append((f"{PID}/model/fit-loop/no-grid", "the fit-loop model produced no grid", "model grid exists",
                  "correspondence"))
        return v, st
    try:
        perm = [fit["keys"].index(k) for k in _impl_keys(case, out)]
    except ValueError:
        perm = None
    if perm is None or sorted(perm) != list(range(len(fit["keys"]))):
        v.append((f"{PID}/{E}/gammas/index-differs-from-fit-model", f"implementation index {out['index']} model keys "
                  f"{fit['keys']}", "constraint index = Moments.index as a set", "correspondence"))
        return v, st
    pts = fit["points"]
    if len(pts) != len(out["objectives"]) or len(pts) != len(out["gammas"]):
        v.append((f"{PID}/{E}/objectives/count-differs-from-fit-model", f"{len(out['objectives'])} records, model "
                  f"{len(pts)}", "one record per multiplier vector", "correspondence"))
        return v, st
    strong = True
    for i, pt in enumerate(pts):
        lam_i, gam_i, obj_i = out["lambdas"][i], out["gammas"][i], out["objectives"][i]
        if len(gam_i) != len(perm) or len(lam_i) != len(perm):
            v.append((f"{PID}/{E}/gammas/length-differs-from-fit-model", f"grid point {i}: {len(gam_i)} entries",
                      "gammas_ column has one entry per index entry", "correspondence"))
            return v, st
        if any(not num_close(lam_i[j], pt["lam"][perm[j]]) for j in range(len(perm))):
            v.append((f"{PID}/{E}/lambda_vecs/alignment-differs-from-fit-model", f"grid point {i}: implementation "
                      f"{lam_i} (index {out['index']}), model {[str(q) for q in pt['lam']]} (keys {fit['keys']})",
                      "multipliers aligned with the constraint index by label", "correspondence"))
            return v, st
        same = num_close(obj_i, pt["obj"]) and all(num_close(gam_i[j], pt["gamma"][perm[j]])
                                                   for j in range(len(perm)))
        if same:
            st["strong"] += 1
            continue
        L_impl = obj_i + sum(a * b for a, b in zip(lam_i, gam_i))
        L_model = pt["obj"] + sum(a * b for a, b in zip(pt["lam"], pt["gamma"]))
        if case["moment"] == "BoundedGroupLoss":
            L_impl -= obj_i
            L_model -= pt["obj"]
        if pt["margin"] > Fraction(1, 10 ** 9):
            v.append((f"{PID}/{E}/records/differ-from-fit-model", f"grid point {i} (lambda={lam_i}): recorded "
                      f"objective {obj_i} gamma {gam_i}; the fit-loop model (exact learner, vote margin "
                      f"{float(pt['margin'])}) gives objective {float(pt['obj'])} gamma "
                      f"{[float(pt['gamma'][perm[j]]) for j in range(len(perm))]}",
                      "objectives_[i], gammas_[i] = GridSearch.fit_cls / fit_loss at grid point i", "correspondence"))
            return v, st
        st["weak"] += 1
        strong = False       # a tied vote: the trained predictor is not unique, its Lagrangian value is
        if not num_close(L_impl, L_model, atol=1e-8, rtol=1e-8):
            v.append((f"{PID}/{E}/records/lagrangian-differs-from-fit-model", f"grid point {i} (lambda={lam_i}, tied "
                      f"vote): objective + lambda.gamma is {L_impl}, model {float(L_model)}",
                      "objective + lambda.gamma at grid point i = value of the model's best response", "correspondence"))
            return v, st
    b = out["best_idx"]
    if strong and fit["select"] is not None and 0 <= b < len(out["gammas"]):
        mi, mv = fit["select"]
        rec_b = _loss(w, out["objectives"][b], out["gammas"][b])
        if not num_close(rec_b, mv, atol=1e-8, rtol=1e-8):
            v.append((f"{PID}/{E}/best_idx/loss-differs-from-fit-model", f"recorded loss at best_idx_={b} is {rec_b}, "
                      f"the fit-loop model selects index {mi} with loss {float(mv)}",
                      "loss at best_idx_ = minimum of the model's trade-off losses", "correspondence"))
    return v, st


def tags(case, out, model):
    if "fit_error" in out:
        return ["fit-raised"]
    d, empty = _basis_dim(case)
    t = [f"moment:{case['moment']}", f"groups:{len(set(case['g']))}", f"dim:{d}",
         f"bound:{sorted(case['bound'])[0]}", f"gs:{min(case['grid_size'] // 10 * 10, 60)}+",
         f"limit:{case['grid_limit']}", f"w:{case['constraint_weight']}"]
    if empty:
        t.append("empty-cell")
    if model is not None and model.get("n_units") is not None:
        t.append(f"n_units:{min(model['n_units'], 10)}{'+' if model['n_units'] >= 10 else ''}")
    if any(out.get("dummy", [])):
        t.append("dummy-classifier")
    if model is not None and model.get("fit"):
        t.append("fit-model:tied-vote" if any(p["margin"] == 0 for p in model["fit"]["points"])
                 else "fit-model:no-tie")
        st = _compare_fit(case, out, model, float(Fraction(case["constraint_weight"])))[1]
        t.append("fit-model:all-records-equal" if st["weak"] == 0 else "fit-model:some-point-by-lagrangian-value")
    return t


def nontrivial(case, out, model):
    if "fit_error" in out:
        return False
    preds = {tuple(p) for p in out["preds"]}
    w = float(Fraction(case["constraint_weight"]))
    losses = [_loss(w, o, g) for o, g in zip(out["obj_re"], out["gamma_re"])]
    return len(preds) >= 2 and max(losses) - min(losses) > 1e-6


def canon(case):
    return {k: v for k, v in case.items() if not k.startswith("_")}


def shrink(case):
    n = len(case["y"])
    if case["grid_size"] > 2:
        for gs in sorted({2, case["grid_size"] // 2, case["grid_size"] - 1}):
            if 2 <= gs < case["grid_size"]:
                yield dict(case, grid_size=gs)
    if case.get("x2") is not None:
        yield dict(case, x2=None)
    for i in range(n):
        c = dict(case)
        for k in ("x", "y", "g"):
            c[k] = case[k][:i] + case[k][i + 1:]
        if case.get("x2") is not None:
            c["x2"] = case["x2"][:i] + case["x2"][i + 1:]
        gs_ = sorted(set(c["g"]))
        if gs_ != list(range(len(gs_))) or len(gs_) < 2 or len(set(c["x"])) < 2:
            continue
        if _admissible(c):
            yield c
