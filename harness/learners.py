"""Test doubles passed to fairlearn through its public extension points."""
import numpy as np
from sklearn.base import BaseEstimator, ClassifierMixin, RegressorMixin


class PassThrough(BaseEstimator, ClassifierMixin):
    """Pre-fitted scorer: the score is the first feature column."""

    def __init__(self):
        pass

    def fit(self, X, y=None, **kw):
        self.fitted_ = True
        return self

    def __sklearn_is_fitted__(self):
        return True

    def _col(self, X):
        X = np.asarray(X)
        return X[:, 0].astype(float)

    def predict(self, X):
        return self._col(X)

    def predict_proba(self, X):
        s = self._col(X)
        return np.stack([1 - s, s], axis=1)

    def decision_function(self, X):
        return self._col(X)


def _rows(X):
    X = np.asarray(X)
    if X.ndim == 1:
        X = X.reshape(-1, 1)
    return [tuple(float(v) for v in r) for r in X]


class ExactLearner(BaseEstimator, ClassifierMixin):
    """Exact cost-sensitive learner over the class of ALL labelings of the distinct feature rows:
    per distinct row it predicts the label with the larger total weight (ties -> 0), which
    minimises the weighted 0/1 error over that class."""

    def __init__(self):
        pass

    def fit(self, X, y, sample_weight=None):
        y = np.asarray(y).reshape(-1)
        w = np.ones(len(y)) if sample_weight is None else np.asarray(sample_weight, dtype=float).reshape(-1)
        tot = {}
        for r, yi, wi in zip(_rows(X), y, w):
            a = tot.setdefault(r, [0.0, 0.0])
            a[int(yi)] += wi
        self.table_ = {r: int(a[1] > a[0]) for r, a in tot.items()}
        self.classes_ = np.array([0, 1])
        return self

    def predict(self, X):
        return np.array([self.table_.get(r, 0) for r in _rows(X)])

    def predict_proba(self, X):
        p = self.predict(X).astype(float)
        return np.stack([1 - p, p], axis=1)


class CellMeanRegressor(BaseEstimator, RegressorMixin):
    """Exact weighted least squares over functions of the distinct feature rows (cell means)."""

    def __init__(self):
        pass

    def fit(self, X, y, sample_weight=None):
        y = np.asarray(y, dtype=float).reshape(-1)
        w = np.ones(len(y)) if sample_weight is None else np.asarray(sample_weight, dtype=float).reshape(-1)
        tot = {}
        for r, yi, wi in zip(_rows(X), y, w):
            a = tot.setdefault(r, [0.0, 0.0])
            a[0] += wi * yi
            a[1] += wi
        self.table_ = {r: (a[0] / a[1] if a[1] > 0 else 0.0) for r, a in tot.items()}
        return self

    def predict(self, X):
        return np.array([self.table_.get(r, 0.0) for r in _rows(X)])
