"""Generic check flow: build -> obligations -> corpus -> correspondence ->
search / shrink -> known findings -> evidence.  One property module per
property under harness/props/."""
from __future__ import annotations

import importlib
import json
import os
import sys
import time
from pathlib import Path

from . import core
from .core import Violation


def _load(pid):
    return importlib.import_module(f"harness.props.{pid.lower()}")


def _eval_cases(P, cases, tag="cases"):
    """Run implementation and model on the cases. Returns list of (case, impl_out, model_out, errors)."""
    for i, c in enumerate(cases):
        c["_id"] = i
    impl_res = core.run_impl(P.__name__, "impl", cases, case_timeout=getattr(P, "CASE_TIMEOUT", 120),
                             chunksize=getattr(P, "CHUNK", 4))
    terms = []
    for c, (st, out) in zip(cases, impl_res):
        # the model term may depend on implementation output (e.g. logged resamples, fitted multipliers)
        t = P.term(c, out if st == "ok" else None)
        if t is not None:
            terms.append((c["_id"], t))
    results, errors = core.coq_eval(P.PID, P.REQUIRES, terms, shard=getattr(P, "SHARD", 250), tag=tag)
    rows = []
    for c, (st, out) in zip(cases, impl_res):
        zs = results.get(c["_id"])
        rows.append((c, st, out, zs))
    return rows, errors


def _judge(P, rows):
    """Return (violations, n_nontrivial_distinct, histogram, samples)."""
    vios = []
    distinct = set()
    hist = {}
    samples = []
    for c, st, out, zs in rows:
        if st == "timeout":
            vios.append(Violation(f"{P.PID}/harness/timeout", "implementation call timed out", case=c,
                                  found_input=True))
            continue
        if st != "ok":
            vios.append(Violation(f"{P.PID}/harness/exception", f"harness exception: {out}", case=c))
            continue
        need_model = P.term(c, out) is not None
        model = None
        if need_model:
            if zs is None:
                vios.append(Violation(f"{P.PID}/harness/no-model-result", "model evaluation produced no result",
                                      case=c, impl=out))
                continue
            try:
                model = P.decode(c, zs)
            except Exception as e:  # noqa
                vios.append(Violation(f"{P.PID}/harness/decode", f"decode error {e!r} on {zs[:40]}", case=c, impl=out))
                continue
        for item in P.compare(c, out, model):
            sig, what, oracle = item[:3]
            kind = item[3] if len(item) > 3 else "property"
            w = Violation(sig, what, case=c, impl=out, model=model, oracle=oracle,
                          found_input=(kind == "property"))
            w.kind = kind
            vios.append(w)
        for k in P.tags(c, out, model):
            hist[k] = hist.get(k, 0) + 1
        if P.nontrivial(c, out, model):
            distinct.add(json.dumps(core.jsonable(P.canon(c)), sort_keys=True))
        if len(samples) < 3:
            samples.append({"input": P.canon(c), "implementation": out, "model": model})
    return vios, len(distinct), hist, samples


def _shrink(P, v: Violation, budget=40):
    """Greedy shrinking: keep a smaller case while it still yields a violation with the same signature."""
    if not hasattr(P, "shrink") or v.case is None:
        return v
    cur = v
    rounds = 0
    while rounds < budget:
        rounds += 1
        cands = list(P.shrink(cur.case))[:64]
        if not cands:
            break
        rows, _ = _eval_cases(P, [dict(c) for c in cands], tag="shrink")
        nxt = None
        for row in rows:
            vs, _, _, _ = _judge(P, [row])
            for w in vs:
                if w.signature == cur.signature and w.found_input == cur.found_input:
                    nxt = w
                    break
            if nxt:
                break
        if nxt is None:
            break
        cur = nxt
    return cur


MAX_SHRINK = 3      # signatures that get a minimised replay; the others are reported as found


def run_check(pid: str, tier: str, seed: int, replay: str | None = None) -> int:
    t0 = time.time()
    P = _load(pid)
    known = [k for k in core.load_known() if k.get("property") == pid]
    known_sigs = {k["signature"]: k for k in known if k.get("status") == "known"}
    obligations = []      # (name, ok, detail)
    broken = []           # Violation objects for broken obligations
    checker_cmds = []

    # ---- 1. build + obligations ------------------------------------------------
    with core.BuildLock():
        failures = core.regen_sources()
        for tname in getattr(P, "TRANSLATORS", []):
            terr = failures.get(tname)
            obligations.append((f"translator:{tname}", terr is None, terr or ""))
            if terr:
                broken.append(Violation(f"{pid}/obligation/translator/{tname}",
                                        f"translator {tname} cannot translate the current source: {terr}",
                                        obligation={"translator": tname, "error": terr}, found_input=False))
        ok, log = core.coq_make(list(getattr(P, "VO", [])))
        checker_cmds.append(f"coq_makefile -f _CoqProject -o Makefile; make -C coq -j{core.NPROC} "
                            f"{' '.join(getattr(P, 'VO', []))} (full .vo build, no -vos)")
        if not ok:
            broken.append(Violation(f"{pid}/obligation/theories-build", "coq model files do not build",
                                    obligation={"file": "coq/theories", "coqc_error": log[-3000:]},
                                    found_input=False))
        bad = core.forbidden_scan() + core.section_scan()
        obligations.append(("no-admitted-no-axiom-scan", not bad, "; ".join(bad[:5])))
        if bad:
            broken.append(Violation(f"{pid}/obligation/forbidden-construct",
                                    "forbidden construct in the development",
                                    obligation={"lines": bad[:20]}, found_input=False))
        for pf in P.PROPS_FILES:
            f = core.COQ / pf
            vo = f.with_suffix(".vo")
            if vo.exists():
                vo.unlink()
            okc, outc = core.coq_make([pf[:-2] + ".vo"])
            checker_cmds.append(f"make -C coq {pf[:-2]}.vo  # coqc on {pf} and everything it depends on, "
                                f"incl. regenerated gen/*.v")
            names = core.theorem_names(f)
            blocks = core.parse_assumptions(outc)
            if not okc or len(blocks) != len(names):
                obligations.append((pf, False, outc[-1500:]))
                for n in names:
                    obligations.append((f"{pf}:{n}", False, "file did not compile"))
                broken.append(Violation(f"{pid}/obligation/{pf}", f"theorem file {pf} no longer compiles",
                                        obligation={"file": f"coq/{pf}", "theorems": names,
                                                    "coqc_error": outc[-3000:]}, found_input=False))
            else:
                for n, b in zip(names, blocks):
                    good = b == "closed" or (isinstance(b, list) and set(b) <= core.ALLOWED_AXIOMS)
                    obligations.append((f"{pf}:{n}", good, "" if good else f"axioms {b}"))
                    if not good:
                        broken.append(Violation(f"{pid}/obligation/axioms/{n}", f"{n} depends on axioms {b}",
                                                obligation={"theorem": n, "axioms": b}, found_input=False))

    # ---- 2/3. corpus + correspondence --------------------------------------------
    if replay:
        doc = json.loads(Path(replay).read_text())
        cases = [doc["input"]] if doc.get("input") else []
    else:
        cases = []
        cdir = core.CORPUS / pid
        if cdir.exists():
            for f in sorted(cdir.glob("*.json")):
                c = json.loads(f.read_text())
                c["_corpus"] = f.name
                cases.append(c)
        cases += P.cases(tier, seed)
    n_corpus = sum(1 for c in cases if "_corpus" in c)
    rows, eval_errors = ([], [])
    vios, n_nt, hist, samples = [], 0, {}, []
    if ok and cases:
        rows, eval_errors = _eval_cases(P, cases)
        vios, n_nt, hist, samples = _judge(P, rows)
    for e in eval_errors:
        broken.append(Violation(f"{pid}/harness/coq-eval", e, found_input=False))

    # ---- 4. search when an obligation broke and nothing differed yet --------------
    searched = 0
    if broken and not any(v.found_input and v.signature not in known_sigs for v in vios) and ok \
            and not replay and hasattr(P, "cases") and tier == "quick":
        extra = P.cases("thorough", seed + 1)
        extra = extra[: getattr(P, "SEARCH_CAP", 4000)]
        searched = len(extra)
        rows2, _ = _eval_cases(P, extra, tag="search")
        v2, _, _, _ = _judge(P, rows2)
        vios += v2

    # ---- shrink + classify --------------------------------------------------------
    by_sig = {}
    for v in vios:
        by_sig.setdefault(v.signature, []).append(v)
    reported = 0
    known_hit = []
    lines = []
    have_input = any(v.found_input for v in vios if v.signature not in known_sigs)
    shrunk = 0
    for sig, vs in by_sig.items():
        v = vs[0]
        if sig in known_sigs:
            known_hit.append(sig)
            lines.append(f"KNOWN-FINDING: property={pid} {known_sigs[sig]['what']} [{sig}; {len(vs)} case(s)]")
            continue
        if not v.found_input and have_input:
            lines.append(f"# also: correspondence broken: {sig}: {v.what} ({len(vs)} case(s))")
            continue
        if not replay and "/harness/" not in sig and shrunk < MAX_SHRINK:
            v = _shrink(P, v)
            shrunk += 1
        rp = core.write_replay(pid, v, seed)
        lines.append(f"# {sig}: {v.what} ({len(vs)} case(s))")
        if v.found_input:
            lines.append(f"VIOLATION property={pid} replay={rp.relative_to(core.VERIF)}")
        else:
            # model and implementation disagree on this input but the property's own oracle holds there
            lines.append(f"VIOLATION property={pid} replay={rp.relative_to(core.VERIF)} no-failing-input-found")
        reported += 1
    if broken and not have_input:
        # property no longer shown to hold, no failing input found
        for b in broken:
            b.case = None
            rp = core.write_replay(pid, b, seed)
            lines.append(f"# {b.signature}: {b.what} (searched {searched} extra cases)")
            lines.append(f"VIOLATION property={pid} replay={rp.relative_to(core.VERIF)} no-failing-input-found")
            reported += 1
    elif broken:
        for b in broken:
            lines.append(f"# also broken: {b.signature}: {b.what}")

    # ---- 6. evidence ----------------------------------------------------------------
    n_obl = len(obligations)
    n_dis = sum(1 for _, g, _ in obligations if g)
    coverage = {
        "obligations": n_obl,
        "discharged": n_dis,
        "obligation_list": [{"name": n, "ok": g, **({"detail": d} if d else {})} for n, g, d in obligations],
        "checker_cmd": "; ".join(dict.fromkeys(checker_cmds)),
        "trusted_base": P.TRUSTED,
        "evaluations": len(rows),
        "corpus_cases": n_corpus,
        "distinct_nontrivial": n_nt,
        "rule": P.RULE,
        "samples": samples,
        "histogram": hist,
        "traces_validated_against_impl": sum(1 for r in rows if r[1] == "ok"),
        "exhaustive": bool(getattr(P, "EXHAUSTIVE", {}).get(tier, False)),
        "partial": getattr(P, "PARTIAL", []),
        "known_findings_hit": known_hit,
        "extra_search_cases": searched,
    }
    core.write_evidence(pid, tier, seed, coverage, time.time() - t0, reported,
                        getattr(P, "ASSUMPTIONS", []))
    for ln in lines:
        print(ln)
    print(f"[{pid}] tier={tier} obligations {n_dis}/{n_obl} cases={len(rows)} nontrivial={n_nt} "
          f"violations={reported} known={len(known_hit)} wall={time.time() - t0:.1f}s")
    return 1 if reported else 0
