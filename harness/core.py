"""Shared machinery of the checks: Coq build / evaluation, implementation
workers, comparison helpers, evidence, known findings, replay files.

Everything a registered command needs lives under /verif (build output in
/verif/build); nothing under /tmp is required.
"""
from __future__ import annotations

import fcntl
import hashlib
import importlib
import json
import math
import os
import re
import signal
import subprocess
import sys
import time
import traceback
from concurrent.futures import ProcessPoolExecutor
from fractions import Fraction
from pathlib import Path

VERIF = Path(__file__).resolve().parent.parent
REPO = Path(os.environ.get("VERIF_REPO", "/repo")).resolve()
BUILD = VERIF / "build"
EVID = VERIF / "evidence"
if str(REPO) == "/repo":
    COQ = VERIF / "coq"
    ALT = None
else:
    # self-tests against a mutated copy of the repository: mirror the Coq tree so that regenerated
    # fragments and their dependents never disturb the build that belongs to /repo
    ALT = hashlib.sha1(str(REPO).encode()).hexdigest()[:10]
    COQ = BUILD / "alt" / ALT / "coq"
    BUILD = BUILD / "alt" / ALT
    EVID = BUILD / "evidence"
REPLAYS = EVID / "replays"
CORPUS = VERIF / "corpus"
PY = "/venv/bin/python"
NPROC = int(os.environ.get("VERIF_JOBS", "16"))
COQ_TIMEOUT = int(os.environ.get("VERIF_COQ_TIMEOUT", "900"))

COQ_FLAGS = ["-Q", str(COQ / "theories"), "FL", "-Q", str(COQ / "props"), "FLProps",
             "-Q", str(COQ / "gen"), "FLGen",
             "-w", "-notation-overridden,-deprecated-hint-without-locality,-deprecated-instance-without-locality,"
                   "-deprecated-syntactic-definition,-ambiguous-paths"]

ALLOWED_AXIOMS: set[str] = set()   # the development is axiom-free; see DESIGN.md section 8


# --------------------------------------------------------------------------
# PRNG: one splitmix64 stream per (seed, property, case number)
# --------------------------------------------------------------------------
class Rng:
    def __init__(self, *keys):
        h = hashlib.sha256(("|".join(str(k) for k in keys)).encode()).digest()
        self.s = int.from_bytes(h[:8], "big")

    def u64(self):
        self.s = (self.s + 0x9E3779B97F4A7C15) & 0xFFFFFFFFFFFFFFFF
        z = self.s
        z = ((z ^ (z >> 30)) * 0xBF58476D1CE4E5B9) & 0xFFFFFFFFFFFFFFFF
        z = ((z ^ (z >> 27)) * 0x94D049BB133111EB) & 0xFFFFFFFFFFFFFFFF
        return z ^ (z >> 31)

    def randint(self, lo, hi):
        """inclusive"""
        return lo + self.u64() % (hi - lo + 1)

    def choice(self, seq):
        return seq[self.u64() % len(seq)]

    def chance(self, num, den):
        return self.u64() % den < num

    def shuffle(self, lst):
        for i in range(len(lst) - 1, 0, -1):
            j = self.u64() % (i + 1)
            lst[i], lst[j] = lst[j], lst[i]
        return lst

    def sample(self, seq, k):
        l = list(seq)
        self.shuffle(l)
        return l[:k]


# --------------------------------------------------------------------------
# Gallina literal writers
# --------------------------------------------------------------------------
def gz(z) -> str:
    z = int(z)
    return f"({z})%Z" if z < 0 else f"{z}%Z"


def gnat(n) -> str:
    return f"{int(n)}%nat"


def gq(q) -> str:
    q = Fraction(q)
    n, d = q.numerator, q.denominator
    return f"(({n})#{d})%Q" if n < 0 else f"({n}#{d})%Q"


def gbool(b) -> str:
    return "true" if b else "false"


def glist(items, f=str) -> str:
    items = list(items)
    if not items:
        return "nil"
    return "(" + " :: ".join(f(x) for x in items) + " :: nil)"


def gopt(x, f=str) -> str:
    return "None" if x is None else f"(Some {f(x)})"


def gpair(a, b) -> str:
    return f"({a}, {b})"


# --------------------------------------------------------------------------
# Decoder for the Flat.v wire format
# --------------------------------------------------------------------------
class Dec:
    def __init__(self, zs):
        self.zs = list(zs)
        self.i = 0

    def z(self):
        v = self.zs[self.i]
        self.i += 1
        return v

    def nat(self):
        return self.z()

    def bool(self):
        return self.z() != 0

    def q(self):
        n = self.z()
        d = self.z()
        return Fraction(n, d)

    def ext(self):
        t = self.z()
        if t == 0:
            return self.q()
        return {1: math.inf, 2: -math.inf, 3: math.nan}[t]

    def list(self, f):
        n = self.z()
        return [f() for _ in range(n)]

    def opt(self, f):
        return f() if self.z() else None

    def key(self):
        return tuple(self.list(self.z))

    def done(self):
        if self.i != len(self.zs):
            raise ValueError(f"trailing data in model output: used {self.i} of {len(self.zs)}")


# --------------------------------------------------------------------------
# numeric comparison (float implementation value vs exact model value)
# --------------------------------------------------------------------------
def num_close(a, b, atol=1e-9, rtol=1e-9) -> bool:
    """a: implementation value (float-like), b: model value (Fraction / float nan,inf)."""
    try:
        fa = float(a)
    except Exception:
        return False
    fb = float(b)
    if math.isnan(fb):
        return math.isnan(fa)
    if math.isnan(fa):
        return False
    if math.isinf(fb) or math.isinf(fa):
        return fa == fb
    return abs(fa - fb) <= atol + rtol * abs(fb)


def jsonable(x):
    if isinstance(x, Fraction):
        return str(x)
    if isinstance(x, float):
        if math.isnan(x):
            return "nan"
        if math.isinf(x):
            return "inf" if x > 0 else "-inf"
        return x
    if isinstance(x, (list, tuple)):
        return [jsonable(v) for v in x]
    if isinstance(x, dict):
        return {str(k): jsonable(v) for k, v in x.items()}
    if isinstance(x, (set, frozenset)):
        return sorted(jsonable(v) for v in x)
    try:
        import numpy as np
        if isinstance(x, np.generic):
            return jsonable(x.item())
        if isinstance(x, np.ndarray):
            return jsonable(x.tolist())
    except Exception:
        pass
    if isinstance(x, (str, int, bool)) or x is None:
        return x
    return repr(x)


# --------------------------------------------------------------------------
# Coq: build, compile obligations, evaluate models
# --------------------------------------------------------------------------
def _run(cmd, timeout, cwd=None):
    try:
        p = subprocess.run(cmd, cwd=cwd, stdout=subprocess.PIPE, stderr=subprocess.PIPE,
                           timeout=timeout, text=True)
        return p.returncode, p.stdout, p.stderr
    except subprocess.TimeoutExpired as e:
        return 124, (e.stdout or b"").decode() if isinstance(e.stdout, bytes) else (e.stdout or ""), "timeout"


class BuildLock:
    def __enter__(self):
        BUILD.mkdir(parents=True, exist_ok=True)
        self.f = open(BUILD / ".lock", "w")
        fcntl.flock(self.f, fcntl.LOCK_EX)
        return self

    def __exit__(self, *a):
        fcntl.flock(self.f, fcntl.LOCK_UN)
        self.f.close()


def regen_sources():
    """Run every translator against the current REPO tree, (re)write coq/gen/*.v when the text
    changed, and regenerate _CoqProject from the files on disk.  A translator that cannot
    translate the current source writes a fragment that does not compile (fail closed).
    Returns dict translator -> error string (only failures)."""
    import translators
    if ALT is not None:
        COQ.mkdir(parents=True, exist_ok=True)
        subprocess.run(["rsync", "-a", "--delete", "--exclude", "gen/", "--exclude", "Makefile*",
                        "--exclude", ".Makefile.d", "--exclude", "_CoqProject", "--exclude", "props/*.vo",
                        "--exclude", "props/*.glob", "--exclude", "props/*.vos", "--exclude", "props/*.vok",
                        str(VERIF / "coq") + "/", str(COQ) + "/"], check=True)
    gen = COQ / "gen"
    gen.mkdir(exist_ok=True)
    failures = {}
    wanted = set()
    for tname in translators.all_names():
        tmod = None
        try:
            tmod = importlib.import_module(f"translators.{tname}")
            outputs = tmod.translate(REPO)
        except Exception as e:  # fail closed
            if tmod is None or not hasattr(tmod, "OUTPUTS"):
                failures[tname] = f"{type(e).__name__}: {e}"
                continue
            failures[tname] = f"{type(e).__name__}: {e}"
            msg = failures[tname].replace("*)", "* )").replace("(*", "( *")
            outputs = {fn: f"(* translator {tname} failed: {msg} *)\n"
                           f"Definition translator_failed : False := I.\n" for fn in tmod.OUTPUTS}
        for fname, text in outputs.items():
            wanted.add(fname)
            f = gen / fname
            if not f.exists() or f.read_text() != text:
                f.write_text(text)
    for f in gen.glob("*.v"):
        if f.name not in wanted:
            f.unlink()
    head = ["-Q theories FL", "-Q props FLProps", "-Q gen FLGen",
            "-arg -w -arg -notation-overridden,-deprecated-hint-without-locality,"
            "-deprecated-instance-without-locality,-deprecated-syntactic-definition,-ambiguous-paths"]
    files = []
    for d in ("theories", "gen", "props"):
        files += sorted(str(p.relative_to(COQ)) for p in (COQ / d).rglob("*.v"))
    text = "\n".join(head + files) + "\n"
    proj = COQ / "_CoqProject"
    if not proj.exists() or proj.read_text() != text:
        proj.write_text(text)
    return failures


def coq_make(targets=None, keep_going=False):
    """Incremental full-.vo build (no -vos) of the given .vo targets (default: everything)."""
    mk = COQ / "Makefile"
    proj = COQ / "_CoqProject"
    if not mk.exists() or mk.stat().st_mtime < proj.stat().st_mtime:
        rc, out, err = _run(["coq_makefile", "-f", "_CoqProject", "-o", "Makefile"], 120, cwd=COQ)
        if rc != 0:
            return False, out + err
    cmd = ["make", f"-j{NPROC}"] + (["-k"] if keep_going else []) + list(targets or [])
    rc, out, err = _run(cmd, COQ_TIMEOUT, cwd=COQ)
    return rc == 0, out + err


_ASSUME_RE = re.compile(r"^(Closed under the global context|Axioms:)", re.M)


def coq_compile(vfile: Path, timeout=COQ_TIMEOUT):
    """Compile one .v file (gen/ or props/) and return (ok, stdout+stderr)."""
    rc, out, err = _run(["coqc", *COQ_FLAGS, str(vfile)], timeout, cwd=COQ)
    return rc == 0, out + ("\n" + err if err.strip() else "")


def parse_assumptions(output: str):
    """Return list of blocks: 'closed' or list of axiom names, one per Print Assumptions."""
    blocks = []
    lines = output.splitlines()
    i = 0
    while i < len(lines):
        ln = lines[i]
        if ln.startswith("Closed under the global context"):
            blocks.append("closed")
        elif ln.startswith("Axioms:"):
            names = []
            i += 1
            while i < len(lines) and (lines[i].startswith(" ") or lines[i].strip() == "" or ":" in lines[i]):
                m = re.match(r"^([A-Za-z_][\w.']*)\s*:", lines[i])
                if m:
                    names.append(m.group(1))
                elif lines[i].startswith("Closed under") or lines[i].startswith("Axioms:"):
                    i -= 1
                    break
                i += 1
            blocks.append(names)
        i += 1
    return blocks


def theorem_names(vfile: Path):
    txt = vfile.read_text()
    return re.findall(r"^Print Assumptions\s+([\w.']+)\s*\.", txt, re.M)


def _strip_comments(text: str) -> str:
    """blank out Coq comments (nested, multi-line) keeping line structure"""
    out = []
    depth = 0
    i = 0
    n = len(text)
    while i < n:
        two = text[i:i + 2]
        if two == "(*":
            depth += 1
            out.append("  ")
            i += 2
        elif two == "*)" and depth > 0:
            depth -= 1
            out.append("  ")
            i += 2
        else:
            ch = text[i]
            out.append(ch if (depth == 0 or ch == "\n") else " ")
            i += 1
    return "".join(out)


def _src_dirs():
    return [VERIF / "coq" / d for d in ("theories", "props")] + [COQ / "gen"]


def forbidden_scan():
    """grep for constructs the brief forbids; returns list of offending lines."""
    bad = []
    pat = re.compile(r"\b(Admitted|admit|Axiom|Axioms|Parameter|Parameters|Conjecture|Admit Obligations|"
                     r"Unset Guard Checking|Unset Positivity Checking|Unset Universe Checking|bypass_check|"
                     r"native_compute)\b")
    for d in _src_dirs():
        for f in sorted(d.rglob("*.v")):
            raw = f.read_text()
            for n, (line, code) in enumerate(zip(raw.splitlines(), _strip_comments(raw).splitlines()), 1):
                if pat.search(code):
                    bad.append(f"{f.relative_to(VERIF)}:{n}: {line.strip()}")
                if re.match(r"^\s*(Variable|Variables|Hypothesis|Hypotheses|Context)\b", code):
                    # allowed only inside a Section: checked structurally
                    pass
    return bad


def section_scan():
    """Variable/Hypothesis outside a Section declare axioms: reject them."""
    bad = []
    for d in _src_dirs():
        for f in sorted(d.rglob("*.v")):
            depth = 0
            for n, line in enumerate(_strip_comments(f.read_text()).splitlines(), 1):
                code = line.strip()
                if re.match(r"^Section\s+\w+", code):
                    depth += 1
                elif re.match(r"^End\s+\w+\s*\.", code) and depth > 0:
                    depth -= 1
                elif re.match(r"^(Variable|Variables|Hypothesis|Hypotheses|Context)\b", code) and depth == 0:
                    bad.append(f"{f.relative_to(VERIF)}:{n}: {code}")
    return bad


_INT_RE = re.compile(r"-?\d+")


def coq_eval(pid: str, requires: list[str], terms: list[tuple[int, str]], shard=250, tag="cases",
             timeout=COQ_TIMEOUT):
    """Evaluate `terms` (id, Gallina expression of type list Z) with vm_compute.

    Returns (results: dict id -> list[int], errors: list[str]).
    """
    cdir = BUILD / "cases" / pid
    cdir.mkdir(parents=True, exist_ok=True)
    for old in cdir.glob(f"{tag}_*"):
        old.unlink()
    files = []
    for k in range(0, len(terms), shard):
        part = terms[k:k + shard]
        f = cdir / f"{tag}_{k // shard:04d}.v"
        with open(f, "w") as fh:
            fh.write("From Coq Require Import QArith ZArith List.\n")
            for r in requires:
                fh.write(r.rstrip(".") + ".\n")
            fh.write("Import ListNotations.\nSet Printing Width 1000000.\nSet Printing Depth 10000000.\n")
            for cid, t in part:
                fh.write(f"Eval vm_compute in (({cid})%Z, ({t})).\n")
        files.append((f, [cid for cid, _ in part]))
    results: dict[int, list[int]] = {}
    errors: list[str] = []

    def one(item):
        f, ids = item
        rc, out, err = _run(["bash", "-c", "ulimit -s unlimited 2>/dev/null; exec coqc \"$@\"", "coqc",
                             *COQ_FLAGS, "-Q", str(cdir), f"Cases{pid}", str(f)], timeout, cwd=COQ)
        return f, ids, rc, out, err

    from concurrent.futures import ThreadPoolExecutor
    with ThreadPoolExecutor(max_workers=NPROC) as ex:
        for f, ids, rc, out, err in ex.map(one, files):
            if rc != 0:
                errors.append(f"coqc failed on {f.name}: rc={rc} {err.strip()[:2000]}")
                continue
            blocks = re.split(r"^\s*:\s.*$", out, flags=re.M)
            got = 0
            for b in blocks:
                if "=" not in b:
                    continue
                b = b[b.index("=") + 1:]
                ints = [int(x) for x in _INT_RE.findall(b.replace("%Z", "").replace("%nat", ""))]
                if not ints:
                    continue
                results[ints[0]] = ints[1:]
                got += 1
            if got != len(ids):
                errors.append(f"{f.name}: expected {len(ids)} results, parsed {got}")
    for f, _ in files:
        for ext in (".vo", ".vok", ".vos", ".glob"):
            p = f.with_suffix(ext)
            if p.exists():
                p.unlink()
        aux = f.parent / ("." + f.stem + ".aux")
        if aux.exists():
            aux.unlink()
    return results, errors


# --------------------------------------------------------------------------
# Implementation workers
# --------------------------------------------------------------------------
class CaseTimeout(Exception):
    pass


def _alarm(signum, frame):
    raise CaseTimeout()


def _worker_init(repo, modname=None):
    try:  # die with the parent: never leave orphaned workers behind
        import ctypes
        ctypes.CDLL("libc.so.6").prctl(1, signal.SIGKILL)
        if os.getppid() == 1:
            os._exit(0)
    except Exception:
        pass
    os.environ.setdefault("OMP_NUM_THREADS", "1")
    os.environ.setdefault("MKL_NUM_THREADS", "1")
    if sys.path[0] != repo:
        sys.path.insert(0, repo)
    import warnings
    warnings.filterwarnings("ignore")
    import logging
    logging.disable(logging.CRITICAL)
    import fairlearn
    got = str(Path(fairlearn.__file__).resolve())
    if not got.startswith(repo):
        raise RuntimeError(f"fairlearn imported from {got}, expected under {repo}")
    if modname:
        # import the property module (and torch when it needs it) OUTSIDE any per-case alarm:
        # an import interrupted by a timeout leaves the worker unusable
        mod = importlib.import_module(modname)
        if getattr(mod, "NEEDS_TORCH", False) or getattr(mod, "PID", "") in ("C16", "C17", "C19"):
            try:
                import torch
                torch.set_num_threads(1)
            except Exception:
                pass


def _worker_run(args):
    modname, fname, case, tmo = args
    mod = importlib.import_module(modname)
    fn = getattr(mod, fname)
    if "torch" in sys.modules and not getattr(_worker_run, "_torch1", False):
        try:
            sys.modules["torch"].set_num_threads(1)
            _worker_run._torch1 = True
        except Exception:
            pass
    signal.signal(signal.SIGALRM, _alarm)
    signal.alarm(tmo)
    try:
        return ("ok", fn(case))
    except CaseTimeout:
        return ("timeout", None)
    except BaseException as e:  # noqa
        return ("harness-exc", f"{type(e).__name__}: {e}\n{traceback.format_exc()[-1500:]}")
    finally:
        signal.alarm(0)


_POOL = None


def pool(modname=None, workers=None):
    global _POOL
    if _POOL is None:
        import multiprocessing as mp
        ctx = mp.get_context("spawn")
        _POOL = ProcessPoolExecutor(max_workers=workers or NPROC, mp_context=ctx, initializer=_worker_init,
                                    initargs=(str(REPO), modname))
    return _POOL


def shutdown_pool():
    global _POOL
    if _POOL is not None:
        try:
            for p in list(getattr(_POOL, "_processes", {}).values()):
                p.kill()
        except Exception:
            pass
        _POOL = None


def run_impl(modname: str, fname: str, cases: list, case_timeout=120, chunksize=4):
    """Run fn(case) for every case in worker processes importing fairlearn from REPO."""
    args = [(modname, fname, c, case_timeout) for c in cases]
    res = list(pool(modname).map(_worker_run, args, chunksize=chunksize))
    # a timeout or a crash inside a loaded worker says nothing about the code under test: run those
    # cases once more, a few at a time, in fresh workers with a much longer limit
    again = [i for i, (st, _) in enumerate(res) if st in ("timeout", "harness-exc")]
    if again:
        shutdown_pool()
        args2 = [(modname, fname, cases[i], case_timeout * 5) for i in again]
        res2 = list(pool(modname, workers=min(4, NPROC)).map(_worker_run, args2, chunksize=1))
        shutdown_pool()
        for i, r in zip(again, res2):
            res[i] = r
    return res


def classify_exc(e: BaseException) -> str:
    """Canonical exception classes for comparison with the model."""
    n = type(e).__name__
    if n == "NotFittedError":
        return "NotFitted"
    return n


# --------------------------------------------------------------------------
# Known findings, replay, evidence
# --------------------------------------------------------------------------
def load_known():
    f = VERIF / "known_findings.json"
    if not f.exists():
        return []
    return json.loads(f.read_text())


class Violation:
    def __init__(self, signature, what, case=None, impl=None, model=None, oracle=None,
                 obligation=None, found_input=True):
        self.signature = signature
        self.what = what
        self.case = case
        self.impl = impl
        self.model = model
        self.oracle = oracle
        self.obligation = obligation
        self.found_input = found_input


def write_replay(pid, v: Violation, seed) -> Path:
    REPLAYS.mkdir(parents=True, exist_ok=True)
    h = hashlib.sha1((v.signature + json.dumps(jsonable(v.case), sort_keys=True)).encode()).hexdigest()[:10]
    f = REPLAYS / f"{pid}_{h}.json"
    f.write_text(json.dumps({
        "property": pid,
        "kind": "failing-input" if v.found_input else "broken-obligation",
        "signature": v.signature,
        "what": v.what,
        "input": jsonable(v.case),
        "implementation_output": jsonable(v.impl),
        "model_output": jsonable(v.model),
        "oracle": v.oracle,
        "obligation": v.obligation,
        "seed": seed,
        "how_to_replay": f"./check {pid} --replay {f.relative_to(VERIF)}",
    }, indent=1))
    return f


def write_evidence(pid, tier, seed, coverage, wall, violations, assumptions, extra=None):
    EVID.mkdir(exist_ok=True)
    doc = {
        "property_id": pid, "tier": tier, "seed": int(seed), "level": "proof",
        "coverage": coverage, "assumptions": assumptions, "wall_s": round(wall, 2),
        "violations": violations,
    }
    if extra:
        doc.update(extra)
    (EVID / f"{pid}.json").write_text(json.dumps(jsonable(doc), indent=1))
