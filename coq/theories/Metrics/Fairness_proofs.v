(* Lemmas and main theorems of C03: the model of Fairness.v (the composition the code writes) equals the
   expression built directly from the rows.  Composition of the C14 lemmas (BaseRates_proofs: the base
   metrics are weighted ratios in [0,1]) and the C02 lemmas (Aggregates_proofs: difference = max - min,
   ratio bounds) through a slicing lemma (columns sliced by a group mask = the rows of that group). *)
From Coq Require Import QArith ZArith List Bool Lia Lra Psatz.
From FL Require Disagg.
From FL Require Import Num ListX BaseRates BaseRates_proofs Aggregates Aggregates_proofs Fairness.
Import ListNotations.
Open Scope Q_scope.

(* ------------------------------------------------------------------ *)
(* the first-principles side: rows tagged with their group             *)
(* ------------------------------------------------------------------ *)

Definition binary_row (r : row) : Prop := (yt r = 0 \/ yt r = 1)%Z /\ (yp r = 0 \/ yp r = 1)%Z.

Definition good_rows (rows : list row) : Prop :=
  rows <> [] /\ forall r, In r rows -> 0 < wt r /\ binary_row r.

Definition rows_of (g : Z) (grs : list (Z * row)) : list row :=
  map snd (filter (fun x => (fst x =? g)%Z) grs).
Definition groups_of (grs : list (Z * row)) : list Z := zuniq (map fst grs).
Definition group_rates (spec : list row -> Q) (grs : list (Z * row)) : list Q :=
  map (fun g => spec (rows_of g grs)) (groups_of grs).

Definition is_qmax (m : Q) (l : list Q) : Prop :=
  (exists x, In x l /\ x == m) /\ forall x, In x l -> x <= m.
Definition is_qmin (m : Q) (l : list Q) : Prop :=
  (exists x, In x l /\ x == m) /\ forall x, In x l -> m <= x.

(* the premises of every theorem: consistent columns, >= 1 row, 0/1 labels, positive weights *)
Definition valid (y_true y_pred sf : list Z) (sw : option (list Q)) (rows : list row) : Prop :=
  mk_rows y_true y_pred sw = Some rows /\ length sf = length y_true /\ good_rows rows.

(* ------------------------------------------------------------------ *)
(* slicing                                                              *)
(* ------------------------------------------------------------------ *)

Lemma sel_length_eq {A B} (m : list bool) (a : list A) (b : list B) :
  length a = length b -> length (sel m a) = length (sel m b).
Proof.
  revert a b. induction m as [|x m IH]; intros [|u a] [|v b] H; cbn in *; try discriminate; try reflexivity.
  destruct x; cbn; [f_equal|]; apply IH; lia.
Qed.

Lemma sel_repeat {A} (m : list bool) (x : A) n :
  sel m (repeat x n) = repeat x (length (sel m (repeat x n))).
Proof.
  revert n. induction m as [|b m IH]; intros [|n]; cbn; try reflexivity.
  destruct b; cbn; [f_equal|]; apply IH.
Qed.

Lemma sel_zip_rows m a b c :
  length a = length b -> length c = length a ->
  sel m (zip_rows a b c) = zip_rows (sel m a) (sel m b) (sel m c).
Proof.
  revert a b c. induction m as [|x m IH]; intros [|u a] [|v b] [|w c] H1 H2; cbn in *; try discriminate; try reflexivity.
  destruct x; cbn; [f_equal|]; apply IH; lia.
Qed.

Lemma mk_rows_sel m y_true y_pred sw rows :
  mk_rows y_true y_pred sw = Some rows ->
  mk_rows (sel m y_true) (sel m y_pred) (option_map (sel m) sw) = Some (sel m rows).
Proof.
  intro H. destruct (mk_rows_inv _ _ _ _ H) as [Hl [Hw ->]].
  set (ws := weights_or_ones (length y_pred) sw) in *.
  assert (Ews : weights_or_ones (length (sel m y_true)) (option_map (sel m) sw) = sel m ws).
  { unfold ws. destruct sw as [w|]; cbn [option_map weights_or_ones]; [reflexivity|].
    unfold ones. rewrite sel_repeat. f_equal. apply sel_length_eq. rewrite repeat_length. exact Hl. }
  unfold mk_rows. rewrite Ews.
  assert (E1 := sel_length_eq m y_true y_pred Hl).
  assert (E2 : length (sel m ws) = length (sel m y_true)) by (apply sel_length_eq; congruence).
  rewrite E2, E1, !Nat.eqb_refl. cbn [andb]. f_equal. symmetry. apply sel_zip_rows; congruence.
Qed.

Lemma sel_filter g (sf : list Z) (rows : list row) :
  sel (map (Z.eqb g) sf) rows = rows_of g (combine sf rows).
Proof.
  unfold rows_of. revert rows. induction sf as [|s sf IH]; intros [|r rows]; cbn; try reflexivity.
  rewrite (Z.eqb_sym s g). destruct (g =? s)%Z; cbn; [f_equal|]; apply IH.
Qed.

Lemma map_fst_combine {A B} (a : list A) (b : list B) : length a = length b -> map fst (combine a b) = a.
Proof.
  revert b. induction a as [|x a IH]; intros [|y b] H; cbn in *; try discriminate; try reflexivity.
  f_equal. apply IH. lia.
Qed.

Lemma rows_of_in g grs r : In r (rows_of g grs) -> exists x, In x grs /\ snd x = r.
Proof.
  unfold rows_of. intro H. apply in_map_iff in H. destruct H as [x [E Hx]].
  apply filter_In in Hx. exists x. tauto.
Qed.

Lemma rows_of_nonempty g grs : In g (map fst grs) -> rows_of g grs <> [].
Proof.
  intro H. apply in_map_iff in H. destruct H as [x [E Hx]].
  assert (Hin : In (snd x) (rows_of g grs)).
  { unfold rows_of. apply in_map. apply filter_In. split; [exact Hx|]. apply Z.eqb_eq. exact E. }
  intro E0. rewrite E0 in Hin. exact Hin.
Qed.

Lemma good_rows_group g sf rows :
  length sf = length rows -> good_rows rows -> In g sf -> good_rows (rows_of g (combine sf rows)).
Proof.
  intros Hl [_ Hg] Hin. split.
  - apply rows_of_nonempty. rewrite map_fst_combine by exact Hl. exact Hin.
  - intros r Hr. apply rows_of_in in Hr. destruct Hr as [[s r'] [Hx E]]. cbn in E. subst r'.
    apply Hg. eapply in_combine_r. exact Hx.
Qed.

(* ------------------------------------------------------------------ *)
(* the base metrics on good rows                                        *)
(* ------------------------------------------------------------------ *)

Definition base_ok (b : base) (spec : list row -> Q) : Prop :=
  forall y_true y_pred sw rows, mk_rows y_true y_pred sw = Some rows -> good_rows rows ->
    exists q, base_fn b y_true y_pred sw = Some (Fin q) /\ q == spec rows /\ 0 <= q <= 1.

Lemma good_total_pos rows : good_rows rows -> 0 < total_weight rows.
Proof.
  intros [Hne Hg]. unfold total_weight. apply BaseRates_proofs.wsum_pos.
  - intros r Hr. apply Hg. exact Hr.
  - destruct rows as [|r rows]; [congruence|]. exists r. split; [left|]; reflexivity.
Qed.

Lemma wsum_le_total p rows : (forall r, In r rows -> 0 <= wt r) -> wsum p rows <= total_weight rows.
Proof.
  unfold total_weight. induction rows as [|r rows IH]; intro H; cbn [wsum]; [lra|].
  assert (0 <= wt r) by (apply H; left; reflexivity).
  assert (wsum p rows <= wsum (fun _ => true) rows) by (apply IH; intros; apply H; right; assumption).
  destruct (p r); lra.
Qed.

Lemma div_unit a t : 0 <= a -> a <= t -> 0 < t -> 0 <= a / t <= 1.
Proof.
  intros Ha Hat Ht. split.
  - apply Qle_shift_div_l; [exact Ht | lra].
  - apply Qle_shift_div_r; [exact Ht | lra].
Qed.

Lemma good_nonneg rows : good_rows rows -> forall r, In r rows -> 0 <= wt r.
Proof. intros [_ Hg] r Hr. apply Qlt_le_weak. apply Hg. exact Hr. Qed.

Lemma frac_unit p rows : good_rows rows -> 0 <= wsum p rows / total_weight rows <= 1.
Proof.
  intro Hg. apply div_unit.
  - apply BaseRates_proofs.wsum_nonneg. apply good_nonneg. exact Hg.
  - apply wsum_le_total. apply good_nonneg. exact Hg.
  - apply good_total_pos. exact Hg.
Qed.

Lemma base_ok_sel : base_ok BSel (sel_spec 1).
Proof.
  intros y_true y_pred sw rows Hr Hg. cbn [base_fn].
  destruct (selection_rate_spec y_true y_pred sw 1%Z rows Hr (good_total_pos rows Hg)) as [q [E Hq]].
  exists q. split; [exact E|]. split; [exact Hq|]. rewrite Hq. unfold sel_spec. apply frac_unit. exact Hg.
Qed.

Lemma binary_accepted y_true y_pred sw rows :
  mk_rows y_true y_pred sw = Some rows -> good_rows rows ->
  exists n, accepted y_true y_pred sw None rows n 1%Z.
Proof.
  intros Hr [Hne Hg].
  destruct (mk_rows_cols _ _ _ _ Hr) as [Et [Ep _]].
  assert (Hv : forall x, In x (y_true ++ y_pred) -> x = 0%Z \/ x = 1%Z).
  { intros x Hx. apply in_app_or in Hx. destruct Hx as [Hx|Hx].
    - rewrite <- Et in Hx. apply in_map_iff in Hx. destruct Hx as [r [<- Hin]]. apply Hg. exact Hin.
    - rewrite <- Ep in Hx. apply in_map_iff in Hx. destruct Hx as [r [<- Hin]]. apply Hg. exact Hin. }
  assert (Hl : y_true ++ y_pred <> []).
  { destruct rows as [|r rows]; [congruence|]. rewrite <- Et. cbn. discriminate. }
  destruct (labels_accept (y_true ++ y_pred) 0%Z 1%Z Hl Hv) as [n Hn].
  exists n. split; [exact Hr|].
  cbn [labels_for_cm] in Hn |- *.
  assert (Hs : issuperset [0%Z; 1%Z] (zuniq (y_true ++ y_pred)) = true).
  { apply issuperset_spec. intros x Hx. apply (proj1 (zuniq_in _ _)) in Hx. destruct (Hv x Hx) as [-> | ->]; cbn; auto. }
  rewrite Hs. cbn [orb]. exact Hn.
Qed.

Lemma rates_ok y_true y_pred sw rows :
  mk_rows y_true y_pred sw = Some rows -> good_rows rows ->
  exists c, rates y_true y_pred sw None = Some c /\
    q_tpr c == tpr_spec 1 rows /\ q_fnr c == fnr_spec 1 rows /\
    q_fpr c == fpr_spec 1 rows /\ q_tnr c == tnr_spec 1 rows /\
    (0 <= q_tpr c <= 1) /\ (0 <= q_fnr c <= 1) /\ (0 <= q_fpr c <= 1) /\ (0 <= q_tnr c <= 1).
Proof.
  intros Hr Hg. destruct (binary_accepted _ _ _ _ Hr Hg) as [n Ha].
  destruct (rates_are_ratios _ _ _ _ _ _ _ Ha) as [c [Ec [H1 [H2 [H3 H4]]]]]; [discriminate|].
  exists c. split; [exact Ec|]. repeat (split; [assumption|]).
  apply (rates_unit_interval _ _ _ _ _ Ec).
  intros w Hw. destruct (mk_rows_cols _ _ _ _ Hr) as [_ [_ [Ew _]]]. rewrite <- Ew in Hw.
  apply in_map_iff in Hw. destruct Hw as [r [<- Hin]]. apply (good_nonneg rows Hg). exact Hin.
Qed.

Lemma base_ok_tpr : base_ok BTpr (tpr_spec 1).
Proof.
  intros y_true y_pred sw rows Hr Hg. destruct (rates_ok _ _ _ _ Hr Hg) as [c [Ec H]].
  exists (q_tpr c). cbn [base_fn]. unfold true_positive_rate. rewrite Ec. cbn [option_map]. tauto.
Qed.
Lemma base_ok_tnr : base_ok BTnr (tnr_spec 1).
Proof.
  intros y_true y_pred sw rows Hr Hg. destruct (rates_ok _ _ _ _ Hr Hg) as [c [Ec H]].
  exists (q_tnr c). cbn [base_fn]. unfold true_negative_rate. rewrite Ec. cbn [option_map]. tauto.
Qed.
Lemma base_ok_fpr : base_ok BFpr (fpr_spec 1).
Proof.
  intros y_true y_pred sw rows Hr Hg. destruct (rates_ok _ _ _ _ Hr Hg) as [c [Ec H]].
  exists (q_fpr c). cbn [base_fn]. unfold false_positive_rate. rewrite Ec. cbn [option_map]. tauto.
Qed.
Lemma base_ok_fnr : base_ok BFnr (fnr_spec 1).
Proof.
  intros y_true y_pred sw rows Hr Hg. destruct (rates_ok _ _ _ _ Hr Hg) as [c [Ec H]].
  exists (q_fnr c). cbn [base_fn]. unfold false_negative_rate. rewrite Ec. cbn [option_map]. tauto.
Qed.

Lemma accuracy_good y_true y_pred sw rows :
  mk_rows y_true y_pred sw = Some rows -> good_rows rows ->
  accuracy_score y_true y_pred sw = Some (Fin (acc_spec rows)).
Proof.
  intros Hr Hg. unfold accuracy_score. rewrite Hr.
  assert (Ht := good_total_pos rows Hg).
  destruct (Qeqb (total_weight rows) 0) eqn:E; [|reflexivity].
  apply Qeqb_true in E. lra.
Qed.

Lemma base_ok_acc : base_ok BAcc acc_spec.
Proof.
  intros y_true y_pred sw rows Hr Hg. exists (acc_spec rows). cbn [base_fn].
  split; [apply accuracy_good; assumption|]. split; [reflexivity|]. unfold acc_spec. apply frac_unit. exact Hg.
Qed.

Lemma base_ok_zol : base_ok BZol zol_spec.
Proof.
  intros y_true y_pred sw rows Hr Hg. exists (1 + - acc_spec rows). cbn [base_fn].
  unfold zero_one_loss. rewrite (accuracy_good _ _ _ _ Hr Hg). cbn.
  split; [reflexivity|]. unfold zol_spec.
  assert (H := frac_unit correct rows Hg). fold (acc_spec rows) in H. split; lra.
Qed.

(* ------------------------------------------------------------------ *)
(* the frame: one finite cell per group, equal to the rate of its rows  *)
(* ------------------------------------------------------------------ *)

Definition unit_q (q : Q) : Prop := 0 <= q <= 1.

Lemma cells_spec b spec : base_ok b spec ->
  forall y_true y_pred sf sw rows, mk_rows y_true y_pred sw = Some rows ->
  length sf = length rows -> good_rows rows ->
  forall gs, (forall g, In g gs -> In g sf) ->
  exists qs, all_some (map (fun m => base_fn b (sel m y_true) (sel m y_pred) (option_map (sel m) sw))
                           (map (fun g => map (Z.eqb g) sf) gs)) = Some (map Fin qs)
    /\ Forall2 Qeq qs (map (fun g => spec (rows_of g (combine sf rows))) gs)
    /\ Forall unit_q qs.
Proof.
  intros Hok y_true y_pred sf sw rows Hr Hl Hg gs. induction gs as [|g gs IH]; intro Hin.
  - exists []. cbn. repeat split; constructor.
  - destruct IH as [qs [E [HF HU]]]; [intros; apply Hin; right; assumption|].
    assert (Hm := mk_rows_sel (map (Z.eqb g) sf) _ _ _ _ Hr). rewrite sel_filter in Hm.
    destruct (Hok _ _ _ _ Hm (good_rows_group g sf rows Hl Hg (Hin g (or_introl eq_refl)))) as [q [Eq [Hq Hu]]].
    exists (q :: qs). cbn [map all_some]. rewrite Eq, E. cbn [option_map].
    split; [reflexivity|]. split; constructor; assumption.
Qed.

Lemma mk_rows_length y_true y_pred sw rows :
  mk_rows y_true y_pred sw = Some rows -> length rows = length y_true.
Proof. intro H. destruct (mk_rows_cols _ _ _ _ H) as [E _]. rewrite <- E. symmetry. apply map_length. Qed.

Lemma lengths_ok_valid y_true y_pred sf sw rows :
  mk_rows y_true y_pred sw = Some rows -> length sf = length y_true -> lengths_ok y_true y_pred sf sw = true.
Proof.
  intros H Hs. destruct (mk_rows_inv _ _ _ _ H) as [Hl [Hw _]]. unfold lengths_ok.
  apply Nat.eqb_eq in Hl. rewrite Hl. apply Nat.eqb_eq in Hs. rewrite Hs. cbn [andb].
  destruct sw as [w|]; [|reflexivity]. cbn [weights_or_ones] in Hw. apply Nat.eqb_eq. apply Nat.eqb_eq in Hl. congruence.
Qed.

Lemma Forall2_nil_l {A B} (R : A -> B -> Prop) l : Forall2 R [] l -> l = [].
Proof. inversion 1. reflexivity. Qed.

Theorem metric_frame_spec b spec : base_ok b spec ->
  forall y_true y_pred sf sw rows, valid y_true y_pred sf sw rows ->
  exists qs o, metric_frame b y_true y_pred sf sw = Some (mkframe (map Fin qs) (Fin o))
    /\ Forall2 Qeq qs (group_rates spec (combine sf rows)) /\ o == spec rows
    /\ Forall unit_q qs /\ unit_q o /\ qs <> [].
Proof.
  intros Hok y_true y_pred sf sw rows [Hr [Hs Hg]].
  assert (Hl : length sf = length rows) by (rewrite (mk_rows_length _ _ _ _ Hr); exact Hs).
  destruct (Hok _ _ _ _ Hr Hg) as [o [Eo [Ho Hou]]].
  destruct (cells_spec b spec Hok _ _ sf _ _ Hr Hl Hg (zuniq sf)) as [qs [E [HF HU]]].
  { intros g Hin. apply zuniq_in. exact Hin. }
  exists qs, o. unfold metric_frame. rewrite (lengths_ok_valid _ _ _ _ _ Hr Hs), Eo.
  unfold group_cells, group_masks. rewrite E.
  unfold group_rates, groups_of. rewrite (map_fst_combine sf rows Hl).
  split; [reflexivity|]. split; [exact HF|]. split; [exact Ho|]. split; [exact HU|]. split; [exact Hou|].
  intro E0. subst qs. apply Forall2_nil_l in HF.
  apply map_eq_nil in HF. apply zuniq_nil in HF.
  destruct Hg as [Hne _]. destruct rows; [congruence|]. subst sf. discriminate.
Qed.

(* ------------------------------------------------------------------ *)
(* the aggregates of finite cells                                       *)
(* ------------------------------------------------------------------ *)

Lemma fin_cells qs : Forall fin_or_nan (map Fin qs).
Proof. apply Forall_forall. intros x Hx. apply in_map_iff in Hx. destruct Hx as [q [<- _]]. exact I. Qed.

Lemma in_fin q qs : In (Fin q) (map Fin qs) <-> In q qs.
Proof.
  split; intro H.
  - apply in_map_iff in H. destruct H as [x [E Hx]]. injection E as <-. exact Hx.
  - apply in_map. exact H.
Qed.

Lemma group_max_fin qs : qs <> [] -> exists mx, group_max (map Fin qs) = Fin mx /\ is_qmax mx qs.
Proof.
  intro Hne. unfold group_max. destruct (ext_max_spec _ (fin_cells qs)) as [[_ Hall]|[q [E [Hin Hub]]]].
  - destruct qs as [|q qs]; [congruence|]. specialize (Hall (Fin q) (or_introl eq_refl)). discriminate.
  - exists q. split; [exact E|]. split.
    + exists q. split; [apply in_fin; exact Hin | reflexivity].
    + intros x Hx. apply Hub. apply in_fin. exact Hx.
Qed.

Lemma group_min_fin qs : qs <> [] -> exists mn, group_min (map Fin qs) = Fin mn /\ is_qmin mn qs.
Proof.
  intro Hne. unfold group_min. destruct (ext_min_spec _ (fin_cells qs)) as [[_ Hall]|[q [E [Hin Hub]]]].
  - destruct qs as [|q qs]; [congruence|]. specialize (Hall (Fin q) (or_introl eq_refl)). discriminate.
  - exists q. split; [exact E|]. split.
    + exists q. split; [apply in_fin; exact Hin | reflexivity].
    + intros x Hx. apply Hub. apply in_fin. exact Hx.
Qed.

Lemma is_qmax_unit m qs : Forall unit_q qs -> is_qmax m qs -> unit_q m.
Proof.
  intros HU [[x [Hx E]] _]. rewrite Forall_forall in HU. specialize (HU x Hx). unfold unit_q in *. lra.
Qed.
Lemma is_qmin_unit m qs : Forall unit_q qs -> is_qmin m qs -> unit_q m.
Proof.
  intros HU [[x [Hx E]] _]. rewrite Forall_forall in HU. specialize (HU x Hx). unfold unit_q in *. lra.
Qed.
Lemma qmin_le_qmax mn mx qs : is_qmin mn qs -> is_qmax mx qs -> mn <= mx.
Proof. intros [[x [Hx E]] _] [_ Hub]. specialize (Hub x Hx). lra. Qed.

Lemma diff_between_fin qs : qs <> [] -> Forall unit_q qs ->
  exists d mx mn, diff_between (map Fin qs) = Fin d /\ is_qmax mx qs /\ is_qmin mn qs
                  /\ d == mx - mn /\ 0 <= d <= 1.
Proof.
  intros Hne HU. destruct (group_max_fin qs Hne) as [mx [Emx Hmx]]. destruct (group_min_fin qs Hne) as [mn [Emn Hmn]].
  assert (H := diff_between_eq (map Fin qs) (fin_cells qs)). rewrite Emx, Emn in H.
  cbn [ext_sub ext_neg ext_add] in H.
  destruct (diff_between (map Fin qs)) as [d| | |]; cbn [ext_eq] in H; try contradiction.
  exists d, mx, mn. split; [reflexivity|]. split; [exact Hmx|]. split; [exact Hmn|].
  assert (Hle := qmin_le_qmax _ _ _ Hmn Hmx).
  assert (U1 := is_qmax_unit _ _ HU Hmx). assert (U2 := is_qmin_unit _ _ HU Hmn). unfold unit_q in *.
  split; [lra|]. lra.
Qed.

Lemma diff_overall_fin qs o : qs <> [] -> Forall unit_q qs -> unit_q o ->
  exists d, diff_to_overall (map Fin qs) (Fin o) = Fin d
            /\ is_qmax d (map (fun q => qabs (q - o)) qs) /\ 0 <= d <= 1.
Proof.
  intros Hne HU Ho. unfold diff_to_overall.
  destruct (diff_with_fin (map Fin qs) o (fin_cells qs)) as [[Hall _]|[d [v [E [Hv [Ed Hub]]]]]].
  - destruct qs as [|q qs]; [congruence|]. specialize (Hall (Fin q) (or_introl eq_refl)). discriminate.
  - exists d. split; [exact E|]. apply in_fin in Hv. split; [split|].
    + exists (qabs (v - o)). split; [|rewrite Ed; reflexivity].
      apply in_map_iff. exists v. split; [reflexivity | exact Hv].
    + intros x Hx. apply in_map_iff in Hx. destruct Hx as [q [<- Hq]]. apply Hub. apply in_fin. exact Hq.
    + rewrite Forall_forall in HU. specialize (HU v Hv). unfold unit_q in *. subst d.
      destruct (qabs_spec (v + - o)) as [[H1 ->]|[H1 ->]]; lra.
Qed.

Lemma ext_div_zero_zero a b : a == 0 -> b == 0 -> ext_div (Fin a) (Fin b) = NaN.
Proof.
  intros Ha Hb. unfold ext_div, qsign. apply Qeq_alt in Ha, Hb. rewrite Ha, Hb. reflexivity.
Qed.

Lemma ratio_between_fin qs : qs <> [] -> Forall unit_q qs ->
  exists mx mn, is_qmax mx qs /\ is_qmin mn qs /\
    (0 < mx -> exists r, ratio_between (map Fin qs) = Fin r /\ r == mn / mx /\ 0 <= r <= 1) /\
    (mx == 0 -> ratio_between (map Fin qs) = NaN).
Proof.
  intros Hne HU. destruct (group_max_fin qs Hne) as [mx [Emx Hmx]]. destruct (group_min_fin qs Hne) as [mn [Emn Hmn]].
  exists mx, mn. split; [exact Hmx|]. split; [exact Hmn|]. unfold ratio_between. rewrite Emx, Emn.
  assert (Hle := qmin_le_qmax _ _ _ Hmn Hmx).
  assert (U2 := is_qmin_unit _ _ HU Hmn). unfold unit_q in U2.
  split.
  - intro Hpos. rewrite ext_div_pos by exact Hpos. exists (mn / mx). split; [reflexivity|]. split; [reflexivity|].
    apply div_unit; lra.
  - intro Hz. apply ext_div_zero_zero; [lra | exact Hz].
Qed.

(* the fold of ratio(method="to_overall") on one finite ratio *)
Definition fold_q (o q : Q) : Q := if Qle_bool (q / o) 1 then q / o else 1 / (q / o).

Lemma ratio_term_pos o q : 0 < o -> 0 <= q ->
  ratio_sub_one (ext_div (Fin q) (Fin o)) = Fin (fold_q o q).
Proof.
  intros Ho Hq. rewrite ext_div_pos by exact Ho. unfold ratio_sub_one, fold_q, ext_ltb, Qltb.
  destruct (Qle_bool (q / o) 1) eqn:E; cbn [negb]; [reflexivity|].
  assert (H : 1 < q / o).
  { apply Qnot_le_lt. intro H. apply Qle_bool_iff in H. congruence. }
  apply ext_div_pos. lra.
Qed.

Lemma ratio_overall_pos qs o : qs <> [] -> Forall unit_q qs -> 0 < o ->
  exists r, ratio_to_overall (map Fin qs) (Fin o) = Fin r /\ is_qmin r (map (fold_q o) qs).
Proof.
  intros Hne HU Ho. unfold ratio_to_overall, ratio_to_overall_with. rewrite map_map.
  assert (E : map (fun x => ratio_sub_one (ext_div (Fin x) (Fin o))) qs = map Fin (map (fold_q o) qs)).
  { rewrite map_map. apply map_ext_in. intros q Hq. rewrite Forall_forall in HU. specialize (HU q Hq).
    apply ratio_term_pos; [exact Ho | apply HU]. }
  rewrite E. apply (group_min_fin (map (fold_q o) qs)).
  destruct qs; [congruence | discriminate].
Qed.

Lemma ratio_term_zero o q : o == 0 -> 0 <= q ->
  ratio_sub_one (ext_div (Fin q) (Fin o)) = (if Qeq_bool q 0 then NaN else Fin 0).
Proof.
  intros Ho Hq. unfold ext_div, qsign. apply Qeq_alt in Ho. rewrite Ho.
  destruct (Qeq_bool q 0) eqn:E.
  - apply Qeq_bool_iff in E. apply Qeq_alt in E. rewrite E. reflexivity.
  - assert (H : 0 < q).
    { apply Qeq_bool_neq in E. apply Qnot_le_lt. intro H. apply E. lra. }
    apply Qgt_alt in H. rewrite H. reflexivity.
Qed.

Lemma ext_min_nan_or_zero l :
  (forall x, In x l -> x = NaN \/ x = Fin 0) ->
  ((forall x, In x l -> x = NaN) -> ext_min l = NaN) /\ (In (Fin 0) l -> ext_min l = Fin 0).
Proof.
  induction l as [|x l IH]; intro H; cbn [ext_min fold_right].
  - split; [reflexivity | intros []].
  - fold (ext_min l). destruct IH as [IH1 IH2]; [intros; apply H; right; assumption|].
    assert (Hm : ext_min l = NaN \/ ext_min l = Fin 0).
    { destruct (ext_min_in l) as [E|Hin]; [left; exact E | apply H; right; exact Hin]. }
    split.
    + intro Hall. rewrite (Hall x (or_introl eq_refl)). cbn [ext_min2]. apply IH1. intros; apply Hall; right; assumption.
    + intros [E|Hin].
      * subst x. destruct Hm as [-> | ->]; reflexivity.
      * rewrite (IH2 Hin). destruct (H x (or_introl eq_refl)) as [-> | ->]; reflexivity.
Qed.

Lemma ratio_overall_zero qs o : Forall unit_q qs -> o == 0 ->
  ((forall q, In q qs -> q == 0) -> ratio_to_overall (map Fin qs) (Fin o) = NaN) /\
  ((exists q, In q qs /\ 0 < q) -> ratio_to_overall (map Fin qs) (Fin o) = Fin 0).
Proof.
  intros HU Ho. unfold ratio_to_overall, ratio_to_overall_with. rewrite map_map.
  assert (E : map (fun x => ratio_sub_one (ext_div (Fin x) (Fin o))) qs
              = map (fun q => if Qeq_bool q 0 then NaN else Fin 0) qs).
  { apply map_ext_in. intros q Hq. rewrite Forall_forall in HU. specialize (HU q Hq).
    apply ratio_term_zero; [exact Ho | apply HU]. }
  rewrite E. clear E.
  destruct (ext_min_nan_or_zero (map (fun q => if Qeq_bool q 0 then NaN else Fin 0) qs)) as [H1 H2].
  { intros x Hx. apply in_map_iff in Hx. destruct Hx as [q [<- _]]. destruct (Qeq_bool q 0); auto. }
  split.
  - intro Hall. apply H1. intros x Hx. apply in_map_iff in Hx. destruct Hx as [q [<- Hq]].
    specialize (Hall q Hq). apply Qeq_bool_iff in Hall. rewrite Hall. reflexivity.
  - intros [q [Hq Hpos]]. apply H2. apply in_map_iff. exists q. split; [|exact Hq].
    destruct (Qeq_bool q 0) eqn:E; [|reflexivity]. apply Qeq_bool_iff in E. lra.
Qed.

(* ------------------------------------------------------------------ *)
(* ★ the derived value is the first-principles expression              *)
(* ------------------------------------------------------------------ *)

Definition diff_between_is (v : option ext) (qs : list Q) : Prop :=
  exists d mx mn, v = Some (Fin d) /\ is_qmax mx qs /\ is_qmin mn qs /\ d == mx - mn /\ 0 <= d <= 1.
Definition diff_overall_is (v : option ext) (qs : list Q) (o : Q) : Prop :=
  exists d, v = Some (Fin d) /\ is_qmax d (map (fun q => qabs (q - o)) qs) /\ 0 <= d <= 1.
Definition ratio_between_is (v : option ext) (qs : list Q) : Prop :=
  exists mx mn, is_qmax mx qs /\ is_qmin mn qs /\
    (0 < mx -> exists r, v = Some (Fin r) /\ r == mn / mx /\ 0 <= r <= 1) /\
    (mx == 0 -> v = Some NaN).
Definition ratio_overall_is (v : option ext) (qs : list Q) (o : Q) : Prop :=
  (0 < o -> exists r, v = Some (Fin r) /\ is_qmin r (map (fold_q o) qs) /\ 0 <= r <= 1) /\
  (o == 0 -> ((forall q, In q qs -> q == 0) -> v = Some NaN) /\
             ((exists q, In q qs /\ 0 < q) -> v = Some (Fin 0))).
Definition group_min_is (v : option ext) (qs : list Q) : Prop := exists mn, v = Some (Fin mn) /\ is_qmin mn qs.
Definition group_max_is (v : option ext) (qs : list Q) : Prop := exists mx, v = Some (Fin mx) /\ is_qmax mx qs.

(* what a function family (base metric b) must satisfy w.r.t. the group rates qs and the overall rate o *)
Definition family_is (f : transform -> method -> option ext) (qs : list Q) (o : Q) : Prop :=
  diff_between_is (f TDiff Between) qs /\ diff_overall_is (f TDiff ToOverall) qs o /\
  ratio_between_is (f TRatio Between) qs /\ ratio_overall_is (f TRatio ToOverall) qs o /\
  (forall m, group_min_is (f TMin m) qs) /\ (forall m, group_max_is (f TMax m) qs).

Definition good_frame (qs : list Q) (o : Q) : Prop := qs <> [] /\ Forall unit_q qs /\ unit_q o.

Lemma ratio_overall_unit qs o : Forall unit_q qs -> unit_q o ->
  unit_or_nan (ratio_to_overall (map Fin qs) (Fin o)).
Proof.
  intros HU Ho. apply ratio_to_overall_unit; [|apply Ho].
  apply Forall_forall. intros x Hx. apply in_map_iff in Hx. destruct Hx as [q [<- Hq]].
  rewrite Forall_forall in HU. apply (HU q Hq).
Qed.

Lemma frame_family qs o : good_frame qs o ->
  family_is (fun t m => Some (apply_transform t m (mkframe (map Fin qs) (Fin o)))) qs o.
Proof.
  intros [Hne [HU Ho]]. unfold family_is, apply_transform. cbn [fr_cells fr_overall].
  split; [|split; [|split; [|split; [|split]]]].
  - destruct (diff_between_fin qs Hne HU) as [d [mx [mn [E H]]]]. exists d, mx, mn. rewrite E. tauto.
  - destruct (diff_overall_fin qs o Hne HU Ho) as [d [E H]]. exists d. rewrite E. tauto.
  - destruct (ratio_between_fin qs Hne HU) as [mx [mn [H1 [H2 [H3 H4]]]]]. exists mx, mn.
    split; [exact H1|]. split; [exact H2|]. split.
    + intro Hp. destruct (H3 Hp) as [r [E Hr]]. exists r. rewrite E. tauto.
    + intro Hz. rewrite (H4 Hz). reflexivity.
  - split.
    + intro Hp. destruct (ratio_overall_pos qs o Hne HU Hp) as [r [E Hr]]. exists r.
      split; [rewrite E; reflexivity|]. split; [exact Hr|].
      assert (H := ratio_overall_unit qs o HU Ho). rewrite E in H. exact H.
    + intro Hz. destruct (ratio_overall_zero qs o HU Hz) as [H1 H2]. split.
      * intro Hall. rewrite (H1 Hall). reflexivity.
      * intro Hex. rewrite (H2 Hex). reflexivity.
  - intros _. destruct (group_min_fin qs Hne) as [mn [E H]]. exists mn. rewrite E. tauto.
  - intros _. destruct (group_max_fin qs Hne) as [mx [E H]]. exists mx. rewrite E. tauto.
Qed.

(* ★ generic over the base metric: the group rates of the model are pointwise equal (as rationals)
   to spec on filter (group = g) rows, the overall rate to spec on all rows, and every transform
   is the stated function of them *)
Theorem derived_spec b spec : base_ok b spec ->
  forall y_true y_pred sf sw rows, valid y_true y_pred sf sw rows ->
  exists qs o, Forall2 Qeq qs (group_rates spec (combine sf rows)) /\ o == spec rows /\ good_frame qs o /\
    family_is (fun t m => derived b t m y_true y_pred sf sw) qs o.
Proof.
  intros Hok y_true y_pred sf sw rows Hv.
  destruct (metric_frame_spec b spec Hok _ _ _ _ _ Hv) as [qs [o [E [HF [Ho [HU [Hou Hne]]]]]]].
  exists qs, o. split; [exact HF|]. split; [exact Ho|].
  assert (Hg : good_frame qs o) by (repeat split; assumption || apply Hou).
  split; [exact Hg|].
  unfold derived. rewrite E. cbn [option_map]. apply frame_family. exact Hg.
Qed.

(* every difference is a finite number in [0,1], every ratio is in [0,1] or NaN *)
Lemma family_bounds f qs o : family_is f qs o -> good_frame qs o ->
  forall m, (exists d, f TDiff m = Some (Fin d) /\ 0 <= d <= 1) /\
            (exists r, f TRatio m = Some r /\ unit_or_nan r).
Proof.
  intros [H1 [H2 [H3 [H4 _]]]] [Hne [HU Ho]] m. destruct m.
  - split.
    + destruct H1 as [d [mx [mn [E [_ [_ [_ Hd]]]]]]]. exists d. tauto.
    + destruct H3 as [mx [mn [Hmx [Hmn [Hp Hz]]]]].
      assert (U := is_qmax_unit _ _ HU Hmx). unfold unit_q in U.
      destruct (Qlt_le_dec 0 mx) as [Hpos|Hle].
      * destruct (Hp Hpos) as [r [E [_ Hr]]]. exists (Fin r). split; [exact E | exact Hr].
      * exists NaN. split; [apply Hz; lra | exact I].
  - split.
    + destruct H2 as [d [E [_ Hd]]]. exists d. tauto.
    + destruct H4 as [Hp Hz]. unfold unit_q in Ho. destruct (Qlt_le_dec 0 o) as [Hpos|Hle].
      * destruct (Hp Hpos) as [r [E [_ Hr]]]. exists (Fin r). split; [exact E | exact Hr].
      * assert (Hz0 : o == 0) by lra. destruct (Hz Hz0) as [Ha Hb].
        assert (Hdec : (forall q, In q qs -> q == 0) \/ (exists q, In q qs /\ 0 < q)).
        { clear - HU. induction qs as [|q qs IH]; [left; intros ? []|].
          inversion HU as [|? ? Hq HU']; subst. unfold unit_q in Hq.
          destruct (Qlt_le_dec 0 q) as [Hp|Hl]; [right; exists q; split; [left; reflexivity | exact Hp]|].
          destruct (IH HU') as [Hall|[q' [Hin Hp]]].
          - left. intros x [<-|Hx]; [lra | apply Hall; exact Hx].
          - right. exists q'. split; [right; exact Hin | exact Hp]. }
        destruct Hdec as [Hall|Hex].
        -- exists NaN. split; [apply Ha; exact Hall | exact I].
        -- exists (Fin 0). split; [apply Hb; exact Hex | cbn; lra].
Qed.

(* ------------------------------------------------------------------ *)
(* ★ equalized odds                                                    *)
(* ------------------------------------------------------------------ *)

Lemma py_max2_fin a b : exists v, py_max2 (Fin a) (Fin b) = Fin v /\ v == Qmaxq a b.
Proof.
  unfold py_max2, ext_ltb, Qltb, Qmaxq, Qleb.
  destruct (Qle_bool b a) eqn:E1; cbn [negb]; destruct (Qle_bool a b) eqn:E2; eexists; split; try reflexivity.
  - apply Qle_bool_iff in E1, E2. lra.
  - exfalso. assert (~ b <= a) by (intro H; apply Qle_bool_iff in H; congruence).
    assert (~ a <= b) by (intro H0; apply Qle_bool_iff in H0; congruence). lra.
Qed.

Lemma py_min2_fin a b : exists v, py_min2 (Fin a) (Fin b) = Fin v /\ v == Qminq a b.
Proof.
  unfold py_min2, ext_ltb, Qltb, Qminq, Qleb.
  destruct (Qle_bool a b) eqn:E1; cbn [negb]; eexists; split; reflexivity.
Qed.

(* the builtin min keeps a NaN met first and skips a later one *)
Lemma py_min2_nan : (forall x, py_min2 NaN x = NaN) /\ (forall a, py_min2 (Fin a) NaN = Fin a).
Proof. split; [intros [| | |]; reflexivity | reflexivity]. Qed.

Lemma series_mean2 :
  (forall a b, exists v, series_mean [Fin a; Fin b] = Fin v /\ v == (a + b) / 2) /\
  (forall a, exists v, series_mean [Fin a; NaN] = Fin v /\ v == a) /\
  (forall b, exists v, series_mean [NaN; Fin b] = Fin v /\ v == b) /\
  series_mean [NaN; NaN] = NaN.
Proof.
  split; [|split; [|split]].
  - intros a b. exists ((a + (b + 0)) / inject_nat 2). split; [reflexivity|].
    unfold inject_nat. cbn [Z.of_nat Pos.of_succ_nat Pos.succ]. field.
  - intros a. exists ((a + 0) / inject_nat 1). split; [reflexivity|]. unfold inject_nat. cbn. field.
  - intros b. exists ((b + 0) / inject_nat 1). split; [reflexivity|]. unfold inject_nat. cbn. field.
  - reflexivity.
Qed.

Theorem equalized_odds_spec y_true y_pred sf sw rows : valid y_true y_pred sf sw rows ->
  forall m, exists dt df rt rf,
    derived BTpr TDiff m y_true y_pred sf sw = Some (Fin dt) /\
    derived BFpr TDiff m y_true y_pred sf sw = Some (Fin df) /\
    derived BTpr TRatio m y_true y_pred sf sw = Some rt /\
    derived BFpr TRatio m y_true y_pred sf sw = Some rf /\
    unit_or_nan rt /\ unit_or_nan rf /\ 0 <= dt <= 1 /\ 0 <= df <= 1 /\
    (exists v, equalized_odds_difference m WorstCase y_true y_pred sf sw = Some (Fin v) /\ v == Qmaxq dt df) /\
    (exists v, equalized_odds_difference m Mean y_true y_pred sf sw = Some (Fin v) /\ v == (dt + df) / 2) /\
    equalized_odds_ratio m WorstCase y_true y_pred sf sw = Some (py_min2 rt rf) /\
    equalized_odds_ratio m Mean y_true y_pred sf sw = Some (series_mean [rt; rf]).
Proof.
  intros Hv m.
  destruct (derived_spec BTpr _ base_ok_tpr _ _ _ _ _ Hv) as [qt [ot [_ [_ [Hgt Hft]]]]].
  destruct (derived_spec BFpr _ base_ok_fpr _ _ _ _ _ Hv) as [qf [of [_ [_ [Hgf Hff]]]]].
  destruct (family_bounds _ _ _ Hft Hgt m) as [[dt [Edt Hdt]] [rt [Ert Hrt]]].
  destruct (family_bounds _ _ _ Hff Hgf m) as [[df [Edf Hdf]] [rf [Erf Hrf]]].
  exists dt, df, rt, rf. repeat (split; [assumption|]).
  unfold derived in Edt, Edf, Ert, Erf.
  unfold equalized_odds_difference, equalized_odds_ratio, eo_columns, eo_frame.
  destruct (metric_frame BTpr y_true y_pred sf sw) as [ft|]; [|discriminate].
  destruct (metric_frame BFpr y_true y_pred sf sw) as [ff|]; [|discriminate].
  cbn [option_map] in Edt, Edf, Ert, Erf.
  assert (Edt' : apply_transform TDiff m ft = Fin dt) by congruence.
  assert (Edf' : apply_transform TDiff m ff = Fin df) by congruence.
  assert (Ert' : apply_transform TRatio m ft = rt) by congruence.
  assert (Erf' : apply_transform TRatio m ff = rf) by congruence.
  rewrite Edt', Edf', Ert', Erf'.
  split; [|split; [|split]].
  - cbn [py_max fold_left]. destruct (py_max2_fin dt df) as [v [E Hv']]. exists v. rewrite E. tauto.
  - destruct series_mean2 as [H _]. destruct (H dt df) as [v [E Hv']]. exists v. rewrite E. tauto.
  - reflexivity.
  - reflexivity.
Qed.

(* ------------------------------------------------------------------ *)
(* ★ the keyword dispatcher of make_derived_metric                     *)
(* ------------------------------------------------------------------ *)

(* every keyword goes to exactly one of the three dictionaries, chosen by the documented rule *)
Theorem dispatch_partition sample_names (kws : list (name * kwval)) kv c :
  In kv (kws_of c sample_names kws) <-> In kv kws /\ classify sample_names (fst kv) = c.
Proof.
  unfold kws_of. rewrite filter_In. split; intros [H1 H2]; split; try exact H1.
  - destruct (classify sample_names (fst kv)), c; cbn in H2; congruence.
  - rewrite H2. destruct c; reflexivity.
Qed.

Theorem classify_spec sample_names k :
  (classify sample_names k = KSample <-> existsb (name_eqb k) sample_names = true) /\
  (classify sample_names k = KTransform <->
     existsb (name_eqb k) sample_names = false /\ name_eqb k n_method = true) /\
  (classify sample_names k = KBound <->
     existsb (name_eqb k) sample_names = false /\ name_eqb k n_method = false).
Proof.
  unfold classify, parameters_for_transforms. cbn [existsb]. rewrite orb_false_r.
  destruct (existsb (name_eqb k) sample_names); destruct (name_eqb k n_method);
    repeat split; intros; try discriminate; try tauto; try (destruct H; discriminate).
Qed.

(* ★ derived_eq_frame: with sample_param_names = ["sample_weight"] (all generated functions), the call
   with keywords sample_weight / method in either order, method alone, or sample_weight=None is the
   frame call with those weights (none in the last two cases) and that method *)
Theorem derived_eq_frame b t kind sw m y_true y_pred sf :
  derived_call b t [n_sample_weight] y_true y_pred sf (kw_list kind sw m)
  = derived b t m y_true y_pred sf (match kind with 0%nat | 1%nat => sw | _ => None end).
Proof.
  destruct kind as [|[|[|k]]]; destruct sw as [w|]; reflexivity.
Qed.

(* method omitted = between_groups *)
Theorem derived_default_method b t sw y_true y_pred sf :
  derived_call b t [n_sample_weight] y_true y_pred sf
     [(n_sample_weight, match sw with Some w => VArr w | None => VNone end)]
  = derived b t Between y_true y_pred sf sw.
Proof. destruct sw; reflexivity. Qed.

(* ------------------------------------------------------------------ *)
(* ★ the named functions                                               *)
(* ------------------------------------------------------------------ *)

Theorem demographic_parity_spec :
  forall y_true y_pred sf sw rows, valid y_true y_pred sf sw rows ->
  exists qs o, Forall2 Qeq qs (group_rates (sel_spec 1) (combine sf rows)) /\ o == sel_spec 1 rows /\
    good_frame qs o /\
    diff_between_is (demographic_parity_difference Between y_true y_pred sf sw) qs /\
    diff_overall_is (demographic_parity_difference ToOverall y_true y_pred sf sw) qs o /\
    ratio_between_is (demographic_parity_ratio Between y_true y_pred sf sw) qs /\
    ratio_overall_is (demographic_parity_ratio ToOverall y_true y_pred sf sw) qs o.
Proof.
  intros y_true y_pred sf sw rows Hv.
  destruct (derived_spec BSel _ base_ok_sel _ _ _ _ _ Hv) as [qs [o [H1 [H2 [H3 [H4 [H5 [H6 [H7 _]]]]]]]]].
  exists qs, o. repeat (split; [assumption|]). assumption.
Qed.

Theorem equal_opportunity_spec :
  forall y_true y_pred sf sw rows, valid y_true y_pred sf sw rows ->
  exists qs o, Forall2 Qeq qs (group_rates (tpr_spec 1) (combine sf rows)) /\ o == tpr_spec 1 rows /\
    good_frame qs o /\
    diff_between_is (equal_opportunity_difference Between y_true y_pred sf sw) qs /\
    diff_overall_is (equal_opportunity_difference ToOverall y_true y_pred sf sw) qs o /\
    ratio_between_is (equal_opportunity_ratio Between y_true y_pred sf sw) qs /\
    ratio_overall_is (equal_opportunity_ratio ToOverall y_true y_pred sf sw) qs o.
Proof.
  intros y_true y_pred sf sw rows Hv.
  destruct (derived_spec BTpr _ base_ok_tpr _ _ _ _ _ Hv) as [qs [o [H1 [H2 [H3 [H4 [H5 [H6 [H7 _]]]]]]]]].
  exists qs, o. repeat (split; [assumption|]). assumption.
Qed.

(* the two equalized-odds functions written as one match on the two frames (the shape regenerated
   from the source by translators/t_fairness.py) *)
Lemma equalized_odds_difference_unfold m a y_true y_pred sf sw :
  equalized_odds_difference m a y_true y_pred sf sw =
  match metric_frame BTpr y_true y_pred sf sw, metric_frame BFpr y_true y_pred sf sw with
  | Some f1, Some f2 =>
      let s := [apply_transform TDiff m f1; apply_transform TDiff m f2] in
      match a with WorstCase => py_max s | Mean => Some (series_mean s) end
  | _, _ => None
  end.
Proof.
  unfold equalized_odds_difference, eo_columns, eo_frame.
  destruct (metric_frame BTpr y_true y_pred sf sw); destruct (metric_frame BFpr y_true y_pred sf sw); reflexivity.
Qed.

Lemma equalized_odds_ratio_unfold m a y_true y_pred sf sw :
  equalized_odds_ratio m a y_true y_pred sf sw =
  match metric_frame BTpr y_true y_pred sf sw, metric_frame BFpr y_true y_pred sf sw with
  | Some f1, Some f2 =>
      let s := [apply_transform TRatio m f1; apply_transform TRatio m f2] in
      match a with WorstCase => py_min s | Mean => Some (series_mean s) end
  | _, _ => None
  end.
Proof.
  unfold equalized_odds_ratio, eo_columns, eo_frame.
  destruct (metric_frame BTpr y_true y_pred sf sw); destruct (metric_frame BFpr y_true y_pred sf sw); reflexivity.
Qed.
(* ------------------------------------------------------------------ *)
(* transfer along pointwise rational equality: the statements hold     *)
(* literally for the rates computed from the rows                      *)
(* ------------------------------------------------------------------ *)

Lemma Forall2_in_l {A B} (R : A -> B -> Prop) l l' x :
  Forall2 R l l' -> In x l -> exists y, In y l' /\ R x y.
Proof.
  induction 1 as [|a b l l' Hab _ IH]; intros Hin; [contradiction|].
  destruct Hin as [<-|Hin]; [exists b; split; [left; reflexivity | exact Hab]|].
  destruct (IH Hin) as [y [Hy Hr]]. exists y. split; [right; exact Hy | exact Hr].
Qed.

Lemma Forall2_in_r {A B} (R : A -> B -> Prop) l l' y :
  Forall2 R l l' -> In y l' -> exists x, In x l /\ R x y.
Proof.
  induction 1 as [|a b l l' Hab _ IH]; intros Hin; [contradiction|].
  destruct Hin as [<-|Hin]; [exists a; split; [left; reflexivity | exact Hab]|].
  destruct (IH Hin) as [x [Hx Hr]]. exists x. split; [right; exact Hx | exact Hr].
Qed.

Lemma Forall2_map_Qeq (f g : Q -> Q) l l' :
  (forall x y, x == y -> f x == g y) -> Forall2 Qeq l l' -> Forall2 Qeq (map f l) (map g l').
Proof. intros Hfg. induction 1; cbn; constructor; auto. Qed.

Lemma is_qmax_F2 m qs rs : Forall2 Qeq qs rs -> is_qmax m qs -> is_qmax m rs.
Proof.
  intros HF [[x [Hx E]] Hub]. split.
  - destruct (Forall2_in_l _ _ _ _ HF Hx) as [y [Hy Hr]]. exists y. split; [exact Hy|]. rewrite <- Hr. exact E.
  - intros y Hy. destruct (Forall2_in_r _ _ _ _ HF Hy) as [x' [Hx' Hr]]. rewrite <- Hr. apply Hub. exact Hx'.
Qed.

Lemma is_qmin_F2 m qs rs : Forall2 Qeq qs rs -> is_qmin m qs -> is_qmin m rs.
Proof.
  intros HF [[x [Hx E]] Hub]. split.
  - destruct (Forall2_in_l _ _ _ _ HF Hx) as [y [Hy Hr]]. exists y. split; [exact Hy|]. rewrite <- Hr. exact E.
  - intros y Hy. destruct (Forall2_in_r _ _ _ _ HF Hy) as [x' [Hx' Hr]]. rewrite <- Hr. apply Hub. exact Hx'.
Qed.

Lemma qabs_comp a b : a == b -> qabs a == qabs b.
Proof.
  intro E. destruct (qabs_spec a) as [[H1 ->]|[H1 ->]]; destruct (qabs_spec b) as [[H2 ->]|[H2 ->]]; lra.
Qed.

Lemma fold_q_comp o o' q q' : o == o' -> q == q' -> fold_q o q == fold_q o' q'.
Proof.
  intros Eo Eq. unfold fold_q.
  assert (E : q / o == q' / o') by (rewrite Eo, Eq; reflexivity).
  destruct (Qle_bool (q / o) 1) eqn:E1; destruct (Qle_bool (q' / o') 1) eqn:E2.
  - exact E.
  - exfalso. apply Qle_bool_iff in E1. rewrite E in E1. apply Qle_bool_iff in E1. congruence.
  - exfalso. apply Qle_bool_iff in E2. rewrite <- E in E2. apply Qle_bool_iff in E2. congruence.
  - rewrite E. reflexivity.
Qed.

Lemma family_is_F2 f qs o rs o' :
  Forall2 Qeq qs rs -> o == o' -> family_is f qs o -> family_is f rs o'.
Proof.
  intros HF Eo [H1 [H2 [H3 [H4 [H5 H6]]]]].
  assert (HFa : Forall2 Qeq (map (fun q => qabs (q - o)) qs) (map (fun q => qabs (q - o')) rs)).
  { apply Forall2_map_Qeq; [|exact HF]. intros x y E. apply qabs_comp. rewrite E, Eo. reflexivity. }
  assert (HFf : Forall2 Qeq (map (fold_q o) qs) (map (fold_q o') rs)).
  { apply Forall2_map_Qeq; [|exact HF]. intros x y E. apply fold_q_comp; assumption. }
  split; [|split; [|split; [|split; [|split]]]].
  - destruct H1 as [d [mx [mn [E [Hmx [Hmn Hd]]]]]]. exists d, mx, mn.
    split; [exact E|]. split; [eapply is_qmax_F2; eassumption|]. split; [eapply is_qmin_F2; eassumption | exact Hd].
  - destruct H2 as [d [E [Hmx Hd]]]. exists d. split; [exact E|]. split; [eapply is_qmax_F2; eassumption | exact Hd].
  - destruct H3 as [mx [mn [Hmx [Hmn Hr]]]]. exists mx, mn.
    split; [eapply is_qmax_F2; eassumption|]. split; [eapply is_qmin_F2; eassumption | exact Hr].
  - destruct H4 as [Hp Hz]. split.
    + intro Hpos. rewrite <- Eo in Hpos. destruct (Hp Hpos) as [r [E [Hmn Hr]]]. exists r.
      split; [exact E|]. split; [eapply is_qmin_F2; eassumption | exact Hr].
    + intro Hz0. rewrite <- Eo in Hz0. destruct (Hz Hz0) as [Ha Hb]. split.
      * intro Hall. apply Ha. intros q Hq. destruct (Forall2_in_l _ _ _ _ HF Hq) as [y [Hy Hr]].
        rewrite Hr. apply Hall. exact Hy.
      * intros [y [Hy Hpos]]. apply Hb. destruct (Forall2_in_r _ _ _ _ HF Hy) as [x [Hx Hr]].
        exists x. split; [exact Hx|]. rewrite Hr. exact Hpos.
  - intro m. destruct (H5 m) as [mn [E Hmn]]. exists mn. split; [exact E | eapply is_qmin_F2; eassumption].
  - intro m. destruct (H6 m) as [mx [E Hmx]]. exists mx. split; [exact E | eapply is_qmax_F2; eassumption].
Qed.

Lemma good_frame_F2 qs o rs o' : Forall2 Qeq qs rs -> o == o' -> good_frame qs o -> good_frame rs o'.
Proof.
  intros HF Eo [Hne [HU Ho]]. split; [|split].
  - intro E. subst rs. inversion HF. subst. congruence.
  - apply Forall_forall. intros y Hy. destruct (Forall2_in_r _ _ _ _ HF Hy) as [x [Hx Hr]].
    rewrite Forall_forall in HU. specialize (HU x Hx). unfold unit_q in *. rewrite <- Hr. exact HU.
  - unfold unit_q in *. rewrite <- Eo. exact Ho.
Qed.

(* ★ the headline form: every transform of a base metric is the stated function of the rates computed
   DIRECTLY from the rows: spec (filter (group = g) rows) for each observed group, spec rows overall *)
Theorem derived_direct b spec : base_ok b spec ->
  forall y_true y_pred sf sw rows, valid y_true y_pred sf sw rows ->
  let rates := group_rates spec (combine sf rows) in
  good_frame rates (spec rows) /\
  family_is (fun t m => derived b t m y_true y_pred sf sw) rates (spec rows).
Proof.
  intros Hok y_true y_pred sf sw rows Hv. cbv zeta.
  destruct (derived_spec b spec Hok _ _ _ _ _ Hv) as [qs [o [HF [Eo [Hg Hf]]]]].
  split; [eapply good_frame_F2; eassumption | eapply family_is_F2; eassumption].
Qed.

(* the six named functions and the generated families, in direct form *)
Theorem demographic_parity_direct :
  forall y_true y_pred sf sw rows, valid y_true y_pred sf sw rows ->
  let rates := group_rates (sel_spec 1) (combine sf rows) in
  good_frame rates (sel_spec 1 rows) /\
  diff_between_is (demographic_parity_difference Between y_true y_pred sf sw) rates /\
  diff_overall_is (demographic_parity_difference ToOverall y_true y_pred sf sw) rates (sel_spec 1 rows) /\
  ratio_between_is (demographic_parity_ratio Between y_true y_pred sf sw) rates /\
  ratio_overall_is (demographic_parity_ratio ToOverall y_true y_pred sf sw) rates (sel_spec 1 rows).
Proof.
  intros y_true y_pred sf sw rows Hv. cbv zeta.
  destruct (derived_direct BSel _ base_ok_sel _ _ _ _ _ Hv) as [Hg [H1 [H2 [H3 [H4 _]]]]].
  repeat (split; [assumption|]). assumption.
Qed.

Theorem equal_opportunity_direct :
  forall y_true y_pred sf sw rows, valid y_true y_pred sf sw rows ->
  let rates := group_rates (tpr_spec 1) (combine sf rows) in
  good_frame rates (tpr_spec 1 rows) /\
  diff_between_is (equal_opportunity_difference Between y_true y_pred sf sw) rates /\
  diff_overall_is (equal_opportunity_difference ToOverall y_true y_pred sf sw) rates (tpr_spec 1 rows) /\
  ratio_between_is (equal_opportunity_ratio Between y_true y_pred sf sw) rates /\
  ratio_overall_is (equal_opportunity_ratio ToOverall y_true y_pred sf sw) rates (tpr_spec 1 rows).
Proof.
  intros y_true y_pred sf sw rows Hv. cbv zeta.
  destruct (derived_direct BTpr _ base_ok_tpr _ _ _ _ _ Hv) as [Hg [H1 [H2 [H3 [H4 _]]]]].
  repeat (split; [assumption|]). assumption.
Qed.
(* ------------------------------------------------------------------ *)
(* ratio(to_overall) when the overall rate is 0: every group rate is 0 *)
(* too, so the value is NaN (0/0 in every group)                       *)
(* ------------------------------------------------------------------ *)

Definition zero_closed (spec : list row -> Q) : Prop :=
  forall rows sub, (forall r, In r rows -> 0 < wt r) -> (forall r, In r sub -> In r rows) ->
    spec rows == 0 -> spec sub == 0.

Lemma wsum_zero_all p rows :
  (forall r, In r rows -> 0 < wt r) -> wsum p rows == 0 -> forall r, In r rows -> p r = false.
Proof.
  intros Hw Hz r Hr. destruct (p r) eqn:E; [|reflexivity]. exfalso.
  assert (0 < wsum p rows) by (apply BaseRates_proofs.wsum_pos; [exact Hw | exists r; auto]). lra.
Qed.

Lemma ratio_zero_closed (p q : row -> bool) (dv : Q -> Q -> Q) :
  (forall a b, dv a b == 0 -> a == 0 \/ b == 0) ->
  (forall a b, a == 0 -> dv a b == 0) -> (forall a b, b == 0 -> dv a b == 0) ->
  zero_closed (fun rows => dv (wsum p rows) (wsum q rows)).
Proof.
  intros H0 Ha Hb rows sub Hw Hsub Hz. cbv beta in *.
  destruct (H0 _ _ Hz) as [E|E].
  - apply Ha. apply wsum_false. intros r Hr. apply (wsum_zero_all p rows Hw E). apply Hsub. exact Hr.
  - apply Hb. apply wsum_false. intros r Hr. apply (wsum_zero_all q rows Hw E). apply Hsub. exact Hr.
Qed.

Lemma qdiv0_zero a b : qdiv0 a b == 0 -> a == 0 \/ b == 0.
Proof.
  unfold qdiv0. destruct (Qeqb b 0) eqn:E; [right; apply Qeqb_true; exact E|].
  intro H. left. apply Qeqb_false in E. rewrite <- (Qmult_div_r a b E). rewrite H. ring.
Qed.

Lemma qdiv0_num_zero a b : a == 0 -> qdiv0 a b == 0.
Proof.
  intro H. rewrite (qdiv0_comp a 0 b b H (Qeq_refl b)). unfold qdiv0. destruct (Qeqb b 0); [reflexivity|].
  unfold Qdiv. ring.
Qed.

Lemma Qdiv_zero a b : a / b == 0 -> a == 0 \/ b == 0.
Proof.
  intro H. destruct (Qeq_dec b 0) as [E|E]; [right; exact E|]. left.
  rewrite <- (Qmult_div_r a b E). rewrite H. ring.
Qed.
Lemma Qdiv_num_zero a b : a == 0 -> a / b == 0.
Proof. intro H. rewrite H. unfold Qdiv. ring. Qed.
Lemma Qdiv_den_zero a b : b == 0 -> a / b == 0.
Proof. intro H. rewrite H. unfold Qdiv. cbn. ring. Qed.

Lemma zero_closed_sel : zero_closed (sel_spec 1).
Proof. apply (ratio_zero_closed _ _ Qdiv Qdiv_zero Qdiv_num_zero Qdiv_den_zero). Qed.
Lemma zero_closed_acc : zero_closed acc_spec.
Proof. apply (ratio_zero_closed _ _ Qdiv Qdiv_zero Qdiv_num_zero Qdiv_den_zero). Qed.
Lemma zero_closed_tpr : zero_closed (tpr_spec 1).
Proof. apply (ratio_zero_closed _ _ qdiv0 qdiv0_zero qdiv0_num_zero (fun a b => qdiv0_zero_den a b)). Qed.
Lemma zero_closed_fpr : zero_closed (fpr_spec 1).
Proof. apply (ratio_zero_closed _ _ qdiv0 qdiv0_zero qdiv0_num_zero (fun a b => qdiv0_zero_den a b)). Qed.
Lemma zero_closed_tnr : zero_closed (tnr_spec 1).
Proof. apply (ratio_zero_closed _ _ qdiv0 qdiv0_zero qdiv0_num_zero (fun a b => qdiv0_zero_den a b)). Qed.
Lemma zero_closed_fnr : zero_closed (fnr_spec 1).
Proof. apply (ratio_zero_closed _ _ qdiv0 qdiv0_zero qdiv0_num_zero (fun a b => qdiv0_zero_den a b)). Qed.

(* ★ overall rate 0 => ratio(to_overall) is NaN (and overall rate > 0 is the is_qmin case of family_is) *)
Theorem ratio_overall_zero_nan b spec : base_ok b spec -> zero_closed spec ->
  forall y_true y_pred sf sw rows, valid y_true y_pred sf sw rows ->
  spec rows == 0 -> derived b TRatio ToOverall y_true y_pred sf sw = Some NaN.
Proof.
  intros Hok Hz y_true y_pred sf sw rows Hv H0.
  destruct (derived_direct b spec Hok _ _ _ _ _ Hv) as [_ [_ [_ [_ [[_ Hzero] _]]]]].
  destruct (Hzero H0) as [Hall _]. apply Hall.
  intros q Hq. unfold group_rates in Hq. apply in_map_iff in Hq. destruct Hq as [g [<- _]].
  destruct Hv as [_ [_ [_ Hg]]].
  apply (Hz rows); [intros r Hr; apply Hg; exact Hr | | exact H0].
  intros r Hr. apply rows_of_in in Hr. destruct Hr as [[s r'] [Hx E]]. cbn in E. subst r'.
  eapply in_combine_r. exact Hx.
Qed.

Theorem named_ratio_overall_zero_nan :
  forall y_true y_pred sf sw rows, valid y_true y_pred sf sw rows ->
  (sel_spec 1 rows == 0 -> demographic_parity_ratio ToOverall y_true y_pred sf sw = Some NaN) /\
  (tpr_spec 1 rows == 0 -> equal_opportunity_ratio ToOverall y_true y_pred sf sw = Some NaN).
Proof.
  intros y_true y_pred sf sw rows Hv. split; intro H0.
  - exact (ratio_overall_zero_nan BSel _ base_ok_sel zero_closed_sel _ _ _ _ _ Hv H0).
  - exact (ratio_overall_zero_nan BTpr _ base_ok_tpr zero_closed_tpr _ _ _ _ _ Hv H0).
Qed.

Theorem rate_families_zero_closed :
  zero_closed (sel_spec 1) /\ zero_closed (tpr_spec 1) /\ zero_closed (fpr_spec 1) /\
  zero_closed (tnr_spec 1) /\ zero_closed (fnr_spec 1) /\ zero_closed acc_spec.
Proof.
  repeat split; [apply zero_closed_sel | apply zero_closed_tpr | apply zero_closed_fpr | apply zero_closed_tnr
                 | apply zero_closed_fnr | apply zero_closed_acc].
Qed.

Theorem rate_families_base_ok :
  base_ok BSel (sel_spec 1) /\ base_ok BTpr (tpr_spec 1) /\ base_ok BFpr (fpr_spec 1) /\
  base_ok BTnr (tnr_spec 1) /\ base_ok BFnr (fnr_spec 1) /\ base_ok BAcc acc_spec /\ base_ok BZol zol_spec.
Proof.
  repeat split; [apply base_ok_sel | apply base_ok_tpr | apply base_ok_fpr | apply base_ok_tnr
                 | apply base_ok_fnr | apply base_ok_acc | apply base_ok_zol].
Qed.

Local Open Scope Z_scope.
(* ------------------------------------------------------------------ *)
(* bridge to the C01 model (FL.Disagg): for ONE sensitive column the   *)
(* row mask that MetricFrame's group-by uses for the index key [g]     *)
(* (Disagg.mask_of over Disagg.row_keys) is the mask of this model,    *)
(* and both models slice a column with the same function               *)
(* ------------------------------------------------------------------ *)

Lemma row_keys_single (c : list Z) :
  Disagg.row_keys [c] (length c) = map (fun s => [s]) c.
Proof.
  unfold Disagg.row_keys. induction c as [|s c IH]; [reflexivity|].
  cbn [length repeat combine map fst snd]. f_equal. exact IH.
Qed.

Lemma key_eqb_single g s : key_eqb [g] [s] = (g =? s).
Proof. rewrite Z.eqb_compare. unfold key_eqb, key_cmp. destruct (g ?= s); reflexivity. Qed.

Theorem disagg_mask_eq g (sf : list Z) :
  Disagg.mask_of [g] (Disagg.row_keys [sf] (length sf)) = map (Z.eqb g) sf.
Proof.
  rewrite row_keys_single. unfold Disagg.mask_of. rewrite map_map.
  apply map_ext. intro s. apply key_eqb_single.
Qed.

Theorem disagg_sel_eq {A} (m : list bool) (c : list A) : Disagg.sel m c = sel m c.
Proof. reflexivity. Qed.

(* the index of the C01 by_group table for one sensitive column is the sorted unique group list *)
Lemma kuniq_single (c : list Z) : kuniq (map (fun s => [s]) c) = map (fun s => [s]) (zuniq c).
Proof.
  unfold kuniq, zuniq. induction c as [|s c IH]; [reflexivity|]. cbn [map fold_right]. rewrite IH.
  generalize (fold_right zinsert [] c). intro l. induction l as [|y l IHl]; [reflexivity|].
  cbn [map kinsert zinsert key_cmp]. rewrite Z.eqb_compare. unfold Z.ltb. destruct (s ?= y) eqn:E; cbn [map]; try reflexivity.
  f_equal. exact IHl.
Qed.

Theorem bridge_to_disagg :
  (forall g (sf : list Z), Disagg.mask_of [g] (Disagg.row_keys [sf] (length sf)) = map (Z.eqb g) sf) /\
  (forall (A : Type) (m : list bool) (c : list A), Disagg.sel m c = sel m c) /\
  (forall c : list Z, kuniq (map (fun s => [s]) c) = map (fun s => [s]) (zuniq c)).
Proof. split; [exact disagg_mask_eq | split; [intros; reflexivity | exact kuniq_single]]. Qed.
