From Coq Require Import QArith ZArith List Bool Lia Lqa.
From FL Require Import Num ListX BaseRates.
Import ListNotations.
Open Scope Q_scope.

(* ------------------------------------------------------------------ *)
(* qdiv0                                                               *)
(* ------------------------------------------------------------------ *)

Lemma Qeqb_true a b : Qeqb a b = true <-> a == b.
Proof. unfold Qeqb. apply Qeq_bool_iff. Qed.

Lemma Qeqb_false a b : Qeqb a b = false <-> ~ a == b.
Proof.
  unfold Qeqb. split.
  - intros H E. apply Qeq_bool_iff in E. congruence.
  - intro H. destruct (Qeq_bool a b) eqn:E; [|reflexivity]. apply Qeq_bool_iff in E. contradiction.
Qed.

Lemma qdiv0_comp a a' b b' : a == a' -> b == b' -> qdiv0 a b == qdiv0 a' b'.
Proof.
  intros Ha Hb. unfold qdiv0.
  destruct (Qeqb b 0) eqn:E1; destruct (Qeqb b' 0) eqn:E2.
  - reflexivity.
  - apply Qeqb_true in E1. apply Qeqb_false in E2. exfalso. apply E2. rewrite <- Hb. exact E1.
  - apply Qeqb_true in E2. apply Qeqb_false in E1. exfalso. apply E1. rewrite Hb. exact E2.
  - rewrite Ha, Hb. reflexivity.
Qed.

Lemma qdiv0_zero_den a b : b == 0 -> qdiv0 a b == 0.
Proof. intro H. unfold qdiv0. apply Qeqb_true in H. rewrite H. reflexivity. Qed.

Lemma qdiv0_nz a b : ~ b == 0 -> qdiv0 a b == a / b.
Proof. intro H. unfold qdiv0. apply Qeqb_false in H. rewrite H. reflexivity. Qed.

Lemma qdiv0_unit a b : 0 <= a -> 0 <= b -> 0 <= qdiv0 a (a + b) /\ qdiv0 a (a + b) <= 1.
Proof.
  intros Ha Hb. unfold qdiv0. destruct (Qeqb (a + b) 0) eqn:E.
  - split; lra.
  - apply Qeqb_false in E. assert (Hp : 0 < a + b) by lra. split.
    + apply Qle_shift_div_l; lra.
    + apply Qle_shift_div_r; lra.
Qed.

Lemma qdiv0_sum_pos a b : 0 < a + b -> qdiv0 a (a + b) + qdiv0 b (a + b) == 1.
Proof.
  intro Hp. rewrite !qdiv0_nz by lra. field. lra.
Qed.

(* ------------------------------------------------------------------ *)
(* wsum                                                                *)
(* ------------------------------------------------------------------ *)

Lemma wsum_ext_in p q rows :
  (forall r, In r rows -> p r = q r) -> wsum p rows = wsum q rows.
Proof.
  induction rows as [|r rows IH]; intro H; cbn [wsum]; [reflexivity|].
  rewrite (H r) by (left; reflexivity). rewrite IH; [reflexivity|].
  intros r' Hr'. apply H. right. exact Hr'.
Qed.

Lemma wsum_nonneg p rows : (forall r, In r rows -> 0 <= wt r) -> 0 <= wsum p rows.
Proof.
  induction rows as [|r rows IH]; intro H; cbn [wsum]; [lra|].
  assert (H1 : 0 <= wt r) by (apply H; left; reflexivity).
  assert (H2 : 0 <= wsum p rows) by (apply IH; intros; apply H; right; assumption).
  destruct (p r); lra.
Qed.

Lemma wsum_false p rows : (forall r, In r rows -> p r = false) -> wsum p rows == 0.
Proof.
  induction rows as [|r rows IH]; intro H; cbn [wsum]; [reflexivity|].
  rewrite (H r) by (left; reflexivity). rewrite IH; [lra|].
  intros; apply H; right; assumption.
Qed.

Lemma wsum_split p q rows :
  wsum p rows == wsum (fun r => p r && q r) rows + wsum (fun r => p r && negb (q r)) rows.
Proof.
  induction rows as [|r rows IH]; cbn [wsum]; [lra|].
  rewrite IH. destruct (p r), (q r); cbn [andb negb]; lra.
Qed.

Lemma wsum_pos p rows :
  (forall r, In r rows -> 0 < wt r) -> (exists r, In r rows /\ p r = true) -> 0 < wsum p rows.
Proof.
  intros Hw [r0 [Hin Hp]].
  induction rows as [|r rows IH]; [contradiction|]. cbn [wsum].
  assert (Hnn : 0 <= wsum p rows).
  { apply wsum_nonneg. intros r' Hr'. apply Qlt_le_weak, Hw. right. exact Hr'. }
  assert (Hr : 0 < wt r) by (apply Hw; left; reflexivity).
  destruct Hin as [-> | Hin].
  - rewrite Hp. lra.
  - assert (0 < wsum p rows) by (apply IH; [intros; apply Hw; right; assumption | exact Hin]).
    destruct (p r); lra.
Qed.

Lemma wsum_app p a b : wsum p (a ++ b) == wsum p a + wsum p b.
Proof. induction a as [|r a IH]; cbn [wsum app]; [lra | rewrite IH; lra]. Qed.

(* ------------------------------------------------------------------ *)
(* zuniq: same members, strictly increasing                            *)
(* ------------------------------------------------------------------ *)

Fixpoint lsorted (l : list Z) : Prop :=
  match l with
  | [] => True
  | x :: r => match r with [] => True | y :: _ => (x < y)%Z end /\ lsorted r
  end.

Lemma zinsert_in x y l : In y (zinsert x l) <-> y = x \/ In y l.
Proof.
  induction l as [|z l IH]; cbn [zinsert].
  - cbn. intuition.
  - destruct (x <? z)%Z eqn:E1.
    + cbn. intuition.
    + destruct (x =? z)%Z eqn:E2.
      * apply Z.eqb_eq in E2. subst z. cbn. intuition.
      * cbn [In]. rewrite IH. intuition.
Qed.

Lemma zuniq_in y l : In y (zuniq l) <-> In y l.
Proof.
  unfold zuniq. induction l as [|x l IH]; cbn [fold_right].
  - reflexivity.
  - rewrite zinsert_in, IH. cbn. intuition.
Qed.

Lemma zinsert_sorted x l : lsorted l -> lsorted (zinsert x l).
Proof.
  induction l as [|z l IH]; intro H.
  - cbn. auto.
  - cbn [zinsert]. destruct (x <? z)%Z eqn:E1.
    + apply Z.ltb_lt in E1. cbn [lsorted]. cbn [lsorted] in H. tauto.
    + destruct (x =? z)%Z eqn:E2; [exact H|].
      apply Z.ltb_ge in E1. apply Z.eqb_neq in E2.
      cbn [lsorted] in H. destruct H as [Hhd Htl].
      specialize (IH Htl).
      change (lsorted (z :: zinsert x l)). cbn [lsorted]. split; [|exact IH].
      destruct l as [|z2 l'].
      * cbn [zinsert]. lia.
      * cbn [zinsert]. destruct (x <? z2)%Z; [lia|]. destruct (x =? z2)%Z; lia.
Qed.

Lemma zuniq_sorted l : lsorted (zuniq l).
Proof.
  unfold zuniq. induction l as [|x l IH]; cbn [fold_right]; [exact I|].
  apply zinsert_sorted. exact IH.
Qed.

Lemma zuniq_nil l : zuniq l = [] -> l = [].
Proof.
  intro H. destruct l as [|x l]; [reflexivity|].
  assert (Hx : In x (zuniq (x :: l))) by (apply zuniq_in; left; reflexivity).
  rewrite H in Hx. contradiction.
Qed.

(* ------------------------------------------------------------------ *)
(* _get_labels_for_confusion_matrix                                     *)
(* ------------------------------------------------------------------ *)

(* the positive label the function settles on *)
Definition resolved_pos (unique_labels : list Z) (pos_label : option Z) : option Z :=
  match pos_label with
  | Some p => Some p
  | None => if issuperset [0; 1]%Z unique_labels || issuperset [-1; 1]%Z unique_labels
            then Some 1%Z else None
  end.

Lemma issuperset_spec s l : issuperset s l = true <-> (forall x, In x l -> In x s).
Proof.
  unfold issuperset. rewrite forallb_forall. split; intros H x Hx.
  - specialize (H x Hx). apply existsb_exists in H. destruct H as [y [Hy E]].
    apply Z.eqb_eq in E. subst y. exact Hy.
  - apply existsb_exists. exists x. split; [apply H; exact Hx | apply Z.eqb_refl].
Qed.

Lemma labels_for_cm_resolved ul pos :
  labels_for_cm ul pos = match resolved_pos ul pos with Some p => labels_two ul p | None => None end.
Proof.
  unfold labels_for_cm, resolved_pos. destruct pos; [reflexivity|].
  destruct (issuperset [0; 1]%Z ul || issuperset [-1; 1]%Z ul); reflexivity.
Qed.

Lemma labels_two_some ul p l :
  labels_two ul p = Some l ->
  exists n, l = [n; p] /\
    ((ul = [p] /\ n = INT64_MIN) \/ (ul = [n] /\ n <> p) \/ ul = [p; n] \/ (ul = [n; p] /\ n <> p)).
Proof.
  unfold labels_two. intro H.
  destruct ul as [|a [|b [|c ul']]]; cbn [length Nat.eqb nth] in H; try discriminate.
  - destruct (a =? p)%Z eqn:E.
    + apply Z.eqb_eq in E. subst a. inversion H. exists INT64_MIN. auto.
    + apply Z.eqb_neq in E. inversion H. exists a. cbn. auto.
  - destruct (p =? a)%Z eqn:E1.
    + apply Z.eqb_eq in E1. subst a. inversion H. exists b. cbn. auto.
    + destruct (p =? b)%Z eqn:E2; [|discriminate].
      apply Z.eqb_eq in E2. apply Z.eqb_neq in E1. subst b. inversion H. exists a.
      split; [reflexivity|]. right. right. right. split; [reflexivity | congruence].
Qed.

Lemma labels_two_none ul p :
  labels_two ul p = None ->
  ul = [] \/ (length ul > 2)%nat \/ (length ul = 2%nat /\ ~ In p ul).
Proof.
  unfold labels_two. intro H.
  destruct ul as [|a [|b [|c ul']]]; cbn [length Nat.eqb nth] in H.
  - left. reflexivity.
  - destruct (a =? p)%Z; discriminate.
  - destruct (p =? a)%Z eqn:E1; [discriminate|]. destruct (p =? b)%Z eqn:E2; [discriminate|].
    apply Z.eqb_neq in E1, E2. right. right. split; [reflexivity|]. cbn. intuition.
  - right. left. cbn. lia.
Qed.

(* Full characterisation of the function on an arbitrary list of unique labels *)
Theorem labels_for_cm_spec (ul : list Z) (pos : option Z) :
  match labels_for_cm ul pos with
  | Some l =>
      exists n p, l = [n; p] /\ resolved_pos ul pos = Some p /\
        ((ul = [p] /\ n = INT64_MIN)        (* only the positive class present: placeholder negative *)
         \/ (ul = [n] /\ n <> p)            (* only one other value present: pos_label appended *)
         \/ ul = [p; n]                     (* pos_label first: reversed *)
         \/ (ul = [n; p] /\ n <> p))        (* pos_label already last *)
  | None =>
      resolved_pos ul pos = None            (* no pos_label and values not within {0,1} or {-1,1} *)
      \/ exists p, resolved_pos ul pos = Some p /\
           (ul = [] \/ (length ul > 2)%nat \/ (length ul = 2%nat /\ ~ In p ul))
  end.
Proof.
  rewrite labels_for_cm_resolved. destruct (resolved_pos ul pos) as [p|] eqn:R.
  - destruct (labels_two ul p) as [l|] eqn:L.
    + apply labels_two_some in L. destruct L as [n [-> Hc]]. exists n, p. auto.
    + right. exists p. split; [reflexivity|]. apply labels_two_none. exact L.
  - left. reflexivity.
Qed.

(* default positive label: 1 exactly for values within {0,1} or within {-1,1} *)
Theorem resolved_pos_default (ul : list Z) :
  (resolved_pos ul None = Some 1%Z <->
     ((forall x, In x ul -> x = 0 \/ x = 1)%Z \/ (forall x, In x ul -> x = -1 \/ x = 1)%Z))
  /\ (resolved_pos ul None = None \/ resolved_pos ul None = Some 1%Z).
Proof.
  unfold resolved_pos. split.
  - destruct (issuperset [0; 1]%Z ul || issuperset [-1; 1]%Z ul) eqn:E.
    + split; [intros _ | reflexivity]. apply orb_true_iff in E. destruct E as [E|E]; [left|right];
        intros x Hx; apply (proj1 (issuperset_spec _ _) E) in Hx; cbn in Hx; intuition.
    + split; [discriminate|]. intro H. apply orb_false_iff in E. destruct E as [E1 E2].
      destruct H as [H|H].
      * assert (issuperset [0; 1]%Z ul = true); [|congruence].
        apply issuperset_spec. intros x Hx. destruct (H x Hx) as [-> | ->]; cbn; auto.
      * assert (issuperset [-1; 1]%Z ul = true); [|congruence].
        apply issuperset_spec. intros x Hx. destruct (H x Hx) as [-> | ->]; cbn; auto.
  - destruct (issuperset [0; 1]%Z ul || issuperset [-1; 1]%Z ul); auto.
Qed.

(* On the unique values of real data: everything is one of the two returned labels, and the
   two labels differ unless the positive label is the int64 placeholder itself. *)
Lemma accepted_values l pos n p :
  labels_for_cm (zuniq l) pos = Some [n; p] ->
  (forall x, In x l -> x = n \/ x = p) /\ (p <> INT64_MIN -> n <> p) /\ l <> [].
Proof.
  intro H. rewrite labels_for_cm_resolved in H.
  destruct (resolved_pos (zuniq l) pos) as [p'|]; [|discriminate].
  apply labels_two_some in H. destruct H as [n' [E Hc]]. inversion E. subst n' p'. clear E.
  assert (Hs := zuniq_sorted l).
  assert (Hne : l <> []).
  { intro. subst l. cbn in Hc. destruct Hc as [[? _]|[[? _]|[?|[? _]]]]; discriminate. }
  split; [|split; [|exact Hne]].
  - intros x Hx. apply zuniq_in in Hx.
    destruct Hc as [[E _]|[[E _]|[E|[E _]]]]; rewrite E in Hx; cbn in Hx; intuition.
  - intro Hp. destruct Hc as [[_ E]|[[_ E]|[E|[_ E]]]].
    + subst n. congruence.
    + exact E.
    + rewrite E in Hs. cbn in Hs. lia.
    + exact E.
Qed.

(* ------------------------------------------------------------------ *)
(* rows built from the columns                                          *)
(* ------------------------------------------------------------------ *)

Lemma zip_rows_in a b c r :
  In r (zip_rows a b c) -> In (yt r) a /\ In (yp r) b /\ In (wt r) c.
Proof.
  revert b c. induction a as [|x a IH]; intros b c H; [contradiction|].
  destruct b as [|y b]; [contradiction|]. destruct c as [|w c]; [contradiction|].
  cbn [zip_rows] in H. destruct H as [<- | H].
  - cbn. auto.
  - apply IH in H. cbn. tauto.
Qed.

Lemma mk_rows_in y_true y_pred sw rows r :
  mk_rows y_true y_pred sw = Some rows -> In r rows -> In (yt r) y_true /\ In (yp r) y_pred.
Proof.
  unfold mk_rows. destruct (_ && _); [|discriminate]. intros [= <-] H.
  apply zip_rows_in in H. tauto.
Qed.

Lemma zip_rows_yt a b c :
  length a = length b -> length c = length a -> map yt (zip_rows a b c) = a.
Proof.
  revert b c. induction a as [|x a IH]; intros [|y b] [|w c] H1 H2; cbn in *; try discriminate; try reflexivity.
  f_equal. apply IH; lia.
Qed.

Lemma zip_rows_yp a b c :
  length a = length b -> length c = length a -> map yp (zip_rows a b c) = b.
Proof.
  revert b c. induction a as [|x a IH]; intros [|y b] [|w c] H1 H2; cbn in *; try discriminate; try reflexivity.
  f_equal. apply IH; lia.
Qed.

Lemma zip_rows_wt a b c :
  length a = length b -> length c = length a -> map wt (zip_rows a b c) = c.
Proof.
  revert b c. induction a as [|x a IH]; intros [|y b] [|w c] H1 H2; cbn in *; try discriminate; try reflexivity.
  f_equal. apply IH; lia.
Qed.

Lemma mk_rows_cols y_true y_pred sw rows :
  mk_rows y_true y_pred sw = Some rows ->
  map yt rows = y_true /\ map yp rows = y_pred
  /\ map wt rows = weights_or_ones (length y_true) sw /\ length y_true = length y_pred.
Proof.
  unfold mk_rows. destruct (_ && _) eqn:E; [|discriminate]. intros [= <-].
  apply andb_true_iff in E. destruct E as [E1 E2]. apply Nat.eqb_eq in E1, E2.
  repeat split; [apply zip_rows_yt | apply zip_rows_yp | apply zip_rows_wt | ]; auto.
Qed.

(* the premises shared by the theorems: the call is accepted with labels [n; p] *)
Definition accepted (y_true y_pred : list Z) (sw : option (list Q)) (pos : option Z)
           (rows : list row) (n p : Z) : Prop :=
  mk_rows y_true y_pred sw = Some rows /\
  labels_for_cm (zuniq (y_true ++ y_pred)) pos = Some [n; p].

Lemma rates_accepted y_true y_pred sw pos rows n p :
  accepted y_true y_pred sw pos rows n p -> rates y_true y_pred sw pos = Some (cm_norm n p rows).
Proof. intros [H1 H2]. unfold rates, rates_with. rewrite H1, H2. reflexivity. Qed.

(* nothing else is accepted *)
Lemma rates_some y_true y_pred sw pos c :
  rates y_true y_pred sw pos = Some c ->
  exists rows n p, accepted y_true y_pred sw pos rows n p /\ c = cm_norm n p rows.
Proof.
  unfold rates, rates_with, accepted. destruct (mk_rows y_true y_pred sw) as [rows|]; [|discriminate].
  destruct (labels_for_cm _ pos) as [[|n [|p [|x l]]]|]; try discriminate.
  intros [= <-]. exists rows, n, p. auto.
Qed.

Lemma accepted_rows y_true y_pred sw pos rows n p :
  accepted y_true y_pred sw pos rows n p ->
  forall r, In r rows -> (yt r = n \/ yt r = p) /\ (yp r = n \/ yp r = p).
Proof.
  intros [H1 H2] r Hr. apply accepted_values in H2. destruct H2 as [Hv _].
  destruct (mk_rows_in _ _ _ _ _ H1 Hr) as [Ha Hb].
  split; apply Hv, in_or_app; auto.
Qed.

(* ------------------------------------------------------------------ *)
(* the normalised confusion matrix is the four ratios                   *)
(* ------------------------------------------------------------------ *)

Lemma cm_norm_spec n p rows :
  n <> p ->
  (forall r, In r rows -> (yt r = n \/ yt r = p) /\ (yp r = n \/ yp r = p)) ->
  q_tpr (cm_norm n p rows) == tpr_spec p rows /\
  q_fnr (cm_norm n p rows) == fnr_spec p rows /\
  q_fpr (cm_norm n p rows) == fpr_spec p rows /\
  q_tnr (cm_norm n p rows) == tnr_spec p rows.
Proof.
  intros Hnp Hv.
  assert (Epp : cell p p rows = wsum (fun r => is_pos p (yt r) && is_pos p (yp r)) rows) by reflexivity.
  assert (Epn : cell p n rows = wsum (fun r => is_pos p (yt r) && negb (is_pos p (yp r))) rows).
  { unfold cell. apply wsum_ext_in. intros r Hr. destruct (Hv r Hr) as [_ [E|E]]; unfold is_pos; rewrite E.
    - rewrite Z.eqb_refl. apply Z.eqb_neq in Hnp. rewrite Hnp. reflexivity.
    - rewrite Z.eqb_refl. assert (p =? n = false)%Z by (apply Z.eqb_neq; congruence).
      rewrite H. reflexivity. }
  assert (Enp : cell n p rows = wsum (fun r => negb (is_pos p (yt r)) && is_pos p (yp r)) rows).
  { unfold cell. apply wsum_ext_in. intros r Hr. destruct (Hv r Hr) as [[E|E] _]; unfold is_pos; rewrite E.
    - rewrite Z.eqb_refl. apply Z.eqb_neq in Hnp. rewrite Hnp. reflexivity.
    - rewrite Z.eqb_refl. assert (p =? n = false)%Z by (apply Z.eqb_neq; congruence).
      rewrite H. reflexivity. }
  assert (Enn : cell n n rows = wsum (fun r => negb (is_pos p (yt r)) && negb (is_pos p (yp r))) rows).
  { unfold cell. apply wsum_ext_in. intros r Hr. destruct (Hv r Hr) as [[E1|E1] [E2|E2]]; unfold is_pos;
      rewrite E1, E2; rewrite ?Z.eqb_refl;
      assert (n =? p = false)%Z by (apply Z.eqb_neq; congruence);
      assert (p =? n = false)%Z by (apply Z.eqb_neq; congruence);
      rewrite ?H, ?H0; reflexivity. }
  assert (Dp := wsum_split (fun r => is_pos p (yt r)) (fun r => is_pos p (yp r)) rows).
  assert (Dn := wsum_split (fun r => negb (is_pos p (yt r))) (fun r => is_pos p (yp r)) rows).
  cbv beta in Dp, Dn.
  unfold cm_norm, q_tpr, q_fnr, q_fpr, q_tnr, tpr_spec, fnr_spec, fpr_spec, tnr_spec.
  cbn [fst snd]. rewrite Epp, Epn, Enp, Enn.
  repeat split; apply qdiv0_comp; try reflexivity; lra.
Qed.

(* ★ rates_are_ratios *)
Theorem rates_are_ratios y_true y_pred sw pos rows n p :
  accepted y_true y_pred sw pos rows n p -> p <> INT64_MIN ->
  exists c, rates y_true y_pred sw pos = Some c /\
    q_tpr c == tpr_spec p rows /\ q_fnr c == fnr_spec p rows /\
    q_fpr c == fpr_spec p rows /\ q_tnr c == tnr_spec p rows.
Proof.
  intros Ha Hp. exists (cm_norm n p rows). split; [apply rates_accepted; exact Ha|].
  apply cm_norm_spec.
  - destruct Ha as [_ H2]. apply accepted_values in H2. apply H2. exact Hp.
  - eapply accepted_rows. exact Ha.
Qed.

(* ★ rates_unit_interval: needs only non-negative weights *)
Theorem rates_unit_interval y_true y_pred sw pos c :
  rates y_true y_pred sw pos = Some c ->
  (forall w, In w (weights_or_ones (length y_true) sw) -> 0 <= w) ->
  (0 <= q_tpr c <= 1) /\ (0 <= q_fnr c <= 1) /\ (0 <= q_fpr c <= 1) /\ (0 <= q_tnr c <= 1).
Proof.
  intros Hr Hw. apply rates_some in Hr. destruct Hr as [rows [n [p [[H1 _] ->]]]].
  assert (Hrw : forall r, In r rows -> 0 <= wt r).
  { intros r Hin. apply Hw. destruct (mk_rows_cols _ _ _ _ H1) as [_ [_ [E _]]]. rewrite <- E.
    apply in_map. exact Hin. }
  unfold cm_norm, q_tpr, q_fnr, q_fpr, q_tnr. cbn [fst snd].
  assert (Hc : forall a b, 0 <= cell a b rows) by (intros; apply wsum_nonneg; exact Hrw).
  assert (A := Hc n n). assert (B := Hc n p). assert (C := Hc p n). assert (D := Hc p p).
  repeat split; try (apply qdiv0_unit; assumption).
  - rewrite (qdiv0_comp _ (cell p p rows) _ (cell p p rows + cell p n rows)) by lra.
    apply qdiv0_unit; assumption.
  - rewrite (qdiv0_comp _ (cell p p rows) _ (cell p p rows + cell p n rows)) by lra.
    apply qdiv0_unit; assumption.
  - rewrite (qdiv0_comp _ (cell n p rows) _ (cell n p rows + cell n n rows)) by lra.
    apply qdiv0_unit; assumption.
  - rewrite (qdiv0_comp _ (cell n p rows) _ (cell n p rows + cell n n rows)) by lra.
    apply qdiv0_unit; assumption.
Qed.

(* ★ complement *)
Theorem complement y_true y_pred sw pos rows n p :
  accepted y_true y_pred sw pos rows n p -> p <> INT64_MIN ->
  (forall r, In r rows -> 0 < wt r) ->
  exists c, rates y_true y_pred sw pos = Some c /\
    (In p y_true -> q_tpr c + q_fnr c == 1) /\
    (~ In p y_true -> q_tpr c == 0 /\ q_fnr c == 0) /\
    ((exists y, In y y_true /\ y <> p) -> q_tnr c + q_fpr c == 1) /\
    ((forall y, In y y_true -> y = p) -> q_tnr c == 0 /\ q_fpr c == 0).
Proof.
  intros Ha Hp Hw. exists (cm_norm n p rows). split; [apply rates_accepted; exact Ha|].
  assert (Hv := accepted_rows _ _ _ _ _ _ _ Ha).
  assert (Hnp : n <> p) by (destruct Ha as [_ H2]; apply accepted_values in H2; apply H2; exact Hp).
  destruct Ha as [H1 _]. destruct (mk_rows_cols _ _ _ _ H1) as [Eyt _].
  unfold cm_norm, q_tpr, q_fnr, q_fpr, q_tnr. cbn [fst snd].
  assert (Hsplit : forall a, cell a n rows + cell a p rows == wsum (fun r => (yt r =? a)%Z) rows).
  { intro a. rewrite (wsum_split (fun r => (yt r =? a)%Z) (fun r => (yp r =? p)%Z) rows).
    unfold cell.
    rewrite (wsum_ext_in (fun r => (yt r =? a)%Z && (yp r =? n)%Z)
                         (fun r => (yt r =? a)%Z && negb (yp r =? p)%Z) rows); [lra|].
    intros r Hr. destruct (Hv r Hr) as [_ [E|E]]; rewrite E, Z.eqb_refl.
    - apply Z.eqb_neq in Hnp. rewrite Hnp. reflexivity.
    - assert (p =? n = false)%Z by (apply Z.eqb_neq; congruence). rewrite H. reflexivity. }
  assert (Hin : forall a, In a y_true -> 0 < wsum (fun r => (yt r =? a)%Z) rows).
  { intros a Hin. apply wsum_pos; [exact Hw|]. rewrite <- Eyt in Hin. apply in_map_iff in Hin.
    destruct Hin as [r [E Hr]]. exists r. split; [exact Hr|]. apply Z.eqb_eq. exact E. }
  assert (Hnot : forall a, ~ In a y_true -> forall b, cell a b rows == 0).
  { intros a Hna b. apply wsum_false. intros r Hr. apply andb_false_iff. left. apply Z.eqb_neq.
    intro E. apply Hna. rewrite <- Eyt, <- E. apply in_map. exact Hr. }
  repeat split.
  - intro Hin'. apply Hin in Hin'. rewrite <- Hsplit in Hin'.
    rewrite Qplus_comm. apply qdiv0_sum_pos. exact Hin'.
  - apply qdiv0_zero_den. rewrite !Hnot by assumption. lra.
  - apply qdiv0_zero_den. rewrite !Hnot by assumption. lra.
  - intros [y [Hy Hyp]]. assert (y = n).
    { rewrite <- Eyt in Hy. apply in_map_iff in Hy. destruct Hy as [r [E Hr]].
      destruct (Hv r Hr) as [[E'|E'] _]; congruence. }
    subst y. apply Hin in Hy. rewrite <- Hsplit in Hy. apply qdiv0_sum_pos. exact Hy.
  - apply qdiv0_zero_den. assert (~ In n y_true) by (intro Hn; apply H in Hn; congruence).
    rewrite !Hnot by assumption. lra.
  - apply qdiv0_zero_den. assert (~ In n y_true) by (intro Hn; apply H in Hn; congruence).
    rewrite !Hnot by assumption. lra.
Qed.

(* ------------------------------------------------------------------ *)
(* acceptance: a non-empty list with at most one value besides pos      *)
(* ------------------------------------------------------------------ *)


(* ------------------------------------------------------------------ *)
(* acceptance: a non-empty list with at most one value besides pos      *)
(* ------------------------------------------------------------------ *)

Lemma labels_accept l m p :
  l <> [] -> (forall x, In x l -> x = m \/ x = p) ->
  exists n, labels_for_cm (zuniq l) (Some p) = Some [n; p].
Proof.
  intros Hne Hv. cbn [labels_for_cm].
  assert (Hs := zuniq_sorted l).
  assert (Hin : forall x, In x (zuniq l) -> x = m \/ x = p) by (intros x Hx; apply Hv, zuniq_in, Hx).
  destruct (zuniq l) as [|u0 [|u1 [|u2 r]]] eqn:E.
  - apply zuniq_nil in E. contradiction.
  - unfold labels_two. cbn [length Nat.eqb nth app]. destruct (u0 =? p)%Z; eauto.
  - unfold labels_two. cbn [length Nat.eqb nth]. cbn in Hs.
    destruct (p =? u0)%Z eqn:E0.
    + apply Z.eqb_eq in E0. subst u0. cbn. eauto.
    + destruct (p =? u1)%Z eqn:E1.
      * apply Z.eqb_eq in E1. subst u1. eauto.
      * apply Z.eqb_neq in E0, E1. exfalso.
        assert (A : u0 = m) by (destruct (Hin u0) as [A|A]; [cbn; auto | exact A | congruence]).
        assert (B : u1 = m) by (destruct (Hin u1) as [A'|A']; [cbn; auto | exact A' | congruence]).
        lia.
  - exfalso. cbn in Hs.
    assert (A : u0 = m \/ u0 = p) by (apply Hin; cbn; auto).
    assert (B : u1 = m \/ u1 = p) by (apply Hin; cbn; auto).
    assert (C : u2 = m \/ u2 = p) by (apply Hin; cbn; auto).
    lia.
Qed.

(* ------------------------------------------------------------------ *)
(* ★ pos_label_switch                                                   *)
(* ------------------------------------------------------------------ *)

Lemma is_pos_switch a b y : a <> b -> y = a \/ y = b -> is_pos a y = negb (is_pos b y).
Proof.
  intros Hab [-> | ->]; unfold is_pos; rewrite Z.eqb_refl.
  - assert (a =? b = false)%Z by (apply Z.eqb_neq; exact Hab). rewrite H. reflexivity.
  - assert (b =? a = false)%Z by (apply Z.eqb_neq; congruence). rewrite H. reflexivity.
Qed.

Theorem pos_label_switch y_true y_pred sw rows a b :
  mk_rows y_true y_pred sw = Some rows -> y_true <> [] ->
  a <> b -> a <> INT64_MIN -> b <> INT64_MIN ->
  (forall x, In x (y_true ++ y_pred) -> x = a \/ x = b) ->
  exists ca cb,
    rates y_true y_pred sw (Some a) = Some ca /\ rates y_true y_pred sw (Some b) = Some cb /\
    q_tpr ca == q_tnr cb /\ q_tnr ca == q_tpr cb /\ q_fpr ca == q_fnr cb /\ q_fnr ca == q_fpr cb.
Proof.
  intros Hrows Hne Hab Ha Hb Hv.
  assert (Hne' : y_true ++ y_pred <> []) by (destruct y_true; [contradiction | discriminate]).
  destruct (labels_accept _ b a Hne') as [na Hla]; [intros x Hx; destruct (Hv x Hx); auto|].
  destruct (labels_accept _ a b Hne' Hv) as [nb Hlb].
  destruct (rates_are_ratios y_true y_pred sw (Some a) rows na a (conj Hrows Hla) Ha)
    as [ca [Hca [A1 [A2 [A3 A4]]]]].
  destruct (rates_are_ratios y_true y_pred sw (Some b) rows nb b (conj Hrows Hlb) Hb)
    as [cb [Hcb [B1 [B2 [B3 B4]]]]].
  exists ca, cb. split; [exact Hca|]. split; [exact Hcb|].
  assert (Hr : forall r, In r rows -> (yt r = a \/ yt r = b) /\ (yp r = a \/ yp r = b)).
  { intros r Hr. destruct (mk_rows_in _ _ _ _ _ Hrows Hr) as [H1 H2].
    split; apply Hv, in_or_app; auto. }
  assert (St : forall r, In r rows -> is_pos a (yt r) = negb (is_pos b (yt r)))
    by (intros r Hin; apply is_pos_switch; [exact Hab | apply Hr; exact Hin]).
  assert (Sp : forall r, In r rows -> is_pos a (yp r) = negb (is_pos b (yp r)))
    by (intros r Hin; apply is_pos_switch; [exact Hab | apply Hr; exact Hin]).
  rewrite A1, A2, A3, A4, B1, B2, B3, B4.
  unfold tpr_spec, tnr_spec, fpr_spec, fnr_spec.
  repeat split; apply qdiv0_comp;
    (erewrite wsum_ext_in; [reflexivity|]; intros r Hin; cbv beta;
     rewrite (St r Hin), ?(Sp r Hin), ?negb_involutive; reflexivity).
Qed.

(* ------------------------------------------------------------------ *)
(* ★ selection_rate_spec, mean_prediction_spec, count_spec              *)
(* ------------------------------------------------------------------ *)

Lemma ext_div_pos a b : 0 < b -> ext_div (Fin a) (Fin b) = Fin (a / b).
Proof.
  intro H. unfold ext_div, qsign. apply Qgt_alt in H. rewrite H. reflexivity.
Qed.

Lemma dot_indicator_wsum p a b ws :
  length a = length b -> length ws = length b ->
  dot (map (indicator p) b) ws == wsum (fun r => is_pos p (yp r)) (zip_rows a b ws).
Proof.
  revert b ws. induction a as [|x a IH]; intros [|y b] [|w ws] H1 H2; cbn in H1, H2; try discriminate;
    cbn [map dot zip_rows wsum yp wt]; try reflexivity.
  rewrite (IH b ws) by lia. unfold indicator, is_pos. destruct (y =? p)%Z; lra.
Qed.

Lemma dot_values_wmean a b ws :
  length a = length b -> length ws = length b ->
  dot (map inject_Z b) ws == wmean_num (zip_rows a b ws).
Proof.
  revert b ws. induction a as [|x a IH]; intros [|y b] [|w ws] H1 H2; cbn in H1, H2; try discriminate;
    cbn [map dot zip_rows wmean_num yp wt]; try reflexivity.
  rewrite (IH b ws) by lia. reflexivity.
Qed.

Lemma qsum_total a b ws :
  length a = length b -> length ws = length b -> qsum ws == total_weight (zip_rows a b ws).
Proof.
  unfold total_weight.
  revert b ws. induction a as [|x a IH]; intros [|y b] [|w ws] H1 H2; cbn in H1, H2; try discriminate;
    cbn [qsum zip_rows wsum wt]; try reflexivity.
  rewrite (IH b ws) by lia. reflexivity.
Qed.

Lemma mk_rows_inv y_true y_pred sw rows :
  mk_rows y_true y_pred sw = Some rows ->
  let ws := weights_or_ones (length y_pred) sw in
  length y_true = length y_pred /\ length ws = length y_pred /\ rows = zip_rows y_true y_pred ws.
Proof.
  unfold mk_rows. destruct (_ && _) eqn:E; [|discriminate]. intros [= <-].
  apply andb_true_iff in E. destruct E as [E1 E2]. apply Nat.eqb_eq in E1, E2.
  cbv zeta. rewrite <- E1. split; [reflexivity|]. split; [exact E2 | reflexivity].
Qed.

(* selection_rate is the weighted fraction of predictions equal to pos_label (y_true, of the
   same length, only serves to form the rows; the function does not receive it) *)
Theorem selection_rate_spec y_true y_pred sw p rows :
  mk_rows y_true y_pred sw = Some rows -> 0 < total_weight rows ->
  exists q, selection_rate y_pred p sw = Some (Fin q) /\ q == sel_spec p rows.
Proof.
  intros Hrows Hpos. destruct (mk_rows_inv _ _ _ _ Hrows) as [Hl [Hw ->]].
  set (ws := weights_or_ones (length y_pred) sw) in *.
  assert (Hq := qsum_total y_true y_pred ws Hl Hw).
  assert (Hd := dot_indicator_wsum p y_true y_pred ws Hl Hw).
  unfold selection_rate. fold ws.
  destruct y_pred as [|y0 yr] eqn:Ey.
  { destruct y_true; [|discriminate]. cbn in Hpos. lra. }
  rewrite <- Ey in *. apply Nat.eqb_eq in Hw. rewrite Hw.
  rewrite ext_div_pos by (rewrite Hq; exact Hpos).
  eexists. split; [reflexivity|]. unfold sel_spec.
  rewrite Hd, Hq. reflexivity.
Qed.

Theorem mean_prediction_spec y_true y_pred sw rows :
  mk_rows y_true y_pred sw = Some rows -> 0 < total_weight rows ->
  exists q, mean_prediction y_pred sw = Some (Fin q) /\ q == mean_spec rows.
Proof.
  intros Hrows Hpos. destruct (mk_rows_inv _ _ _ _ Hrows) as [Hl [Hw ->]].
  set (ws := weights_or_ones (length y_pred) sw) in *.
  assert (Hq := qsum_total y_true y_pred ws Hl Hw).
  assert (Hd := dot_values_wmean y_true y_pred ws Hl Hw).
  unfold mean_prediction. fold ws.
  apply Nat.eqb_eq in Hw. rewrite Hw.
  rewrite ext_div_pos by (rewrite Hq; exact Hpos).
  eexists. split; [reflexivity|]. unfold mean_spec.
  rewrite Hd, Hq. reflexivity.
Qed.

(* rejected exactly on a length mismatch (np.dot) / an empty y_pred (selection_rate only) *)
Theorem selection_rate_rejects y_pred p sw :
  selection_rate y_pred p sw = None <->
  (y_pred = [] \/ length (weights_or_ones (length y_pred) sw) <> length y_pred).
Proof.
  unfold selection_rate. destruct y_pred as [|y0 yr]; [intuition|].
  destruct (Nat.eqb _ _) eqn:E.
  - apply Nat.eqb_eq in E. split; [discriminate | intros [H|H]; [discriminate | contradiction]].
  - apply Nat.eqb_neq in E. split; [intros _; right; exact E | reflexivity].
Qed.

Theorem count_spec y_true y_pred :
  (length y_true = length y_pred -> count y_true y_pred = Some (length y_true)) /\
  (length y_true <> length y_pred -> count y_true y_pred = None).
Proof.
  unfold count. split; intro H.
  - apply Nat.eqb_eq in H. rewrite H. reflexivity.
  - apply Nat.eqb_neq in H. rewrite H. reflexivity.
Qed.

(* ------------------------------------------------------------------ *)
(* ★ encoding_invariance                                                *)
(* ------------------------------------------------------------------ *)

Definition recode_row (f : Z -> Z) (r : row) : row := mkrow (f (yt r)) (f (yp r)) (wt r).

Lemma zip_rows_map f a b c :
  zip_rows (map f a) (map f b) c = map (recode_row f) (zip_rows a b c).
Proof.
  revert b c. induction a as [|x a IH]; intros [|y b] [|w c]; cbn [map zip_rows]; try reflexivity.
  rewrite IH. reflexivity.
Qed.

Lemma mk_rows_map f y_true y_pred sw :
  mk_rows (map f y_true) (map f y_pred) sw = option_map (map (recode_row f)) (mk_rows y_true y_pred sw).
Proof.
  unfold mk_rows. rewrite !map_length. destruct (_ && _); [|reflexivity].
  cbn [option_map]. rewrite zip_rows_map. reflexivity.
Qed.

Lemma wsum_recode f p rows :
  wsum p (map (recode_row f) rows) = wsum (fun r => p (recode_row f r)) rows.
Proof.
  induction rows as [|r rows IH]; cbn [map wsum]; [reflexivity|]. rewrite IH. reflexivity.
Qed.

Lemma is_pos_inj f p y : (forall x y, f x = f y -> x = y) -> is_pos (f p) (f y) = is_pos p y.
Proof.
  intro Hf. unfold is_pos. destruct (y =? p)%Z eqn:E.
  - apply Z.eqb_eq in E. subst y. apply Z.eqb_refl.
  - apply Z.eqb_neq in E. apply Z.eqb_neq. intro H. apply E, Hf, H.
Qed.

Lemma specs_recode f p rows :
  (forall x y, f x = f y -> x = y) ->
  tpr_spec (f p) (map (recode_row f) rows) = tpr_spec p rows /\
  fnr_spec (f p) (map (recode_row f) rows) = fnr_spec p rows /\
  fpr_spec (f p) (map (recode_row f) rows) = fpr_spec p rows /\
  tnr_spec (f p) (map (recode_row f) rows) = tnr_spec p rows.
Proof.
  intro Hf. unfold tpr_spec, fnr_spec, fpr_spec, tnr_spec. rewrite !wsum_recode.
  cbn [recode_row yt yp].
  repeat split; f_equal; apply wsum_ext_in; intros r _; rewrite !(is_pos_inj f p _ Hf); reflexivity.
Qed.

Lemma labels_pos l p n p0 : labels_for_cm l (Some p) = Some [n; p0] -> p0 = p.
Proof.
  cbn [labels_for_cm]. intro H. apply labels_two_some in H. destruct H as [n' [E _]]. congruence.
Qed.

(* acceptance is invariant under an injective recoding *)
Lemma accept_recode_fwd f l p n :
  labels_for_cm (zuniq l) (Some p) = Some [n; p] ->
  exists n', labels_for_cm (zuniq (map f l)) (Some (f p)) = Some [n'; f p].
Proof.
  intro H. apply accepted_values in H. destruct H as [Hv [_ Hne]].
  apply (labels_accept _ (f n)).
  - destruct l; [contradiction | discriminate].
  - intros y Hy. apply in_map_iff in Hy. destruct Hy as [x [<- Hx]].
    destruct (Hv x Hx) as [-> | ->]; auto.
Qed.

Lemma accept_recode_bwd f l p n' :
  (forall x y, f x = f y -> x = y) ->
  labels_for_cm (zuniq (map f l)) (Some (f p)) = Some [n'; f p] ->
  exists n, labels_for_cm (zuniq l) (Some p) = Some [n; p].
Proof.
  intros Hf H. apply accepted_values in H. destruct H as [Hv [_ Hne]].
  assert (Hl : l <> []) by (intro; subst l; apply Hne; reflexivity).
  destruct (find (fun x => negb (x =? p)%Z) l) as [x0|] eqn:F.
  - apply find_some in F. destruct F as [Hx0 Hneq]. apply negb_true_iff, Z.eqb_neq in Hneq.
    apply (labels_accept _ x0); [exact Hl|].
    assert (E0 : f x0 = n').
    { destruct (Hv (f x0) (in_map f _ _ Hx0)) as [E|E]; [exact E | apply Hf in E; contradiction]. }
    intros x Hx. destruct (Hv (f x) (in_map f _ _ Hx)) as [E|E].
    + left. apply Hf. congruence.
    + right. apply Hf. exact E.
  - apply (labels_accept _ p); [exact Hl|]. intros x Hx.
    assert (G := find_none _ _ F x Hx). cbv beta in G. apply negb_false_iff, Z.eqb_eq in G. auto.
Qed.

Theorem encoding_invariance (f : Z -> Z) y_true y_pred sw p :
  (forall x y, f x = f y -> x = y) -> p <> INT64_MIN -> f p <> INT64_MIN ->
  match rates y_true y_pred sw (Some p), rates (map f y_true) (map f y_pred) sw (Some (f p)) with
  | Some c, Some c' =>
      q_tpr c == q_tpr c' /\ q_fnr c == q_fnr c' /\ q_fpr c == q_fpr c' /\ q_tnr c == q_tnr c'
  | None, None => True
  | _, _ => False
  end.
Proof.
  intros Hf Hp Hfp.
  destruct (rates y_true y_pred sw (Some p)) as [c|] eqn:R1;
  destruct (rates (map f y_true) (map f y_pred) sw (Some (f p))) as [c'|] eqn:R2.
  - apply rates_some in R1. destruct R1 as [rows [n [p0 [[H1 H2] ->]]]].
    apply rates_some in R2. destruct R2 as [rows' [n' [p0' [[H1' H2'] ->]]]].
    assert (p0 = p) by (eapply labels_pos; exact H2). subst p0.
    assert (p0' = f p) by (eapply labels_pos; exact H2'). subst p0'.
    rewrite mk_rows_map, H1 in H1'. cbn [option_map] in H1'. injection H1' as <-.
    destruct (rates_are_ratios y_true y_pred sw (Some p) rows n p (conj H1 H2) Hp)
      as [c [Hc [A1 [A2 [A3 A4]]]]].
    rewrite (rates_accepted _ _ _ _ _ _ _ (conj H1 H2)) in Hc. injection Hc as <-.
    assert (H1m : mk_rows (map f y_true) (map f y_pred) sw = Some (map (recode_row f) rows))
      by (rewrite mk_rows_map, H1; reflexivity).
    destruct (rates_are_ratios _ _ sw (Some (f p)) _ n' (f p) (conj H1m H2') Hfp)
      as [c' [Hc' [B1 [B2 [B3 B4]]]]].
    rewrite (rates_accepted _ _ _ _ _ _ _ (conj H1m H2')) in Hc'. injection Hc' as <-.
    destruct (specs_recode f p rows Hf) as [S1 [S2 [S3 S4]]].
    rewrite A1, A2, A3, A4, B1, B2, B3, B4, S1, S2, S3, S4. repeat split; reflexivity.
  - apply rates_some in R1. destruct R1 as [rows [n [p0 [[H1 H2] _]]]].
    assert (p0 = p) by (eapply labels_pos; exact H2). subst p0.
    destruct (accept_recode_fwd f _ _ _ H2) as [n' H2']. rewrite map_app in H2'.
    assert (H1m : mk_rows (map f y_true) (map f y_pred) sw = Some (map (recode_row f) rows))
      by (rewrite mk_rows_map, H1; reflexivity).
    rewrite (rates_accepted _ _ _ _ _ _ _ (conj H1m H2')) in R2. discriminate.
  - apply rates_some in R2. destruct R2 as [rows' [n' [p0' [[H1' H2'] _]]]].
    assert (p0' = f p) by (eapply labels_pos; exact H2'). subst p0'.
    rewrite <- map_app in H2'. destruct (accept_recode_bwd f _ _ _ Hf H2') as [n H2].
    rewrite mk_rows_map in H1'. destruct (mk_rows y_true y_pred sw) as [rows|] eqn:H1; [|discriminate].
    rewrite (rates_accepted _ _ _ _ _ _ _ (conj H1 H2)) in R1. discriminate.
  - exact I.
Qed.

(* without pos_label: values within {0,1} or within {-1,1} behave as pos_label = 1, everything
   else is rejected *)
Theorem default_pos_label y_true y_pred sw :
  let l := y_true ++ y_pred in
  (((forall x, In x l -> x = 0 \/ x = 1)%Z \/ (forall x, In x l -> x = -1 \/ x = 1)%Z) ->
     rates y_true y_pred sw None = rates y_true y_pred sw (Some 1%Z)) /\
  (~ ((forall x, In x l -> x = 0 \/ x = 1)%Z \/ (forall x, In x l -> x = -1 \/ x = 1)%Z) ->
     rates y_true y_pred sw None = None).
Proof.
  cbv zeta. set (l := y_true ++ y_pred).
  destruct (resolved_pos_default (zuniq l)) as [Hiff Hor].
  assert (Hset : ((forall x, In x (zuniq l) -> x = 0 \/ x = 1)%Z \/
                  (forall x, In x (zuniq l) -> x = -1 \/ x = 1)%Z) <->
                 ((forall x, In x l -> x = 0 \/ x = 1)%Z \/ (forall x, In x l -> x = -1 \/ x = 1)%Z)).
  { split; (intros [H|H]; [left|right]; intros x Hx; apply H); try (apply zuniq_in; exact Hx);
      apply zuniq_in in Hx; exact Hx. }
  split; intro H.
  - apply Hset, Hiff in H. unfold rates, rates_with. destruct (mk_rows y_true y_pred sw); [|reflexivity].
    fold l. rewrite !labels_for_cm_resolved, H. reflexivity.
  - assert (R : resolved_pos (zuniq l) None = None).
    { destruct Hor as [E|E]; [exact E|]. apply Hiff, Hset in E. contradiction. }
    unfold rates, rates_with. destruct (mk_rows y_true y_pred sw); [|reflexivity].
    fold l. rewrite labels_for_cm_resolved, R. reflexivity.
Qed.
