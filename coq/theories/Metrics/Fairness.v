(* Model of fairlearn.metrics._fairness_metrics, _make_derived_metric and _generated_metrics (C03),
   as the CODE composes them:
     MetricFrame(metrics=base, y_true, y_pred, sensitive_features, sample_params={"sample_weight": w})
       -> one call of the base metric per observed group (sorted unique codes, rows in original order)
          on the sliced columns, one call on all rows (overall)                      (metric_frame)
     .difference(method) / .ratio(method) / .group_min() / .group_max()              (apply_transform,
          the aggregates of FL.Aggregates, C02)
     equalized odds: the two-column frame (tpr, fpr), then builtin max / min over the two column
          aggregates (agg="worst_case") or Series.mean() (agg="mean")                (equalized_odds_difference, _ratio)
     _DerivedMetric.__call__: split of the keyword arguments into sample parameters, transform
          parameters ("method") and bound parameters                                 (dispatch, derived_call)
   Base metrics: FL.BaseRates (C14) for selection_rate and the four confusion-matrix rates;
   sklearn's accuracy_score / zero_one_loss are modelled here (weighted fraction of equal rows).
   One sensitive column, no control features; labels are Z codes, weights exact rationals.
   Proof-free: lemmas are in Fairness_proofs.v. *)
From Coq Require Import QArith ZArith List Bool.
From FL Require Import Num ListX Flat BaseRates Aggregates.
Import ListNotations.
Open Scope Z_scope.

Inductive base := BSel | BTpr | BTnr | BFpr | BFnr | BAcc | BZol.
Inductive method := Between | ToOverall.
Inductive transform := TDiff | TRatio | TMin | TMax.
Inductive agg := WorstCase | Mean.

(* rows selected by a boolean mask (original order kept, as the pandas group-by does) *)
Fixpoint sel {A} (mask : list bool) (col : list A) : list A :=
  match mask, col with
  | b :: m, x :: c => if b then x :: sel m c else sel m c
  | _, _ => []
  end.

(* ---------- sklearn.metrics.accuracy_score / zero_one_loss (modelled) ---------- *)

Definition correct (r : row) : bool := yt r =? yp r.
Definition acc_spec (rows : list row) : Q := (wsum correct rows / total_weight rows)%Q.
Definition zol_spec (rows : list row) : Q := (1 - acc_spec rows)%Q.

(* np.average(y_true == y_pred, weights=w): ZeroDivisionError for a zero total weight *)
Definition accuracy_score (y_true y_pred : list Z) (sw : option (list Q)) : option ext :=
  match mk_rows y_true y_pred sw with
  | None => None
  | Some rows => if Qeqb (total_weight rows) 0 then None else Some (Fin (acc_spec rows))
  end.

(* 1 - accuracy_score(...) *)
Definition zero_one_loss (y_true y_pred : list Z) (sw : option (list Q)) : option ext :=
  option_map (fun a => ext_sub (Fin 1) a) (accuracy_score y_true y_pred sw).

(* the base metric called on (sliced) columns; pos_label is left at its default
   (1 for selection_rate, None for the rates); None = the call raises *)
Definition base_fn (b : base) (y_true y_pred : list Z) (sw : option (list Q)) : option ext :=
  match b with
  | BSel => selection_rate y_pred 1 sw
  | BTpr => option_map Fin (true_positive_rate y_true y_pred sw None)
  | BTnr => option_map Fin (true_negative_rate y_true y_pred sw None)
  | BFpr => option_map Fin (false_positive_rate y_true y_pred sw None)
  | BFnr => option_map Fin (false_negative_rate y_true y_pred sw None)
  | BAcc => accuracy_score y_true y_pred sw
  | BZol => zero_one_loss y_true y_pred sw
  end.

(* ---------- MetricFrame with one metric and one sensitive column ---------- *)

Record frame := mkframe { fr_cells : list ext; fr_overall : ext }.

(* one mask per observed group, groups in sorted order *)
Definition group_masks (sf : list Z) : list (list bool) :=
  map (fun g => map (Z.eqb g) sf) (zuniq sf).

Fixpoint all_some {A} (l : list (option A)) : option (list A) :=
  match l with
  | [] => Some []
  | None :: _ => None
  | Some x :: r => option_map (cons x) (all_some r)
  end.

Definition lengths_ok (y_true y_pred sf : list Z) (sw : option (list Q)) : bool :=
  Nat.eqb (length y_true) (length y_pred) && Nat.eqb (length sf) (length y_true)
  && match sw with None => true | Some w => Nat.eqb (length w) (length y_true) end.

Definition group_cells (b : base) (y_true y_pred sf : list Z) (sw : option (list Q)) : list (option ext) :=
  map (fun m => base_fn b (sel m y_true) (sel m y_pred) (option_map (sel m) sw)) (group_masks sf).

(* None = the constructor (or a metric call inside it) raises *)
Definition metric_frame (b : base) (y_true y_pred sf : list Z) (sw : option (list Q)) : option frame :=
  if lengths_ok y_true y_pred sf sw then
    match base_fn b y_true y_pred sw, all_some (group_cells b y_true y_pred sf sw) with
    | Some ov, Some cells => Some (mkframe cells ov)
    | _, _ => None
    end
  else None.

Definition apply_transform (t : transform) (m : method) (f : frame) : ext :=
  match t, m with
  | TDiff, Between => diff_between (fr_cells f)
  | TDiff, ToOverall => diff_to_overall (fr_cells f) (fr_overall f)
  | TRatio, Between => ratio_between (fr_cells f)
  | TRatio, ToOverall => ratio_to_overall (fr_cells f) (fr_overall f)
  | TMin, _ => group_min (fr_cells f)
  | TMax, _ => group_max (fr_cells f)
  end.

(* the body of _DerivedMetric.__call__ after the keyword split, and of the named functions *)
Definition derived (b : base) (t : transform) (m : method) y_true y_pred sf sw : option ext :=
  option_map (apply_transform t m) (metric_frame b y_true y_pred sf sw).

Definition demographic_parity_difference := derived BSel TDiff.
Definition demographic_parity_ratio := derived BSel TRatio.
Definition equal_opportunity_difference := derived BTpr TDiff.
Definition equal_opportunity_ratio := derived BTpr TRatio.

(* ---------- equalized odds ---------- *)

(* builtin max(series) / min(series): keep the first, replace on a strict comparison
   (a NaN in first place stays, a later NaN is skipped); None = ValueError on an empty iterable *)
Definition py_max2 (acc x : ext) : ext := if ext_ltb acc x then x else acc.
Definition py_min2 (acc x : ext) : ext := if ext_ltb x acc then x else acc.
Definition py_max (l : list ext) : option ext :=
  match l with [] => None | x :: r => Some (fold_left py_max2 r x) end.
Definition py_min (l : list ext) : option ext :=
  match l with [] => None | x :: r => Some (fold_left py_min2 r x) end.

(* pandas Series.mean(): NaN skipped, NaN when nothing is left *)
Definition series_mean (l : list ext) : ext :=
  let vals := filter (fun x => negb (ext_is_nan x)) l in
  match vals with
  | [] => NaN
  | _ => ext_div (fold_right ext_add (Fin 0) vals) (Fin (inject_nat (length vals)))
  end.

(* _get_eo_frame: columns "tpr", "fpr" in this order, the same weights for both *)
Definition eo_frame y_true y_pred sf sw : option (frame * frame) :=
  match metric_frame BTpr y_true y_pred sf sw, metric_frame BFpr y_true y_pred sf sw with
  | Some a, Some b => Some (a, b)
  | _, _ => None
  end.

Definition eo_columns (t : transform) (m : method) y_true y_pred sf sw : option (list ext) :=
  match eo_frame y_true y_pred sf sw with
  | Some (a, b) => Some [apply_transform t m a; apply_transform t m b]
  | None => None
  end.

Definition equalized_odds_difference (m : method) (a : agg) y_true y_pred sf sw : option ext :=
  match eo_columns TDiff m y_true y_pred sf sw with
  | None => None
  | Some s => match a with WorstCase => py_max s | Mean => Some (series_mean s) end
  end.

Definition equalized_odds_ratio (m : method) (a : agg) y_true y_pred sf sw : option ext :=
  match eo_columns TRatio m y_true y_pred sf sw with
  | None => None
  | Some s => match a with WorstCase => py_min s | Mean => Some (series_mean s) end
  end.

(* ---------- _DerivedMetric.__call__: keyword dispatch ---------- *)

Definition name := list Z.
Fixpoint name_eqb (a b : name) : bool :=
  match a, b with
  | [], [] => true
  | x :: a', y :: b' => (x =? y) && name_eqb a' b'
  | _, _ => false
  end.

(* "sample_weight", "method" *)
Definition n_sample_weight : name := [115; 97; 109; 112; 108; 101; 95; 119; 101; 105; 103; 104; 116].
Definition n_method : name := [109; 101; 116; 104; 111; 100].
Definition parameters_for_transforms : list name := [n_method].

Inductive kwval := VArr (w : list Q) | VNone | VMethod (m : method) | VOther (z : Z).
Inductive kwclass := KSample | KTransform | KBound.

(* if k in self._sample_param_names: ... elif k in parameters_for_transforms: ... else: ... *)
Definition classify (sample_names : list name) (k : name) : kwclass :=
  if existsb (name_eqb k) sample_names then KSample
  else if existsb (name_eqb k) parameters_for_transforms then KTransform
  else KBound.

Definition kwclass_eqb (a b : kwclass) : bool :=
  match a, b with KSample, KSample | KTransform, KTransform | KBound, KBound => true | _, _ => false end.

Definition kws_of (c : kwclass) (sample_names : list name) (kws : list (name * kwval)) : list (name * kwval) :=
  filter (fun kv => kwclass_eqb (classify sample_names (fst kv)) c) kws.

Fixpoint kw_get (k : name) (kws : list (name * kwval)) : option kwval :=
  match kws with
  | [] => None
  | (k', v) :: r => if name_eqb k k' then Some v else kw_get k r
  end.

(* the call the dispatcher makes for the base metrics of this model: bound parameters would reach
   functools.partial (none of the generated functions is called with any: outside the model, None);
   a sample parameter that is None is dropped by MetricFrame; method defaults to between_groups *)
Definition derived_call (b : base) (t : transform) (sample_names : list name)
           y_true y_pred sf (kws : list (name * kwval)) : option ext :=
  match kws_of KBound sample_names kws with
  | _ :: _ => None
  | [] =>
      let sw := match kw_get n_sample_weight (kws_of KSample sample_names kws) with
                | Some (VArr w) => Some (Some w)
                | Some VNone | None => Some None
                | _ => None
                end in
      let m := match kw_get n_method (kws_of KTransform sample_names kws) with
               | Some (VMethod m) => Some m
               | None => Some Between
               | _ => None
               end in
      match sw, m with
      | Some sw, Some m => derived b t m y_true y_pred sf sw
      | _, _ => None
      end
  end.

(* ---------- drivers for the correspondence run (harness glue) ---------- *)

Definition bases : list base := [BSel; BTpr; BTnr; BFpr; BFnr; BAcc; BZol].
Definition methods : list method := [Between; ToOverall].
Definition aggs_ : list agg := [WorstCase; Mean].

(* per base: difference x methods, ratio x methods, group_min, group_max *)
Definition run_base (b : base) y_true y_pred sf sw : list Z :=
  flat_map (fun t => flat_map (fun m => enc_oext (derived b t m y_true y_pred sf sw)) methods) [TDiff; TRatio]
  ++ enc_oext (derived b TMin Between y_true y_pred sf sw)
  ++ enc_oext (derived b TMax Between y_true y_pred sf sw).

(* equalized odds: method x agg x (difference, ratio) *)
Definition run_eo y_true y_pred sf sw : list Z :=
  flat_map (fun m => flat_map (fun a =>
      enc_oext (equalized_odds_difference m a y_true y_pred sf sw)
      ++ enc_oext (equalized_odds_ratio m a y_true y_pred sf sw)) aggs_) methods.

Definition run_one y_true y_pred sf sw : list Z :=
  flat_map (fun b => run_base b y_true y_pred sf sw) bases ++ run_eo y_true y_pred sf sw.

(* one block: every (y_true, y_pred, sf) x every weight option *)
Definition run_block (items : list (list Z * list Z * list Z * list (option (list Q)))) : list Z :=
  flat_map (fun it =>
    let '(a, b, s, wopts) := it in flat_map (fun sw => run_one a b s sw) wopts) items.

(* the dispatcher on explicit keyword lists: kind 0 = (sample_weight, method), 1 = (method, sample_weight),
   2 = (method) only, 3 = (sample_weight=None, method) *)
Definition kw_list (kind : nat) (sw : option (list Q)) (m : method) : list (name * kwval) :=
  let w := match sw with Some w => VArr w | None => VNone end in
  match kind with
  | 0%nat => [(n_sample_weight, w); (n_method, VMethod m)]
  | 1%nat => [(n_method, VMethod m); (n_sample_weight, w)]
  | 2%nat => [(n_method, VMethod m)]
  | _ => [(n_sample_weight, VNone); (n_method, VMethod m)]
  end.

Definition run_dispatch (b : base) (t : transform) (kind : nat) (m : method) y_true y_pred sf sw : list Z :=
  enc_oext (derived_call b t [n_sample_weight] y_true y_pred sf (kw_list kind sw m)).

(* ---------- the transform chain of _DerivedMetric.__call__ and METRICS_SPEC ----------
   (compared with the fragment regenerated from the source in props/C03.v) *)
Definition n_difference : name := [100; 105; 102; 102; 101; 114; 101; 110; 99; 101].  (* "difference" *)
Definition n_ratio : name := [114; 97; 116; 105; 111].  (* "ratio" *)
Definition n_group_min : name := [103; 114; 111; 117; 112; 95; 109; 105; 110].  (* "group_min" *)
Definition n_group_max : name := [103; 114; 111; 117; 112; 95; 109; 97; 120].  (* "group_max" *)

(* if self._transform == "difference": all_metrics.difference( **transform_parameters ) ... : the frame
   method that is called and whether it receives the transform parameters; None = ValueError *)
Definition transform_of (s : name) : option (transform * bool) :=
  if name_eqb s n_difference then Some (TDiff, true)
  else if name_eqb s n_ratio then Some (TRatio, true)
  else if name_eqb s n_group_min then Some (TMin, false)
  else if name_eqb s n_group_max then Some (TMax, false)
  else None.

(* METRICS_SPEC: base metric name, generated variants (every one with sample_param_names = ["sample_weight"]) *)
Definition generated_spec : list (name * list transform) :=
  [([116; 114; 117; 101; 95; 112; 111; 115; 105; 116; 105; 118; 101; 95; 114; 97; 116; 101], [TDiff; TRatio]);
   ([116; 114; 117; 101; 95; 110; 101; 103; 97; 116; 105; 118; 101; 95; 114; 97; 116; 101], [TDiff; TRatio]);
   ([102; 97; 108; 115; 101; 95; 112; 111; 115; 105; 116; 105; 118; 101; 95; 114; 97; 116; 101], [TDiff; TRatio]);
   ([102; 97; 108; 115; 101; 95; 110; 101; 103; 97; 116; 105; 118; 101; 95; 114; 97; 116; 101], [TDiff; TRatio]);
   ([115; 101; 108; 101; 99; 116; 105; 111; 110; 95; 114; 97; 116; 101], [TDiff; TRatio]);
   ([97; 99; 99; 117; 114; 97; 99; 121; 95; 115; 99; 111; 114; 101], [TDiff; TRatio; TMin]);
   ([122; 101; 114; 111; 95; 111; 110; 101; 95; 108; 111; 115; 115], [TDiff; TRatio; TMax]);
   ([98; 97; 108; 97; 110; 99; 101; 100; 95; 97; 99; 99; 117; 114; 97; 99; 121; 95; 115; 99; 111; 114; 101], [TMin]);
   ([112; 114; 101; 99; 105; 115; 105; 111; 110; 95; 115; 99; 111; 114; 101], [TMin]);
   ([114; 101; 99; 97; 108; 108; 95; 115; 99; 111; 114; 101], [TMin]);
   ([114; 111; 99; 95; 97; 117; 99; 95; 115; 99; 111; 114; 101], [TMin]);
   ([109; 101; 97; 110; 95; 97; 98; 115; 111; 108; 117; 116; 101; 95; 101; 114; 114; 111; 114], [TMax]);
   ([109; 101; 97; 110; 95; 115; 113; 117; 97; 114; 101; 100; 95; 101; 114; 114; 111; 114], [TMax]);
   ([114; 50; 95; 115; 99; 111; 114; 101], [TMin]);
   ([102; 49; 95; 115; 99; 111; 114; 101], [TMin]);
   ([108; 111; 103; 95; 108; 111; 115; 115], [TMax])].
