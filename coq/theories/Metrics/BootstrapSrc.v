(* Source description of the bootstrap code (C18).

   The decisions of fairlearn/metrics/_bootstrap.py and of MetricFrame.__init__ / _populate_results_ci /
   _group_ci / the *_ci accessors on which the model FL.Bootstrap depends, written as a record of tags
   (bootstrap_src); the meaning of the tags in terms of the model's own definitions (an interpreter:
   sample_spec, positions_src, calc_quantiles_src, populate_src); and model_src, the constants the model uses.

   translators/t_bootstrap.py regenerates a value of type bootstrap_src from /repo on every run
   (coq/gen/Gen_bootstrap.v).  props/C18.v states that the regenerated value IS model_src and that its
   meaning IS Bootstrap.populate_ci.  Proof-free; does not import FLGen. *)
From Coq Require Import QArith ZArith List Bool Qround.
From FL Require Import Num ListX Flat Bootstrap.
Import ListNotations.
Open Scope Q_scope.

(* ------------------------------------------------------------------ *)
(* 1. generate_single_bootstrap_sample: the DataFrame.sample call      *)
(* ------------------------------------------------------------------ *)

(* data.sample(frac=.., replace=.., random_state=.., axis=.., ignore_index=..) followed by
   DisaggregatedResult.create(data=<the sample>, <the other arguments handed through>) *)
Record sample_call : Type := mk_sample_call {
  sc_frac : Q;                  (* frac= *)
  sc_replace : bool;            (* replace= *)
  sc_axis : Z;                  (* axis= *)
  sc_ignore_index : bool;       (* ignore_index= *)
  sc_seed_is_arg : bool         (* random_state=random_state, the seed handed in by the caller *)
}.

(* ------------------------------------------------------------------ *)
(* 2. generate_bootstrap_samples: the seed stream                      *)
(* ------------------------------------------------------------------ *)

Inductive none_test : Type := TestIsNone | TestFalsy.          (* `random_state is None` | `not random_state` *)
Inductive rng_ctor : Type := RngFresh | RngSeededByArg.        (* default_rng() | default_rng(seed=random_state) *)
Inductive high_bound : Type := HighUint32Max | HighConst (z : Z).   (* np.iinfo(np.uint32).max | literal *)

(* <generator>.integers(low=, high=, size=, dtype=)   (RandomState: .randint) *)
Record draw_call : Type := mk_draw {
  dr_low : Z; dr_high : high_bound;
  dr_size_is_n_samples : bool;  (* size=n_samples *)
  dr_dtype_uint32 : bool        (* dtype=np.uint32 *)
}.

Inductive seed_index : Type := IdxLoopVar | IdxConst (k : nat).            (* rs[i] | rs[k] *)
Inductive loop_count : Type := CountNSamples | CountNSamplesMinus (k : nat). (* range(n_samples) | range(n_samples - k) *)

Record stream_src : Type := mk_stream {
  ss_test : none_test;                          (* the first test of the if-chain *)
  ss_none_rng : rng_ctor; ss_none_draw : draw_call;   (* its branch *)
  ss_rs_draw : draw_call;                       (* isinstance(random_state, RandomState): random_state.randint *)
  ss_int_rng : rng_ctor; ss_int_draw : draw_call;     (* isinstance(random_state, int) *)
  ss_count : loop_count;                        (* number of iterations of the sampling loop *)
  ss_index : seed_index                         (* the seed handed to iteration i *)
}.

(* ------------------------------------------------------------------ *)
(* 3. the quantile computations                                        *)
(* ------------------------------------------------------------------ *)

Inductive np_fun : Type := NpQuantile | NpNanquantile.
Inductive np_method : Type := MLinear | MOther.   (* no method=/interpolation= keyword (or "linear") | anything else *)

(* how a callee's list of quantiles is written in terms of the caller's: the name itself | sorted(e) *)
Inductive qexpr : Type := QGiven | QSorted (e : qexpr).

(* np.<fun>(samples, q=.., axis=..) of _calc_series_quantiles / _calc_dataframe_quantiles; entry i of the
   returned list is built from result_np[i] with the index / columns / name of samples[0] *)
Record quantile_call : Type := mk_qcall {
  qc_fun : np_fun; qc_q : qexpr; qc_axis : Z; qc_method : np_method;
  qc_aligned : bool             (* samples = _align_sample_indices(samples) comes first *)
}.

Inductive index_fold : Type := FoldUnion | FoldIntersection.   (* reduce(lambda x, y: x.union(y) | x.intersection(y), ..) *)

Inductive kind : Type := KSeries | KFrame.
Inductive callee : Type := CalcSeries | CalcFrame.

(* calculate_pandas_quantiles: isinstance(bootstrap_samples[<i>], pd.<kind>) tests in order, the function
   called in each branch and the quantile list it receives *)
Record dispatch : Type := mk_dispatch {
  dp_subject : nat;
  dp_cases : list (kind * callee * qexpr)
}.

(* ------------------------------------------------------------------ *)
(* 4. MetricFrame                                                      *)
(* ------------------------------------------------------------------ *)

Inductive compare_method : Type := Between | ToOverall.
(* the eight cached interval lists = the eight public observables *)
Inductive slot : Type :=
  SOverall | SByGroup | SGroupMin | SGroupMax | SDifference (m : compare_method) | SRatio (m : compare_method).
Inductive grouping : Type := GMin | GMax.
Inductive errors : Type := ERaise | ECoerce.
(* what is computed from each bootstrapped DisaggregatedResult before the quantiles are taken *)
Inductive aggregate : Type :=
  AOverall | AByGroup
| AGrouping (g : grouping) (e : errors)
| ADifference (m : compare_method) (e : errors)
| ARatio (m : compare_method) (e : errors).

(* self._result_cache[<slot>] = quantiles(<ce_q of ci_quantiles>, [<aggregate>(r) for r in bootstrap_samples]) *)
Record cache_entry : Type := mk_cache { ce_slot : slot; ce_agg : aggregate; ce_q : qexpr }.

(* MetricFrame.__init__: generate_bootstrap_samples(n_samples=n_boot, random_state=random_state, data=<the data of
   the point estimate>, ...) and self._populate_results_ci(<those samples>, <in_q of ci_quantiles>) *)
Record init_call : Type := mk_init {
  in_n_samples_is_n_boot : bool;
  in_seed_is_random_state : bool;
  in_same_data_as_point : bool;   (* data / functions / feature names are those of the point estimate *)
  in_q : qexpr
}.

Record bootstrap_src : Type := mk_src {
  b_sample : sample_call;
  b_stream : stream_src;
  b_series : quantile_call;
  b_frame : quantile_call;
  b_fold : index_fold;
  b_dispatch : dispatch;
  b_init : init_call;
  b_caches : list cache_entry;            (* in the order in which _populate_results_ci writes them *)
  b_accessors : list (slot * slot)        (* public observable -> the cache entry its accessor returns *)
}.

(* ------------------------------------------------------------------ *)
(* 5. the constants the model uses                                     *)
(* ------------------------------------------------------------------ *)

Definition model_sample : sample_call := mk_sample_call 1 true 0 true true.

Definition model_draw : draw_call := mk_draw 0 HighUint32Max true true.

Definition model_stream : stream_src :=
  mk_stream TestIsNone RngFresh model_draw model_draw RngSeededByArg model_draw CountNSamples IdxLoopVar.

Definition model_series : quantile_call := mk_qcall NpQuantile QGiven 0 MLinear false.
Definition model_frame : quantile_call := mk_qcall NpNanquantile QGiven 0 MLinear true.

Definition model_dispatch : dispatch :=
  mk_dispatch 0 [(KSeries, CalcSeries, QGiven); (KFrame, CalcFrame, QGiven)].

Definition model_init : init_call := mk_init true true true QGiven.

Definition model_caches : list cache_entry :=
  [ mk_cache SOverall AOverall QGiven;
    mk_cache SByGroup AByGroup QGiven;
    mk_cache SGroupMin (AGrouping GMin ERaise) QGiven;
    mk_cache SGroupMax (AGrouping GMax ERaise) QGiven;
    mk_cache (SDifference Between) (ADifference Between ERaise) QGiven;
    mk_cache (SDifference ToOverall) (ADifference ToOverall ERaise) QGiven;
    mk_cache (SRatio Between) (ARatio Between ERaise) QGiven;
    mk_cache (SRatio ToOverall) (ARatio ToOverall ERaise) QGiven ].

Definition model_accessors : list (slot * slot) :=
  [ (SOverall, SOverall); (SByGroup, SByGroup); (SGroupMin, SGroupMin); (SGroupMax, SGroupMax);
    (SDifference Between, SDifference Between); (SDifference ToOverall, SDifference ToOverall);
    (SRatio Between, SRatio Between); (SRatio ToOverall, SRatio ToOverall) ].

Definition model_src : bootstrap_src :=
  mk_src model_sample model_stream model_series model_frame FoldUnion model_dispatch model_init
         model_caches model_accessors.

(* ------------------------------------------------------------------ *)
(* 6. meaning: the resample drawn by one sample call                   *)
(* ------------------------------------------------------------------ *)

(* positions that DataFrame.sample may return on a frame of n rows: rows (axis 0), round(frac * n) of them
   (for the model's frac = 1 this is n whatever the rounding mode), each a row position, without repetition
   unless replace=True; drawn from the seed of the caller *)
Definition sample_spec (c : sample_call) (n : nat) (idx : list nat) : Prop :=
  sc_axis c = 0%Z /\ sc_seed_is_arg c = true /\
  Z.of_nat (length idx) = Qfloor (sc_frac c * inject_nat n + (1 # 2)) /\
  Forall (fun i => (i < n)%nat) idx /\
  (sc_replace c = false -> NoDup idx).

(* ------------------------------------------------------------------ *)
(* 7. meaning: the seed stream and the resample positions              *)
(* ------------------------------------------------------------------ *)

(* the value of the random_state argument (a RandomState instance is stateful and is not modelled) *)
Inductive rstate : Type := RSNone | RSInt (z : Z).

Section SeedStream.
  Variables seed entropy : Type.
  (* np.random.default_rng().integers(<draw>, size=k): depends on what the operating system provides *)
  Variable fresh : draw_call -> entropy -> nat -> list seed.
  (* np.random.default_rng(seed=z).integers(<draw>, size=k): a function of z and k *)
  Variable seeded : draw_call -> Z -> nat -> list seed.
  (* positions chosen by DataFrame.sample(random_state=s) on n rows *)
  Variable draw : seed -> nat -> list nat.
  Variable dflt : seed.

  Definition test_sem (t : none_test) (r : rstate) : bool :=
    match t, r with
    | TestIsNone, RSNone => true
    | TestIsNone, RSInt _ => false
    | TestFalsy, RSNone => true
    | TestFalsy, RSInt z => Z.eqb z 0
    end.

  Definition stream_sem (c : rng_ctor) (d : draw_call) (e : entropy) (r : rstate) (nboot : nat) : list seed :=
    let k := if dr_size_is_n_samples d then nboot else 0%nat in
    match c, r with
    | RngSeededByArg, RSInt z => seeded d z k
    | _, _ => fresh d e k                       (* default_rng() and default_rng(seed=None) *)
    end.

  (* the array rs *)
  Definition seeds_src (s : stream_src) (e : entropy) (r : rstate) (nboot : nat) : list seed :=
    if test_sem (ss_test s) r then stream_sem (ss_none_rng s) (ss_none_draw s) e r nboot
    else match r with
         | RSInt _ => stream_sem (ss_int_rng s) (ss_int_draw s) e r nboot
         | RSNone => []
         end.

  (* the row positions of the resamples, in the order in which they are generated *)
  Definition positions_src (s : stream_src) (e : entropy) (r : rstate) (nboot n : nat) : list (list nat) :=
    let sd := seeds_src s e r nboot in
    map (fun i => draw (nth (match ss_index s with IdxLoopVar => i | IdxConst k => k end) sd dflt) n)
        (seq_nat 0 (match ss_count s with CountNSamples => nboot | CountNSamplesMinus k => (nboot - k)%nat end)).
End SeedStream.

(* ------------------------------------------------------------------ *)
(* 8. meaning: calculate_pandas_quantiles                              *)
(* ------------------------------------------------------------------ *)

Fixpoint qexpr_sem (e : qexpr) (qs : list Q) : list Q :=
  match e with
  | QGiven => qs
  | QSorted e' => qsort (qexpr_sem e' qs)
  end.

(* any other method or axis is not modelled: such a source does not have the meaning of the model *)
Definition np_sem (c : quantile_call) : Q -> list ext -> ext :=
  match qc_method c, qc_axis c with
  | MLinear, 0%Z => match qc_fun c with NpQuantile => np_quantile | NpNanquantile => np_nanquantile end
  | _, _ => fun _ _ => NaN
  end.

(* keys present in every frame *)
Definition inter_index (fs : list frame) : list key :=
  filter (fun k => forallb (fun f => kmem k (map fst f)) fs) (union_index fs).

Definition index_sem (f : index_fold) (aligned : bool) (fs : list frame) : list key :=
  if aligned then match f with FoldUnion => union_index fs | FoldIntersection => inter_index fs end
  else match fs with f0 :: _ => map fst f0 | [] => [] end.

Definition series_path (c : quantile_call) (ncols : nat) (samples : list result) (q : Q) : result :=
  RS (map (fun j => np_sem c q (series_cell samples j)) (seq_nat 0 ncols)).

Definition frame_path (c : quantile_call) (f : index_fold) (ncols : nat) (samples : list result) (q : Q) : result :=
  let fs := map as_frame samples in
  RF (map (fun k => (k, map (fun j => np_sem c q (aligned_cell ncols fs k j)) (seq_nat 0 ncols)))
          (index_sem f (qc_aligned c) fs)).

Definition kind_eqb (a b : kind) : bool :=
  match a, b with KSeries, KSeries | KFrame, KFrame => true | _, _ => false end.

Fixpoint find_case (k : kind) (cs : list (kind * callee * qexpr)) : option (callee * qexpr) :=
  match cs with
  | [] => None
  | (k', c, e) :: r => if kind_eqb k k' then Some (c, e) else find_case k r
  end.

(* the list returned for one kind of samples: one entry per quantile the numpy call receives *)
Definition run_case (s : bootstrap_src) (k : kind) (qs : list Q) (ncols : nat) (samples : list result) : list result :=
  match find_case k (dp_cases (b_dispatch s)) with
  | Some (CalcSeries, e) =>
      map (series_path (b_series s) ncols samples) (qexpr_sem (qc_q (b_series s)) (qexpr_sem e qs))
  | Some (CalcFrame, e) =>
      map (frame_path (b_frame s) (b_fold s) ncols samples) (qexpr_sem (qc_q (b_frame s)) (qexpr_sem e qs))
  | None => []                                  (* assert False *)
  end.

(* the kind is that of sample number dp_subject (only 0 is modelled); as in Bootstrap.calc_quantile1 a
   list that does not start with a frame is treated as a list of Series *)
Definition calc_quantiles_src (s : bootstrap_src) (qs : list Q) (ncols : nat) (samples : list result) : list result :=
  match dp_subject (b_dispatch s) with
  | O => match samples with
         | RF _ :: _ => run_case s KFrame qs ncols samples
         | _ => run_case s KSeries qs ncols samples
         end
  | S _ => []
  end.

(* ------------------------------------------------------------------ *)
(* 9. meaning: _populate_results_ci and the accessors                  *)
(* ------------------------------------------------------------------ *)

Definition cm_flag (m : compare_method) : bool := match m with Between => false | ToOverall => true end.

(* errors= is recorded in the tags only: every per-resample value is a scalar *)
Definition agg_sem (a : aggregate) (ncf ncols : nat) : dres -> result :=
  match a with
  | AOverall => d_overall
  | AByGroup => fun d => RF (d_by_group d)
  | AGrouping g _ => apply_grouping (match g with GMin => false | GMax => true end) ncf ncols
  | ADifference m _ => difference (cm_flag m) ncf ncols
  | ARatio m _ => ratio (cm_flag m) ncf ncols
  end.

Definition cm_eqb (a b : compare_method) : bool :=
  match a, b with Between, Between | ToOverall, ToOverall => true | _, _ => false end.

Definition slot_eqb (a b : slot) : bool :=
  match a, b with
  | SOverall, SOverall | SByGroup, SByGroup | SGroupMin, SGroupMin | SGroupMax, SGroupMax => true
  | SDifference m, SDifference m' | SRatio m, SRatio m' => cm_eqb m m'
  | _, _ => false
  end.

(* a dict: the last write to a key wins *)
Fixpoint find_cache (sl : slot) (cs : list cache_entry) : option cache_entry :=
  match cs with
  | [] => None
  | c :: r => match find_cache sl r with
              | Some c' => Some c'
              | None => if slot_eqb sl (ce_slot c) then Some c else None
              end
  end.

Fixpoint find_accessor (sl : slot) (l : list (slot * slot)) : option slot :=
  match l with
  | [] => None
  | (a, b) :: r => if slot_eqb sl a then Some b else find_accessor sl r
  end.

(* what the public accessor `pub` returns *)
Definition observable_src (s : bootstrap_src) (ms : list metric) (ncf nsf : nat) (qs : list Q) (rows : list row)
           (idxs : list (list nat)) (pub : slot) : list result :=
  let ncols := length ms in
  let bs := boot ms ncf nsf rows idxs in
  match find_accessor pub (b_accessors s) with
  | Some sl =>
      match find_cache sl (b_caches s) with
      | Some c => calc_quantiles_src s (qexpr_sem (ce_q c) (qexpr_sem (in_q (b_init s)) qs)) ncols
                    (map (agg_sem (ce_agg c) ncf ncols) bs)
      | None => []
      end
  | None => []
  end.

Definition populate_src (s : bootstrap_src) (ms : list metric) (ncf nsf : nat) (qs : list Q) (rows : list row)
           (idxs : list (list nat)) : ci :=
  let o := observable_src s ms ncf nsf qs rows idxs in
  mkci (o SOverall) (o SByGroup) (o SGroupMin) (o SGroupMax)
       (o (SDifference Between)) (o (SRatio Between)) (o (SDifference ToOverall)) (o (SRatio ToOverall)).
