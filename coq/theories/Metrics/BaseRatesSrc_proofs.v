From Coq Require Import QArith ZArith List Bool Lia.
From FL Require Import Num ListX BaseRates BaseRatesSrc.
Import ListNotations.
Open Scope Z_scope.

(* a rate body of the recognised shape IS the model's common body followed by the projection *)
Lemma eval_rate_std (lf : list Z -> option Z -> option (list Z)) (r : rate_src) :
  rate_shape_ok r = true ->
  forall y_true y_pred sw pos,
    eval_rate lf r y_true y_pred sw pos
    = option_map (nth_cell (rs_cell r)) (rates_with lf y_true y_pred sw pos).
Proof.
  destruct r as [ld pf ct cp wf lfw nm rv k]. unfold rate_shape_ok.
  cbn [rs_label_data rs_pos_forwarded rs_cm_true rs_cm_pred rs_weight_forwarded rs_labels_forwarded
       rs_norm rs_ravel rs_cell].
  destruct ld as [|[|] [|[|] [|? ?]]]; try discriminate;
    destruct ct; try discriminate; destruct cp; try discriminate; destruct nm; try discriminate.
  intro H.
  apply andb_true_iff in H; destruct H as [H ->].
  apply andb_true_iff in H; destruct H as [H ->].
  apply andb_true_iff in H; destruct H as [-> ->].
  intros y_true y_pred sw pos. unfold eval_rate, rates_with.
  cbn [rs_label_data rs_pos_forwarded rs_cm_true rs_cm_pred rs_weight_forwarded rs_labels_forwarded
       rs_norm rs_ravel rs_cell andb pick label_data cm_with].
  destruct (mk_rows y_true y_pred sw) as [rows|]; [|reflexivity].
  destruct (lf (zuniq (y_true ++ y_pred)) pos) as [[|n [|p [|? ?]]]|]; reflexivity.
Qed.

Lemma ones_length n : length (ones n) = n.
Proof. unfold ones. apply repeat_length. Qed.

(* selection_rate: the expected body evaluates to the model function *)
Lemma eval_selection_rate (y_true y_pred : list Z) (sw : option (list Q)) (pos : Z) :
  eval_stm (mk_ctx y_true y_pred sw pos) expected_selection_rate = selection_rate y_pred pos sw.
Proof.
  unfold expected_selection_rate, sel_vec, selection_rate.
  cbn [eval_stm eval_v c_pred c_pos vlen].
  rewrite map_length.
  destruct y_pred as [|y0 yr]; [reflexivity|].
  set (yp := y0 :: yr). cbn [length Nat.eqb].
  destruct sw as [ws|]; cbn [eval_stm c_weight eval_s eval_v c_pred c_pos option_map vlen to_q weights_or_ones].
  - rewrite map_length. rewrite (Nat.eqb_sym (length yp) (length ws)).
    destruct (Nat.eqb (length ws) (length yp)); reflexivity.
  - rewrite !map_length, !ones_length, Nat.eqb_refl. reflexivity.
Qed.

Lemma eval_mean_prediction (y_true y_pred : list Z) (sw : option (list Q)) (pos : Z) :
  eval_stm (mk_ctx y_true y_pred sw pos) expected_mean_prediction = mean_prediction y_pred sw.
Proof.
  unfold expected_mean_prediction, mean_prediction.
  destruct sw as [ws|]; cbn [eval_stm c_weight eval_s eval_v c_pred option_map vlen to_q weights_or_ones].
  - rewrite (Nat.eqb_sym (length y_pred) (length ws)).
    destruct (Nat.eqb (length ws) (length y_pred)); reflexivity.
  - rewrite !ones_length, Nat.eqb_refl. reflexivity.
Qed.

(* all seven bodies at once, in the form props/C14.v instantiates with the regenerated fragments *)
Theorem source_bodies (lf : list Z -> option Z -> option (list Z))
        (r_tpr r_tnr r_fpr r_fnr : rate_src) (s_sel s_mean : stm) (c_cnt : count_src) :
  rate_shape_ok r_tpr && rate_shape_ok r_tnr && rate_shape_ok r_fpr && rate_shape_ok r_fnr = true ->
  s_sel = expected_selection_rate -> s_mean = expected_mean_prediction ->
  c_cnt = mk_count [AYTrue; AYPred] AYTrue ->
  (forall a b sw pos, eval_rate lf r_tpr a b sw pos = option_map (nth_cell (rs_cell r_tpr)) (rates_with lf a b sw pos)) /\
  (forall a b sw pos, eval_rate lf r_tnr a b sw pos = option_map (nth_cell (rs_cell r_tnr)) (rates_with lf a b sw pos)) /\
  (forall a b sw pos, eval_rate lf r_fpr a b sw pos = option_map (nth_cell (rs_cell r_fpr)) (rates_with lf a b sw pos)) /\
  (forall a b sw pos, eval_rate lf r_fnr a b sw pos = option_map (nth_cell (rs_cell r_fnr)) (rates_with lf a b sw pos)) /\
  (forall a b sw pos, eval_stm (mk_ctx a b sw pos) s_sel = selection_rate b pos sw) /\
  (forall a b sw pos, eval_stm (mk_ctx a b sw pos) s_mean = mean_prediction b sw) /\
  (forall a b, eval_count c_cnt a b = count a b).
Proof.
  intros H -> -> ->.
  apply andb_true_iff in H; destruct H as [H H4].
  apply andb_true_iff in H; destruct H as [H H3].
  apply andb_true_iff in H; destruct H as [H1 H2].
  repeat split; intros.
  - apply eval_rate_std; assumption.
  - apply eval_rate_std; assumption.
  - apply eval_rate_std; assumption.
  - apply eval_rate_std; assumption.
  - apply eval_selection_rate.
  - apply eval_mean_prediction.
Qed.

(* the interpretation separates the mutants the shape check is meant to reject (not vacuous) *)
Example labels_from_y_true_only_differs :
  let r := mk_rate [AYTrue] true AYTrue AYPred true true NormTrue true 2 in
  eval_rate labels_for_cm r [1; 1] [0; 1] None None <> false_negative_rate [1; 1] [0; 1] None None.
Proof. vm_compute. discriminate. Qed.

Example weight_not_forwarded_differs :
  let r := mk_rate [AYTrue; AYPred] true AYTrue AYPred false true NormTrue true 3 in
  option_map Qred (eval_rate labels_for_cm r [1; 1] [0; 1] (Some [3; 1]%Q) None)
  <> option_map Qred (true_positive_rate [1; 1] [0; 1] (Some [3; 1]%Q) None).
Proof. vm_compute. discriminate. Qed.
