(* Model of the bootstrap confidence intervals of MetricFrame (C18):
     fairlearn/metrics/_bootstrap.py         generate_bootstrap_samples, calculate_pandas_quantiles,
                                             _calc_series_quantiles, _calc_dataframe_quantiles,
                                             _align_sample_indices
     fairlearn/metrics/_metric_frame.py      _populate_results_ci, _group_ci
     fairlearn/metrics/_disaggregated_result.py  create, _apply_functions, apply_grouping,
                                             difference, ratio      (what is computed per resample)
   Self-contained (does not use the Disagg / Aggregates models).  Proof-free: the lemmas are in
   Bootstrap_proofs.v.  Categorical values are Z codes assigned in sorted order by the harness. *)
From Coq Require Import QArith ZArith List Bool Qround.
From FL Require Import Num ListX Flat.
Import ListNotations.
Open Scope Q_scope.

(* ------------------------------------------------------------------ *)
(* 1. numpy.quantile, method='linear', on exact rationals              *)
(* ------------------------------------------------------------------ *)

Fixpoint qinsert (x : Q) (l : list Q) : list Q :=
  match l with
  | [] => [x]
  | y :: r => if Qleb x y then x :: l else y :: qinsert x r
  end.

Definition qsort (l : list Q) : list Q := fold_right qinsert [] l.

(* numpy _lerp: a + (b - a) * t   (for t >= 1/2 numpy evaluates b - (b - a) * (1 - t): the same number) *)
Definition lerp (a b t : Q) : Q := a + (b - a) * t.

(* value of the piecewise-linear interpolant of the sorted values s (m = length s >= 1) at the
   virtual index h; numpy clamps below 0 to the minimum and from m-1 on to the maximum
   (_get_indexes), otherwise previous = floor h, next = previous + 1, gamma = h - previous *)
Definition interp (s : list Q) (h : Q) : Q :=
  let m1 := (length s - 1)%nat in
  if Qltb h 0 then nth 0%nat s 0
  else if Qleb (inject_nat m1) h then nth m1 s 0
  else let k := Z.to_nat (Qfloor h) in
       lerp (nth k s 0) (nth (S k) s 0) (h - inject_Z (Qfloor h)).

(* np.quantile(vs, q) for a non-empty list without NaN: virtual index (m-1)*q *)
Definition qquantile (q : Q) (vs : list Q) : Q :=
  interp (qsort vs) (inject_nat (length vs - 1) * q).

Definition qmean (vs : list Q) : Q := qsum vs / inject_nat (length vs).

(* ------------------------------------------------------------------ *)
(* 2. the same on float cells (ext): NaN policy, infinities            *)
(* ------------------------------------------------------------------ *)

Fixpoint fins (l : list ext) : option (list Q) :=
  match l with
  | [] => Some []
  | Fin q :: r => match fins r with Some qs => Some (q :: qs) | None => None end
  | _ :: _ => None
  end.

Definition strip_nan (l : list ext) : list ext := filter (fun x => negb (ext_is_nan x)) l.

(* general path, used only when an infinity is among the values: numpy's _lerp in IEEE arithmetic *)
Fixpoint einsert (x : ext) (l : list ext) : list ext :=
  match l with
  | [] => [x]
  | y :: r => if ext_leb x y then x :: l else y :: einsert x r
  end.
Definition esort (l : list ext) : list ext := fold_right einsert [] l.

Definition ext_mulq (x : ext) (t : Q) : ext :=
  match x with
  | Fin a => Fin (a * t)
  | NaN => NaN
  | PInf => match qsign t with Eq => NaN | Gt => PInf | Lt => NInf end
  | NInf => match qsign t with Eq => NaN | Gt => NInf | Lt => PInf end
  end.

Definition elerp (a b : ext) (t : Q) : ext :=
  let d := ext_sub b a in
  if Qleb (1 # 2) t then ext_sub b (ext_mulq d (1 - t)) else ext_add a (ext_mulq d t).

Definition einterp (s : list ext) (h : Q) : ext :=
  let m1 := (length s - 1)%nat in
  if Qltb h 0 then elerp (nth 0%nat s NaN) (nth 0%nat s NaN) 0
  else if Qleb (inject_nat m1) h then elerp (nth m1 s NaN) (nth m1 s NaN) 0
  else let k := Z.to_nat (Qfloor h) in
       elerp (nth k s NaN) (nth (S k) s NaN) (h - inject_Z (Qfloor h)).

(* quantile of a list that contains no NaN; [] (nothing left after NaN removal) gives NaN *)
Definition quantile_clean (q : Q) (l : list ext) : ext :=
  match l with
  | [] => NaN
  | _ => match fins l with
         | Some qs => Fin (qquantile q qs)
         | None => einterp (esort l) (inject_nat (length l - 1) * q)
         end
  end.

(* np.quantile along axis 0: a NaN among the values makes the result NaN *)
Definition np_quantile (q : Q) (l : list ext) : ext :=
  if existsb ext_is_nan l then NaN else quantile_clean q l.

(* np.nanquantile along axis 0: NaN are removed first; all-NaN gives NaN *)
Definition np_nanquantile (q : Q) (l : list ext) : ext := quantile_clean q (strip_nan l).

(* ------------------------------------------------------------------ *)
(* 3. data, resamples, metrics                                         *)
(* ------------------------------------------------------------------ *)

Definition key := list Z.

Record row : Type := mkrow { r_cf : key; r_sf : key; r_pred : Q }.

Definition dummy_row : row := mkrow [] [] 0.

(* DataFrame.sample(frac=1, replace=True, ignore_index=True): n positions < n, given from outside *)
Definition resample (rows : list row) (idx : list nat) : list row :=
  map (fun i => nth i rows dummy_row) idx.

Definition valid_resample (n : nat) (idx : list nat) : Prop :=
  length idx = n /\ Forall (fun i => (i < n)%nat) idx.

Definition valid_resampleb (n : nat) (idx : list nat) : bool :=
  Nat.eqb (length idx) n && forallb (fun i => Nat.ltb i n) idx.

(* a metric sees the rows of one group (or of the whole sample) *)
Definition metric := list row -> ext.

Definition preds (rows : list row) : list Q := map r_pred rows.

Definition m_count : metric := fun rows => Fin (inject_nat (length rows)).
Definition m_mean : metric := fun rows =>
  match rows with [] => NaN | _ => Fin (qmean (preds rows)) end.
Definition m_sum : metric := fun rows => Fin (qsum (preds rows)).
Definition m_const (c : Q) : metric := fun _ => Fin c.
(* mean prediction minus c: takes negative values and zero (signed ratios, 0/0, x/0) *)
Definition m_shift (c : Q) : metric := fun rows =>
  match rows with [] => NaN | _ => Fin (qmean (preds rows) - c) end.

(* metric codes used by the correspondence run *)
Definition metric_of (code : Z) (c : Q) : metric :=
  match code with
  | 0%Z => m_count
  | 1%Z => m_mean
  | 2%Z => m_sum
  | 3%Z => m_const c
  | _ => m_shift c
  end.

(* ------------------------------------------------------------------ *)
(* 4. DisaggregatedResult of one (re)sample                            *)
(* ------------------------------------------------------------------ *)

Definition series := list ext.              (* one value per metric (column) *)
Definition frame := list (key * series).    (* index key -> row of metric values *)
Inductive result : Type := RS (s : series) | RF (f : frame).

(* apply_to_dataframe *)
Definition apply_to (ms : list metric) (rows : list row) : series := map (fun m => m rows) ms.
Definition nan_row (ncols : nat) : series := repeat NaN ncols.

Definition group_rows (kf : row -> key) (k : key) (rows : list row) : list row :=
  filter (fun r => key_eqb (kf r) k) rows.

(* _apply_functions with nnames >= 1 grouping columns: groupby (observed groups, sorted) + apply;
   with more than one column the result is re-indexed to the product of the values observed per
   column in THIS sample (unobserved combinations: NaN, the metric is not called) *)
Definition apply_functions (ms : list metric) (nnames : nat) (kf : row -> key) (rows : list row) : frame :=
  let keys := map kf rows in
  let observed := kuniq keys in
  let idx := if Nat.ltb 1 nnames
             then product (map (fun j => zuniq (column j keys)) (seq_nat 0 nnames))
             else observed in
  map (fun k => (k, if kmem k observed then apply_to ms (group_rows kf k rows)
                    else nan_row (length ms))) idx.

Record dres : Type := mkdres { d_overall : result; d_by_group : frame }.

Definition full_key (r : row) : key := r_cf r ++ r_sf r.

(* DisaggregatedResult.create *)
Definition create (ms : list metric) (ncf nsf : nat) (rows : list row) : dres :=
  mkdres (if Nat.eqb ncf 0 then RS (apply_to ms rows) else RF (apply_functions ms ncf r_cf rows))
         (apply_functions ms (ncf + nsf) full_key rows).

Definition col (j : nat) (f : frame) : list ext := map (fun kr => nth j (snd kr) NaN) f.

Definition agg_cols (agg : list ext -> ext) (ncols : nat) (f : frame) : series :=
  map (fun j => agg (col j f)) (seq_nat 0 ncols).

(* by_group.groupby(level=control levels): blocks of rows sharing the control prefix, sorted *)
Definition cprefix (ncf : nat) (kr : key * series) : key := firstn ncf (fst kr).
Definition block (ncf : nat) (c : key) (f : frame) : frame :=
  filter (fun kr => key_eqb (cprefix ncf kr) c) f.
Definition levels (ncf : nat) (f : frame) : list key := kuniq (map (cprefix ncf) f).

Definition per_level (ncf : nat) (f : frame) (g : key -> frame -> series) : result :=
  if Nat.eqb ncf 0 then RS (g [] f)
  else RF (map (fun c => (c, g c (block ncf c f))) (levels ncf f)).

(* apply_grouping("min"/"max"): pandas min/max skip NaN (NaN when nothing is left) *)
Definition apply_grouping (mx : bool) (ncf ncols : nat) (d : dres) : result :=
  per_level ncf (d_by_group d) (fun _ => agg_cols (if mx then ext_max else ext_min) ncols).

(* the row of `overall` (or of group_min) that pandas aligns with control level c *)
Definition sub_row (ncols : nat) (r : result) (c : key) : series :=
  match r with
  | RS s => s
  | RF f => match assoc c f with Some s => s | None => nan_row ncols end
  end.

(* difference: (by_group - subtrahend).abs().max()  [per control level] *)
Definition difference (to_overall : bool) (ncf ncols : nat) (d : dres) : result :=
  let sub := if to_overall then d_overall d else apply_grouping false ncf ncols d in
  per_level ncf (d_by_group d) (fun c blk =>
    let s := sub_row ncols sub c in
    map (fun j => ext_max (map (fun v => ext_abs (ext_sub v (nth j s NaN))) (col j blk))) (seq_nat 0 ncols)).

(* ratio_sub_one: x if not (x > 1) else 1 / x *)
Definition ratio_sub_one (x : ext) : ext :=
  if ext_ltb (Fin 1) x then ext_div (Fin 1) x else x.

Fixpoint map2 {A B C} (f : A -> B -> C) (a : list A) (b : list B) : list C :=
  match a, b with
  | x :: a', y :: b' => f x y :: map2 f a' b'
  | _, _ => []
  end.

(* ratio: between_groups = group_min / group_max; to_overall = min of ratio_sub_one(by_group / overall) *)
Definition ratio (to_overall : bool) (ncf ncols : nat) (d : dres) : result :=
  if to_overall then
    per_level ncf (d_by_group d) (fun c blk =>
      let s := sub_row ncols (d_overall d) c in
      map (fun j => ext_min (map (fun v => ratio_sub_one (ext_div v (nth j s NaN))) (col j blk)))
          (seq_nat 0 ncols))
  else
    per_level ncf (d_by_group d) (fun _ blk =>
      map2 ext_div (agg_cols ext_min ncols blk) (agg_cols ext_max ncols blk)).

(* ------------------------------------------------------------------ *)
(* 5. calculate_pandas_quantiles                                       *)
(* ------------------------------------------------------------------ *)

Definition as_series (r : result) : series := match r with RS s => s | RF _ => [] end.
Definition as_frame (r : result) : frame := match r with RF f => f | RS _ => [] end.

(* _align_sample_indices: outer union of the indices (sorted), missing rows filled with NaN *)
Definition union_index (fs : list frame) : list key := kuniq (flat_map (map fst) fs).

Definition lookup_row (ncols : nat) (k : key) (f : frame) : series :=
  match assoc k f with Some s => s | None => nan_row ncols end.

Definition align (ncols : nat) (fs : list frame) : list frame :=
  let idx := union_index fs in
  map (fun f => map (fun k => (k, lookup_row ncols k f)) idx) fs.

(* the values stacked along axis 0 for row k, column j of the aligned frames: reindex(outer)[k] is
   the row of f at k when f has it and a row of NaN otherwise (align_lookup in Bootstrap_proofs.v) *)
Definition aligned_cell (ncols : nat) (fs : list frame) (k : key) (j : nat) : list ext :=
  map (fun f => nth j (lookup_row ncols k f) NaN) fs.

Definition series_cell (samples : list result) (j : nat) : list ext :=
  map (fun s => nth j (as_series s) NaN) samples.

(* one requested quantile.  Series samples: np.quantile (NaN propagates); DataFrame samples:
   alignment, then np.nanquantile (NaN skipped).  The kind is that of the first sample. *)
Definition calc_quantile1 (ncols : nat) (samples : list result) (q : Q) : result :=
  match samples with
  | RF _ :: _ =>
      let fs := map as_frame samples in
      RF (map (fun k => (k, map (fun j => np_nanquantile q (aligned_cell ncols fs k j)) (seq_nat 0 ncols)))
              (union_index fs))
  | _ => RS (map (fun j => np_quantile q (series_cell samples j)) (seq_nat 0 ncols))
  end.

Definition calc_quantiles (qs : list Q) (ncols : nat) (samples : list result) : list result :=
  map (calc_quantile1 ncols samples) qs.

(* ------------------------------------------------------------------ *)
(* 6. _populate_results_ci                                             *)
(* ------------------------------------------------------------------ *)

Definition boot (ms : list metric) (ncf nsf : nat) (rows : list row) (idxs : list (list nat)) : list dres :=
  map (fun idx => create ms ncf nsf (resample rows idx)) idxs.

Record ci : Type := mkci {
  ci_overall : list result; ci_by_group : list result;
  ci_group_min : list result; ci_group_max : list result;
  ci_difference : list result; ci_ratio : list result;
  ci_difference_to : list result; ci_ratio_to : list result }.

Definition populate_ci (ms : list metric) (ncf nsf : nat) (qs : list Q) (rows : list row)
           (idxs : list (list nat)) : ci :=
  let ncols := length ms in
  let bs := boot ms ncf nsf rows idxs in
  let cq := calc_quantiles qs ncols in
  mkci (cq (map d_overall bs))
       (cq (map (fun d => RF (d_by_group d)) bs))
       (cq (map (apply_grouping false ncf ncols) bs))
       (cq (map (apply_grouping true ncf ncols) bs))
       (cq (map (difference false ncf ncols) bs))
       (cq (map (ratio false ncf ncols) bs))
       (cq (map (difference true ncf ncols) bs))
       (cq (map (ratio true ncf ncols) bs)).

(* point estimate (the same create on the data themselves), for the shape comparison *)
Definition point (ms : list metric) (ncf nsf : nat) (rows : list row) : dres := create ms ncf nsf rows.

(* ------------------------------------------------------------------ *)
(* 7. wire format of the correspondence run                            *)
(* ------------------------------------------------------------------ *)


Definition enc_series (s : series) : list Z := enc_list enc_ext s.
Definition enc_frame (f : frame) : list Z := enc_list (fun kr => enc_key (fst kr) ++ enc_series (snd kr)) f.
Definition enc_result (r : result) : list Z :=
  match r with RS s => 0%Z :: enc_series s | RF f => 1%Z :: enc_frame f end.

Definition enc_ci (c : ci) : list Z :=
  flat_map (enc_list enc_result)
    [ci_overall c; ci_by_group c; ci_group_min c; ci_group_max c;
     ci_difference c; ci_ratio c; ci_difference_to c; ci_ratio_to c].

(* every cell of every per-resample result is finite or NaN (the hypothesis of the monotonicity
   theorem); reported per output so that the harness knows where the theorem applies *)
Definition ext_no_inf (x : ext) : bool := match x with PInf | NInf => false | _ => true end.
Definition result_no_inf (r : result) : bool :=
  match r with
  | RS s => forallb ext_no_inf s
  | RF f => forallb (fun kr => forallb ext_no_inf (snd kr)) f
  end.
Definition samples_no_inf (samples : list result) : bool := forallb result_no_inf samples.

Definition no_inf_flags (ms : list metric) (ncf nsf : nat) (rows : list row) (idxs : list (list nat)) : list bool :=
  let ncols := length ms in
  let bs := boot ms ncf nsf rows idxs in
  map samples_no_inf
    [map d_overall bs; map (fun d => RF (d_by_group d)) bs;
     map (apply_grouping false ncf ncols) bs; map (apply_grouping true ncf ncols) bs;
     map (difference false ncf ncols) bs; map (ratio false ncf ncols) bs;
     map (difference true ncf ncols) bs; map (ratio true ncf ncols) bs].

Definition mkrows (l : list (key * key * Q)) : list row :=
  map (fun t => mkrow (fst (fst t)) (snd (fst t)) (snd t)) l.

Definition run_ci (codes : list (Z * Q)) (ncf nsf : nat) (qs : list Q) (rows : list (key * key * Q))
           (idxs : list (list nat)) : list Z :=
  let ms := map (fun cc => metric_of (fst cc) (snd cc)) codes in
  let rs := mkrows rows in
  enc_bool (forallb (valid_resampleb (length rs)) idxs)
  ++ enc_ci (populate_ci ms ncf nsf qs rs idxs)
  ++ enc_result (d_overall (point ms ncf nsf rs))
  ++ enc_frame (d_by_group (point ms ncf nsf rs))
  ++ enc_list enc_bool (no_inf_flags ms ncf nsf rs idxs).

(* direct run of calculate_pandas_quantiles on given samples *)
Definition run_quantiles (qs : list Q) (ncols : nat) (samples : list result) : list Z :=
  enc_list enc_result (calc_quantiles qs ncols samples).
