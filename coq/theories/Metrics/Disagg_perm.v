(* C12 on the real MetricFrame model: joint row permutation leaves by_group / overall unchanged
   (by_group_perm), renaming the codes of one sensitive feature renames exactly the index keys
   (by_group_relabel: strictly monotone renaming, equality of tables; by_group_relabel_inj: any injective
   renaming, equality up to the order of the index). *)
From Coq Require Import QArith ZArith List Bool Lia Permutation FinFun.
From FL Require Import Num ListX Disagg Disagg_proofs Disagg_ext.
Import ListNotations.
Open Scope Z_scope.

(* ---------- apply_perm ---------- *)
Lemma apply_perm_cons {A} i pi (l : list A) :
  apply_perm (i :: pi) l = opt_list (nth_error l i) ++ apply_perm pi l.
Proof. reflexivity. Qed.

Lemma apply_perm_map {A B} (f : A -> B) pi (l : list A) :
  apply_perm pi (map f l) = map f (apply_perm pi l).
Proof.
  induction pi as [|i pi IH]; [reflexivity|].
  rewrite !apply_perm_cons, map_app, IH, nth_error_map. destruct (nth_error l i); reflexivity.
Qed.

Definition in_range (n : nat) (pi : list nat) : Prop := forall i, In i pi -> (i < n)%nat.

Lemma in_range_cons n i pi : in_range n (i :: pi) -> (i < n)%nat /\ in_range n pi.
Proof. intro H. split; [apply H; left; reflexivity | intros j Hj; apply H; right; exact Hj]. Qed.

Lemma nth_error_lt {A} (l : list A) i : (i < length l)%nat -> exists x, nth_error l i = Some x.
Proof.
  intro H. destruct (nth_error l i) eqn:E; [eexists; reflexivity|].
  apply nth_error_None in E. lia.
Qed.

Lemma apply_perm_length {A} pi (l : list A) : in_range (length l) pi -> length (apply_perm pi l) = length pi.
Proof.
  induction pi as [|i pi IH]; intro H; [reflexivity|]. apply in_range_cons in H. destruct H as [Hi H].
  rewrite apply_perm_cons, app_length, IH by exact H. destruct (nth_error_lt l i Hi) as [x ->]. reflexivity.
Qed.

Lemma apply_perm_combine {A B} pi (a : list A) (b : list B) :
  in_range (length a) pi -> in_range (length b) pi ->
  apply_perm pi (combine a b) = combine (apply_perm pi a) (apply_perm pi b).
Proof.
  induction pi as [|i pi IH]; intros Ha Hb; [reflexivity|].
  apply in_range_cons in Ha. apply in_range_cons in Hb. destruct Ha as [Hia Ha], Hb as [Hib Hb].
  rewrite !apply_perm_cons, IH by assumption.
  destruct (nth_error_lt a i Hia) as [x Hx]. destruct (nth_error_lt b i Hib) as [y Hy].
  assert (Hc : nth_error (combine a b) i = Some (x, y)).
  { clear -Hx Hy. revert a b Hx Hy. induction i as [|i IHi]; intros [|a0 a] [|b0 b]; cbn; try discriminate.
    - intros [= ->] [= ->]. reflexivity.
    - apply IHi. }
  rewrite Hx, Hy, Hc. reflexivity.
Qed.

Lemma apply_perm_seq {A} (l : list A) : apply_perm (seq 0 (length l)) l = l.
Proof.
  induction l as [|x l IH]; [reflexivity|].
  cbn [length seq]. rewrite apply_perm_cons. cbn [nth_error opt_list app]. f_equal.
  rewrite <- seq_shift. unfold apply_perm in *. rewrite flat_map_concat_map, map_map, <- flat_map_concat_map.
  cbn [nth_error]. exact IH.
Qed.

Lemma apply_perm_Permutation {A} pi (l : list A) :
  Permutation pi (seq 0 (length l)) -> Permutation (apply_perm pi l) l.
Proof.
  intro H. rewrite <- (apply_perm_seq l) at 2. unfold apply_perm. apply Permutation_flat_map. exact H.
Qed.

Lemma perm_in_range pi n : Permutation pi (seq 0 n) -> in_range n pi.
Proof. intros H i Hi. apply (Permutation_in _ H) in Hi. apply in_seq in Hi. lia. Qed.

Lemma perm_length pi n : Permutation pi (seq 0 n) -> length pi = n.
Proof. intro H. apply Permutation_length in H. rewrite seq_length in H. exact H. Qed.

(* ---------- selection by a mask commutes with a joint permutation ---------- *)
Definition pick {A} (mask : list bool) (col : list A) (i : nat) : list A :=
  match nth_error mask i, nth_error col i with Some true, Some x => [x] | _, _ => [] end.

Lemma sel_apply_perm {A} pi (mask : list bool) (col : list A) :
  in_range (length mask) pi -> in_range (length col) pi ->
  sel (apply_perm pi mask) (apply_perm pi col) = flat_map (pick mask col) pi.
Proof.
  induction pi as [|i pi IH]; intros Hm Hc; [reflexivity|].
  apply in_range_cons in Hm. apply in_range_cons in Hc. destruct Hm as [Him Hm], Hc as [Hic Hc].
  rewrite !apply_perm_cons. cbn [flat_map]. unfold pick at 1.
  destruct (nth_error_lt mask i Him) as [b ->]. destruct (nth_error_lt col i Hic) as [x ->].
  cbn [opt_list app sel]. rewrite IH by assumption. destruct b; reflexivity.
Qed.

Lemma nth_error_sel_rank {A} (mask : list bool) (col : list A) i :
  nth_error mask i = Some true -> nth_error (sel mask col) (rank mask i) = nth_error col i.
Proof.
  revert col i. induction mask as [|b m IH]; intros col i H.
  - destruct i; discriminate.
  - destruct col as [|x c].
    + cbn [sel]. generalize (rank (b :: m) i). intros [|r]; destruct i; reflexivity.
    + destruct i as [|i]; cbn in H.
      * injection H as ->. reflexivity.
      * cbn [sel rank nth_error]. destruct b; cbn [Nat.add nth_error]; apply IH; exact H.
Qed.

Lemma apply_sub_perm {A} pi (mask : list bool) (col : list A) :
  in_range (length col) pi ->
  apply_perm (sub_perm mask pi) (sel mask col) = flat_map (pick mask col) pi.
Proof.
  induction pi as [|i pi IH]; intro Hc; [reflexivity|].
  apply in_range_cons in Hc. destruct Hc as [Hic Hc]. specialize (IH Hc).
  unfold sub_perm in *. cbn [filter flat_map]. unfold mtrue at 1, pick at 1.
  destruct (nth_error_lt col i Hic) as [x Hx].
  destruct (nth_error mask i) as [[|]|] eqn:E; cbn [map]; try exact IH.
  rewrite apply_perm_cons, IH, (nth_error_sel_rank mask col i E), Hx. reflexivity.
Qed.

Lemma sel_perm {A} pi (mask : list bool) (col : list A) n :
  length mask = n -> length col = n -> in_range n pi ->
  sel (apply_perm pi mask) (apply_perm pi col) = apply_perm (sub_perm mask pi) (sel mask col).
Proof.
  intros Hm Hc Hr.
  assert (H1 : in_range (length mask) pi) by (rewrite Hm; exact Hr).
  assert (H2 : in_range (length col) pi) by (rewrite Hc; exact Hr).
  rewrite sel_apply_perm, apply_sub_perm by assumption. reflexivity.
Qed.

Lemma sel_length {A} (mask : list bool) (col : list A) :
  length mask = length col -> length (sel mask col) = ntrue mask.
Proof.
  revert col. induction mask as [|b m IH]; intros [|x c] H; try discriminate; [reflexivity|].
  cbn. injection H as H. destruct b; cbn; rewrite IH by exact H; reflexivity.
Qed.

Lemma filter_mtrue_shift b m l : filter (mtrue (b :: m)) (map S l) = map S (filter (mtrue m) l).
Proof.
  induction l as [|i l IH]; [reflexivity|]. cbn [map filter]. rewrite IH.
  unfold mtrue. cbn [nth_error]. destruct (nth_error m i) as [[|]|]; reflexivity.
Qed.

Lemma sub_perm_seq mask : sub_perm mask (seq 0 (length mask)) = seq 0 (ntrue mask).
Proof.
  unfold sub_perm. induction mask as [|b m IH]; [reflexivity|].
  cbn [length seq]. rewrite <- seq_shift.
  assert (Hs : map (rank (b :: m)) (map S (filter (mtrue m) (seq 0 (length m))))
               = map (fun r => ((if b then 1 else 0) + r)%nat) (seq 0 (ntrue m))).
  { rewrite <- IH, !map_map. reflexivity. }
  cbn [filter]. rewrite filter_mtrue_shift.
  destruct b.
  - change (mtrue (true :: m) 0) with true. cbv iota. cbn [map]. rewrite Hs.
    change (rank (true :: m) 0) with 0%nat. cbn [ntrue Nat.add seq]. f_equal. apply seq_shift.
  - change (mtrue (false :: m) 0) with false. cbv iota. rewrite Hs. cbn [ntrue Nat.add]. apply map_id.
Qed.

Lemma Permutation_filter_in {A} (p : A -> bool) l l' :
  Permutation l l' -> Permutation (filter p l) (filter p l').
Proof.
  induction 1 as [|x l l' _ IH|x y l|l l' l'' _ IH1 _ IH2]; cbn.
  - constructor.
  - destruct (p x); [constructor|]; exact IH.
  - destruct (p x), (p y); try apply Permutation_refl. apply perm_swap.
  - eapply Permutation_trans; eassumption.
Qed.

Lemma sub_perm_Permutation mask pi :
  Permutation pi (seq 0 (length mask)) -> Permutation (sub_perm mask pi) (seq 0 (ntrue mask)).
Proof.
  intro H. rewrite <- sub_perm_seq. unfold sub_perm. apply Permutation_map, Permutation_filter_in, H.
Qed.

(* ---------- sorted duplicate-free lists are determined by their elements ---------- *)
Lemma ksorted_ext a b : ksorted a -> ksorted b -> (forall k, In k a <-> In k b) -> a = b.
Proof.
  intro Ha. revert b. induction Ha as [|x a Hx Ha IH]; intros b Hb Hab.
  - destruct b as [|y b]; [reflexivity|]. exfalso. apply (proj2 (Hab y)). left. reflexivity.
  - destruct Hb as [|y b Hy Hb]; [exfalso; apply (proj1 (Hab x)); left; reflexivity|].
    assert (Exy : x = y).
    { destruct (proj1 (Hab x) (or_introl eq_refl)) as [E|Hxb]; [auto|].
      destruct (proj2 (Hab y) (or_introl eq_refl)) as [E|Hya]; [auto|].
      pose proof (key_cmp_lt_trans _ _ _ (Hx y Hya) (Hy x Hxb)) as F. rewrite key_cmp_refl in F. discriminate. }
    subst y. f_equal. apply IH; [exact Hb|]. intro k. split; intro Hk.
    + destruct (proj1 (Hab k) (or_intror Hk)) as [E|H]; [|exact H].
      subst k. specialize (Hx x Hk). rewrite key_cmp_refl in Hx. discriminate.
    + destruct (proj2 (Hab k) (or_intror Hk)) as [E|H]; [|exact H].
      subst k. specialize (Hy x Hk). rewrite key_cmp_refl in Hy. discriminate.
Qed.

Lemma zsorted_ext a b : zsorted a -> zsorted b -> (forall k, In k a <-> In k b) -> a = b.
Proof.
  intro Ha. revert b. induction Ha as [|x a Hx Ha IH]; intros b Hb Hab.
  - destruct b as [|y b]; [reflexivity|]. exfalso. apply (proj2 (Hab y)). left. reflexivity.
  - destruct Hb as [|y b Hy Hb]; [exfalso; apply (proj1 (Hab x)); left; reflexivity|].
    assert (Exy : x = y).
    { destruct (proj1 (Hab x) (or_introl eq_refl)) as [E|Hxb]; [auto|].
      destruct (proj2 (Hab y) (or_introl eq_refl)) as [E|Hya]; [auto|].
      specialize (Hx y Hya). specialize (Hy x Hxb). lia. }
    subst y. f_equal. apply IH; [exact Hb|]. intro k. split; intro Hk.
    + destruct (proj1 (Hab k) (or_intror Hk)) as [E|H]; [|exact H]. subst k. specialize (Hx x Hk). lia.
    + destruct (proj2 (Hab k) (or_intror Hk)) as [E|H]; [|exact H]. subst k. specialize (Hy x Hk). lia.
Qed.

Lemma In_zuniq_iff x l : In x (zuniq l) <-> In x l.
Proof.
  split; [|apply In_zuniq].
  induction l as [|y l IH]; cbn; [auto|]. intro H. apply In_zinsert_inv in H. destruct H as [->|H]; auto.
Qed.

Lemma kuniq_Permutation a b : Permutation a b -> kuniq a = kuniq b.
Proof.
  intro H. apply ksorted_ext; try apply ksorted_kuniq. intro k. rewrite !In_kuniq.
  split; apply Permutation_in; [exact H | apply Permutation_sym; exact H].
Qed.

Lemma zuniq_Permutation a b : Permutation a b -> zuniq a = zuniq b.
Proof.
  intro H. apply zsorted_ext; try apply zsorted_zuniq. intro k. rewrite !In_zuniq_iff.
  split; apply Permutation_in; [exact H | apply Permutation_sym; exact H].
Qed.

(* ---------- row keys of permuted columns ---------- *)
Lemma row_keys_length cols n : Forall (fun c : list Z => length c = n) cols -> length (row_keys cols n) = n.
Proof.
  induction 1 as [|c r Hc _ IH]; cbn; [apply repeat_length|].
  rewrite map_length, combine_length, IH, Hc. lia.
Qed.

Lemma apply_perm_repeat {A} (x : A) pi n : in_range n pi -> apply_perm pi (repeat x n) = repeat x (length pi).
Proof.
  induction pi as [|i pi IH]; intro H; [reflexivity|]. apply in_range_cons in H. destruct H as [Hi H].
  rewrite apply_perm_cons, IH by exact H.
  assert (E : nth_error (repeat x n) i = Some x).
  { destruct (nth_error_lt (repeat x n) i) as [y Hy]; [rewrite repeat_length; exact Hi|].
    rewrite Hy. f_equal. apply nth_error_In in Hy. apply repeat_spec in Hy. exact Hy. }
  rewrite E. reflexivity.
Qed.

Lemma row_keys_perm cols n pi :
  Forall (fun c : list Z => length c = n) cols -> in_range n pi -> length pi = n ->
  row_keys (map (apply_perm pi) cols) n = apply_perm pi (row_keys cols n).
Proof.
  intros Hc Hr Hl. induction Hc as [|c r Hlc Hc IH]; cbn [map row_keys].
  - rewrite apply_perm_repeat by exact Hr. rewrite Hl. reflexivity.
  - rewrite IH, apply_perm_map, apply_perm_combine; [reflexivity | rewrite Hlc; exact Hr |].
    rewrite row_keys_length by exact Hc. exact Hr.
Qed.

(* ---------- frames ---------- *)
Section Perm.
  Variable V : Type.
  Variable key_of : V -> Z.
  Variable cell : Type.
  Variable fn : name -> list (list V) -> list (name * list V) -> cell.

  (* the metric callables do not depend on the order of the rows they are shown: jointly permuting all
     their (equally long) argument columns gives the same cell *)
  Definition fn_perm_inv : Prop :=
    forall nm (pos : list (list V)) (kw : list (name * list V)) n pi,
      Forall (fun c => length c = n) pos -> Forall (fun nc => length (snd nc) = n) kw ->
      Permutation pi (seq 0 n) ->
      fn nm (map (apply_perm pi) pos) (perm_cols pi kw) = fn nm pos kw.

  Definition rect (n : nat) (f : frame V) : Prop := Forall (fun nc => length (snd nc) = n) f.

  Lemma get_rect n f nm c : rect n f -> get V nm f = Some c -> length c = n.
  Proof.
    induction 1 as [|[n0 c0] r H0 _ IH]; cbn; [discriminate|].
    destruct (name_eqb nm n0); [intros [= <-]; exact H0 | exact IH].
  Qed.

  Lemma get_all_rect n f names cols :
    rect n f -> get_all V names f = Some cols -> Forall (fun c => length c = n) cols.
  Proof.
    intro Hr. revert cols. induction names as [|nm r IH]; cbn; intros cols H.
    - injection H as <-. constructor.
    - destruct (get V nm f) eqn:E1; [|discriminate]. destruct (get_all V r f) eqn:E2; [|discriminate].
      injection H as <-. constructor; [eapply get_rect; eauto | apply IH; reflexivity].
  Qed.

  Lemma combine_map_r {A B C} (g : B -> C) (a : list A) (b : list B) :
    combine a (map g b) = map (fun p => (fst p, g (snd p))) (combine a b).
  Proof. revert b. induction a as [|x a IH]; intros [|y b]; cbn; try reflexivity. rewrite IH. reflexivity. Qed.

  Lemma Forall_combine_snd {A B} (P : B -> Prop) (a : list A) (b : list B) :
    Forall P b -> Forall (fun p => P (snd p)) (combine a b).
  Proof.
    intro H. revert a. induction H as [|y b Hy _ IH]; intros [|x a]; cbn; constructor; auto.
  Qed.

  Lemma call_perm_group af (f : frame V) n pi mask :
    fn_perm_inv -> rect n f -> Permutation pi (seq 0 n) -> length mask = n ->
    call V cell fn af (sub_frame V (apply_perm pi mask) (map_frame V (apply_perm pi) f))
    = call V cell fn af (sub_frame V mask f).
  Proof.
    intros Hfn Hr Hp Hm. unfold call, sub_frame. rewrite !get_all_map_frame.
    destruct (get_all V (af_pos af) f) as [ps|] eqn:E1; cbn [option_map]; [|reflexivity].
    destruct (get_all V (map snd (af_kw af)) f) as [ks|] eqn:E2; cbn [option_map]; [|reflexivity].
    f_equal.
    pose proof (get_all_rect n f _ _ Hr E1) as Hps. pose proof (get_all_rect n f _ _ Hr E2) as Hks.
    pose proof (perm_in_range pi n Hp) as Hrange.
    assert (Hsel : forall cols, Forall (fun c : list V => length c = n) cols ->
              map (sel (apply_perm pi mask)) (map (apply_perm pi) cols)
              = map (apply_perm (sub_perm mask pi)) (map (sel mask) cols)).
    { intros cols Hc. rewrite !map_map. apply map_ext_in. intros c Hin.
      rewrite Forall_forall in Hc. apply (sel_perm pi mask c n Hm (Hc c Hin) Hrange). }
    rewrite (Hsel ps Hps), (Hsel ks Hks), combine_map_r.
    apply (Hfn (af_name af) (map (sel mask) ps) (combine (map fst (af_kw af)) (map (sel mask) ks))
               (ntrue mask) (sub_perm mask pi)).
    - rewrite Forall_forall in *. intros c Hc. apply in_map_iff in Hc. destruct Hc as [c0 [<- Hc0]].
      apply sel_length. rewrite Hm. symmetry. apply Hps. exact Hc0.
    - apply (Forall_combine_snd (fun c : list V => length c = ntrue mask)).
      rewrite Forall_forall in *. intros c Hc. apply in_map_iff in Hc.
      destruct Hc as [c0 [<- Hc0]]. apply sel_length. rewrite Hm. symmetry. apply Hks. exact Hc0.
    - apply sub_perm_Permutation. rewrite Hm. exact Hp.
  Qed.

  Lemma call_perm_all af (f : frame V) n pi :
    fn_perm_inv -> rect n f -> Permutation pi (seq 0 n) ->
    call V cell fn af (map_frame V (apply_perm pi) f) = call V cell fn af f.
  Proof.
    intros Hfn Hr Hp. unfold call. rewrite !get_all_map_frame.
    destruct (get_all V (af_pos af) f) as [ps|] eqn:E1; cbn [option_map]; [|reflexivity].
    destruct (get_all V (map snd (af_kw af)) f) as [ks|] eqn:E2; cbn [option_map]; [|reflexivity].
    f_equal. rewrite combine_map_r.
    apply (Hfn (af_name af) ps (combine (map fst (af_kw af)) ks) n pi).
    - eapply get_all_rect; eauto.
    - apply (Forall_combine_snd (fun c : list V => length c = n)). eapply get_all_rect; eauto.
    - exact Hp.
  Qed.

  Lemma nrows_get_all (f : frame V) n gs cols :
    rect n f -> gs <> [] -> get_all V gs f = Some cols -> nrows V f = n.
  Proof.
    intros Hr Hgs Hg. destruct f as [|[n0 c0] r].
    - destruct gs as [|g gs']; [contradiction|]. cbn in Hg. discriminate.
    - inversion Hr as [|? ? H0 _]. exact H0.
  Qed.

  Lemma nrows_map_frame (f : frame V) n pi :
    rect n f -> f <> [] -> in_range n pi -> nrows V (map_frame V (apply_perm pi) f) = length pi.
  Proof.
    intros Hr Hne Hrange. destruct f as [|[n0 c0] r]; [contradiction|].
    inversion Hr as [|? ? H0 _]. cbn in *. apply apply_perm_length. rewrite H0. exact Hrange.
  Qed.

  (* _apply_functions on a frame whose rows were jointly permuted *)
  Theorem apply_functions_perm (f : frame V) afs gs n pi :
    fn_perm_inv -> rect n f -> Permutation pi (seq 0 n) ->
    apply_functions V key_of cell fn (map_frame V (apply_perm pi) f) afs gs
    = apply_functions V key_of cell fn f afs gs.
  Proof.
    intros Hfn Hr Hp. pose proof (perm_in_range pi n Hp) as Hrange. pose proof (perm_length pi n Hp) as Hlen.
    unfold apply_functions. destruct gs as [|g0 gs'].
    - do 4 f_equal. unfold apply_to_df. apply map_ext. intro af. f_equal. apply (call_perm_all af f n pi Hfn Hr Hp).
    - set (gs := g0 :: gs') in *. rewrite get_all_map_frame.
      destruct (get_all V gs f) as [cols|] eqn:Hg; cbn [option_map]; [|reflexivity].
      assert (Hgs : gs <> []) by discriminate.
      assert (Hne : f <> []). { intro E. subst f. cbn in Hg. discriminate. }
      rewrite (nrows_get_all f n gs cols Hr Hgs Hg), (nrows_map_frame f n pi Hr Hne Hrange), Hlen.
      pose proof (get_all_rect n f gs cols Hr Hg) as Hcols.
      set (kcols := map (map key_of) cols).
      assert (Hk : map (map key_of) (map (apply_perm pi) cols) = map (apply_perm pi) kcols).
      { unfold kcols. rewrite !map_map. apply map_ext. intro c. symmetry. apply apply_perm_map. }
      assert (Hkl : Forall (fun c : list Z => length c = n) kcols).
      { unfold kcols. rewrite Forall_forall in *. intros c Hc. apply in_map_iff in Hc.
        destruct Hc as [c0 [<- Hc0]]. rewrite map_length. apply Hcols. exact Hc0. }
      rewrite Hk, (row_keys_perm kcols n pi Hkl Hrange Hlen).
      set (keys := row_keys kcols n).
      assert (Hkeys : length keys = n) by (apply row_keys_length; exact Hkl).
      assert (Hpk : Permutation (apply_perm pi keys) keys).
      { apply apply_perm_Permutation. rewrite Hkeys. exact Hp. }
      rewrite (kuniq_Permutation _ _ Hpk).
      assert (Htemp : map (fun k => (k, apply_to_df V cell fn afs
                                          (sub_frame V (mask_of k (apply_perm pi keys)) (map_frame V (apply_perm pi) f))))
                          (kuniq keys)
                      = map (fun k => (k, apply_to_df V cell fn afs (sub_frame V (mask_of k keys) f))) (kuniq keys)).
      { apply map_ext. intro k. f_equal. unfold apply_to_df. apply map_ext. intro af. f_equal.
        unfold mask_of. rewrite <- apply_perm_map.
        apply (call_perm_group af f n pi (map (key_eqb k) keys) Hfn Hr Hp). rewrite map_length. exact Hkeys. }
      rewrite Htemp.
      assert (Hz : map zuniq (map (apply_perm pi) kcols) = map zuniq kcols).
      { rewrite map_map. apply map_ext_in. intros c Hc. apply zuniq_Permutation, apply_perm_Permutation.
        rewrite Forall_forall in Hkl. rewrite (Hkl c Hc). exact Hp. }
      rewrite Hz. reflexivity.
  Qed.

  (* ----- the frame MetricFrame.__init__ builds from permuted arguments ----- *)
  Lemma set_col_map_frame s nm c (f : frame V) :
    set_col V nm (s c) (map_frame V s f) = map_frame V s (set_col V nm c f).
  Proof.
    unfold map_frame. induction f as [|[n0 c0] r IH]; cbn; [reflexivity|].
    destruct (name_eqb nm n0); cbn; [reflexivity | rewrite IH; reflexivity].
  Qed.

  Lemma assign_all_map_frame s l (f : frame V) :
    assign_all V (map (fun nc => (fst nc, s (snd nc))) l) (map_frame V s f) = map_frame V s (assign_all V l f).
  Proof.
    revert f. induction l as [|[nm c] l IH]; intro f; [reflexivity|].
    unfold assign_all in *. cbn [map fold_left fst snd]. rewrite set_col_map_frame. apply IH.
  Qed.

  Lemma param_assigns_perm pi (ms : list (metric_spec V)) :
    param_assigns V (map (perm_spec pi) ms) = perm_cols pi (param_assigns V ms).
  Proof.
    unfold param_assigns, perm_cols. induction ms as [|m ms IH]; [reflexivity|].
    cbn [map flat_map]. rewrite map_app, IH. f_equal. cbn [perm_spec m_params m_prefix].
    unfold perm_cols. rewrite !map_map. reflexivity.
  Qed.

  Lemma all_assigns_perm pi yt yp ms sfs cfs :
    all_assigns V (apply_perm pi yt) (apply_perm pi yp) (map (perm_spec pi) ms) (perm_cols pi sfs) (perm_cols pi cfs)
    = perm_cols pi (all_assigns V yt yp ms sfs cfs).
  Proof.
    unfold all_assigns. rewrite param_assigns_perm. unfold perm_cols. cbn [map fst snd]. rewrite !map_app. reflexivity.
  Qed.

  Lemma build_frame_perm pi yt yp ms sfs cfs :
    build_frame V (apply_perm pi yt) (apply_perm pi yp) (map (perm_spec pi) ms) (perm_cols pi sfs) (perm_cols pi cfs)
    = map_frame V (apply_perm pi) (build_frame V yt yp ms sfs cfs).
  Proof.
    unfold build_frame. rewrite all_assigns_perm. unfold perm_cols.
    rewrite <- assign_all_map_frame. reflexivity.
  Qed.

  Lemma annot_of_perm pi (ms : list (metric_spec V)) :
    map (annot_of V) (map (perm_spec pi) ms) = map (annot_of V) ms.
  Proof.
    rewrite map_map. apply map_ext. intro m. unfold annot_of, perm_spec, perm_cols. cbn. f_equal.
    rewrite map_map. reflexivity.
  Qed.

  Lemma perm_cols_names pi (l : list (name * list V)) : map fst (perm_cols pi l) = map fst l.
  Proof. unfold perm_cols. rewrite map_map. reflexivity. Qed.

  Lemma set_col_rect n nm c (f : frame V) : length c = n -> rect n f -> rect n (set_col V nm c f).
  Proof.
    intros Hc. induction 1 as [|[n0 c0] r H0 Hr IH]; cbn.
    - constructor; [exact Hc | constructor].
    - destruct (name_eqb nm n0); constructor; auto.
  Qed.

  Lemma assign_all_rect n l (f : frame V) :
    Forall (fun nc => length (snd nc) = n) l -> rect n f -> rect n (assign_all V l f).
  Proof.
    intro Hl. revert f. induction Hl as [|[nm c] l Hc _ IH]; intros f Hf; [exact Hf|].
    unfold assign_all in *. cbn [fold_left fst snd]. apply IH. apply set_col_rect; assumption.
  Qed.

  Definition lengths_ok (n : nat) (yp : list V) (ms : list (metric_spec V)) (sfs cfs : list (name * list V)) : Prop :=
    length yp = n
    /\ Forall (fun m => Forall (fun pc => length (snd pc) = n) (m_params m)) ms
    /\ Forall (fun nc => length (snd nc) = n) sfs
    /\ Forall (fun nc => length (snd nc) = n) cfs.

  Lemma build_frame_rect yt yp ms sfs cfs :
    lengths_ok (length yt) yp ms sfs cfs -> rect (length yt) (build_frame V yt yp ms sfs cfs).
  Proof.
    intros [Hyp [Hms [Hs Hc]]]. unfold build_frame. apply assign_all_rect; [|constructor].
    unfold all_assigns. constructor; [reflexivity|]. constructor; [exact Hyp|].
    apply Forall_app. split; [|apply Forall_app; split; assumption].
    unfold param_assigns. rewrite Forall_forall in *. intros [nm c] Hin.
    apply in_flat_map in Hin. destruct Hin as [m [Hm Hin]]. apply in_map_iff in Hin.
    destruct Hin as [pc [[= <- <-] Hpc]]. specialize (Hms m Hm). rewrite Forall_forall in Hms.
    cbn [snd]. apply (Hms pc). exact Hpc.
  Qed.

  (* C12, second half, on the real model: a joint permutation of y_true, y_pred, every sample parameter and
     every feature column changes neither by_group nor overall (same index, same order, same cells) *)
  Theorem by_group_perm yt yp ms sfs cfs pi :
    fn_perm_inv -> lengths_ok (length yt) yp ms sfs cfs -> Permutation pi (seq 0 (length yt)) ->
    mf_by_group V key_of cell fn (apply_perm pi yt) (apply_perm pi yp) (map (perm_spec pi) ms)
                (perm_cols pi sfs) (perm_cols pi cfs)
    = mf_by_group V key_of cell fn yt yp ms sfs cfs
    /\ mf_overall V key_of cell fn (apply_perm pi yt) (apply_perm pi yp) (map (perm_spec pi) ms)
                  (perm_cols pi sfs) (perm_cols pi cfs)
       = mf_overall V key_of cell fn yt yp ms sfs cfs.
  Proof.
    intros Hfn Hl Hp. unfold mf_by_group, mf_overall.
    rewrite build_frame_perm, annot_of_perm, !perm_cols_names.
    split; apply (apply_functions_perm _ _ _ (length yt) pi Hfn (build_frame_rect yt yp ms sfs cfs Hl) Hp).
  Qed.
End Perm.

(* ---------- renaming the codes of one grouping column ---------- *)
Definition mono (g : Z -> Z) : Prop := forall a b, a < b -> g a < g b.
Definition inj (g : Z -> Z) : Prop := forall a b, g a = g b -> a = b.

Lemma mono_inj g : mono g -> inj g.
Proof.
  intros Hg a b E. destruct (Z.lt_trichotomy a b) as [H|[H|H]]; [|exact H|]; apply Hg in H; lia.
Qed.

Lemma mono_compare g : mono g -> forall a b, Z.compare (g a) (g b) = Z.compare a b.
Proof.
  intros Hg a b. destruct (Z.compare_spec a b) as [->|H|H].
  - apply Z.compare_refl.
  - apply Z.compare_lt_iff, Hg, H.
  - apply Z.compare_gt_iff, Hg, H.
Qed.

Lemma upd_key_cmp j g a b : mono g -> key_cmp (upd_key j g a) (upd_key j g b) = key_cmp a b.
Proof.
  intro Hg. revert a b. induction j as [|j IH]; intros [|x a] [|y b]; cbn; try reflexivity.
  - rewrite mono_compare by exact Hg. reflexivity.
  - rewrite IH. reflexivity.
Qed.

Lemma upd_key_inj j g a b : inj g -> upd_key j g a = upd_key j g b -> a = b.
Proof.
  intro Hg. revert a b. induction j as [|j IH]; intros [|x a] [|y b]; cbn; try congruence.
  - intros [= H ->]. apply Hg in H. subst. reflexivity.
  - intros [= -> H]. apply IH in H. subst. reflexivity.
Qed.

Lemma upd_key_eqb j g a b : inj g -> key_eqb (upd_key j g a) (upd_key j g b) = key_eqb a b.
Proof.
  intro Hg. destruct (key_eqb a b) eqn:E.
  - apply key_eqb_eq in E. subst. apply key_eqb_refl.
  - destruct (key_eqb (upd_key j g a) (upd_key j g b)) eqn:E2; [|reflexivity].
    apply key_eqb_eq, (upd_key_inj j g a b Hg) in E2. subst. rewrite key_eqb_refl in E. discriminate.
Qed.

Lemma kinsert_map h x l :
  (forall a b, key_cmp (h a) (h b) = key_cmp a b) -> kinsert (h x) (map h l) = map h (kinsert x l).
Proof.
  intro Hh. induction l as [|y l IH]; cbn; [reflexivity|].
  rewrite Hh. destruct (key_cmp x y); cbn; [reflexivity | reflexivity | rewrite IH; reflexivity].
Qed.

Lemma kuniq_map h l :
  (forall a b, key_cmp (h a) (h b) = key_cmp a b) -> kuniq (map h l) = map h (kuniq l).
Proof.
  intro Hh. induction l as [|y l IH]; cbn; [reflexivity|].
  unfold kuniq in *. rewrite IH. apply kinsert_map. exact Hh.
Qed.

Lemma zinsert_map g x l : mono g -> zinsert (g x) (map g l) = map g (zinsert x l).
Proof.
  intro Hg. induction l as [|y l IH]; cbn; [reflexivity|].
  rewrite !Z.eqb_compare. unfold Z.ltb. rewrite (mono_compare g Hg).
  destruct (Z.compare x y); cbn; [reflexivity | reflexivity | rewrite IH; reflexivity].
Qed.

Lemma zuniq_map g l : mono g -> zuniq (map g l) = map g (zuniq l).
Proof.
  intro Hg. induction l as [|y l IH]; cbn; [reflexivity|].
  unfold zuniq in *. rewrite IH. apply zinsert_map. exact Hg.
Qed.

Lemma combine_map_l {A B C} (g : A -> C) (a : list A) (b : list B) :
  combine (map g a) b = map (fun p => (g (fst p), snd p)) (combine a b).
Proof. revert b. induction a as [|x a IH]; intros [|y b]; cbn; try reflexivity. rewrite IH. reflexivity. Qed.

Lemma row_keys_upd (A : list (list Z)) c B g n :
  row_keys (A ++ map g c :: B) n = map (upd_key (length A) g) (row_keys (A ++ c :: B) n).
Proof.
  induction A as [|a A IH]; cbn [app row_keys length].
  - rewrite combine_map_l, !map_map. apply map_ext. intros [x k]. reflexivity.
  - rewrite IH, combine_map_r, !map_map. apply map_ext. intros [x k]. reflexivity.
Qed.

Lemma product_upd (A : list (list Z)) u B g :
  product (A ++ map g u :: B) = map (upd_key (length A) g) (product (A ++ u :: B)).
Proof.
  induction A as [|a A IH]; cbn [app product length].
  - induction u as [|x u IHu]; cbn; [reflexivity|]. rewrite map_app, IHu, map_map. reflexivity.
  - rewrite IH. induction a as [|x a IHa]; cbn; [reflexivity|]. rewrite map_app, IHa, !map_map. reflexivity.
Qed.

Lemma table_ext {W} (t t' : list (list Z * W)) :
  NoDup (map fst t) -> map fst t = map fst t' ->
  (forall k, In k (map fst t) -> assoc k t = assoc k t') -> t = t'.
Proof.
  revert t'. induction t as [|[k v] t IH]; intros [|[k' v'] t'] Hnd Hk Ha; try discriminate; [reflexivity|].
  cbn in Hk. injection Hk as <- Hk. inversion Hnd as [|? ? Hn Hnd']; subst.
  pose proof (Ha k (or_introl eq_refl)) as H0. cbn in H0. rewrite key_eqb_refl in H0. injection H0 as <-.
  f_equal. apply IH; [exact Hnd' | exact Hk|]. intros k0 Hk0. specialize (Ha k0 (or_intror Hk0)). cbn in Ha.
  destruct (key_eqb k0 k) eqn:E; [apply key_eqb_eq in E; subst; contradiction | exact Ha].
Qed.

Lemma assoc_rename {W} j g (t : list (list Z * W)) k :
  inj g -> assoc (upd_key j g k) (rename_table j g t) = assoc k t.
Proof.
  intro Hg. induction t as [|[k0 v] t IH]; cbn; [reflexivity|].
  rewrite (upd_key_eqb j g k k0 Hg). destruct (key_eqb k k0); [reflexivity | exact IH].
Qed.

Lemma rename_table_keys {W} j g (t : list (list Z * W)) :
  map fst (rename_table j g t) = map (upd_key j g) (map fst t).
Proof. unfold rename_table. rewrite !map_map. reflexivity. Qed.

Section Relabel.
  Variable V : Type.
  Variable key_of : V -> Z.
  Variable cell : Type.
  Variable fn : name -> list (list V) -> list (name * list V) -> cell.

  Notation F := (fun nc : name * list V => map key_of (snd nc)).

  Lemma names_renamed yt yp ms sfs1 nm col col' sfs2 cfs :
    map fst (all_assigns V yt yp ms (sfs1 ++ (nm, col') :: sfs2) cfs)
    = map fst (all_assigns V yt yp ms (sfs1 ++ (nm, col) :: sfs2) cfs).
  Proof. unfold all_assigns. cbn [map fst]. rewrite !map_app. cbn [map fst]. reflexivity. Qed.

  Lemma kcols_renamed (r : V -> V) g cfs sfs1 nm col sfs2 :
    (forall v, In v col -> key_of (r v) = g (key_of v)) ->
    map F (cfs ++ sfs1 ++ (nm, map r col) :: sfs2)
    = map F (cfs ++ sfs1) ++ map g (map key_of col) :: map F sfs2
    /\ map F (cfs ++ sfs1 ++ (nm, col) :: sfs2) = map F (cfs ++ sfs1) ++ map key_of col :: map F sfs2.
  Proof.
    intro Hr. rewrite !app_assoc, !map_app. cbn [map snd]. split; [|reflexivity].
    do 2 f_equal. rewrite !map_map. apply map_ext_in. exact Hr.
  Qed.

  (* the overall table does not look at the sensitive features at all *)
  Lemma overall_indep yt yp ms sfs sfs' cfs :
    NoDup (map fst (all_assigns V yt yp ms sfs cfs)) ->
    map fst (all_assigns V yt yp ms sfs' cfs) = map fst (all_assigns V yt yp ms sfs cfs) ->
    mf_overall V key_of cell fn yt yp ms sfs' cfs = mf_overall V key_of cell fn yt yp ms sfs cfs.
  Proof.
    intros Hnd Hn. assert (Hnd' : NoDup (map fst (all_assigns V yt yp ms sfs' cfs))) by (rewrite Hn; exact Hnd).
    destruct cfs as [|c0 cfs'].
    - rewrite !overall_cell_nocontrol by assumption. reflexivity.
    - assert (Hne : c0 :: cfs' <> []) by discriminate.
      destruct (overall_cell_control V key_of cell fn yt yp ms sfs (c0 :: cfs') Hnd Hne) as [t [H1 [H2 [H3 [_ H5]]]]].
      destruct (overall_cell_control V key_of cell fn yt yp ms sfs' (c0 :: cfs') Hnd' Hne) as [t' [H1' [H2' [H3' [_ H5']]]]].
      rewrite H1, H1'. f_equal. apply table_ext; [exact H3' | rewrite H2, H2'; reflexivity |].
      intros k Hk. rewrite (H5' k Hk). rewrite H2' in Hk. rewrite <- H2 in Hk. rewrite (H5 k Hk). reflexivity.
  Qed.

  (* C12, third part, on the real model: renaming the codes of ONE sensitive feature by a strictly monotone
     map renames exactly that component of every index key; order, cells and overall are unchanged *)
  Theorem by_group_relabel yt yp ms sfs1 nm col sfs2 cfs (r : V -> V) (g : Z -> Z) tbl :
    NoDup (map fst (all_assigns V yt yp ms (sfs1 ++ (nm, col) :: sfs2) cfs)) ->
    mono g -> (forall v, In v col -> key_of (r v) = g (key_of v)) ->
    mf_by_group V key_of cell fn yt yp ms (sfs1 ++ (nm, col) :: sfs2) cfs = Some tbl ->
    mf_by_group V key_of cell fn yt yp ms (sfs1 ++ (nm, map r col) :: sfs2) cfs
    = Some (rename_table (length cfs + length sfs1) g tbl)
    /\ mf_overall V key_of cell fn yt yp ms (sfs1 ++ (nm, map r col) :: sfs2) cfs
       = mf_overall V key_of cell fn yt yp ms (sfs1 ++ (nm, col) :: sfs2) cfs.
  Proof.
    intros Hnd Hg Hr Htbl. pose proof (mono_inj g Hg) as Hi.
    pose proof (names_renamed yt yp ms sfs1 nm col (map r col) sfs2 cfs) as Hn.
    assert (Hnd' : NoDup (map fst (all_assigns V yt yp ms (sfs1 ++ (nm, map r col) :: sfs2) cfs)))
      by (rewrite Hn; exact Hnd).
    split; [|apply overall_indep; assumption].
    set (sfs := sfs1 ++ (nm, col) :: sfs2) in *. set (sfs' := sfs1 ++ (nm, map r col) :: sfs2) in *.
    assert (Hne : sfs <> []) by (unfold sfs; destruct sfs1; discriminate).
    assert (Hne' : sfs' <> []) by (unfold sfs'; destruct sfs1; discriminate).
    destruct (by_group_index V key_of cell fn yt yp ms sfs cfs Hnd Hne) as [t [H1 [H2 [H3 _]]]].
    destruct (by_group_index V key_of cell fn yt yp ms sfs' cfs Hnd' Hne') as [t' [H1' [H2' [H3' _]]]].
    rewrite Htbl in H1. injection H1 as <-.
    pose proof (by_group_cell V key_of cell fn yt yp ms sfs cfs tbl Hnd Hne Htbl) as H5.
    pose proof (by_group_cell V key_of cell fn yt yp ms sfs' cfs t' Hnd' Hne' H1') as H5'.
    cbv zeta in H5, H5'. unfold feature_keys in *.
    destruct (kcols_renamed r g cfs sfs1 nm col sfs2 Hr) as [Hk' Hk]. fold sfs in Hk. fold sfs' in Hk'.
    assert (Hlen : length (cfs ++ sfs') = length (cfs ++ sfs)).
    { unfold sfs, sfs'. rewrite !app_length. cbn [length]. reflexivity. }
    set (j := (length cfs + length sfs1)%nat).
    assert (Hj : length (map F (cfs ++ sfs1)) = j) by (rewrite map_length, app_length; reflexivity).
    set (KA := map F (cfs ++ sfs1)) in *.
    rewrite Hk', row_keys_upd, Hj, <- Hk in H5'.
    rewrite Hlen, Hk', row_keys_upd, Hj, <- Hk in H2'.
    set (keys := row_keys (map F (cfs ++ sfs)) (length yt)) in *.
    assert (Hidx : map fst t' = map (upd_key j g) (map fst tbl)).
    { rewrite H2', H2. destruct (1 <? length (cfs ++ sfs))%nat.
      - rewrite Hk, !map_app. cbn [map]. rewrite (zuniq_map g _ Hg), product_upd, map_length, Hj. reflexivity.
      - apply kuniq_map. intros a b. apply upd_key_cmp. exact Hg. }
    rewrite H1'. f_equal. apply table_ext; [exact H3' | rewrite rename_table_keys; exact Hidx |].
    intros k' Hk'in. pose proof Hk'in as Hin. rewrite Hidx in Hin. apply in_map_iff in Hin.
    destruct Hin as [k [<- Hkin]]. rewrite (H5' _ Hk'in), (assoc_rename j g tbl k Hi), (H5 k Hkin).
    assert (Hm : forall l, map (key_eqb (upd_key j g k)) (map (upd_key j g) l) = map (key_eqb k) l).
    { intro l. rewrite map_map. apply map_ext. intro a. apply upd_key_eqb. exact Hi. }
    assert (Hkm : forall l, kmem (upd_key j g k) (map (upd_key j g) l) = kmem k l).
    { induction l as [|a l IHl]; cbn; [reflexivity|]. rewrite IHl, (upd_key_eqb j g k a Hi). reflexivity. }
    unfold mask_of. rewrite Hm, Hkm. reflexivity.
  Qed.
End Relabel.

(* ---------- any injective renaming: the same table up to the order of the index ---------- *)
Lemma In_product_upd (A : list (list Z)) L L' B g k' :
  (forall x, In x L' <-> exists y, In y L /\ x = g y) ->
  (In k' (product (A ++ L' :: B)) <-> exists k, In k (product (A ++ L :: B)) /\ k' = upd_key (length A) g k).
Proof.
  intro HL. revert k'. induction A as [|a A IH]; intro k'; cbn [app product length].
  - rewrite in_flat_map. split.
    + intros [x [Hx Hk]]. apply in_map_iff in Hk. destruct Hk as [p [<- Hp]].
      apply HL in Hx. destruct Hx as [y [Hy ->]]. exists (y :: p). split; [|reflexivity].
      apply in_flat_map. exists y. split; [exact Hy | apply in_map; exact Hp].
    + intros [k [Hk ->]]. apply in_flat_map in Hk. destruct Hk as [y [Hy Hk]]. apply in_map_iff in Hk.
      destruct Hk as [p [<- Hp]]. exists (g y). split; [apply HL; exists y; auto | cbn; apply in_map; exact Hp].
  - rewrite in_flat_map. split.
    + intros [x [Hx Hk]]. apply in_map_iff in Hk. destruct Hk as [p' [<- Hp']]. apply IH in Hp'.
      destruct Hp' as [p [Hp ->]]. exists (x :: p). split; [|reflexivity].
      apply in_flat_map. exists x. split; [exact Hx | apply in_map; exact Hp].
    + intros [k [Hk ->]]. apply in_flat_map in Hk. destruct Hk as [x [Hx Hk]]. apply in_map_iff in Hk.
      destruct Hk as [p [<- Hp]]. exists x. split; [exact Hx|]. cbn. apply in_map. apply IH. exists p. auto.
Qed.

Lemma In_assoc {W} (t : list (list Z * W)) k v : NoDup (map fst t) -> (In (k, v) t <-> assoc k t = Some v).
Proof.
  induction t as [|[k0 v0] t IH]; cbn; intro Hnd.
  - split; [contradiction | discriminate].
  - inversion Hnd as [|? ? Hn Hnd']; subst. destruct (key_eqb k k0) eqn:E.
    + apply key_eqb_eq in E. subst k0. split.
      * intros [[= ->]|H]; [reflexivity|]. exfalso. apply Hn. apply in_map_iff. exists (k, v). auto.
      * intros [= ->]. left. reflexivity.
    + rewrite <- (IH Hnd'). split; [|auto].
      intros [[= -> ->]|H]; [rewrite key_eqb_refl in E; discriminate | exact H].
Qed.

Lemma assoc_Some_In {W} (t : list (list Z * W)) k v : assoc k t = Some v -> In k (map fst t).
Proof.
  induction t as [|[k0 v0] t IH]; cbn; [discriminate|].
  destruct (key_eqb k k0) eqn:E; [apply key_eqb_eq in E; auto | auto].
Qed.

Section RelabelInj.
  Variable V : Type.
  Variable key_of : V -> Z.
  Variable cell : Type.
  Variable fn : name -> list (list V) -> list (name * list V) -> cell.

  Notation F := (fun nc : name * list V => map key_of (snd nc)).

  Theorem by_group_relabel_inj yt yp ms sfs1 nm col sfs2 cfs (r : V -> V) (g : Z -> Z) tbl :
    NoDup (map fst (all_assigns V yt yp ms (sfs1 ++ (nm, col) :: sfs2) cfs)) ->
    inj g -> (forall v, In v col -> key_of (r v) = g (key_of v)) ->
    mf_by_group V key_of cell fn yt yp ms (sfs1 ++ (nm, col) :: sfs2) cfs = Some tbl ->
    exists tbl',
      mf_by_group V key_of cell fn yt yp ms (sfs1 ++ (nm, map r col) :: sfs2) cfs = Some tbl'
      /\ Permutation tbl' (rename_table (length cfs + length sfs1) g tbl)
      /\ (forall k, In k (map fst tbl) ->
            assoc (upd_key (length cfs + length sfs1) g k) tbl' = assoc k tbl)
      /\ mf_overall V key_of cell fn yt yp ms (sfs1 ++ (nm, map r col) :: sfs2) cfs
         = mf_overall V key_of cell fn yt yp ms (sfs1 ++ (nm, col) :: sfs2) cfs.
  Proof.
    intros Hnd Hi Hr Htbl.
    pose proof (names_renamed V yt yp ms sfs1 nm col (map r col) sfs2 cfs) as Hn.
    assert (Hnd' : NoDup (map fst (all_assigns V yt yp ms (sfs1 ++ (nm, map r col) :: sfs2) cfs)))
      by (rewrite Hn; exact Hnd).
    pose proof (overall_indep V key_of cell fn yt yp ms _ _ cfs Hnd Hn) as Hov.
    set (sfs := sfs1 ++ (nm, col) :: sfs2) in *. set (sfs' := sfs1 ++ (nm, map r col) :: sfs2) in *.
    assert (Hne : sfs <> []) by (unfold sfs; destruct sfs1; discriminate).
    assert (Hne' : sfs' <> []) by (unfold sfs'; destruct sfs1; discriminate).
    destruct (by_group_index V key_of cell fn yt yp ms sfs cfs Hnd Hne) as [t [H1 [H2 [H3 _]]]].
    destruct (by_group_index V key_of cell fn yt yp ms sfs' cfs Hnd' Hne') as [t' [H1' [H2' [H3' _]]]].
    rewrite Htbl in H1. injection H1 as <-.
    pose proof (by_group_cell V key_of cell fn yt yp ms sfs cfs tbl Hnd Hne Htbl) as H5.
    pose proof (by_group_cell V key_of cell fn yt yp ms sfs' cfs t' Hnd' Hne' H1') as H5'.
    cbv zeta in H5, H5'. unfold feature_keys in *.
    destruct (kcols_renamed V key_of r g cfs sfs1 nm col sfs2 Hr) as [Hk' Hk]. fold sfs in Hk. fold sfs' in Hk'.
    assert (Hlen : length (cfs ++ sfs') = length (cfs ++ sfs)).
    { unfold sfs, sfs'. rewrite !app_length. cbn [length]. reflexivity. }
    set (j := (length cfs + length sfs1)%nat).
    assert (Hj : length (map F (cfs ++ sfs1)) = j) by (rewrite map_length, app_length; reflexivity).
    set (KA := map F (cfs ++ sfs1)) in *.
    rewrite Hk', row_keys_upd, Hj, <- Hk in H5'.
    rewrite Hlen, Hk', row_keys_upd, Hj, <- Hk in H2'.
    set (keys := row_keys (map F (cfs ++ sfs)) (length yt)) in *.
    assert (Hidx : forall k', In k' (map fst t') <-> exists k, In k (map fst tbl) /\ k' = upd_key j g k).
    { intro k'. rewrite H2', H2. destruct (1 <? length (cfs ++ sfs))%nat.
      - rewrite Hk, !map_app. cbn [map]. rewrite <- Hj, <- (map_length zuniq KA). apply In_product_upd.
        intro x. rewrite In_zuniq_iff, in_map_iff. split; intros [y [A B]]; exists y.
        + rewrite In_zuniq_iff. auto.
        + rewrite In_zuniq_iff in A. auto.
      - rewrite In_kuniq, in_map_iff. split; intros [k [A B]]; exists k; [rewrite In_kuniq | rewrite In_kuniq in A]; auto. }
    assert (Hcell : forall k, In k (map fst tbl) -> assoc (upd_key j g k) t' = assoc k tbl).
    { intros k Hkin. assert (Hk'in : In (upd_key j g k) (map fst t')) by (apply Hidx; exists k; auto).
      rewrite (H5' _ Hk'in), (H5 k Hkin).
      assert (Hm : forall l, map (key_eqb (upd_key j g k)) (map (upd_key j g) l) = map (key_eqb k) l).
      { intro l. rewrite map_map. apply map_ext. intro a. apply upd_key_eqb. exact Hi. }
      assert (Hkm : forall l, kmem (upd_key j g k) (map (upd_key j g) l) = kmem k l).
      { induction l as [|a l IHl]; cbn; [reflexivity|]. rewrite IHl, (upd_key_eqb j g k a Hi). reflexivity. }
      unfold mask_of. rewrite Hm, Hkm. reflexivity. }
    exists t'. split; [exact H1'|]. split; [|split; [exact Hcell | exact Hov]].
    assert (Hnr : NoDup (map fst (rename_table j g tbl))).
    { rewrite rename_table_keys. apply Injective_map_NoDup; [|exact H3]. intros a b. apply upd_key_inj. exact Hi. }
    apply NoDup_Permutation; [eapply NoDup_map_inv; exact H3' | eapply NoDup_map_inv; exact Hnr |].
    intros [k' v]. rewrite (In_assoc t' k' v H3'), (In_assoc _ k' v Hnr). split; intro H.
    - pose proof (assoc_Some_In _ _ _ H) as Hin. apply Hidx in Hin. destruct Hin as [k [Hkin ->]].
      rewrite (assoc_rename j g tbl k Hi), <- (Hcell k Hkin). exact H.
    - pose proof (assoc_Some_In _ _ _ H) as Hin. rewrite rename_table_keys in Hin. apply in_map_iff in Hin.
      destruct Hin as [k [<- Hkin]]. rewrite (assoc_rename j g tbl k Hi) in H. rewrite (Hcell k Hkin). exact H.
  Qed.
End RelabelInj.

(* ---------- the hypothesis fn_perm_inv is satisfiable by a metric that needs its rows PAIRED ----------
   (sum_i w_i * yp_i, sum_i w_i): numerator and denominator of a weighted selection rate / mean prediction;
   invariant under a JOINT permutation of y_pred and the weights, not under separate ones *)
Definition zsum (l : list Z) : Z := fold_right Z.add 0 l.

Definition wsel_fn (_ : name) (pos : list (list Z)) (kw : list (name * list Z)) : Z * Z :=
  match pos, kw with
  | _ :: yp :: _, (_, w) :: _ => (zsum (map (fun p => fst p * snd p) (combine w yp)), zsum w)
  | _ :: yp :: _, [] => (zsum yp, Z.of_nat (length yp))
  | _, _ => (0, 0)
  end.

Lemma zsum_Permutation a b : Permutation a b -> zsum a = zsum b.
Proof. unfold zsum. induction 1; cbn in *; lia. Qed.

Lemma zsum_apply_perm pi l n : length l = n -> Permutation pi (seq 0 n) -> zsum (apply_perm pi l) = zsum l.
Proof. intros Hl Hp. apply zsum_Permutation, apply_perm_Permutation. rewrite Hl. exact Hp. Qed.

Lemma wsel_fn_perm_inv : fn_perm_inv Z (Z * Z) wsel_fn.
Proof.
  intros nm pos kw n pi Hpos Hkw Hp. pose proof (perm_in_range pi n Hp) as Hrange.
  destruct pos as [|yt [|yp pos]]; [reflexivity | reflexivity |].
  inversion Hpos as [|? ? _ Hpos']; subst. inversion Hpos' as [|? ? Hyp _]; subst.
  destruct kw as [|[k w] kw]; cbn [map perm_cols wsel_fn fst snd].
  - rewrite (zsum_apply_perm pi yp (length yp) eq_refl Hp), apply_perm_length, (perm_length pi _ Hp) by exact Hrange.
    reflexivity.
  - inversion Hkw as [|? ? Hw _]; subst. cbn [snd] in Hw.
    rewrite <- apply_perm_combine, <- apply_perm_map by (rewrite ?Hw; exact Hrange).
    rewrite (zsum_apply_perm pi w (length yp) Hw Hp). f_equal.
    apply (zsum_apply_perm pi _ (length yp)); [|exact Hp].
    rewrite map_length, combine_length, Hw. lia.
Qed.
