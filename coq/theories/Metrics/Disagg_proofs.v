From Coq Require Import QArith ZArith List Bool Lia FinFun.
From FL Require Import Num ListX Disagg.
Import ListNotations.
Open Scope Z_scope.

(* ---------- names and keys: boolean equality is equality ---------- *)
Lemma name_eqb_eq a b : name_eqb a b = true <-> a = b.
Proof.
  revert b. induction a as [|x a IH]; destruct b as [|y b]; cbn; try (split; congruence).
  rewrite andb_true_iff, Z.eqb_eq, IH. split; [intros [-> ->]; reflexivity | intros [= -> ->]; auto].
Qed.

Lemma name_eqb_refl a : name_eqb a a = true.
Proof. apply name_eqb_eq. reflexivity. Qed.

Lemma name_eqb_neq a b : a <> b -> name_eqb a b = false.
Proof. intro H. destruct (name_eqb a b) eqn:E; [apply name_eqb_eq in E; contradiction | reflexivity]. Qed.

Lemma key_cmp_eq a b : key_cmp a b = Eq <-> a = b.
Proof.
  revert b. induction a as [|x a IH]; destruct b as [|y b]; cbn; try (split; congruence).
  destruct (Z.compare x y) eqn:E.
  - apply Z.compare_eq in E. subst y. rewrite IH. split; [intros ->; reflexivity | intros [= ->]; reflexivity].
  - split; [discriminate | intros [= -> _]; rewrite Z.compare_refl in E; discriminate].
  - split; [discriminate | intros [= -> _]; rewrite Z.compare_refl in E; discriminate].
Qed.

Lemma key_eqb_eq a b : key_eqb a b = true <-> a = b.
Proof.
  unfold key_eqb. rewrite <- key_cmp_eq. destruct (key_cmp a b); split; congruence.
Qed.

Lemma key_eqb_refl a : key_eqb a a = true.
Proof. apply key_eqb_eq. reflexivity. Qed.

Lemma kmem_In k l : kmem k l = true <-> In k l.
Proof.
  induction l as [|y l IH]; cbn; [split; [discriminate | contradiction]|].
  rewrite orb_true_iff, key_eqb_eq, IH. split; intros [H|H]; auto.
Qed.

Lemma In_kinsert k x l : In k (kinsert x l) <-> k = x \/ In k l.
Proof.
  induction l as [|y l IH]; cbn; [intuition|].
  destruct (key_cmp x y) eqn:E; cbn.
  - apply key_cmp_eq in E. subst y. intuition.
  - intuition.
  - rewrite IH. intuition.
Qed.

Lemma In_kuniq k l : In k (kuniq l) <-> In k l.
Proof.
  induction l as [|y l IH]; cbn; [reflexivity|].
  rewrite In_kinsert, IH. intuition.
Qed.

Lemma kmem_kuniq k l : kmem k (kuniq l) = kmem k l.
Proof.
  destruct (kmem k l) eqn:E.
  - apply kmem_In. apply In_kuniq. apply kmem_In. exact E.
  - destruct (kmem k (kuniq l)) eqn:E2; [|reflexivity].
    apply (proj1 (kmem_In _ _)) in E2. apply (proj1 (In_kuniq _ _)) in E2.
    apply (proj2 (kmem_In _ _)) in E2. congruence.
Qed.

Lemma assoc_map {W} (h : list Z -> W) k l :
  assoc k (map (fun k' => (k', h k')) l) = if kmem k l then Some (h k) else None.
Proof.
  induction l as [|y l IH]; cbn; [reflexivity|].
  destruct (key_eqb k y) eqn:E; cbn.
  - apply key_eqb_eq in E. subst y. reflexivity.
  - exact IH.
Qed.

(* ---------- coverage: every row's key is in the product of the per-column uniques ---------- *)
Lemma In_zinsert y x l : y = x \/ In y l -> In y (zinsert x l).
Proof.
  induction l as [|z l IH]; cbn; [intuition|].
  destruct (x <? z) eqn:E1; [cbn; intuition|].
  destruct (x =? z) eqn:E2.
  - apply Z.eqb_eq in E2. subst z. cbn. intuition.
  - cbn. intros [H|[H|H]]; auto.
Qed.

Lemma In_zuniq x l : In x l -> In x (zuniq l).
Proof.
  induction l as [|y l IH]; cbn; [auto|].
  intros [H|H]; apply In_zinsert; auto.
Qed.

Lemma row_keys_cols k cols n : In k (row_keys cols n) -> Forall2 (fun x c => In x c) k cols.
Proof.
  revert k. induction cols as [|c r IH]; cbn; intros k H.
  - apply repeat_spec in H. subst k. constructor.
  - apply in_map_iff in H. destruct H as [[x k'] [<- H]]. cbn.
    constructor; [eapply in_combine_l; eauto | apply IH; eapply in_combine_r; eauto].
Qed.

Lemma In_product k ls : Forall2 (fun x l => In x l) k ls -> In k (product ls).
Proof.
  induction 1 as [|x l k ls Hx _ IH]; cbn; [auto|].
  apply in_flat_map. exists x. split; [exact Hx | apply in_map; exact IH].
Qed.

Lemma row_key_in_product k cols n :
  In k (row_keys cols n) -> In k (product (map zuniq cols)).
Proof.
  intro H. apply In_product. apply row_keys_cols in H.
  induction H; cbn; constructor; auto using In_zuniq.
Qed.

(* ---------- NoDup of the index ---------- *)
Lemma key_cmp_refl a : key_cmp a a = Eq.
Proof. apply key_cmp_eq. reflexivity. Qed.

Lemma key_cmp_antisym a b : key_cmp a b = CompOpp (key_cmp b a).
Proof.
  revert b. induction a as [|x a IH]; destruct b as [|y b]; cbn; try reflexivity.
  rewrite (Z.compare_antisym y x). destruct (Z.compare y x); cbn; auto.
Qed.

Lemma key_cmp_lt_trans a b c : key_cmp a b = Lt -> key_cmp b c = Lt -> key_cmp a c = Lt.
Proof.
  revert b c. induction a as [|x a IH]; intros [|y b] [|z c]; cbn; try congruence.
  destruct (Z.compare x y) eqn:E1; try discriminate.
  - apply Z.compare_eq in E1. subst y. destruct (Z.compare x z); try congruence. apply IH.
  - intros _. destruct (Z.compare y z) eqn:E2; try discriminate.
    + apply Z.compare_eq in E2. subst z. rewrite E1. reflexivity.
    + intros _. rewrite Z.compare_lt_iff in *. assert (H : x < z) by lia.
      apply Z.compare_lt_iff in H. rewrite H. reflexivity.
Qed.

Inductive ksorted : list (list Z) -> Prop :=
| ks_nil : ksorted []
| ks_cons x l : (forall y, In y l -> key_cmp x y = Lt) -> ksorted l -> ksorted (x :: l).

Lemma ksorted_kinsert x l : ksorted l -> ksorted (kinsert x l).
Proof.
  induction 1 as [|y l Hy Hs IH]; cbn.
  - constructor; [intros ? []| constructor].
  - destruct (key_cmp x y) eqn:E.
    + constructor; auto.
    + constructor; [|constructor; auto].
      intros z [<-|Hz]; [exact E | eapply key_cmp_lt_trans; eauto].
    + constructor; [|exact IH].
      intros z Hz. apply In_kinsert in Hz. destruct Hz as [->|Hz]; [|auto].
      rewrite key_cmp_antisym, E. reflexivity.
Qed.

Lemma ksorted_kuniq l : ksorted (kuniq l).
Proof. induction l; cbn; [constructor | apply ksorted_kinsert; assumption]. Qed.

Lemma ksorted_NoDup l : ksorted l -> NoDup l.
Proof.
  induction 1 as [|x l Hx _ IH]; constructor; [|exact IH].
  intro Hin. specialize (Hx x Hin). rewrite key_cmp_refl in Hx. discriminate.
Qed.

Lemma NoDup_kuniq l : NoDup (kuniq l).
Proof. apply ksorted_NoDup, ksorted_kuniq. Qed.

Inductive zsorted : list Z -> Prop :=
| zs_nil : zsorted []
| zs_cons x l : (forall y, In y l -> x < y) -> zsorted l -> zsorted (x :: l).

Lemma In_zinsert_inv y x l : In y (zinsert x l) -> y = x \/ In y l.
Proof.
  induction l as [|z l IH]; cbn; [intuition|].
  destruct (x <? z); [cbn; intuition|]. destruct (x =? z); [cbn; intuition|].
  cbn. intros [H|H]; [auto | apply IH in H; intuition].
Qed.

Lemma zsorted_zinsert x l : zsorted l -> zsorted (zinsert x l).
Proof.
  induction 1 as [|y l Hy Hs IH]; cbn.
  - constructor; [intros ? []|constructor].
  - destruct (x <? y) eqn:E1.
    + apply Z.ltb_lt in E1. constructor; [|constructor; auto].
      intros z [<-|Hz]; [exact E1 | specialize (Hy z Hz); lia].
    + destruct (x =? y) eqn:E2; [constructor; auto|].
      apply Z.ltb_ge in E1. apply Z.eqb_neq in E2.
      constructor; [|exact IH]. intros z Hz. apply In_zinsert_inv in Hz.
      destruct Hz as [->|Hz]; [lia | auto].
Qed.

Lemma zsorted_zuniq l : zsorted (zuniq l).
Proof. induction l; cbn; [constructor | apply zsorted_zinsert; assumption]. Qed.

Lemma zsorted_NoDup l : zsorted l -> NoDup l.
Proof.
  induction 1 as [|x l Hx _ IH]; constructor; [|exact IH].
  intro Hin. specialize (Hx x Hin). lia.
Qed.

Lemma NoDup_app_intro {A} (a b : list A) :
  NoDup a -> NoDup b -> (forall x, In x a -> In x b -> False) -> NoDup (a ++ b).
Proof.
  induction 1 as [|x a Hx Ha IH]; cbn; intros Hb Hd; [exact Hb|].
  constructor.
  - rewrite in_app_iff. intros [H|H]; [contradiction | eapply Hd; [left; reflexivity | exact H]].
  - apply IH; [exact Hb|]. intros y Hy. apply Hd. right. exact Hy.
Qed.

Lemma NoDup_product ls : Forall (@NoDup Z) ls -> NoDup (product ls).
Proof.
  induction 1 as [|l ls Hl _ IH]; cbn; [repeat constructor; intros []|].
  induction Hl as [|x l Hx Hl IHl]; cbn; [constructor|].
  apply NoDup_app_intro; [|exact IHl|].
  - apply FinFun.Injective_map_NoDup; [|exact IH]. intros a b [= ->]. reflexivity.
  - intros k H1 H2. apply in_map_iff in H1. destruct H1 as [k' [<- _]].
    apply in_flat_map in H2. destruct H2 as [y [Hy H2]].
    apply in_map_iff in H2. destruct H2 as [k'' [[= -> _] _]]. contradiction.
Qed.

Lemma NoDup_product_zuniq cols : NoDup (product (map zuniq cols)).
Proof.
  apply NoDup_product. apply Forall_forall. intros l Hl.
  apply in_map_iff in Hl. destruct Hl as [c [<- _]]. apply zsorted_NoDup, zsorted_zuniq.
Qed.

(* ---------- frames ---------- *)
Section Frames.
  Variable V : Type.
  Variable key_of : V -> Z.
  Variable cell : Type.
  Variable fn : name -> list (list V) -> list (name * list V) -> cell.

  Notation frame := (frame V).
  Notation get := (get V).
  Notation set_col := (set_col V).
  Notation assign_all := (assign_all V).
  Notation get_all := (get_all V).
  Notation map_frame := (map_frame V).
  Notation sub_frame := (sub_frame V).

  Lemma get_set_col nm nm' c (f : frame) :
    get nm (set_col nm' c f) = if name_eqb nm nm' then Some c else get nm f.
  Proof.
    induction f as [|[n c0] r IH]; cbn.
    - destruct (name_eqb nm nm'); reflexivity.
    - destruct (name_eqb nm' n) eqn:E1; cbn.
      + apply name_eqb_eq in E1. subst n. destruct (name_eqb nm nm'); reflexivity.
      + destruct (name_eqb nm n) eqn:E2.
        * apply name_eqb_eq in E2. subst n.
          destruct (name_eqb nm nm') eqn:E3; [|reflexivity].
          apply name_eqb_eq in E3. subst nm'. rewrite name_eqb_refl in E1. discriminate.
        * exact IH.
  Qed.

  (* the value last assigned to a name *)
  Fixpoint last_assign (nm : name) (l : list (name * list V)) : option (list V) :=
    match l with
    | [] => None
    | (n, c) :: r => match last_assign nm r with
                     | Some c' => Some c'
                     | None => if name_eqb nm n then Some c else None
                     end
    end.

  Lemma get_assign_all nm l (f : frame) :
    get nm (assign_all l f) = match last_assign nm l with Some c => Some c | None => get nm f end.
  Proof.
    revert f. induction l as [|[n c] r IH]; intro f; [reflexivity|].
    change (assign_all ((n, c) :: r) f) with (assign_all r (set_col n c f)).
    rewrite IH, get_set_col. cbn [last_assign].
    destruct (last_assign nm r); [reflexivity|]. destruct (name_eqb nm n); reflexivity.
  Qed.

  Lemma last_assign_notin nm l : ~ In nm (map fst l) -> last_assign nm l = None.
  Proof.
    induction l as [|[n c] r IH]; cbn; [reflexivity|]. intro H.
    rewrite IH by tauto. rewrite name_eqb_neq; [reflexivity | intro; subst; tauto].
  Qed.

  Lemma last_assign_NoDup nm c l :
    NoDup (map fst l) -> In (nm, c) l -> last_assign nm l = Some c.
  Proof.
    induction l as [|[n c0] r IH]; cbn; [contradiction|].
    intros Hnd [H|H]; inversion Hnd as [|? ? Hn Hr]; subst.
    - injection H as -> ->. rewrite last_assign_notin by exact Hn. rewrite name_eqb_refl. reflexivity.
    - rewrite IH; auto.
  Qed.

  Lemma get_built nm c l :
    NoDup (map fst l) -> In (nm, c) l -> get nm (assign_all l []) = Some c.
  Proof.
    intros Hnd Hin. rewrite get_assign_all, (last_assign_NoDup nm c l Hnd Hin). reflexivity.
  Qed.

  Lemma get_map_frame s nm (f : frame) :
    get nm (map_frame s f) = option_map s (get nm f).
  Proof.
    induction f as [|[n c] r IH]; cbn; [reflexivity|].
    destruct (name_eqb nm n); [reflexivity | exact IH].
  Qed.

  Lemma get_all_map_frame s names (f : frame) :
    get_all names (map_frame s f) = option_map (map s) (get_all names f).
  Proof.
    induction names as [|n r IH]; cbn; [reflexivity|].
    rewrite get_map_frame, IH. destruct (get n f); cbn; [|reflexivity].
    destruct (get_all r f); reflexivity.
  Qed.

  Lemma map_frame_id (f : frame) : map_frame (fun x => x) f = f.
  Proof.
    unfold Disagg.map_frame. induction f as [|[n c] r IH]; cbn; [reflexivity|]. rewrite IH. reflexivity.
  Qed.

  Lemma get_all_built {A} (g : A -> name) (h : A -> list V) (items : list A) l :
    NoDup (map fst l) -> (forall a, In a items -> In (g a, h a) l) ->
    get_all (map g items) (assign_all l []) = Some (map h items).
  Proof.
    intros Hnd. induction items as [|a r IH]; cbn; intro H; [reflexivity|].
    rewrite (get_built (g a) (h a) l Hnd) by (apply H; left; reflexivity).
    rewrite IH by (intros b Hb; apply H; right; exact Hb). reflexivity.
  Qed.

  (* the first column never moves: nrows of a built frame is the length of y_true *)
  Lemma assign_all_head l n c (r : frame) :
    exists r', assign_all l ((n, c) :: r) =
               (n, match last_assign n l with Some c' => c' | None => c end) :: r'.
  Proof.
    revert c r. induction l as [|[n0 c0] l IH]; intros c r; cbn; [eexists; reflexivity|].
    unfold Disagg.assign_all in *. cbn.
    destruct (name_eqb n0 n) eqn:E.
    - apply name_eqb_eq in E. subst n0. destruct (IH c0 r) as [r' ->].
      rewrite name_eqb_refl. destruct (last_assign n l); eexists; reflexivity.
    - destruct (IH c (set_col n0 c0 r)) as [r' ->].
      assert (E' : name_eqb n n0 = false).
      { destruct (name_eqb n n0) eqn:E2; [|reflexivity]. apply name_eqb_eq in E2. subst n0.
        rewrite name_eqb_refl in E. discriminate. }
      rewrite E'. destruct (last_assign n l); eexists; reflexivity.
  Qed.

  Notation metric_spec := (metric_spec V).
  Notation all_assigns := (all_assigns V).
  Notation build_frame := (build_frame V).
  Notation annot_of := (annot_of V).
  Notation call := (call V cell fn).
  Notation apply_to_df := (apply_to_df V cell fn).
  Notation apply_functions := (apply_functions V key_of cell fn).
  Notation expected_cell := (expected_cell V cell fn).
  Notation expected_row := (expected_row V cell fn).

  Lemma nrows_built yt yp ms sfs cfs :
    NoDup (map fst (all_assigns yt yp ms sfs cfs)) ->
    nrows V (build_frame yt yp ms sfs cfs) = length yt.
  Proof.
    intro Hnd. unfold Disagg.build_frame, Disagg.all_assigns in *.
    set (rest := (n_y_pred, yp) :: param_assigns V ms ++ sfs ++ cfs) in *.
    change (nrows V (assign_all rest [(n_y_true, yt)]) = length yt).
    destruct (assign_all_head rest n_y_true yt []) as [r' ->].
    cbn [map fst] in Hnd. inversion Hnd as [|? ? Hn _]; subst.
    rewrite last_assign_notin by exact Hn. reflexivity.
  Qed.

  (* ----- params_private: every metric is shown y_true, y_pred and its OWN parameters ----- *)
  Theorem call_on_built yt yp ms sfs cfs (m : metric_spec) (s : list V -> list V) :
    NoDup (map fst (all_assigns yt yp ms sfs cfs)) -> In m ms ->
    call (annot_of m) (map_frame s (build_frame yt yp ms sfs cfs)) = Some (expected_cell yt yp m s).
  Proof.
    intros Hnd Hm. unfold Disagg.call, Disagg.build_frame.
    rewrite !get_all_map_frame. cbn [annot_of Disagg.annot_of af_pos af_kw af_name].
    set (A := all_assigns yt yp ms sfs cfs) in *.
    assert (Hpos : get_all [n_y_true; n_y_pred] (assign_all A []) = Some [yt; yp]).
    { cbn [Disagg.get_all].
      rewrite (get_built n_y_true yt A Hnd) by (left; reflexivity).
      rewrite (get_built n_y_pred yp A Hnd) by (right; left; reflexivity). reflexivity. }
    rewrite Hpos. rewrite map_map. cbn [snd].
    rewrite (get_all_built (fun pc => gen_col (m_prefix m) (fst pc)) snd (m_params m) A Hnd).
    - cbn [option_map map]. unfold Disagg.expected_cell. f_equal. f_equal.
      rewrite map_map. cbn [fst]. induction (m_params m) as [|pc r IH]; cbn; [reflexivity|].
      rewrite IH. reflexivity.
    - intros pc Hpc. unfold A, Disagg.all_assigns. right. right. apply in_or_app. left.
      unfold Disagg.param_assigns. apply in_flat_map. exists m. split; [exact Hm|].
      apply in_map_iff. exists pc. split; [reflexivity | exact Hpc].
  Qed.

  Lemma row_on_built yt yp ms sfs cfs (s : list V -> list V) :
    NoDup (map fst (all_assigns yt yp ms sfs cfs)) ->
    apply_to_df (map annot_of ms) (map_frame s (build_frame yt yp ms sfs cfs)) = expected_row yt yp ms s.
  Proof.
    intro Hnd. unfold Disagg.apply_to_df, Disagg.expected_row. rewrite map_map.
    apply map_ext_in. intros m Hm. rewrite (call_on_built yt yp ms sfs cfs m s Hnd Hm). reflexivity.
  Qed.

  (* ----- _apply_functions on any frame ----- *)
  Definition index_of (kcols : list (list Z)) (n : nat) : list (list Z) :=
    if (1 <? length kcols)%nat then product (map zuniq kcols) else kuniq (row_keys kcols n).

  Theorem apply_functions_spec (f : frame) afs gs cols :
    gs <> [] -> get_all gs f = Some cols ->
    let kcols := map (map key_of) cols in
    let keys := row_keys kcols (nrows V f) in
    exists tbl, apply_functions f afs gs = Some tbl
      /\ map fst tbl = index_of kcols (nrows V f)
      /\ forall k, In k (map fst tbl) ->
           assoc k tbl = Some (if kmem k keys
                               then Some (apply_to_df afs (sub_frame (mask_of k keys) f))
                               else None).
  Proof.
    intros Hgs Hget kcols keys. unfold Disagg.apply_functions.
    destruct gs as [|g0 gs']; [contradiction|]. rewrite Hget. fold kcols. fold keys.
    assert (Hlen : length cols = length (g0 :: gs')).
    { clear -Hget. revert cols Hget. induction (g0 :: gs') as [|g r IH]; cbn; intros cols H.
      - injection H as <-. reflexivity.
      - destruct (Disagg.get V g f); [|discriminate]. destruct (Disagg.get_all V r f) eqn:E; [|discriminate].
        injection H as <-. cbn. f_equal. apply IH. reflexivity. }
    assert (Hlk : length kcols = length (g0 :: gs')) by (unfold kcols; rewrite map_length; exact Hlen).
    unfold index_of. rewrite Hlk.
    destruct (1 <? length (g0 :: gs'))%nat eqn:E; eexists; split; try reflexivity; split.
    - rewrite map_map. cbn [fst]. rewrite map_id. reflexivity.
    - intros k Hk. rewrite map_map in Hk. cbn [fst] in Hk. rewrite map_id in Hk.
      rewrite (assoc_map (fun k' => assoc k' _) k).
      apply kmem_In in Hk. rewrite Hk. f_equal.
      rewrite (assoc_map (fun k' => apply_to_df afs (sub_frame (mask_of k' keys) f)) k).
      rewrite kmem_kuniq. reflexivity.
    - rewrite !map_map. cbn [fst]. rewrite map_id. reflexivity.
    - intros k Hk. rewrite !map_map in Hk. cbn [fst] in Hk. rewrite map_id in Hk.
      rewrite map_map. cbn [fst snd].
      rewrite (assoc_map (fun k' => Some (apply_to_df afs (sub_frame (mask_of k' keys) f))) k).
      apply kmem_In in Hk. rewrite Hk. f_equal.
      rewrite kmem_kuniq in Hk. rewrite Hk. reflexivity.
  Qed.

  (* ----- MetricFrame: by_group / overall on the frame that __init__ builds ----- *)
  Notation feature_keys := (feature_keys V key_of).

  Theorem mf_grouped_spec yt yp ms sfs cfs (gfeats : list (name * list V)) :
    NoDup (map fst (all_assigns yt yp ms sfs cfs)) ->
    gfeats <> [] -> incl gfeats (sfs ++ cfs) ->
    let kcols := map (fun nc => map key_of (snd nc)) gfeats in
    let keys := feature_keys gfeats (length yt) in
    exists tbl, apply_functions (build_frame yt yp ms sfs cfs) (map annot_of ms) (map fst gfeats) = Some tbl
      /\ map fst tbl = index_of kcols (length yt)
      /\ forall k, In k (map fst tbl) ->
           assoc k tbl = Some (if kmem k keys
                               then Some (expected_row yt yp ms (sel (mask_of k keys)))
                               else None).
  Proof.
    intros Hnd Hne Hincl kcols keys.
    assert (Hget : get_all (map fst gfeats) (build_frame yt yp ms sfs cfs) = Some (map snd gfeats)).
    { unfold Disagg.build_frame. apply get_all_built; [exact Hnd|].
      intros [n c] Hin. cbn. unfold Disagg.all_assigns. right. right. apply in_or_app. right.
      apply Hincl. exact Hin. }
    assert (Hne' : map fst gfeats <> []) by (destruct gfeats; [contradiction | discriminate]).
    destruct (apply_functions_spec (build_frame yt yp ms sfs cfs) (map annot_of ms) (map fst gfeats)
                (map snd gfeats) Hne' Hget) as [tbl [H1 [H2 H3]]].
    rewrite (nrows_built yt yp ms sfs cfs Hnd) in H2, H3.
    rewrite map_map in H2, H3.
    exists tbl. split; [exact H1|]. split; [exact H2|].
    intros k Hk. rewrite (H3 k Hk). unfold keys, Disagg.feature_keys. f_equal.
    destruct (kmem k _); [|reflexivity]. f_equal. unfold Disagg.sub_frame.
    apply row_on_built. exact Hnd.
  Qed.

  (* every row's key tuple is a key of the index: no observed group is dropped *)
  Lemma keys_covered (kcols : list (list Z)) n k :
    In k (row_keys kcols n) -> In k (index_of kcols n).
  Proof.
    intro H. unfold index_of. destruct (1 <? length kcols)%nat.
    - apply (row_key_in_product k kcols n H).
    - apply In_kuniq. exact H.
  Qed.

  Lemma index_NoDup kcols n : NoDup (index_of kcols n).
  Proof.
    unfold index_of. destruct (1 <? length kcols)%nat; [apply NoDup_product_zuniq | apply NoDup_kuniq].
  Qed.

  Theorem mf_overall_nocontrol yt yp ms sfs :
    NoDup (map fst (all_assigns yt yp ms sfs [])) ->
    mf_overall V key_of cell fn yt yp ms sfs [] = Some [([], Some (expected_row yt yp ms (fun x => x)))].
  Proof.
    intro Hnd. unfold Disagg.mf_overall. cbn [map Disagg.apply_functions]. do 4 f_equal.
    rewrite <- (row_on_built yt yp ms sfs [] (fun x => x) Hnd). rewrite map_frame_id. reflexivity.
  Qed.
End Frames.

(* ---------- the distinct-names hypothesis is necessary (finding F8) ----------
   metrics {"a": f, "a_b": f}, sample_params {"a": {"b_c": w1}, "a_b": {"c": w2}}:
   both parameters are stored in column "a_b_c", so metric "a" is shown w2. *)
Definition coll_ms : list (metric_spec Z) :=
  [ {| m_name := [97]; m_prefix := [97]; m_params := [([98; 95; 99], [10; 20])] |};
    {| m_name := [97; 95; 98]; m_prefix := [97; 95; 98]; m_params := [([99], [30; 40])] |} ].

Definition show_kw (_ : name) (_ : list (list Z)) (kw : list (name * list Z)) := kw.

Lemma param_collision :
  let yt := [0; 1] in let yp := [1; 1] in let sfs := [([115], [0; 0])] in
  let m := {| m_name := [97]; m_prefix := [97]; m_params := [([98; 95; 99], [10; 20])] |} in
  NoDup (map (@m_name Z) coll_ms)
  /\ Forall (fun m => NoDup (map fst (m_params m))) coll_ms
  /\ In m coll_ms
  /\ call Z _ show_kw (annot_of Z m) (map_frame Z (fun x => x) (build_frame Z yt yp coll_ms sfs []))
     <> Some (expected_cell Z _ show_kw yt yp m (fun x => x))
  /\ ~ NoDup (map fst (all_assigns Z yt yp coll_ms sfs [])).
Proof.
  cbv zeta. split; [|split; [|split; [|split]]].
  - repeat constructor; cbn; intuition discriminate.
  - repeat constructor; cbn; intuition.
  - left. reflexivity.
  - vm_compute. discriminate.
  - intro H. vm_compute in H.
    inversion H as [|? ? _ H1]; subst. inversion H1 as [|? ? _ H2]; subst.
    inversion H2 as [|? ? Hn _]; subst. apply Hn. left. reflexivity.
Qed.

(* ---------- the statements used by props/C01.v ---------- *)
Section Statements.
  Variable V : Type.
  Variable key_of : V -> Z.
  Variable cell : Type.
  Variable fn : name -> list (list V) -> list (name * list V) -> cell.

  Definition grouping_index (kcols : list (list Z)) (keys : list (list Z)) : list (list Z) :=
    if (1 <? length kcols)%nat then product (map zuniq kcols) else kuniq keys.

  Lemma grouped_full yt yp ms sfs cfs gfeats :
    NoDup (map fst (all_assigns V yt yp ms sfs cfs)) -> gfeats <> [] -> incl gfeats (sfs ++ cfs) ->
    let kcols := map (fun nc => map key_of (snd nc)) gfeats in
    let keys := feature_keys V key_of gfeats (length yt) in
    exists tbl,
      apply_functions V key_of cell fn (build_frame V yt yp ms sfs cfs) (map (annot_of V) ms) (map fst gfeats)
        = Some tbl
      /\ map fst tbl = grouping_index kcols keys
      /\ NoDup (map fst tbl)
      /\ (forall k, In k keys -> In k (map fst tbl))
      /\ (forall k, In k (map fst tbl) ->
            assoc k tbl = Some (if kmem k keys
                                then Some (expected_row V cell fn yt yp ms (sel (mask_of k keys)))
                                else None)).
  Proof.
    intros Hnd Hne Hincl kcols keys.
    destruct (mf_grouped_spec V key_of cell fn yt yp ms sfs cfs gfeats Hnd Hne Hincl) as [tbl [H1 [H2 H3]]].
    exists tbl. split; [exact H1|]. split; [exact H2|]. split; [|split].
    - rewrite H2. apply index_NoDup.
    - intros k Hk. rewrite H2. apply keys_covered. exact Hk.
    - exact H3.
  Qed.

  Theorem by_group_index yt yp ms sfs cfs :
    NoDup (map fst (all_assigns V yt yp ms sfs cfs)) -> sfs <> [] ->
    let gfeats := cfs ++ sfs in
    let kcols := map (fun nc => map key_of (snd nc)) gfeats in
    let keys := feature_keys V key_of gfeats (length yt) in
    exists tbl, mf_by_group V key_of cell fn yt yp ms sfs cfs = Some tbl
      /\ map fst tbl = (if (1 <? length gfeats)%nat then product (map zuniq kcols) else kuniq keys)
      /\ NoDup (map fst tbl)
      /\ (forall k, In k keys -> In k (map fst tbl)).
  Proof.
    intros Hnd Hne gfeats kcols keys.
    assert (Hg : gfeats <> []) by (unfold gfeats; destruct cfs; [exact Hne | discriminate]).
    assert (Hi : incl gfeats (sfs ++ cfs)).
    { unfold gfeats. intros x Hx. apply in_app_or in Hx. apply in_or_app. tauto. }
    destruct (grouped_full yt yp ms sfs cfs gfeats Hnd Hg Hi) as [tbl [H1 [H2 [H3 [H4 _]]]]].
    exists tbl. unfold Disagg.mf_by_group. rewrite <- map_app. split; [exact H1|].
    split; [|split; [exact H3 | exact H4]].
    rewrite H2. unfold grouping_index. rewrite map_length. reflexivity.
  Qed.

  Theorem by_group_cell yt yp ms sfs cfs tbl :
    NoDup (map fst (all_assigns V yt yp ms sfs cfs)) -> sfs <> [] ->
    mf_by_group V key_of cell fn yt yp ms sfs cfs = Some tbl ->
    let keys := feature_keys V key_of (cfs ++ sfs) (length yt) in
    forall k, In k (map fst tbl) ->
      assoc k tbl = Some (if kmem k keys
                          then Some (expected_row V cell fn yt yp ms (sel (mask_of k keys)))
                          else None).
  Proof.
    intros Hnd Hne Htbl keys.
    assert (Hg : cfs ++ sfs <> []) by (destruct cfs; [exact Hne | discriminate]).
    assert (Hi : incl (cfs ++ sfs) (sfs ++ cfs)).
    { intros x Hx. apply in_app_or in Hx. apply in_or_app. tauto. }
    destruct (grouped_full yt yp ms sfs cfs (cfs ++ sfs) Hnd Hg Hi) as [tbl' [H1 [_ [_ [_ H5]]]]].
    unfold Disagg.mf_by_group in Htbl. rewrite <- map_app in Htbl. rewrite H1 in Htbl.
    injection Htbl as <-. exact H5.
  Qed.

  (* overall: all rows when there is no control feature ... *)
  Theorem overall_cell_nocontrol yt yp ms sfs :
    NoDup (map fst (all_assigns V yt yp ms sfs [])) ->
    mf_overall V key_of cell fn yt yp ms sfs []
      = Some [([], Some (expected_row V cell fn yt yp ms (fun x => x)))].
  Proof. apply mf_overall_nocontrol. Qed.

  (* ... and the rows of each control-feature combination otherwise *)
  Theorem overall_cell_control yt yp ms sfs cfs :
    NoDup (map fst (all_assigns V yt yp ms sfs cfs)) -> cfs <> [] ->
    let kcols := map (fun nc => map key_of (snd nc)) cfs in
    let keys := feature_keys V key_of cfs (length yt) in
    exists tbl, mf_overall V key_of cell fn yt yp ms sfs cfs = Some tbl
      /\ map fst tbl = (if (1 <? length cfs)%nat then product (map zuniq kcols) else kuniq keys)
      /\ NoDup (map fst tbl)
      /\ (forall k, In k keys -> In k (map fst tbl))
      /\ (forall k, In k (map fst tbl) ->
            assoc k tbl = Some (if kmem k keys
                                then Some (expected_row V cell fn yt yp ms (sel (mask_of k keys)))
                                else None)).
  Proof.
    intros Hnd Hne kcols keys.
    assert (Hi : incl cfs (sfs ++ cfs)) by (intros x Hx; apply in_or_app; tauto).
    destruct (grouped_full yt yp ms sfs cfs cfs Hnd Hne Hi) as [tbl [H1 [H2 H3]]].
    exists tbl. split; [exact H1|]. split; [|exact H3].
    rewrite H2. unfold grouping_index. rewrite map_length. reflexivity.
  Qed.

  Theorem params_private yt yp ms sfs cfs m mask :
    NoDup (map fst (all_assigns V yt yp ms sfs cfs)) -> In m ms ->
    call V cell fn (annot_of V m) (sub_frame V mask (build_frame V yt yp ms sfs cfs))
      = Some (fn (m_name m) [sel mask yt; sel mask yp]
                 (map (fun pc => (fst pc, sel mask (snd pc))) (m_params m))).
  Proof. intros Hnd Hm. exact (call_on_built V cell fn yt yp ms sfs cfs m (sel mask) Hnd Hm). Qed.
End Statements.
