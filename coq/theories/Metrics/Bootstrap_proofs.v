(* Lemmas and theorems about the bootstrap model (C18). *)
From Coq Require Import QArith ZArith List Bool Qround Lia Lra Psatz.
From FL Require Import Num ListX Bootstrap.
Import ListNotations.
Open Scope Q_scope.

(* ------------------------------------------------------------------ *)
(* boolean comparisons                                                 *)
(* ------------------------------------------------------------------ *)

Lemma Qleb_true a b : Qleb a b = true -> a <= b.
Proof. unfold Qleb. apply Qle_bool_iff. Qed.

Lemma Qleb_false a b : Qleb a b = false -> b < a.
Proof.
  unfold Qleb. intros H. destruct (Qlt_le_dec b a) as [L | L]; [exact L |].
  apply Qle_bool_iff in L. congruence.
Qed.

Lemma Qltb_true a b : Qltb a b = true -> a < b.
Proof.
  unfold Qltb. intros H. apply negb_true_iff in H. apply Qleb_false in H. exact H.
Qed.

Lemma Qltb_false a b : Qltb a b = false -> b <= a.
Proof.
  unfold Qltb. intros H. apply negb_false_iff in H. apply Qleb_true in H. exact H.
Qed.

Lemma inject_nat_nonneg n : 0 <= inject_nat n.
Proof. unfold inject_nat, Qle, inject_Z. cbn [Qnum Qden]. lia. Qed.

Lemma inject_nat_S n : inject_nat (S n) == inject_nat n + 1.
Proof.
  unfold inject_nat. rewrite Nat2Z.inj_succ. unfold Z.succ. rewrite inject_Z_plus. reflexivity.
Qed.

Lemma inject_Z_lt a b : inject_Z a < inject_Z b -> (a < b)%Z.
Proof. unfold Qlt, inject_Z. cbn [Qnum Qden]. lia. Qed.

Lemma inject_Z_le a b : (a <= b)%Z -> inject_Z a <= inject_Z b.
Proof. unfold Qle, inject_Z. cbn [Qnum Qden]. lia. Qed.

Lemma inject_nat_le a b : (a <= b)%nat -> inject_nat a <= inject_nat b.
Proof. intros H. unfold inject_nat. apply inject_Z_le. lia. Qed.

(* ------------------------------------------------------------------ *)
(* insertion sort                                                      *)
(* ------------------------------------------------------------------ *)

Fixpoint sorted (l : list Q) : Prop :=
  match l with
  | [] => True
  | x :: r => (forall y, In y r -> x <= y) /\ sorted r
  end.

Lemma qinsert_In x l y : In y (qinsert x l) <-> y = x \/ In y l.
Proof.
  induction l as [| a l IH]; cbn [qinsert].
  - cbn. intuition.
  - destruct (Qleb x a); cbn [In]; [| rewrite IH]; intuition.
Qed.

Lemma qinsert_sorted x l : sorted l -> sorted (qinsert x l).
Proof.
  induction l as [| a l IH]; cbn [qinsert sorted].
  - intros _. split; [intros y [] | exact I].
  - intros [Ha Hs]. destruct (Qleb x a) eqn:E.
    + apply Qleb_true in E. cbn [sorted]. split; [| split; assumption].
      intros y [<- | Hy]; [exact E |]. eapply Qle_trans; [exact E | apply Ha, Hy].
    + apply Qleb_false in E. cbn [sorted]. split; [| apply IH, Hs].
      intros y Hy. apply qinsert_In in Hy. destruct Hy as [-> | Hy].
      * apply Qlt_le_weak, E.
      * apply Ha, Hy.
Qed.

Lemma qsort_sorted l : sorted (qsort l).
Proof. induction l as [| a l IH]; cbn; [exact I | apply qinsert_sorted, IH]. Qed.

Lemma qsort_In l y : In y (qsort l) <-> In y l.
Proof.
  induction l as [| a l IH]; cbn [qsort fold_right In]; [tauto |].
  fold (qsort l). rewrite qinsert_In, IH. intuition.
Qed.

Lemma qinsert_length x l : length (qinsert x l) = S (length l).
Proof.
  induction l as [| a l IH]; cbn [qinsert]; [reflexivity |].
  destruct (Qleb x a); cbn [length]; [reflexivity | now rewrite IH].
Qed.

Lemma qsort_length l : length (qsort l) = length l.
Proof.
  induction l as [| a l IH]; cbn [qsort fold_right length]; [reflexivity |].
  fold (qsort l). now rewrite qinsert_length, IH.
Qed.

Lemma qinsert_sum x l : qsum (qinsert x l) == x + qsum l.
Proof.
  induction l as [| a l IH]; cbn [qinsert qsum]; [reflexivity |].
  destruct (Qleb x a); cbn [qsum]; [reflexivity | rewrite IH; ring].
Qed.

Lemma qsort_sum l : qsum (qsort l) == qsum l.
Proof.
  induction l as [| a l IH]; cbn [qsort fold_right qsum]; [reflexivity |].
  fold (qsort l). rewrite qinsert_sum, IH. reflexivity.
Qed.

Lemma sorted_nth s : sorted s -> forall i j, (i <= j < length s)%nat -> nth i s 0 <= nth j s 0.
Proof.
  induction s as [| a s IH]; intros Hs i j Hij; cbn [length] in Hij; [lia |].
  destruct Hs as [Ha Hs]. destruct i as [| i], j as [| j]; cbn [nth]; try lia.
  - apply Qle_refl.
  - apply Ha, nth_In. lia.
  - apply IH; [exact Hs | lia].
Qed.

(* ------------------------------------------------------------------ *)
(* the interpolant is monotone                                         *)
(* ------------------------------------------------------------------ *)

Lemma lerp_between a b t : a <= b -> 0 <= t -> t <= 1 -> a <= lerp a b t /\ lerp a b t <= b.
Proof. unfold lerp. intros. split; nra. Qed.

Lemma lerp_mono a b t t' : a <= b -> t <= t' -> lerp a b t <= lerp a b t'.
Proof. unfold lerp. intros. nra. Qed.

Lemma Qfloor_0 : Qfloor 0 = 0%Z.
Proof. reflexivity. Qed.

(* previous index k = floor h, gamma = h - k, for a virtual index inside [0, m1) *)
Lemma floor_facts h m1 :
  0 <= h -> h < inject_nat m1 ->
  (S (Z.to_nat (Qfloor h)) <= m1)%nat /\ (0 <= Qfloor h)%Z /\
  0 <= h - inject_Z (Qfloor h) /\ h - inject_Z (Qfloor h) <= 1.
Proof.
  intros H0 H1.
  assert (Hf : (0 <= Qfloor h)%Z) by (rewrite <- Qfloor_0; apply Qfloor_resp_le, H0).
  pose proof (Qfloor_le h) as Hle. pose proof (Qlt_floor h) as Hlt.
  rewrite inject_Z_plus in Hlt.
  assert (Hk : (Qfloor h < Z.of_nat m1)%Z).
  { apply inject_Z_lt. eapply Qle_lt_trans; [exact Hle | exact H1]. }
  repeat split; try lia; try lra.
  change (inject_Z 1) with 1 in Hlt. lra.
Qed.

Lemma interp_piece s h :
  sorted s -> 0 <= h -> h < inject_nat (length s - 1) ->
  let k := Z.to_nat (Qfloor h) in
  interp s h = lerp (nth k s 0) (nth (S k) s 0) (h - inject_Z (Qfloor h)) /\
  nth k s 0 <= interp s h /\ interp s h <= nth (S k) s 0.
Proof.
  intros Hs H0 H1 k.
  destruct (floor_facts h _ H0 H1) as (Hk & Hf & Hg0 & Hg1). fold k in Hk.
  assert (E : interp s h = lerp (nth k s 0) (nth (S k) s 0) (h - inject_Z (Qfloor h))).
  { unfold interp.
    destruct (Qltb h 0) eqn:E1; [apply Qltb_true in E1; lra |].
    destruct (Qleb (inject_nat (length s - 1)) h) eqn:E2; [apply Qleb_true in E2; lra |].
    reflexivity. }
  split; [exact E |]. rewrite E.
  apply lerp_between; [apply sorted_nth; [exact Hs | lia] | exact Hg0 | exact Hg1].
Qed.

Lemma interp_bounds s h :
  sorted s -> s <> [] -> nth 0 s 0 <= interp s h /\ interp s h <= nth (length s - 1) s 0.
Proof.
  intros Hs Hne.
  assert (Hl : (0 < length s)%nat) by (destruct s; [congruence | cbn; lia]).
  destruct (Qltb h 0) eqn:E1.
  - unfold interp. rewrite E1. split; [apply Qle_refl | apply sorted_nth; [exact Hs | lia]].
  - destruct (Qleb (inject_nat (length s - 1)) h) eqn:E2.
    + unfold interp. rewrite E1, E2. split; [apply sorted_nth; [exact Hs | lia] | apply Qle_refl].
    + apply Qltb_false in E1. apply Qleb_false in E2.
      destruct (interp_piece s h Hs E1 E2) as (_ & Ha & Hb).
      destruct (floor_facts h _ E1 E2) as (Hk & _).
      split.
      * eapply Qle_trans; [| exact Ha]. apply sorted_nth; [exact Hs | lia].
      * eapply Qle_trans; [exact Hb |]. apply sorted_nth; [exact Hs | lia].
Qed.

Lemma interp_mono s h h' : sorted s -> s <> [] -> h <= h' -> interp s h <= interp s h'.
Proof.
  intros Hs Hne Hh.
  destruct (Qltb h 0) eqn:E1.
  - replace (interp s h) with (nth 0 s 0) by (unfold interp; now rewrite E1).
    apply interp_bounds; assumption.
  - apply Qltb_false in E1.
    destruct (Qleb (inject_nat (length s - 1)) h') eqn:E2'.
    + replace (interp s h') with (nth (length s - 1) s 0).
      * apply interp_bounds; assumption.
      * unfold interp. rewrite E2'.
        destruct (Qltb h' 0) eqn:E1'; [apply Qltb_true in E1'; lra | reflexivity].
    + apply Qleb_false in E2'.
      assert (H0' : 0 <= h') by lra.
      assert (H1 : h < inject_nat (length s - 1)) by lra.
      destruct (interp_piece s h Hs E1 H1) as (Eh & Ha & Hb).
      destruct (interp_piece s h' Hs H0' E2') as (Eh' & Ha' & Hb').
      destruct (floor_facts h _ E1 H1) as (Hk & Hf & _).
      destruct (floor_facts h' _ H0' E2') as (Hk' & Hf' & _).
      pose proof (Qfloor_resp_le _ _ Hh) as Hff.
      destruct (Z.eq_dec (Qfloor h) (Qfloor h')) as [Eq | Ne].
      * rewrite Eh, Eh', Eq. apply lerp_mono; [| lra].
        apply sorted_nth; [exact Hs | lia].
      * eapply Qle_trans; [exact Hb |]. eapply Qle_trans; [| exact Ha'].
        apply sorted_nth; [exact Hs | lia].
Qed.

(* ★ quantile_monotone *)
Theorem qquantile_monotone q q' vs : vs <> [] -> q <= q' -> qquantile q vs <= qquantile q' vs.
Proof.
  intros Hne Hq. unfold qquantile. apply interp_mono.
  - apply qsort_sorted.
  - intros E. apply (f_equal (@length Q)) in E. rewrite qsort_length in E.
    destruct vs; [congruence | discriminate].
  - pose proof (inject_nat_nonneg (length vs - 1)). nra.
Qed.

Lemma qquantile_bounds q vs :
  vs <> [] ->
  nth 0 (qsort vs) 0 <= qquantile q vs /\ qquantile q vs <= nth (length vs - 1) (qsort vs) 0.
Proof.
  intros Hne. unfold qquantile.
  assert (Hs : qsort vs <> []).
  { intros E. apply (f_equal (@length Q)) in E. rewrite qsort_length in E.
    destruct vs; [congruence | discriminate]. }
  pose proof (interp_bounds (qsort vs) (inject_nat (length vs - 1) * q) (qsort_sorted vs) Hs) as H.
  rewrite qsort_length in H. exact H.
Qed.

(* ★ constant_metric, at the level of one cell *)
Theorem qquantile_constant q vs c :
  vs <> [] -> (forall v, In v vs -> v == c) -> qquantile q vs == c.
Proof.
  intros Hne Hc.
  assert (Hl : (0 < length vs)%nat) by (destruct vs; [congruence | cbn; lia]).
  destruct (qquantile_bounds q vs Hne) as [Hlo Hhi].
  assert (H0 : nth 0 (qsort vs) 0 == c).
  { apply Hc, qsort_In, nth_In. rewrite qsort_length. lia. }
  assert (H1 : nth (length vs - 1) (qsort vs) 0 == c).
  { apply Hc, qsort_In, nth_In. rewrite qsort_length. lia. }
  apply Qle_antisym; lra.
Qed.

(* ------------------------------------------------------------------ *)
(* a wide pair of quantiles brackets the mean                          *)
(* ------------------------------------------------------------------ *)

Lemma sum_ge_first_two s :
  sorted s -> (2 <= length s)%nat ->
  inject_nat (length s) * (nth 0 s 0 + nth 1 s 0) <= 2 * qsum s.
Proof.
  intros Hs Hl. destruct s as [| a [| b r]]; cbn [length] in Hl; try lia.
  cbn [nth qsum]. destruct Hs as [Ha [Hb Hr]].
  assert (Hab : a <= b) by (apply Ha; left; reflexivity).
  assert (Hsum : inject_nat (length r) * b <= qsum r).
  { clear Ha Hl Hr. induction r as [| x r IH]; cbn [length qsum].
    - change (inject_nat 0) with 0. lra.
    - rewrite inject_nat_S.
      assert (b <= x) by (apply Hb; left; reflexivity).
      assert (inject_nat (length r) * b <= qsum r) by (apply IH; intros y Hy; apply Hb; right; exact Hy).
      lra. }
  cbn [length]. rewrite !inject_nat_S.
  pose proof (inject_nat_nonneg (length r)). nra.
Qed.

Lemma sum_le_last_two s :
  sorted s -> (2 <= length s)%nat ->
  2 * qsum s <= inject_nat (length s) * (nth (length s - 2) s 0 + nth (length s - 1) s 0).
Proof.
  induction s as [| x r IH]; intros Hs Hl; cbn [length] in Hl; [lia |].
  destruct Hs as [Hx Hr].
  destruct (Nat.eq_dec (length r) 1) as [E1 | N1].
  - destruct r as [| b [| ? ?]]; cbn [length] in E1; try lia.
    cbn [length nth qsum Nat.sub]. change (inject_nat 2) with 2. lra.
  - assert (Hl2 : (2 <= length r)%nat) by lia.
    specialize (IH Hr Hl2).
    replace (length (x :: r) - 2)%nat with (S (length r - 2)) by (cbn [length]; lia).
    replace (length (x :: r) - 1)%nat with (S (length r - 1)) by (cbn [length]; lia).
    cbn [nth qsum length]. rewrite inject_nat_S.
    assert (x <= nth (length r - 2) r 0) by (apply Hx, nth_In; lia).
    assert (x <= nth (length r - 1) r 0) by (apply Hx, nth_In; lia).
    lra.
Qed.

(* below 1/(2(m-1)) the quantile is at most the midpoint of the two smallest values *)
Lemma low_quantile_le_mid s q :
  sorted s -> (2 <= length s)%nat -> 0 <= q -> q * (2 * inject_nat (length s - 1)) <= 1 ->
  interp s (inject_nat (length s - 1) * q) <= (nth 0 s 0 + nth 1 s 0) / 2.
Proof.
  intros Hs Hl Hq0 Hq.
  set (M := inject_nat (length s - 1)) in *.
  assert (HM : 1 <= M).
  { unfold M. change 1 with (inject_nat 1). apply inject_nat_le. lia. }
  assert (H0 : 0 <= M * q) by nra.
  assert (Hh : M * q <= (1 # 2)).
  { assert (Hr : q * (2 * M) == 2 * (M * q)) by ring. rewrite Hr in Hq. lra. }
  assert (H1 : M * q < M) by lra.
  destruct (interp_piece s (M * q) Hs H0 H1) as (E & _).
  destruct (floor_facts (M * q) _ H0 H1) as (_ & Hf & Hg0 & Hg1).
  assert (Hz : Qfloor (M * q) = 0%Z).
  { pose proof (Qfloor_le (M * q)) as Hle.
    assert (inject_Z (Qfloor (M * q)) < inject_Z 1) by (change (inject_Z 1) with 1; lra).
    apply inject_Z_lt in H. lia. }
  rewrite E, Hz. cbn [Z.to_nat]. change (inject_Z 0) with 0.
  assert (Hab : nth 0 s 0 <= nth 1 s 0) by (apply sorted_nth; [exact Hs | lia]).
  unfold lerp. apply Qle_shift_div_l; [lra |]. nra.
Qed.

(* from 1 - 1/(2(m-1)) on the quantile is at least the midpoint of the two largest values *)
Lemma high_quantile_ge_mid s q :
  sorted s -> (2 <= length s)%nat -> (1 - q) * (2 * inject_nat (length s - 1)) <= 1 ->
  (nth (length s - 2) s 0 + nth (length s - 1) s 0) / 2 <= interp s (inject_nat (length s - 1) * q).
Proof.
  intros Hs Hl Hq.
  set (M := inject_nat (length s - 1)) in *.
  assert (HM : 1 <= M).
  { unfold M. change 1 with (inject_nat 1). apply inject_nat_le. lia. }
  assert (Hab : nth (length s - 2) s 0 <= nth (length s - 1) s 0) by (apply sorted_nth; [exact Hs | lia]).
  assert (Hh : M - (1 # 2) <= M * q).
  { assert (Hr : (1 - q) * (2 * M) == 2 * M - 2 * (M * q)) by ring. rewrite Hr in Hq. lra. }
  destruct (Qleb M (M * q)) eqn:E2.
  - unfold interp. fold M. rewrite E2. apply Qleb_true in E2.
    destruct (Qltb (M * q) 0) eqn:E1; [apply Qltb_true in E1; lra |].
    apply Qle_shift_div_r; [lra |]. lra.
  - apply Qleb_false in E2.
    assert (H0 : 0 <= M * q) by lra.
    destruct (interp_piece s (M * q) Hs H0 E2) as (E & _).
    destruct (floor_facts (M * q) _ H0 E2) as (Hk & Hf & Hg0 & Hg1).
    assert (Hz : Qfloor (M * q) = Z.of_nat (length s - 2)).
    { pose proof (Qfloor_le (M * q)) as Hle. pose proof (Qlt_floor (M * q)) as Hlt.
      assert (HM2 : M == inject_Z (Z.of_nat (length s - 2)) + 1).
      { unfold M. replace (length s - 1)%nat with (S (length s - 2)) by lia.
        rewrite inject_nat_S. reflexivity. }
      assert (A : inject_Z (Z.of_nat (length s - 2)) < inject_Z (Qfloor (M * q) + 1)) by lra.
      apply inject_Z_lt in A.
      assert (B : inject_Z (Qfloor (M * q)) < inject_Z (Z.of_nat (length s - 2) + 1)).
      { rewrite inject_Z_plus. change (inject_Z 1) with 1. lra. }
      apply inject_Z_lt in B. lia. }
    rewrite E, Hz, Nat2Z.id.
    replace (S (length s - 2)) with (length s - 1)%nat by lia.
    assert (HM2 : M == inject_Z (Z.of_nat (length s - 2)) + 1).
    { unfold M. replace (length s - 1)%nat with (S (length s - 2)) by lia.
      rewrite inject_nat_S. reflexivity. }
    unfold lerp. apply Qle_shift_div_r; [lra |]. nra.
Qed.

(* ★ quantile_brackets_mean *)
Theorem quantile_brackets_mean q q' vs :
  (2 <= length vs)%nat ->
  0 <= q -> q * (2 * inject_nat (length vs - 1)) <= 1 ->
  (1 - q') * (2 * inject_nat (length vs - 1)) <= 1 ->
  qquantile q vs <= qmean vs /\ qmean vs <= qquantile q' vs.
Proof.
  intros Hl Hq0 Hq Hq'.
  pose proof (qsort_sorted vs) as Hs.
  pose proof (qsort_length vs) as HL.
  assert (Hls : (2 <= length (qsort vs))%nat) by lia.
  assert (Hn : 0 < inject_nat (length vs)).
  { apply Qlt_le_trans with (inject_nat 2); [reflexivity | apply inject_nat_le; lia]. }
  pose proof (sum_ge_first_two _ Hs Hls) as HA.
  pose proof (sum_le_last_two _ Hs Hls) as HB.
  pose proof (low_quantile_le_mid (qsort vs) q Hs Hls Hq0) as HC.
  pose proof (high_quantile_ge_mid (qsort vs) q' Hs Hls) as HD.
  rewrite HL in HA, HB, HC, HD. rewrite qsort_sum in HA, HB.
  specialize (HC Hq). specialize (HD Hq').
  unfold qquantile, qmean.
  set (A := nth 0 (qsort vs) 0 + nth 1 (qsort vs) 0) in *.
  set (B := nth (length vs - 2) (qsort vs) 0 + nth (length vs - 1) (qsort vs) 0) in *.
  set (N := inject_nat (length vs)) in *.
  set (S := qsum vs) in *.
  assert (EA : A / 2 == A * (1 # 2)) by field.
  assert (EB : B / 2 == B * (1 # 2)) by field.
  split.
  - eapply Qle_trans; [exact HC |]. apply Qle_shift_div_l; [exact Hn |]. rewrite EA. nra.
  - eapply Qle_trans; [| exact HD]. apply Qle_shift_div_r; [exact Hn |]. rewrite EB. nra.
Qed.

(* positive width: as soon as two values differ, a wide pair of distinct quantiles is strictly ordered *)
Lemma sorted_in_bounds s e :
  sorted s -> In e s -> nth 0 s 0 <= e /\ e <= nth (length s - 1) s 0.
Proof.
  intros Hs Hin. destruct (In_nth _ _ 0 Hin) as (i & Hi & <-).
  split; apply sorted_nth; try exact Hs; lia.
Qed.

Lemma interp_two s h :
  sorted s -> length s = 2%nat -> 0 <= h -> h < 1 ->
  interp s h == nth 0 s 0 + (nth 1 s 0 - nth 0 s 0) * h.
Proof.
  intros Hs Hl H0 H1.
  assert (H1' : h < inject_nat (length s - 1)) by (rewrite Hl; exact H1).
  destruct (interp_piece s h Hs H0 H1') as (E & _).
  destruct (floor_facts h _ H0 H1') as (Hk & Hf & _).
  rewrite Hl in Hk. cbn [Nat.sub] in Hk.
  assert (Hz : Qfloor h = 0%Z) by lia.
  rewrite E, Hz. cbn [Z.to_nat]. unfold lerp. change (inject_Z 0) with 0. ring.
Qed.

Theorem quantile_width_positive q q' vs x y :
  (2 <= length vs)%nat -> In x vs -> In y vs -> x < y ->
  0 <= q -> q < q' ->
  q * (2 * inject_nat (length vs - 1)) <= 1 ->
  (1 - q') * (2 * inject_nat (length vs - 1)) <= 1 ->
  qquantile q vs < qquantile q' vs.
Proof.
  intros Hl Hx Hy Hxy Hq0 Hqq Hq Hq'.
  pose proof (qsort_sorted vs) as Hs.
  pose proof (qsort_length vs) as HL.
  assert (Hls : (2 <= length (qsort vs))%nat) by lia.
  apply qsort_In in Hx. apply qsort_In in Hy.
  destruct (sorted_in_bounds _ _ Hs Hx) as [Hx0 _].
  destruct (sorted_in_bounds _ _ Hs Hy) as [_ Hy1].
  rewrite HL in Hy1.
  pose proof (low_quantile_le_mid (qsort vs) q Hs Hls Hq0) as HC.
  pose proof (high_quantile_ge_mid (qsort vs) q' Hs Hls) as HD.
  rewrite HL in HC, HD. specialize (HC Hq). specialize (HD Hq').
  unfold qquantile.
  destruct (Nat.eq_dec (length vs) 2) as [E2 | N2].
  - rewrite E2 in *. cbn [Nat.sub] in *.
    assert (HL2 : length (qsort vs) = 2%nat) by lia.
    change (inject_nat 1) with 1 in *.
    assert (Hqh : q <= (1 # 2)) by lra.
    assert (Hq'h : (1 # 2) <= q') by lra.
    assert (E : interp (qsort vs) (1 * q) == nth 0 (qsort vs) 0 + (nth 1 (qsort vs) 0 - nth 0 (qsort vs) 0) * q).
    { rewrite (interp_two _ (1 * q) Hs HL2); [ring | lra | lra]. }
    rewrite E.
    remember (nth 0 (qsort vs) 0) as a eqn:Ea. remember (nth 1 (qsort vs) 0) as b eqn:Eb.
    assert (Hab : a < b) by lra.
    destruct (Qlt_le_dec q' 1) as [L | G].
    + assert (E' : interp (qsort vs) (1 * q') == a + (b - a) * q').
      { rewrite (interp_two _ (1 * q') Hs HL2); [rewrite <- Ea, <- Eb; ring | lra | lra]. }
      rewrite E'. nra.
    + assert (E' : interp (qsort vs) (1 * q') = b).
      { unfold interp. rewrite HL2. cbn [Nat.sub]. change (inject_nat 1) with 1.
        destruct (Qltb (1 * q') 0) eqn:T1; [apply Qltb_true in T1; lra |].
        destruct (Qleb 1 (1 * q')) eqn:T2; [exact (eq_sym Eb) | apply Qleb_false in T2; lra]. }
      rewrite E'. nra.
  - assert (H12 : nth 1 (qsort vs) 0 <= nth (length vs - 2) (qsort vs) 0)
      by (apply sorted_nth; [exact Hs | lia]).
    set (A := nth 0 (qsort vs) 0 + nth 1 (qsort vs) 0) in *.
    set (B := nth (length vs - 2) (qsort vs) 0 + nth (length vs - 1) (qsort vs) 0) in *.
    assert (EA : A / 2 == A * (1 # 2)) by field.
    assert (EB : B / 2 == B * (1 # 2)) by field.
    eapply Qle_lt_trans; [exact HC |]. eapply Qlt_le_trans; [| exact HD].
    rewrite EA, EB. unfold A, B. lra.
Qed.

(* ------------------------------------------------------------------ *)
(* cells (ext): NaN policy                                             *)
(* ------------------------------------------------------------------ *)

(* order on cells: NaN only against NaN, finite values by <= *)
Definition cell_le (x y : ext) : Prop :=
  match x, y with
  | NaN, NaN => True
  | Fin a, Fin b => a <= b
  | _, _ => False
  end.

Definition cell_is (c : Q) (x : ext) : Prop := match x with Fin v => v == c | _ => False end.

Lemma fins_cons_some l qs : l <> [] -> fins l = Some qs -> qs <> [].
Proof.
  destruct l as [| x l]; [congruence |]. intros _. cbn [fins].
  destruct x; try discriminate. destruct (fins l); [| discriminate].
  intros E. injection E as <-. discriminate.
Qed.

Lemma quantile_clean_mono q q' l qs :
  fins l = Some qs -> q <= q' -> cell_le (quantile_clean q l) (quantile_clean q' l).
Proof.
  intros Hf Hq. unfold quantile_clean. destruct l as [| x l]; [exact I |].
  rewrite Hf. cbn [cell_le]. apply qquantile_monotone; [| exact Hq].
  eapply fins_cons_some; [| exact Hf]. discriminate.
Qed.

Lemma strip_nan_id l : existsb ext_is_nan l = false -> strip_nan l = l.
Proof.
  induction l as [| x l IH]; [reflexivity |]. cbn [existsb strip_nan filter].
  intros H. apply orb_false_iff in H. destruct H as [Hx Hl]. rewrite Hx. cbn [negb].
  fold (strip_nan l). now rewrite IH.
Qed.

(* no infinity among the values: the cleaned list is a list of rationals *)
Lemma no_inf_fins l :
  (forall x, In x l -> ext_no_inf x = true) -> exists qs, fins (strip_nan l) = Some qs.
Proof.
  induction l as [| x l IH]; intros H; [exists []; reflexivity |].
  destruct IH as [qs Hqs]; [intros y Hy; apply H; right; exact Hy |].
  assert (Hx := H x (or_introl eq_refl)).
  cbn [strip_nan filter]. fold (strip_nan l).
  destruct x; cbn [ext_is_nan negb]; try discriminate.
  - cbn [fins]. rewrite Hqs. eexists; reflexivity.
  - exists qs. exact Hqs.
Qed.

Theorem np_nanquantile_monotone q q' l :
  (forall x, In x l -> ext_no_inf x = true) -> q <= q' ->
  cell_le (np_nanquantile q l) (np_nanquantile q' l).
Proof.
  intros H Hq. destruct (no_inf_fins l H) as [qs Hqs].
  unfold np_nanquantile. eapply quantile_clean_mono; eassumption.
Qed.

Theorem np_quantile_monotone q q' l :
  (forall x, In x l -> ext_no_inf x = true) -> q <= q' ->
  cell_le (np_quantile q l) (np_quantile q' l).
Proof.
  intros H Hq. unfold np_quantile. destruct (existsb ext_is_nan l) eqn:E; [exact I |].
  destruct (no_inf_fins l H) as [qs Hqs]. rewrite (strip_nan_id l E) in Hqs.
  eapply quantile_clean_mono; eassumption.
Qed.

(* constant cells *)
Lemma fins_const c l :
  Forall (cell_is c) l -> exists qs, fins l = Some qs /\ (forall v, In v qs -> v == c).
Proof.
  induction 1 as [| x l Hx Hl IH]; [exists []; split; [reflexivity | intros v []] |].
  destruct IH as (qs & E & Hc). destruct x; cbn [cell_is] in Hx; try contradiction.
  exists (q :: qs). cbn [fins]. rewrite E. split; [reflexivity |].
  intros v [<- | Hv]; [exact Hx | apply Hc, Hv].
Qed.

Lemma quantile_clean_const q c l :
  l <> [] -> Forall (cell_is c) l -> cell_is c (quantile_clean q l).
Proof.
  intros Hne Hc. destruct (fins_const c l Hc) as (qs & E & Hq).
  unfold quantile_clean. destruct l as [| x l]; [congruence |]. rewrite E. cbn [cell_is].
  apply qquantile_constant; [| exact Hq]. eapply fins_cons_some; [| exact E]. discriminate.
Qed.

Theorem np_quantile_constant q c l :
  l <> [] -> Forall (cell_is c) l -> cell_is c (np_quantile q l).
Proof.
  intros Hne Hc. unfold np_quantile.
  assert (E : existsb ext_is_nan l = false).
  { clear Hne. induction Hc as [| x l Hx Hl IH]; [reflexivity |]. cbn [existsb].
    destruct x; cbn [cell_is] in Hx; try contradiction. cbn [ext_is_nan orb]. exact IH. }
  rewrite E. apply quantile_clean_const; assumption.
Qed.

(* after alignment: cells are the constant or NaN (group absent from that resample) *)
Theorem np_nanquantile_constant q c l :
  Forall (fun x => x = NaN \/ cell_is c x) l ->
  (exists x, In x l /\ cell_is c x) -> cell_is c (np_nanquantile q l).
Proof.
  intros Hall (x0 & Hin & Hx0). unfold np_nanquantile. apply quantile_clean_const.
  - intros E. assert (Hm : In x0 (strip_nan l)).
    { apply filter_In. split; [exact Hin |]. destruct x0; cbn [cell_is] in Hx0; try contradiction. reflexivity. }
    rewrite E in Hm. exact Hm.
  - apply Forall_forall. intros x Hx. apply filter_In in Hx. destruct Hx as [Hx Hn].
    rewrite Forall_forall in Hall. destruct (Hall x Hx) as [-> | Hc]; [discriminate | exact Hc].
Qed.

Theorem np_nanquantile_all_nan q l :
  Forall (fun x => x = NaN) l -> np_nanquantile q l = NaN.
Proof.
  intros H. unfold np_nanquantile.
  assert (E : strip_nan l = []).
  { induction H as [| x l -> Hl IH]; [reflexivity |]. cbn [strip_nan filter ext_is_nan negb]. exact IH. }
  rewrite E. reflexivity.
Qed.

(* ------------------------------------------------------------------ *)
(* index lemmas                                                        *)
(* ------------------------------------------------------------------ *)

Lemma seq_nat_length a n : length (seq_nat a n) = n.
Proof. revert a. induction n as [| n IH]; intros a; cbn; [reflexivity | now rewrite IH]. Qed.

Lemma seq_nat_nth a n j d : (j < n)%nat -> nth j (seq_nat a n) d = (a + j)%nat.
Proof.
  revert a j. induction n as [| n IH]; intros a j Hj; [lia |].
  destruct j as [| j]; cbn [seq_nat nth]; [lia |]. rewrite IH; lia.
Qed.

Lemma key_cmp_eq a b : key_cmp a b = Eq -> a = b.
Proof.
  revert b. induction a as [| x a IH]; intros [| y b]; cbn [key_cmp]; try discriminate; [reflexivity |].
  destruct (Z.compare x y) eqn:E; try discriminate.
  intros H. apply Z.compare_eq in E. subst y. f_equal. apply IH, H.
Qed.

Lemma kinsert_In x l y : In y (kinsert x l) <-> y = x \/ In y l.
Proof.
  induction l as [| a l IH]; cbn [kinsert]; [cbn; intuition |].
  destruct (key_cmp x a) eqn:E; cbn [In].
  - apply key_cmp_eq in E. subst a. intuition.
  - intuition.
  - rewrite IH. intuition.
Qed.

Lemma kuniq_In l y : In y (kuniq l) <-> In y l.
Proof.
  induction l as [| a l IH]; cbn [kuniq fold_right In]; [tauto |].
  fold (kuniq l). rewrite kinsert_In, IH. intuition.
Qed.

(* the aligned index is exactly the set of keys that occur in at least one sample *)
Theorem union_index_spec fs k :
  In k (union_index fs) <-> exists f, In f fs /\ In k (map fst f).
Proof.
  unfold union_index. rewrite kuniq_In, in_flat_map. reflexivity.
Qed.

Lemma assoc_In {V} k (f : list (list Z * V)) v : assoc k f = Some v -> exists k', In (k', v) f.
Proof.
  induction f as [| [k' v'] f IH]; cbn [assoc]; [discriminate |].
  destruct (key_eqb k k').
  - intros E. injection E as <-. exists k'. left. reflexivity.
  - intros E. destruct (IH E) as [k'' H]. exists k''. right. exact H.
Qed.

Lemma Forall2_map_same {A B} (R : B -> B -> Prop) (f g : A -> B) l :
  (forall x, In x l -> R (f x) (g x)) -> Forall2 R (map f l) (map g l).
Proof.
  induction l as [| a l IH]; intros H; cbn [map]; constructor.
  - apply H. left. reflexivity.
  - apply IH. intros x Hx. apply H. right. exact Hx.
Qed.

(* ------------------------------------------------------------------ *)
(* calculate_pandas_quantiles: shape                                   *)
(* ------------------------------------------------------------------ *)

(* ★ ci_shape (1): one entry per requested quantile *)
Theorem calc_quantiles_length qs ncols samples : length (calc_quantiles qs ncols samples) = length qs.
Proof. unfold calc_quantiles. apply map_length. Qed.

Definition is_frame_list (samples : list result) : Prop :=
  match samples with RF _ :: _ => True | _ => False end.

(* ★ ci_shape (2): Series samples give a Series with one cell per metric *)
Theorem calc_quantile1_shape_series ncols samples q :
  ~ is_frame_list samples ->
  exists s, calc_quantile1 ncols samples q = RS s /\ length s = ncols.
Proof.
  intros H. unfold calc_quantile1.
  destruct samples as [| [s0 | f0] rest]; try (exfalso; apply H; exact I);
    eexists; (split; [reflexivity | rewrite map_length; apply seq_nat_length]).
Qed.

(* ★ ci_shape (3): DataFrame samples give a DataFrame whose index is the aligned (union) index
   and whose rows have one cell per metric *)
Theorem calc_quantile1_shape_frame ncols samples q :
  is_frame_list samples ->
  exists f, calc_quantile1 ncols samples q = RF f /\
            map fst f = union_index (map as_frame samples) /\
            Forall (fun kr => length (snd kr) = ncols) f.
Proof.
  intros H. unfold calc_quantile1.
  destruct samples as [| [s0 | f0] rest]; try contradiction.
  eexists. split; [reflexivity |]. split.
  - rewrite map_map. cbn [fst]. apply map_id.
  - apply Forall_forall. intros kr Hkr. apply in_map_iff in Hkr. destruct Hkr as (k & <- & _).
    cbn [snd]. rewrite map_length. apply seq_nat_length.
Qed.

(* the index does not depend on the quantile: all entries have the same index *)
Corollary calc_quantile1_same_index ncols samples q q' f f' :
  calc_quantile1 ncols samples q = RF f -> calc_quantile1 ncols samples q' = RF f' ->
  map fst f = map fst f'.
Proof.
  unfold calc_quantile1. destruct samples as [| [s0 | f0] rest]; try discriminate.
  intros E E'. injection E as <-. injection E' as <-. rewrite !map_map. reflexivity.
Qed.

(* ------------------------------------------------------------------ *)
(* calculate_pandas_quantiles: entries are monotone in the quantile    *)
(* ------------------------------------------------------------------ *)

Definition result_le (r r' : result) : Prop :=
  match r, r' with
  | RS s, RS s' => Forall2 cell_le s s'
  | RF f, RF f' => Forall2 (fun kr kr' => fst kr = fst kr' /\ Forall2 cell_le (snd kr) (snd kr')) f f'
  | _, _ => False
  end.

Lemma nth_no_inf s j : forallb ext_no_inf s = true -> ext_no_inf (nth j s NaN) = true.
Proof.
  revert j. induction s as [| x s IH]; intros j H; [destruct j; reflexivity |].
  cbn [forallb] in H. apply andb_true_iff in H. destruct H as [Hx Hs].
  destruct j; cbn [nth]; [exact Hx | apply IH, Hs].
Qed.

Lemma nan_row_no_inf n : forallb ext_no_inf (nan_row n) = true.
Proof. unfold nan_row. induction n; cbn; [reflexivity | assumption]. Qed.

Lemma series_cell_no_inf samples j x :
  samples_no_inf samples = true -> In x (series_cell samples j) -> ext_no_inf x = true.
Proof.
  unfold samples_no_inf, series_cell. intros H Hx. apply in_map_iff in Hx.
  destruct Hx as (r & <- & Hr). rewrite forallb_forall in H. specialize (H r Hr).
  destruct r as [s | f]; cbn [as_series result_no_inf] in *.
  - apply nth_no_inf, H.
  - destruct j; reflexivity.
Qed.

Lemma aligned_cell_no_inf ncols samples k j x :
  samples_no_inf samples = true -> In x (aligned_cell ncols (map as_frame samples) k j) ->
  ext_no_inf x = true.
Proof.
  unfold samples_no_inf, aligned_cell. intros H Hx. rewrite map_map in Hx. apply in_map_iff in Hx.
  destruct Hx as (r & <- & Hr). rewrite forallb_forall in H. specialize (H r Hr).
  apply nth_no_inf. unfold lookup_row.
  destruct (assoc k (as_frame r)) as [row |] eqn:E; [| apply nan_row_no_inf].
  destruct (assoc_In _ _ _ E) as [k' Hin].
  destruct r as [s | f]; cbn [as_frame result_no_inf] in *; [contradiction |].
  rewrite forallb_forall in H. apply (H _ Hin).
Qed.

(* ★ element-wise non-decreasing in the quantile (NaN cells stay NaN, indices coincide) *)
Theorem calc_quantile1_monotone ncols samples q q' :
  samples_no_inf samples = true -> q <= q' ->
  result_le (calc_quantile1 ncols samples q) (calc_quantile1 ncols samples q').
Proof.
  intros Hni Hq. unfold calc_quantile1.
  assert (HS : Forall2 cell_le
                 (map (fun j => np_quantile q (series_cell samples j)) (seq_nat 0 ncols))
                 (map (fun j => np_quantile q' (series_cell samples j)) (seq_nat 0 ncols))).
  { apply Forall2_map_same. intros j _. apply np_quantile_monotone; [| exact Hq].
    intros x Hx. eapply series_cell_no_inf; eassumption. }
  destruct samples as [| [s0 | f0] rest]; cbn [result_le]; try exact HS.
  apply Forall2_map_same. intros k _. cbn [fst snd]. split; [reflexivity |].
  apply Forall2_map_same. intros j _. apply np_nanquantile_monotone; [| exact Hq].
  intros x Hx. eapply aligned_cell_no_inf; eassumption.
Qed.

(* for a list of requested quantiles: entry i is below entry i' whenever q_i <= q_i' *)
Corollary calc_quantiles_monotone qs ncols samples i i' :
  samples_no_inf samples = true -> (i < length qs)%nat -> (i' < length qs)%nat ->
  nth i qs 0 <= nth i' qs 0 ->
  result_le (nth i (calc_quantiles qs ncols samples) (RS [])) (nth i' (calc_quantiles qs ncols samples) (RS [])).
Proof.
  intros Hni Hi Hi' Hq. unfold calc_quantiles.
  rewrite (nth_indep _ (RS []) (calc_quantile1 ncols samples 0)) by (rewrite map_length; exact Hi).
  rewrite (nth_indep (map _ qs) (RS []) (calc_quantile1 ncols samples 0)) by (rewrite map_length; exact Hi').
  rewrite !map_nth. apply calc_quantile1_monotone; assumption.
Qed.

(* ------------------------------------------------------------------ *)
(* constant metrics                                                    *)
(* ------------------------------------------------------------------ *)

Lemma nth_map_seq {A} (g : nat -> A) n j d : (j < n)%nat -> nth j (map g (seq_nat 0 n)) d = g j.
Proof.
  intros Hj. rewrite (nth_indep _ d (g 0%nat)) by (rewrite map_length, seq_nat_length; exact Hj).
  rewrite map_nth. now rewrite seq_nat_nth.
Qed.

(* ★ constant_metric, Series results (overall without control features, group_min ... ) *)
Theorem calc_series_constant ncols samples q j c :
  samples <> [] -> (j < ncols)%nat ->
  (forall r, In r samples -> exists s, r = RS s /\ cell_is c (nth j s NaN)) ->
  exists s, calc_quantile1 ncols samples q = RS s /\ cell_is c (nth j s NaN).
Proof.
  intros Hne Hj Hall.
  assert (Hnf : ~ is_frame_list samples).
  { destruct samples as [| [s0 | f0] rest]; cbn; try tauto.
    destruct (Hall (RF f0) (or_introl eq_refl)) as (s & E & _). discriminate. }
  destruct samples as [| r0 rest]; [congruence |].
  assert (E : calc_quantile1 ncols (r0 :: rest) q =
              RS (map (fun j => np_quantile q (series_cell (r0 :: rest) j)) (seq_nat 0 ncols))).
  { destruct r0; [reflexivity | exfalso; apply Hnf; exact I]. }
  rewrite E. eexists. split; [reflexivity |]. rewrite nth_map_seq by exact Hj.
  apply np_quantile_constant; [discriminate |].
  unfold series_cell. apply Forall_forall. intros x Hx. apply in_map_iff in Hx.
  destruct Hx as (r & <- & Hr). destruct (Hall r Hr) as (s & -> & Hc). exact Hc.
Qed.

Lemma nan_or_const_dec c l :
  Forall (fun x => x = NaN \/ cell_is c x) l ->
  Forall (fun x => x = NaN) l \/ exists x, In x l /\ cell_is c x.
Proof.
  induction 1 as [| x l Hx Hl IH]; [left; constructor |].
  destruct Hx as [-> | Hc].
  - destruct IH as [IH | (y & Hy & Hc)]; [left; constructor; [reflexivity | exact IH] |].
    right. exists y. split; [right; exact Hy | exact Hc].
  - right. exists x. split; [left; reflexivity | exact Hc].
Qed.

(* ★ constant_metric, DataFrame results after alignment: a cell is the constant as soon as the
   group occurs in one resample, NaN otherwise *)
Theorem calc_frame_constant ncols samples q j c :
  is_frame_list samples -> (j < ncols)%nat ->
  (forall r k, In r samples ->
     let x := nth j (lookup_row ncols k (as_frame r)) NaN in x = NaN \/ cell_is c x) ->
  exists f, calc_quantile1 ncols samples q = RF f /\
    forall k row, In (k, row) f ->
      let cell := aligned_cell ncols (map as_frame samples) k j in
      (Forall (fun x => x = NaN) cell /\ nth j row NaN = NaN) \/
      ((exists x, In x cell /\ cell_is c x) /\ cell_is c (nth j row NaN)).
Proof.
  intros Hf Hj Hall. unfold calc_quantile1.
  destruct samples as [| [s0 | f0] rest]; try contradiction.
  eexists. split; [reflexivity |]. intros k row Hin. apply in_map_iff in Hin.
  destruct Hin as (k' & E & _). injection E as <- <-. cbn zeta.
  rewrite nth_map_seq by exact Hj.
  set (cell := aligned_cell ncols (map as_frame (RF f0 :: rest)) k' j).
  assert (Hc : Forall (fun x => x = NaN \/ cell_is c x) cell).
  { unfold cell, aligned_cell. rewrite map_map. apply Forall_forall. intros x Hx.
    apply in_map_iff in Hx. destruct Hx as (r & <- & Hr). apply (Hall r k' Hr). }
  destruct (nan_or_const_dec c cell Hc) as [Hn | Hex].
  - left. split; [exact Hn | apply np_nanquantile_all_nan, Hn].
  - right. split; [exact Hex | apply np_nanquantile_constant; assumption].
Qed.

(* ------------------------------------------------------------------ *)
(* resamples                                                           *)
(* ------------------------------------------------------------------ *)

(* ★ resample_size *)
Theorem resample_length rows idx : length (resample rows idx) = length idx.
Proof. unfold resample. apply map_length. Qed.

Theorem resample_rows_in rows idx :
  valid_resample (length rows) idx -> Forall (fun r => In r rows) (resample rows idx).
Proof.
  intros [_ H]. unfold resample. apply Forall_forall. intros r Hr. apply in_map_iff in Hr.
  destruct Hr as (i & <- & Hi). rewrite Forall_forall in H. apply nth_In, H, Hi.
Qed.

Theorem count_resample rows n idx :
  valid_resample n idx -> m_count (resample rows idx) = Fin (inject_nat n).
Proof. intros [H _]. unfold m_count. now rewrite resample_length, H. Qed.

Theorem resample_size rows idx :
  valid_resample (length rows) idx ->
  length (resample rows idx) = length rows /\ Forall (fun r => In r rows) (resample rows idx) /\
  m_count (resample rows idx) = Fin (inject_nat (length rows)).
Proof.
  intros H. split; [rewrite resample_length; apply H |].
  split; [apply resample_rows_in, H | apply count_resample, H].
Qed.

Lemma valid_resampleb_spec n idx : valid_resampleb n idx = true <-> valid_resample n idx.
Proof.
  unfold valid_resampleb, valid_resample. rewrite andb_true_iff, Nat.eqb_eq, forallb_forall, Forall_forall.
  split; intros [H1 H2]; (split; [exact H1 |]); intros i Hi; apply Nat.ltb_lt || apply Nat.ltb_lt; apply H2, Hi.
Qed.

Lemma nth_apply_to ms rows j : nth j (apply_to ms rows) NaN = (nth j ms (fun _ => NaN)) rows.
Proof.
  unfold apply_to. change NaN with ((fun m : metric => m rows) (fun _ => NaN)) at 1.
  now rewrite map_nth.
Qed.

(* ★ constant_metric for MetricFrame.overall_ci (no control features): a metric whose value is c on
   every resample has every quantile equal to c *)
Theorem overall_ci_constant ms nsf qs rows idxs j c :
  idxs <> [] -> (j < length ms)%nat ->
  (forall idx, In idx idxs -> cell_is c ((nth j ms (fun _ => NaN)) (resample rows idx))) ->
  forall r, In r (ci_overall (populate_ci ms 0 nsf qs rows idxs)) ->
  exists s, r = RS s /\ cell_is c (nth j s NaN).
Proof.
  intros Hne Hj Hc r Hr. cbn [populate_ci ci_overall] in Hr. unfold calc_quantiles in Hr.
  apply in_map_iff in Hr. destruct Hr as (q & <- & _).
  apply calc_series_constant; [| exact Hj |].
  - destruct idxs; [congruence | discriminate].
  - intros r Hr. unfold boot in Hr. rewrite map_map in Hr. apply in_map_iff in Hr.
    destruct Hr as (idx & <- & Hidx). cbn [create d_overall Nat.eqb].
    eexists. split; [reflexivity |]. rewrite nth_apply_to. apply Hc, Hidx.
Qed.

(* ★ resample_size, at the level of the intervals: the overall count is n at every quantile *)
Theorem overall_count_ci ms nsf qs rows idxs j n :
  idxs <> [] -> (j < length ms)%nat -> nth j ms (fun _ => NaN) = m_count ->
  Forall (valid_resample n) idxs ->
  forall r, In r (ci_overall (populate_ci ms 0 nsf qs rows idxs)) ->
  exists s, r = RS s /\ cell_is (inject_nat n) (nth j s NaN).
Proof.
  intros Hne Hj Hm Hv. apply overall_ci_constant; [exact Hne | exact Hj |].
  intros idx Hidx. rewrite Hm. rewrite Forall_forall in Hv.
  rewrite (count_resample rows n idx (Hv idx Hidx)). cbn [cell_is]. reflexivity.
Qed.

(* ★ ci_shape for by_group_ci: one entry per quantile; every entry is a frame over the groups
   that occur in the by_group frame of at least one resample, one cell per metric *)
Theorem by_group_ci_shape ms ncf nsf qs rows idxs :
  idxs <> [] ->
  let c := populate_ci ms ncf nsf qs rows idxs in
  length (ci_by_group c) = length qs /\
  forall r, In r (ci_by_group c) ->
    exists f, r = RF f /\
      (forall k, In k (map fst f) <->
         exists idx, In idx idxs /\ In k (map fst (d_by_group (create ms ncf nsf (resample rows idx))))) /\
      Forall (fun kr => length (snd kr) = length ms) f.
Proof.
  intros Hne c. unfold c. cbn [populate_ci ci_by_group]. split; [apply calc_quantiles_length |].
  intros r Hr. unfold calc_quantiles in Hr. apply in_map_iff in Hr. destruct Hr as (q & <- & _).
  set (samples := map (fun d => RF (d_by_group d)) (boot ms ncf nsf rows idxs)).
  assert (Hfl : is_frame_list samples).
  { unfold samples, boot. destruct idxs; [congruence | exact I]. }
  destruct (calc_quantile1_shape_frame (length ms) samples q Hfl) as (f & E & Hidx & Hlen).
  exists f. split; [exact E |]. split; [| exact Hlen].
  intros k. rewrite Hidx, union_index_spec. unfold samples, boot. rewrite !map_map. cbn [as_frame].
  split.
  - intros (fr & Hfr & Hk). apply in_map_iff in Hfr. destruct Hfr as (idx & <- & Hi).
    exists idx. split; assumption.
  - intros (idx & Hi & Hk). eexists. split; [apply in_map_iff; exists idx; split; [reflexivity | exact Hi] | exact Hk].
Qed.

(* ★ monotone, for all eight cached interval lists at once *)
Definition all_lists (c : ci) : list (list result) :=
  [ci_overall c; ci_by_group c; ci_group_min c; ci_group_max c;
   ci_difference c; ci_ratio c; ci_difference_to c; ci_ratio_to c].

Definition sample_lists (ms : list metric) (ncf nsf : nat) (rows : list row) (idxs : list (list nat))
  : list (list result) :=
  let ncols := length ms in
  let bs := boot ms ncf nsf rows idxs in
  [map d_overall bs; map (fun d => RF (d_by_group d)) bs;
   map (apply_grouping false ncf ncols) bs; map (apply_grouping true ncf ncols) bs;
   map (difference false ncf ncols) bs; map (ratio false ncf ncols) bs;
   map (difference true ncf ncols) bs; map (ratio true ncf ncols) bs].

Lemma all_lists_populate ms ncf nsf qs rows idxs :
  all_lists (populate_ci ms ncf nsf qs rows idxs) =
  map (calc_quantiles qs (length ms)) (sample_lists ms ncf nsf rows idxs).
Proof. reflexivity. Qed.

Theorem populate_ci_monotone ms ncf nsf qs rows idxs t i i' :
  (t < 8)%nat -> nth t (no_inf_flags ms ncf nsf rows idxs) false = true ->
  (i < length qs)%nat -> (i' < length qs)%nat -> nth i qs 0 <= nth i' qs 0 ->
  let l := nth t (all_lists (populate_ci ms ncf nsf qs rows idxs)) [] in
  result_le (nth i l (RS [])) (nth i' l (RS [])).
Proof.
  intros Ht Hf Hi Hi' Hq l. unfold l. rewrite all_lists_populate.
  rewrite (nth_indep _ [] (calc_quantiles qs (length ms) [])) by (rewrite map_length; exact Ht).
  rewrite map_nth. apply calc_quantiles_monotone; try assumption.
  unfold no_inf_flags in Hf. fold (sample_lists ms ncf nsf rows idxs) in Hf.
  rewrite (nth_indep _ false (samples_no_inf [])) in Hf by (rewrite map_length; exact Ht).
  rewrite map_nth in Hf. exact Hf.
Qed.

(* ★ deterministic: the intervals are a function of the data, the metrics, the quantiles and the
   resample positions (trivially: the model is a function); that two runs with the same integer
   seed draw the same positions is what the correspondence run checks. *)
Theorem populate_ci_deterministic ms ncf nsf qs rows idxs idxs' :
  idxs = idxs' -> populate_ci ms ncf nsf qs rows idxs = populate_ci ms ncf nsf qs rows idxs'.
Proof. intros ->. reflexivity. Qed.

(* ------------------------------------------------------------------ *)
(* the aligned index is part of the point estimate's index             *)
(* ------------------------------------------------------------------ *)

Lemma zinsert_In x l y : In y (zinsert x l) <-> y = x \/ In y l.
Proof.
  induction l as [| a l IH]; cbn [zinsert]; [cbn; intuition |].
  destruct (Z.ltb x a); [cbn [In]; intuition |].
  destruct (Z.eqb x a) eqn:E.
  - apply Z.eqb_eq in E. subst a. cbn [In]. intuition.
  - cbn [In]. rewrite IH. intuition.
Qed.

Lemma zuniq_In l y : In y (zuniq l) <-> In y l.
Proof.
  induction l as [| a l IH]; cbn [zuniq fold_right In]; [tauto |].
  fold (zuniq l). rewrite zinsert_In, IH. intuition.
Qed.

Lemma product_mono (ls ls' : list (list Z)) :
  Forall2 (fun a b => incl a b) ls ls' -> incl (product ls) (product ls').
Proof.
  induction 1 as [| a b ls ls' Hab Hrest IH]; [apply incl_refl |].
  intros k Hk. cbn [product] in *. apply in_flat_map in Hk. destruct Hk as (x & Hx & Hk).
  apply in_map_iff in Hk. destruct Hk as (k' & <- & Hk').
  apply in_flat_map. exists x. split; [apply Hab, Hx |]. apply in_map, IH, Hk'.
Qed.

Lemma apply_functions_index_mono ms nn kf rows rows' :
  incl rows' rows ->
  incl (map fst (apply_functions ms nn kf rows')) (map fst (apply_functions ms nn kf rows)).
Proof.
  intros Hinc. unfold apply_functions. rewrite !map_map. cbn [fst]. rewrite !map_id.
  assert (Hk : incl (map kf rows') (map kf rows)).
  { intros k Hk. apply in_map_iff in Hk. destruct Hk as (r & <- & Hr). apply in_map, Hinc, Hr. }
  destruct (Nat.ltb 1 nn).
  - apply product_mono. apply Forall2_map_same. intros j _ x Hx.
    rewrite zuniq_In in Hx. rewrite zuniq_In. unfold column in *.
    apply in_map_iff in Hx. destruct Hx as (k & <- & Hkin).
    apply in_map_iff. exists k. split; [reflexivity | apply Hk, Hkin].
  - intros k Hin. rewrite kuniq_In in Hin. rewrite kuniq_In. apply Hk, Hin.
Qed.

(* ★ ci_shape (4): every group in the index of a resample's by_group frame, hence every key of the
   aligned index of by_group_ci, is in the index of the point estimate's by_group *)
Theorem by_group_index_in_point ms ncf nsf rows idx k :
  valid_resample (length rows) idx ->
  In k (map fst (d_by_group (create ms ncf nsf (resample rows idx)))) ->
  In k (map fst (d_by_group (point ms ncf nsf rows))).
Proof.
  intros Hv. unfold point. cbn [create d_by_group]. apply apply_functions_index_mono.
  intros r Hr. pose proof (resample_rows_in rows idx Hv) as H. rewrite Forall_forall in H. apply H, Hr.
Qed.

(* the re-indexed frames of _align_sample_indices: looking a key of the common index up in the
   aligned frame gives the row used by aligned_cell *)
Lemma assoc_map_key {V} (g : list Z -> V) idx k :
  In k idx -> assoc k (map (fun k0 => (k0, g k0)) idx) = Some (g k).
Proof.
  induction idx as [| a idx IH]; [intros [] |]. intros Hin. cbn [map assoc].
  destruct (key_eqb k a) eqn:E.
  - unfold key_eqb in E. destruct (key_cmp k a) eqn:C; try discriminate.
    apply key_cmp_eq in C. now subst a.
  - destruct Hin as [-> | Hin]; [| apply IH, Hin].
    unfold key_eqb in E. assert (C : key_cmp k k = Eq).
    { clear. induction k as [| x k IH]; cbn [key_cmp]; [reflexivity |]. rewrite Z.compare_refl. exact IH. }
    rewrite C in E. discriminate.
Qed.

Theorem align_lookup ncols fs f k :
  In f fs -> In k (union_index fs) ->
  exists f', In f' (align ncols fs) /\ lookup_row ncols k f' = lookup_row ncols k f /\
             map fst f' = union_index fs.
Proof.
  intros Hf Hk. exists (map (fun k0 => (k0, lookup_row ncols k0 f)) (union_index fs)). split; [| split].
  - unfold align. apply in_map_iff. exists f. split; [reflexivity | exact Hf].
  - pose proof (assoc_map_key (fun k0 => lookup_row ncols k0 f) _ k Hk) as E.
    cbv beta in E. unfold lookup_row, key in E |- *. rewrite E. reflexivity.
  - rewrite map_map. cbn [fst]. apply map_id.
Qed.
