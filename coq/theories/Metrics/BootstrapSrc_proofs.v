(* Lemmas about the source description of the bootstrap code (C18): the meaning of model_src is the model
   Bootstrap.populate_ci; resample positions from the seed stream; extreme quantiles. *)
From Coq Require Import QArith ZArith List Bool Qround Lia Lra Psatz.
From FL Require Import Num ListX Bootstrap Bootstrap_proofs BootstrapSrc.
Import ListNotations.
Open Scope Q_scope.

(* ------------------------------------------------------------------ *)
(* the meaning of the model's tags is the model                        *)
(* ------------------------------------------------------------------ *)

Lemma calc_quantiles_src_model qs ncols samples :
  calc_quantiles_src model_src qs ncols samples = calc_quantiles qs ncols samples.
Proof.
  unfold calc_quantiles. destruct samples as [| [s0 | f0] rest]; reflexivity.
Qed.

Theorem populate_src_model ms ncf nsf qs rows idxs :
  populate_src model_src ms ncf nsf qs rows idxs = populate_ci ms ncf nsf qs rows idxs.
Proof.
  unfold populate_src, observable_src, populate_ci.
  cbn [model_src b_accessors b_caches b_init model_accessors model_caches find_accessor find_cache slot_eqb cm_eqb
       ce_slot ce_agg ce_q in_q model_init qexpr_sem agg_sem cm_flag].
  rewrite !calc_quantiles_src_model. reflexivity.
Qed.

(* every public observable, not only the record as a whole *)
Theorem observable_src_model ms ncf nsf qs rows idxs t :
  (t < 8)%nat ->
  observable_src model_src ms ncf nsf qs rows idxs
    (nth t [SOverall; SByGroup; SGroupMin; SGroupMax; SDifference Between; SRatio Between;
            SDifference ToOverall; SRatio ToOverall] SOverall) =
  nth t (all_lists (populate_ci ms ncf nsf qs rows idxs)) [].
Proof.
  intros Ht. rewrite <- populate_src_model.
  do 8 (destruct t as [| t]; [reflexivity |]). lia.
Qed.

(* ------------------------------------------------------------------ *)
(* the sample call                                                     *)
(* ------------------------------------------------------------------ *)

Lemma floor_half n : Qfloor (1 * inject_nat n + (1 # 2)) = Z.of_nat n.
Proof.
  pose proof (Qfloor_le (1 * inject_nat n + (1 # 2))) as H1.
  pose proof (Qlt_floor (1 * inject_nat n + (1 # 2))) as H2.
  set (f := Qfloor (1 * inject_nat n + (1 # 2))) in *.
  rewrite inject_Z_plus in H2. change (inject_Z 1) with 1 in H2. unfold inject_nat in *.
  assert (A : inject_Z f < inject_Z (Z.of_nat n + 1)).
  { rewrite inject_Z_plus. change (inject_Z 1) with 1. lra. }
  assert (B : inject_Z (Z.of_nat n) < inject_Z (f + 1)).
  { rewrite inject_Z_plus. change (inject_Z 1) with 1. lra. }
  apply inject_Z_lt in A. apply inject_Z_lt in B. lia.
Qed.

(* frac=1, replace=True, axis=0: exactly the resamples the model quantifies over *)
Theorem sample_spec_model n idx : sample_spec model_sample n idx <-> valid_resample n idx.
Proof.
  unfold sample_spec, valid_resample, model_sample. cbn [sc_axis sc_seed_is_arg sc_frac sc_replace].
  rewrite floor_half. split.
  - intros (_ & _ & Hl & Hf & _). split; [lia | exact Hf].
  - intros (Hl & Hf). repeat split; try reflexivity; try lia; try exact Hf; try discriminate.
Qed.

(* with replace=False a resample would be a permutation of the rows: every count, and every metric that
   does not depend on the order, would be the same on every resample *)
Example sample_spec_without_replacement_refuted :
  let c := mk_sample_call 1 false 0 true true in
  ~ (forall n idx, valid_resample n idx -> sample_spec c n idx).
Proof.
  cbv zeta. intros H. specialize (H 2%nat [0; 0]%nat).
  destruct H as (_ & _ & _ & _ & Hnd).
  - split; [reflexivity | repeat constructor].
  - specialize (Hnd eq_refl). inversion Hnd as [| x l Hnot _]. apply Hnot. left. reflexivity.
Qed.

(* ------------------------------------------------------------------ *)
(* the seed stream                                                     *)
(* ------------------------------------------------------------------ *)

Section SeedStream.
  Variables seed entropy : Type.
  Variable fresh : draw_call -> entropy -> nat -> list seed.
  Variable seeded : draw_call -> Z -> nat -> list seed.
  Variable draw : seed -> nat -> list nat.
  Variable dflt : seed.

  Let P := positions_src seed entropy fresh seeded draw dflt model_stream.

  Lemma positions_model e z nboot n :
    P e (RSInt z) nboot n = map (fun i => draw (nth i (seeded model_draw z nboot) dflt) n) (seq_nat 0 nboot).
  Proof. reflexivity. Qed.

  (* an integer seed determines the resamples: nothing depends on the entropy of the operating system;
     n_boot resamples are generated; resample i is drawn with seed i of the stream (one seed per sample) *)
  Theorem positions_seeded e e' z nboot n :
    P e (RSInt z) nboot n = P e' (RSInt z) nboot n /\
    length (P e (RSInt z) nboot n) = nboot /\
    forall i, (i < nboot)%nat ->
      nth i (P e (RSInt z) nboot n) [] = draw (nth i (seeded model_draw z nboot) dflt) n.
  Proof.
    rewrite !positions_model. split; [reflexivity |]. split.
    - rewrite map_length. apply seq_nat_length.
    - intros i Hi. rewrite nth_map_seq by exact Hi. reflexivity.
  Qed.

  (* if every sample call returns positions allowed by the model's sample call, all resamples are valid *)
  Theorem positions_valid e z nboot n :
    (forall s, sample_spec model_sample n (draw s n)) ->
    Forall (valid_resample n) (P e (RSInt z) nboot n).
  Proof.
    intros H. rewrite positions_model. apply Forall_forall. intros idx Hin.
    apply in_map_iff in Hin. destruct Hin as (i & <- & _). apply sample_spec_model, H.
  Qed.

  (* same integer seed -> the same eight interval lists *)
  Theorem same_seed_same_intervals ms ncf nsf qs rows e e' z nboot :
    populate_ci ms ncf nsf qs rows (P e (RSInt z) nboot (length rows)) =
    populate_ci ms ncf nsf qs rows (P e' (RSInt z) nboot (length rows)).
  Proof. rewrite !positions_model. reflexivity. Qed.

  (* the test `not random_state` instead of `random_state is None` sends the seed 0 to the unseeded branch *)
  Example falsy_test_seed_zero_unseeded e nboot :
    seeds_src seed entropy fresh seeded
      (mk_stream TestFalsy RngFresh model_draw model_draw RngSeededByArg model_draw CountNSamples IdxLoopVar)
      e (RSInt 0) nboot = fresh model_draw e nboot.
  Proof. reflexivity. Qed.
End SeedStream.

(* ------------------------------------------------------------------ *)
(* extreme quantiles                                                   *)
(* ------------------------------------------------------------------ *)

Lemma qsort_nonempty vs : vs <> [] -> (0 < length (qsort vs))%nat.
Proof. intros H. rewrite qsort_length. destruct vs; [congruence | cbn; lia]. Qed.

Lemma inject_nat_le_0 m : inject_nat m <= 0 -> m = 0%nat.
Proof. unfold inject_nat, Qle, inject_Z. cbn [Qnum Qden]. lia. Qed.

(* q = 0 gives the first element of the sorted values *)
Lemma qquantile_zero vs : vs <> [] -> qquantile 0 vs == nth 0 (qsort vs) 0.
Proof.
  intros Hne. unfold qquantile, interp.
  set (h := inject_nat (length vs - 1) * 0).
  assert (Hh : h == 0) by (unfold h; ring).
  destruct (Qltb h 0) eqn:E1; [reflexivity |].
  destruct (Qleb (inject_nat (length (qsort vs) - 1)) h) eqn:E2.
  - apply Qleb_true in E2. rewrite Hh in E2. apply inject_nat_le_0 in E2. rewrite E2. reflexivity.
  - assert (Hf : Qfloor h = 0%Z) by (rewrite Hh; reflexivity).
    rewrite Hf. cbn [Z.to_nat]. unfold lerp. change (inject_Z 0) with 0. rewrite Hh. ring.
Qed.

(* q = 1 gives the last element of the sorted values *)
Lemma qquantile_one vs : vs <> [] -> qquantile 1 vs == nth (length vs - 1) (qsort vs) 0.
Proof.
  intros Hne. unfold qquantile, interp. rewrite qsort_length.
  set (h := inject_nat (length vs - 1) * 1).
  assert (Hh : h == inject_nat (length vs - 1)) by (unfold h; ring).
  pose proof (inject_nat_nonneg (length vs - 1)) as H0.
  destruct (Qltb h 0) eqn:E1; [apply Qltb_true in E1; lra |].
  destruct (Qleb (inject_nat (length vs - 1)) h) eqn:E2; [reflexivity |].
  apply Qleb_false in E2. lra.
Qed.

(* ★ quantile_zero_is_min: the quantile at 0 is the minimum of a non-empty list *)
Theorem qquantile_zero_is_min vs :
  vs <> [] ->
  exists m, In m vs /\ (forall v, In v vs -> m <= v) /\ qquantile 0 vs == m.
Proof.
  intros Hne. pose proof (qsort_nonempty vs Hne) as Hl.
  exists (nth 0 (qsort vs) 0). split; [| split].
  - apply qsort_In, nth_In, Hl.
  - intros v Hv. apply qsort_In in Hv. apply (sorted_in_bounds _ _ (qsort_sorted vs) Hv).
  - apply qquantile_zero, Hne.
Qed.

(* ★ quantile_one_is_max *)
Theorem qquantile_one_is_max vs :
  vs <> [] ->
  exists m, In m vs /\ (forall v, In v vs -> v <= m) /\ qquantile 1 vs == m.
Proof.
  intros Hne. pose proof (qsort_nonempty vs Hne) as Hl. pose proof (qsort_length vs) as HL.
  exists (nth (length vs - 1) (qsort vs) 0). split; [| split].
  - apply qsort_In, nth_In. lia.
  - intros v Hv. apply qsort_In in Hv.
    pose proof (sorted_in_bounds _ _ (qsort_sorted vs) Hv) as [_ H]. rewrite HL in H. exact H.
  - apply qquantile_one, Hne.
Qed.

(* every quantile lies between the two (so [q0, q1] is the widest interval any pair of quantiles gives) *)
Theorem qquantile_between_extremes q vs :
  vs <> [] -> qquantile 0 vs <= qquantile q vs /\ qquantile q vs <= qquantile 1 vs.
Proof.
  intros Hne. rewrite (qquantile_zero vs Hne), (qquantile_one vs Hne). apply qquantile_bounds, Hne.
Qed.

(* ------------------------------------------------------------------ *)
(* groups on which a metric is constant                                *)
(* ------------------------------------------------------------------ *)

Lemma key_cmp_refl k : key_cmp k k = Eq.
Proof. induction k as [| x k IH]; cbn [key_cmp]; [reflexivity |]. rewrite Z.compare_refl. exact IH. Qed.

Lemma key_eqb_eq a b : key_eqb a b = true <-> a = b.
Proof.
  unfold key_eqb. split.
  - destruct (key_cmp a b) eqn:C; try discriminate. intros _. apply key_cmp_eq, C.
  - intros ->. now rewrite key_cmp_refl.
Qed.

Lemma kmem_In k l : kmem k l = true <-> In k l.
Proof.
  induction l as [| a l IH]; cbn [kmem In]; [split; [discriminate | tauto] |].
  rewrite orb_true_iff, IH, key_eqb_eq. split; intros [H | H]; auto.
Qed.

Lemma assoc_map_none {V} (g : list Z -> V) idx k :
  ~ In k idx -> assoc k (map (fun k0 => (k0, g k0)) idx) = None.
Proof.
  induction idx as [| a idx IH]; intros Hn; [reflexivity |]. cbn [map assoc].
  destruct (key_eqb k a) eqn:E.
  - apply key_eqb_eq in E. subst a. exfalso. apply Hn. left. reflexivity.
  - apply IH. intros H. apply Hn. right. exact H.
Qed.

Lemma nth_nan_row j n : nth j (nan_row n) NaN = NaN.
Proof.
  unfold nan_row. revert j. induction n as [| n IH]; intros [| j]; cbn [repeat nth]; try reflexivity. apply IH.
Qed.

Lemma product_In (ls : list (list Z)) (k : list Z) :
  Forall2 (fun x l => In x l) k ls -> In k (product ls).
Proof.
  induction 1 as [| x l k ls Hx Hrest IH]; cbn [product]; [left; reflexivity |].
  apply in_flat_map. exists x. split; [exact Hx | apply in_map, IH].
Qed.

Lemma Forall2_seq {A B} (R : A -> B -> Prop) (k : list A) (g : nat -> B) d a :
  (forall i, (i < length k)%nat -> R (nth i k d) (g (a + i)%nat)) ->
  Forall2 R k (map g (seq_nat a (length k))).
Proof.
  revert a. induction k as [| x k IH]; intros a H; cbn [length seq_nat map]; constructor.
  - specialize (H 0%nat). cbn [nth length] in H. rewrite Nat.add_0_r in H. apply H. lia.
  - apply IH. intros i Hi. specialize (H (S i)). cbn [nth length] in H.
    replace (S a + i)%nat with (a + S i)%nat by lia. apply H. lia.
Qed.

(* an observed key is in the index of the per-sample frame (also when the index is the product of the
   values observed per column), provided keys have one code per grouping column *)
Lemma observed_in_index (keys : list key) nn k :
  In k keys -> length k = nn ->
  In k (if Nat.ltb 1 nn then product (map (fun j => zuniq (column j keys)) (seq_nat 0 nn)) else kuniq keys).
Proof.
  intros Hin Hl. destruct (Nat.ltb 1 nn); [| apply kuniq_In, Hin].
  apply product_In. rewrite <- Hl. apply (Forall2_seq _ k _ 0%Z 0%nat).
  intros i _. cbn [Nat.add]. apply zuniq_In. unfold column.
  apply in_map_iff. exists k. split; [reflexivity | exact Hin].
Qed.

Section ConstantGroup.
  Variable ms : list metric.
  Variable nn : nat.                       (* number of grouping columns *)
  Variable kf : row -> key.
  Variable k : key.
  Variable j : nat.
  Variable c : Q.
  Variable data : list row.

  (* metric j gives c on every non-empty selection (with repetition) of data rows of group k *)
  Definition constant_on_group : Prop :=
    forall rs, rs <> [] -> (forall r, In r rs -> In r data /\ kf r = k) ->
    cell_is c ((nth j ms (fun _ => NaN)) rs).

  Hypothesis Hconst : constant_on_group.
  Hypothesis Hj : (j < length ms)%nat.

  (* the cell (k, j) of the by_group frame of a sample of data rows *)
  Definition gcell (rows' : list row) : ext :=
    nth j (lookup_row (length ms) k (apply_functions ms nn kf rows')) NaN.

  Lemma group_rows_spec rows' r : In r (group_rows kf k rows') <-> In r rows' /\ kf r = k.
  Proof. unfold group_rows. rewrite filter_In, key_eqb_eq. reflexivity. Qed.

  Lemma gcell_nan_or_const rows' :
    (forall r, In r rows' -> In r data) -> gcell rows' = NaN \/ cell_is c (gcell rows').
  Proof.
    intros Hsub. unfold gcell, lookup_row, apply_functions.
    set (keys := map kf rows').
    set (idx := if Nat.ltb 1 nn then product (map (fun j0 => zuniq (column j0 keys)) (seq_nat 0 nn)) else kuniq keys).
    set (g := fun k0 : list Z => if kmem k0 (kuniq keys) then apply_to ms (group_rows kf k0 rows') else nan_row (length ms)).
    change (nth j match assoc k (map (fun k0 => (k0, g k0)) idx) with Some s => s | None => nan_row (length ms) end NaN = NaN \/
            cell_is c (nth j match assoc k (map (fun k0 => (k0, g k0)) idx) with Some s => s | None => nan_row (length ms) end NaN)).
    destruct (in_dec (list_eq_dec Z.eq_dec) k idx) as [Hin | Hnin].
    - rewrite (assoc_map_key g idx k Hin). unfold g.
      destruct (kmem k (kuniq keys)) eqn:E.
      + right. rewrite nth_apply_to. apply Hconst.
        * apply (proj1 (kmem_In _ _)) in E. apply (proj1 (kuniq_In _ _)) in E. unfold keys in E. apply in_map_iff in E.
          destruct E as (r & Hr & Hin'). intros E0.
          assert (Hg : In r (group_rows kf k rows')) by (apply group_rows_spec; split; assumption).
          rewrite E0 in Hg. exact Hg.
        * intros r Hr. apply group_rows_spec in Hr. destruct Hr as [Hr Hk]. split; [apply Hsub, Hr | exact Hk].
      + left. apply nth_nan_row.
    - rewrite (assoc_map_none g idx k Hnin). left. apply nth_nan_row.
  Qed.

  Lemma gcell_const rows' :
    (forall r, In r rows' -> In r data) -> length k = nn -> (exists r, In r rows' /\ kf r = k) ->
    cell_is c (gcell rows') /\ In k (map fst (apply_functions ms nn kf rows')).
  Proof.
    intros Hsub Hl (r0 & Hr0 & Hk0).
    assert (Hkeys : In k (map kf rows')) by (apply in_map_iff; exists r0; split; assumption).
    pose proof (observed_in_index (map kf rows') nn k Hkeys Hl) as Hidx.
    split.
    - unfold gcell, lookup_row, apply_functions.
      set (keys := map kf rows') in *.
      set (idx := if Nat.ltb 1 nn then product (map (fun j0 => zuniq (column j0 keys)) (seq_nat 0 nn)) else kuniq keys) in *.
      set (g := fun k0 : list Z => if kmem k0 (kuniq keys) then apply_to ms (group_rows kf k0 rows') else nan_row (length ms)).
      change (cell_is c (nth j match assoc k (map (fun k0 => (k0, g k0)) idx) with Some s => s | None => nan_row (length ms) end NaN)).
      rewrite (assoc_map_key g idx k Hidx). unfold g.
      assert (E : kmem k (kuniq keys) = true) by (apply kmem_In, kuniq_In, Hkeys).
      rewrite E, nth_apply_to. apply Hconst.
      + intros E0. assert (Hg : In r0 (group_rows kf k rows')) by (apply group_rows_spec; split; assumption).
        rewrite E0 in Hg. exact Hg.
      + intros r Hr. apply group_rows_spec in Hr. destruct Hr as [Hr Hk]. split; [apply Hsub, Hr | exact Hk].
    - unfold apply_functions. rewrite map_map. cbn [fst]. rewrite map_id. exact Hidx.
  Qed.
End ConstantGroup.

(* ★ ci_brackets_point_for_constant_groups: if metric j takes the value c on every non-empty selection of the
   rows of group k (e.g. the mean prediction of a group whose predictions are all c), then as soon as group k
   occurs in one of the (valid) resamples, the cell (k, j) of EVERY entry of by_group_ci is c, and so is the
   cell of the point estimate: lower bound <= point estimate <= upper bound (with equality) whatever the
   quantiles are *)
Theorem by_group_ci_constant_group (ms : list metric) ncf nsf qs rows idxs k j c :
  (j < length ms)%nat -> length k = (ncf + nsf)%nat ->
  constant_on_group ms full_key k j c rows ->
  Forall (valid_resample (length rows)) idxs ->
  (exists idx r, In idx idxs /\ In r (resample rows idx) /\ full_key r = k) ->
  (forall e, In e (ci_by_group (populate_ci ms ncf nsf qs rows idxs)) ->
     exists f row, e = RF f /\ assoc k f = Some row /\ cell_is c (nth j row NaN)) /\
  (exists row, assoc k (d_by_group (point ms ncf nsf rows)) = Some row /\ cell_is c (nth j row NaN)).
Proof.
  intros Hj Hl Hconst Hvalid (idx0 & r0 & Hidx0 & Hr0 & Hk0).
  assert (Hsub : forall idx, In idx idxs -> forall r, In r (resample rows idx) -> In r rows).
  { intros idx Hidx r Hr. rewrite Forall_forall in Hvalid.
    pose proof (resample_rows_in rows idx (Hvalid idx Hidx)) as H. rewrite Forall_forall in H. apply H, Hr. }
  split.
  - intros e He. cbn [populate_ci ci_by_group] in He. unfold calc_quantiles in He.
    apply in_map_iff in He. destruct He as (q & <- & _).
    set (samples := map (fun d => RF (d_by_group d)) (boot ms ncf nsf rows idxs)).
    assert (Hfs : map as_frame samples =
                  map (fun idx => apply_functions ms (ncf + nsf) full_key (resample rows idx)) idxs).
    { unfold samples, boot. rewrite !map_map. reflexivity. }
    assert (Hfl : is_frame_list samples).
    { unfold samples, boot. destruct idxs; [destruct Hidx0 | exact I]. }
    unfold calc_quantile1. destruct samples as [| [s0 | f0] rest] eqn:Es; try contradiction.
    rewrite <- Es in *. clear Hfl.
    set (fs := map as_frame samples) in *.
    set (g := fun k0 : key => map (fun j0 => np_nanquantile q (aligned_cell (length ms) fs k0 j0)) (seq_nat 0 (length ms))).
    assert (Hin : In k (union_index fs)).
    { apply union_index_spec. exists (apply_functions ms (ncf + nsf) full_key (resample rows idx0)). split.
      - rewrite Hfs. apply in_map_iff. exists idx0. split; [reflexivity | exact Hidx0].
      - apply (gcell_const ms (ncf + nsf) full_key k j c rows Hconst (resample rows idx0));
          [apply Hsub, Hidx0 | exact Hl | exists r0; split; assumption]. }
    exists (map (fun k0 => (k0, g k0)) (union_index fs)), (g k). split; [reflexivity |]. split.
    + apply (assoc_map_key g _ k Hin).
    + unfold g. rewrite nth_map_seq by exact Hj. apply np_nanquantile_constant.
      * unfold aligned_cell. rewrite Hfs, map_map. apply Forall_forall. intros x Hx.
        apply in_map_iff in Hx. destruct Hx as (idx & <- & Hidx).
        apply (gcell_nan_or_const ms (ncf + nsf) full_key k j c rows Hconst (resample rows idx)), Hsub, Hidx.
      * exists (gcell ms (ncf + nsf) full_key k j (resample rows idx0)). split.
        -- unfold aligned_cell. rewrite Hfs, map_map. apply in_map_iff. exists idx0. split; [reflexivity | exact Hidx0].
        -- apply (gcell_const ms (ncf + nsf) full_key k j c rows Hconst (resample rows idx0));
             [apply Hsub, Hidx0 | exact Hl | exists r0; split; assumption].
  - assert (Hr0' : In r0 rows) by (apply (Hsub idx0 Hidx0), Hr0).
    destruct (gcell_const ms (ncf + nsf) full_key k j c rows Hconst rows (fun r H => H) Hl
                (ex_intro _ r0 (conj Hr0' Hk0))) as [Hc Hink].
    unfold gcell, lookup_row in Hc. unfold point. cbn [create d_by_group].
    destruct (assoc k (apply_functions ms (ncf + nsf) full_key rows)) as [row |] eqn:E.
    + exists row. split; [reflexivity | exact Hc].
    + rewrite nth_nan_row in Hc. destruct Hc.
Qed.

(* instance: the mean prediction of a group whose predictions all equal c *)
Lemma qsum_const (l : list Q) c : (forall v, In v l -> v == c) -> qsum l == inject_nat (length l) * c.
Proof.
  induction l as [| x l IH]; intros H; cbn [qsum length].
  - change (inject_nat 0) with 0. ring.
  - rewrite inject_nat_S, IH by (intros v Hv; apply H; right; exact Hv).
    rewrite (H x (or_introl eq_refl)). ring.
Qed.

Theorem mean_constant_on_group (ms : list metric) kf k j c rows :
  nth j ms (fun _ => NaN) = m_mean ->
  (forall r, In r rows -> kf r = k -> r_pred r == c) ->
  constant_on_group ms kf k j c rows.
Proof.
  intros Hm Hc rs Hne Hrs. rewrite Hm. unfold m_mean. destruct rs as [| r rs']; [congruence |].
  set (l := r :: rs') in *. cbn [cell_is]. unfold qmean.
  assert (Hs : qsum (preds l) == inject_nat (length (preds l)) * c).
  { apply qsum_const. intros v Hv. unfold preds in Hv. apply in_map_iff in Hv.
    destruct Hv as (r' & <- & Hr'). destruct (Hrs r' Hr') as [Hd Hk]. apply Hc; assumption. }
  rewrite Hs. unfold preds, l. rewrite map_length. cbn [length]. rewrite inject_nat_S.
  pose proof (inject_nat_nonneg (length rs')). field. lra.
Qed.
