(* C11 -- sample weights mean multiplicity.  Model side: replication of rows by their integer
   weight, rescaling of weights, group slicing (MetricFrame applies a metric to y_true[mask],
   y_pred[mask], sample_weight[mask]).  The metrics are those of BaseRates.v.  Proof-free. *)
From Coq Require Import QArith ZArith List Bool.
From FL Require Import Num ListX Flat BaseRates.
Import ListNotations.
Open Scope Z_scope.

(* integer weight k as a sample weight *)
Definition kq (k : positive) : Q := Zpos k # 1.

(* np.repeat(column, ks): entry i is repeated ks[i] times *)
Fixpoint replicate {A} (ks : list positive) (xs : list A) : list A :=
  match ks, xs with
  | k :: ks', x :: xs' => repeat x (Pos.to_nat k) ++ replicate ks' xs'
  | _, _ => []
  end.

(* all weights multiplied by c *)
Definition scale_w (c : Q) (ws : list Q) : list Q := map (Qmult c) ws.

(* column[mask] *)
Fixpoint select {A} (m : list bool) (xs : list A) : list A :=
  match m, xs with
  | b :: m', x :: xs' => if b then x :: select m' xs' else select m' xs'
  | _, _ => []
  end.

(* sensitive_feature == g *)
Definition mask_of (g : Z) (sf : list Z) : list bool := map (Z.eqb g) sf.

(* ---------- drivers for the correspondence run ---------- *)

(* the six weighted base metrics on one data set; labels are 0/1 codes, pos_label left to its
   default (None for the rates, 1 for selection_rate) *)
Definition six (y_true y_pred : list Z) (sw : option (list Q)) : list Z :=
  run_fn 0 y_true y_pred sw None ++ run_fn 1 y_true y_pred sw None ++
  run_fn 2 y_true y_pred sw None ++ run_fn 3 y_true y_pred sw None ++
  run_fn 4 y_true y_pred sw None ++ run_fn 5 y_true y_pred sw None.

(* weighted, replicated (unit weights omitted), rescaled, and all-ones vs omitted *)
Definition variants (c : Q) (y_true y_pred : list Z) (ks : list positive) : list Z :=
  six y_true y_pred (Some (map kq ks)) ++
  six (replicate ks y_true) (replicate ks y_pred) None ++
  six y_true y_pred (Some (scale_w c (map kq ks))) ++
  six y_true y_pred None ++
  six y_true y_pred (Some (ones (length y_true))).

(* overall, then one block per group in the given order; the replicated variant of a group is
   obtained by slicing the REPLICATED data set with the replicated sensitive feature *)
Definition variants_group (c : Q) (g : Z) (sf y_true y_pred : list Z) (ks : list positive) : list Z :=
  let m := mask_of g sf in
  let m' := mask_of g (replicate ks sf) in
  six (select m y_true) (select m y_pred) (Some (map kq (select m ks))) ++
  six (select m' (replicate ks y_true)) (select m' (replicate ks y_pred)) None ++
  six (select m y_true) (select m y_pred) (Some (scale_w c (map kq (select m ks)))) ++
  six (select m y_true) (select m y_pred) None ++
  six (select m y_true) (select m y_pred) (Some (ones (length (select m y_true)))).

Definition c11_eval (c : Q) (groups : list Z) (sf y_true y_pred : list Z) (ks : list positive) : list Z :=
  variants c y_true y_pred ks ++
  flat_map (fun g => variants_group c g sf y_true y_pred ks) groups.
