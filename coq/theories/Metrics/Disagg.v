(* Model of the MetricFrame disaggregation pipeline (C01), as the CODE does it:
     MetricFrame.__init__ / _construct_annotated_metric_function  (build_frame, annot_of)
     AnnotatedMetricFunction.__call__                              (call)
     apply_to_dataframe                                            (apply_to_df)
     DisaggregatedResult._apply_functions / create                 (apply_functions, mf_overall, mf_by_group)
   A frame is a list of NAMED columns: sample parameters are stored under the generated
   column name f"{prefix}_{param}" and looked up again by name (that glue is modelled).
   Strings are lists of code points.  Proof-free: lemmas are in Disagg_proofs.v. *)
From Coq Require Import QArith ZArith List Bool.
From FL Require Import Num ListX Flat.
Import ListNotations.
Open Scope Z_scope.

Definition name := list Z.

Fixpoint name_eqb (a b : name) : bool :=
  match a, b with
  | [], [] => true
  | x :: a', y :: b' => (x =? y) && name_eqb a' b'
  | _, _ => false
  end.

(* "y_true", "y_pred", "None", "_" *)
Definition n_y_true : name := [121; 95; 116; 114; 117; 101].
Definition n_y_pred : name := [121; 95; 112; 114; 101; 100].
Definition n_None : name := [78; 111; 110; 101].
Definition underscore : Z := 95.

(* col_name = f"{name}_{param_name}" *)
Definition gen_col (prefix param : name) : name := prefix ++ underscore :: param.

(* "{0}{1}".format(base_name, index) for index < 10 (the harness never has more features) *)
Definition feat_name (base : name) (given : option name) (i : nat) : name :=
  match given with Some n => n | None => base ++ [48 + Z.of_nat i] end.

Fixpoint feat_names_from (base : name) (given : list (option name)) (i : nat) : list name :=
  match given with
  | [] => []
  | g :: r => feat_name base g i :: feat_names_from base r (S i)
  end.

(* rows selected by a boolean mask (original order kept, as pandas group-by does) *)
Fixpoint sel {A} (mask : list bool) (col : list A) : list A :=
  match mask, col with
  | b :: m, x :: c => if b then x :: sel m c else sel m c
  | _, _ => []
  end.

(* row keys: the tuple of grouping-column codes of every row *)
Fixpoint row_keys (cols : list (list Z)) (n : nat) : list (list Z) :=
  match cols with
  | [] => repeat [] n
  | c :: r => map (fun p => fst p :: snd p) (combine c (row_keys r n))
  end.

Definition mask_of (k : list Z) (keys : list (list Z)) : list bool := map (key_eqb k) keys.

Section Disagg.
  Variable V : Type.                 (* what a data cell holds *)
  Variable key_of : V -> Z.          (* category code of a value (codes assigned in sorted order) *)
  Variable cell : Type.              (* what a metric returns: anything *)
  (* the user's metric functions, by metric name: positional arrays, keyword arrays *)
  Variable fn : name -> list (list V) -> list (name * list V) -> cell.

  Definition frame := list (name * list V).

  Fixpoint get (nm : name) (f : frame) : option (list V) :=
    match f with
    | [] => None
    | (n, c) :: r => if name_eqb nm n then Some c else get nm r
    end.

  (* df[nm] = col : replace an existing column of that name, else append *)
  Fixpoint set_col (nm : name) (col : list V) (f : frame) : frame :=
    match f with
    | [] => [(nm, col)]
    | (n, c) :: r => if name_eqb nm n then (n, col) :: r else (n, c) :: set_col nm col r
    end.

  Definition assign_all (assigns : list (name * list V)) (f : frame) : frame :=
    fold_left (fun acc a => set_col (fst a) (snd a) acc) assigns f.

  Fixpoint get_all (names : list name) (f : frame) : option (list (list V)) :=
    match names with
    | [] => Some []
    | n :: r => match get n f, get_all r f with
                | Some c, Some cs => Some (c :: cs)
                | _, _ => None
                end
    end.

  (* the same row selection applied to every column *)
  Definition map_frame (s : list V -> list V) (f : frame) : frame :=
    map (fun nc => (fst nc, s (snd nc))) f.
  Definition sub_frame (mask : list bool) (f : frame) : frame := map_frame (sel mask) f.

  Definition nrows (f : frame) : nat :=
    match f with [] => O | (_, c) :: _ => length c end.

  (* AnnotatedMetricFunction *)
  Record annot := { af_name : name; af_pos : list name; af_kw : list (name * name) }.

  (* __call__: None = KeyError (a named column is absent) *)
  Definition call (af : annot) (df : frame) : option cell :=
    match get_all (af_pos af) df, get_all (map snd (af_kw af)) df with
    | Some ps, Some ks => Some (fn (af_name af) ps (combine (map fst (af_kw af)) ks))
    | _, _ => None
    end.

  (* apply_to_dataframe: one entry per metric, in dict order *)
  Definition apply_to_df (afs : list annot) (df : frame) : list (name * option cell) :=
    map (fun af => (af_name af, call af df)) afs.

  (* a result table: index key -> row of metric values; None = the all-NaN row of reindex *)
  Definition table := list (list Z * option (list (name * option cell))).

  Definition group_keys (gs : list name) (f : frame) : option (list (list Z)) :=
    match get_all gs f with
    | Some cols => Some (row_keys (map (map key_of) cols) (nrows f))
    | None => None
    end.

  (* DisaggregatedResult._apply_functions; None = KeyError on a grouping column *)
  Definition apply_functions (f : frame) (afs : list annot) (gs : list name) : option table :=
    match gs with
    | [] => Some [([], Some (apply_to_df afs f))]
    | _ =>
      match get_all gs f with
      | None => None
      | Some cols =>
        let kcols := map (map key_of) cols in
        let keys := row_keys kcols (nrows f) in
        (* data.groupby(gs).apply(...): one call per observed key tuple, sorted *)
        let temp := map (fun k => (k, apply_to_df afs (sub_frame (mask_of k keys) f))) (kuniq keys) in
        if (1 <? length gs)%nat
        then Some (map (fun k => (k, assoc k temp)) (product (map zuniq kcols)))   (* reindex *)
        else Some (map (fun kr => (fst kr, Some (snd kr))) temp)
      end
    end.

  (* ---- MetricFrame.__init__ ---- *)
  Record metric_spec := {
    m_name : name;                       (* name of the annotated function / result column *)
    m_prefix : name;                     (* dict key, or "None" for a bare callable *)
    m_params : list (name * list V) }.   (* sample_params of this metric, in dict order *)

  Definition param_assigns (ms : list metric_spec) : list (name * list V) :=
    flat_map (fun m => map (fun pc => (gen_col (m_prefix m) (fst pc), snd pc)) (m_params m)) ms.

  Definition annot_of (m : metric_spec) : annot :=
    {| af_name := m_name m; af_pos := [n_y_true; n_y_pred];
       af_kw := map (fun pc => (fst pc, gen_col (m_prefix m) (fst pc))) (m_params m) |}.

  (* order of the assignments in __init__: y_true, y_pred, parameters, sensitive, control *)
  Definition all_assigns (yt yp : list V) (ms : list metric_spec) (sfs cfs : list (name * list V)) :=
    (n_y_true, yt) :: (n_y_pred, yp) :: param_assigns ms ++ sfs ++ cfs.

  Definition build_frame yt yp ms sfs cfs : frame := assign_all (all_assigns yt yp ms sfs cfs) [].

  Definition mf_overall yt yp ms sfs cfs : option table :=
    apply_functions (build_frame yt yp ms sfs cfs) (map annot_of ms) (map fst cfs).

  Definition mf_by_group yt yp ms sfs cfs : option table :=
    apply_functions (build_frame yt yp ms sfs cfs) (map annot_of ms) (map fst cfs ++ map fst sfs).

  (* what the property says a metric must be shown for the rows selected by [s]
     (s = sel mask for a group, s = identity for all rows): y_true, y_pred and the metric's
     OWN parameters, all sliced the same way *)
  Definition expected_cell (yt yp : list V) (m : metric_spec) (s : list V -> list V) : cell :=
    fn (m_name m) [s yt; s yp] (map (fun pc => (fst pc, s (snd pc))) (m_params m)).

  Definition expected_row yt yp (ms : list metric_spec) (s : list V -> list V) : list (name * option cell) :=
    map (fun m => (m_name m, Some (expected_cell yt yp m s))) ms.

  (* keys of the rows, from the feature columns as given *)
  Definition feature_keys (feats : list (name * list V)) (n : nat) : list (list Z) :=
    row_keys (map (fun nc => map key_of (snd nc)) feats) n.
End Disagg.


Arguments m_name {V}. Arguments m_prefix {V}. Arguments m_params {V}.

(* ---------- concrete cells and metric callables of the correspondence run (V = Z) ----------
   y_true carries 2*row_id + label, y_pred is 0/1, parameters are small integers.
   The same callables are defined in harness/props/c01.py. *)
Inductive ccell := CNum (q : Q) | CNan | CRows (pos : list (list Z)) (kw : list (name * list Z)).

Definition n_sample_weight : name :=
  [115; 97; 109; 112; 108; 101; 95; 119; 101; 105; 103; 104; 116].

Fixpoint kw_get (nm : name) (kw : list (name * list Z)) : option (list Z) :=
  match kw with [] => None | (n, c) :: r => if name_eqb nm n then Some c else kw_get nm r end.

Definition zq (z : Z) : Q := inject_Z z.

Definition weights_of (n : nat) (kw : list (name * list Z)) : list Q :=
  match kw_get n_sample_weight kw with Some w => map zq w | None => repeat 1%Q n end.

Definition wmean (w x : list Q) : ccell :=
  if Qeqb (qsum w) 0 then CNan else CNum (dot w x / qsum w).

(* kind 0 count, 1 weighted selection rate, 2 weighted accuracy, 3 row fingerprint *)
Definition metric_kind (kind : Z) (pos : list (list Z)) (kw : list (name * list Z)) : ccell :=
  match pos with
  | yt :: yp :: _ =>
      if kind =? 0 then CNum (inject_nat (length yt))
      else if kind =? 1 then wmean (weights_of (length yt) kw) (map (fun p => if p =? 1 then 1%Q else 0%Q) yp)
      else if kind =? 2 then
        wmean (weights_of (length yt) kw)
              (map (fun tp => if Z.modulo (fst tp) 2 =? snd tp then 1%Q else 0%Q) (combine yt yp))
      else CRows pos kw
  | _ => CNan
  end.

Fixpoint kind_of (kinds : list (name * Z)) (nm : name) : Z :=
  match kinds with [] => 3 | (n, k) :: r => if name_eqb nm n then k else kind_of r nm end.

Definition fnc (kinds : list (name * Z)) (nm : name) (pos : list (list Z)) (kw : list (name * list Z)) : ccell :=
  metric_kind (kind_of kinds nm) pos kw.

(* ---------- wire format of the correspondence run ---------- *)
Definition enc_ccell (c : ccell) : list Z :=
  match c with
  | CNum q => 0 :: enc_q q
  | CNan => [1]
  | CRows pos kw => 2 :: enc_list (enc_list enc_z) pos
                      ++ enc_list (fun nc => enc_key (fst nc) ++ enc_list enc_z (snd nc)) kw
  end.

Definition enc_row (r : list (name * option ccell)) : list Z :=
  enc_list (fun nc => enc_key (fst nc) ++ enc_opt enc_ccell (snd nc)) r.

Definition enc_table (t : option (table ccell)) : list Z :=
  enc_opt (enc_list (fun kr => enc_key (fst kr) ++ enc_opt enc_row (snd kr))) t.

(* one MetricFrame construction: by_group, overall, sensitive_levels, control_levels *)
Definition run_metric_frame (kinds : list (name * Z)) (yt yp : list Z) (ms : list (metric_spec Z))
           (sf_base cf_base : name) (sf_given cf_given : list (option name))
           (sf_cols cf_cols : list (list Z)) : list Z :=
  let sfn := feat_names_from sf_base sf_given 0 in
  let cfn := feat_names_from cf_base cf_given 0 in
  let sfs := combine sfn sf_cols in
  let cfs := combine cfn cf_cols in
  enc_table (mf_by_group Z (fun z => z) ccell (fnc kinds) yt yp ms sfs cfs)
  ++ enc_table (mf_overall Z (fun z => z) ccell (fnc kinds) yt yp ms sfs cfs)
  ++ enc_list enc_key sfn ++ enc_list enc_key cfn.
