From Coq Require Import QArith ZArith List Bool Lia Lqa.
From FL Require Import Num ListX BaseRates BaseRates_proofs Weights.
Import ListNotations.
Open Scope Q_scope.

(* ------------------------------------------------------------------ *)
(* equality of results up to == on the rationals                        *)
(* ------------------------------------------------------------------ *)

Definition c4_eq (c c' : Q * Q * Q * Q) : Prop :=
  q_tpr c == q_tpr c' /\ q_fnr c == q_fnr c' /\ q_fpr c == q_fpr c' /\ q_tnr c == q_tnr c'.

Definition orates_eq (o o' : option (Q * Q * Q * Q)) : Prop :=
  match o, o' with
  | Some c, Some c' => c4_eq c c'
  | None, None => True
  | _, _ => False
  end.

Definition ext_eq (x y : ext) : Prop :=
  match x, y with
  | Fin a, Fin b => a == b
  | PInf, PInf | NInf, NInf | NaN, NaN => True
  | _, _ => False
  end.

Definition oext_eq (o o' : option ext) : Prop :=
  match o, o' with
  | Some x, Some y => ext_eq x y
  | None, None => True
  | _, _ => False
  end.

Lemma kq_pos k : 0 < kq k.
Proof. unfold kq, Qlt. cbn. lia. Qed.

Lemma kq_nat k : inject_Z (Z.of_nat (Pos.to_nat k)) = kq k.
Proof. rewrite positive_nat_Z. reflexivity. Qed.

Lemma inject_succ n : inject_Z (Z.of_nat (S n)) == 1 + inject_Z (Z.of_nat n).
Proof. rewrite Nat2Z.inj_succ. unfold Z.succ. rewrite inject_Z_plus. change (inject_Z 1) with 1. lra. Qed.

(* ------------------------------------------------------------------ *)
(* replicate                                                            *)
(* ------------------------------------------------------------------ *)

Lemma replicate_length_eq {A B} ks (a : list A) (b : list B) :
  length a = length b -> length (replicate ks a) = length (replicate ks b).
Proof.
  revert a b. induction ks as [|k ks IH]; intros [|x a] [|y b] H; cbn in H; try discriminate;
    cbn [replicate]; try reflexivity.
  rewrite !app_length, !repeat_length. f_equal. apply IH. lia.
Qed.

Lemma in_repeat_pos {A} (x y : A) k : In x (repeat y (Pos.to_nat k)) <-> x = y.
Proof.
  split.
  - intro H. apply repeat_spec in H. exact H.
  - intros ->. destruct (Pos2Nat.is_succ k) as [n E]. rewrite E. left. reflexivity.
Qed.

Lemma replicate_in {A} ks (xs : list A) x :
  length ks = length xs -> (In x (replicate ks xs) <-> In x xs).
Proof.
  revert xs. induction ks as [|k ks IH]; intros [|y xs] H; cbn in H; try discriminate;
    cbn [replicate]; [reflexivity|].
  rewrite in_app_iff, in_repeat_pos, IH by lia. cbn. intuition.
Qed.

Lemma map_repeat' {A B} (f : A -> B) x n : map f (repeat x n) = repeat (f x) n.
Proof. induction n as [|n IH]; cbn; [reflexivity | rewrite IH; reflexivity]. Qed.

Lemma map_replicate {A B} (f : A -> B) ks xs : map f (replicate ks xs) = replicate ks (map f xs).
Proof.
  revert xs. induction ks as [|k ks IH]; intros [|x xs]; cbn [replicate map]; try reflexivity.
  rewrite map_app, map_repeat', IH. reflexivity.
Qed.

(* ------------------------------------------------------------------ *)
(* sorted duplicate-free lists are determined by their members          *)
(* ------------------------------------------------------------------ *)

Lemma lsorted_head_lt x r : lsorted (x :: r) -> forall y, In y r -> (x < y)%Z.
Proof.
  revert x. induction r as [|z r IH]; intros x H y Hy; [contradiction|].
  cbn [lsorted] in H. destruct H as [Hxz Hr]. destruct Hy as [<- | Hy]; [exact Hxz|].
  assert (z < y)%Z by (apply IH; [exact Hr | exact Hy]). lia.
Qed.

Lemma lsorted_tail x r : lsorted (x :: r) -> lsorted r.
Proof. cbn [lsorted]. tauto. Qed.

Lemma lsorted_ext a b :
  lsorted a -> lsorted b -> (forall x, In x a <-> In x b) -> a = b.
Proof.
  revert b. induction a as [|x a IH]; intros [|y b] Ha Hb H.
  - reflexivity.
  - exfalso. apply (proj2 (H y)). left. reflexivity.
  - exfalso. apply (proj1 (H x)). left. reflexivity.
  - assert (Hax := lsorted_head_lt _ _ Ha). assert (Hby := lsorted_head_lt _ _ Hb).
    assert (x = y).
    { destruct (proj1 (H x) (or_introl eq_refl)) as [E|Hin]; [congruence|].
      destruct (proj2 (H y) (or_introl eq_refl)) as [E|Hin']; [congruence|].
      apply Hby in Hin. apply Hax in Hin'. lia. }
    subst y. f_equal. apply IH; [eapply lsorted_tail; eassumption | eapply lsorted_tail; eassumption |].
    intro z. split; intro Hz.
    + destruct (proj1 (H z) (or_intror Hz)) as [E|Hin]; [|exact Hin].
      subst z. apply Hax in Hz. lia.
    + destruct (proj2 (H z) (or_intror Hz)) as [E|Hin]; [|exact Hin].
      subst z. apply Hby in Hz. lia.
Qed.

Lemma zuniq_ext l1 l2 : (forall x, In x l1 <-> In x l2) -> zuniq l1 = zuniq l2.
Proof.
  intro H. apply lsorted_ext; try apply zuniq_sorted.
  intro x. rewrite !zuniq_in. apply H.
Qed.

Lemma zuniq_replicate ks a b :
  length ks = length a -> length ks = length b ->
  zuniq (replicate ks a ++ replicate ks b) = zuniq (a ++ b).
Proof.
  intros Ha Hb. apply zuniq_ext. intro x.
  rewrite !in_app_iff, !replicate_in by assumption. reflexivity.
Qed.

(* ------------------------------------------------------------------ *)
(* weighted counts of the replicated data                               *)
(* ------------------------------------------------------------------ *)

Lemma zip_rows_app a1 a2 b1 b2 c1 c2 :
  length a1 = length b1 -> length c1 = length a1 ->
  zip_rows (a1 ++ a2) (b1 ++ b2) (c1 ++ c2) = zip_rows a1 b1 c1 ++ zip_rows a2 b2 c2.
Proof.
  revert b1 c1. induction a1 as [|x a1 IH]; intros [|y b1] [|w c1] H1 H2; cbn in H1, H2;
    try discriminate; [reflexivity|].
  cbn [app zip_rows]. rewrite IH by lia. reflexivity.
Qed.

Lemma ones_add n m : ones (n + m) = ones n ++ ones m.
Proof. unfold ones. apply repeat_app. Qed.

Lemma wsum_block (g : Z -> Z -> bool) x y n :
  wsum (fun r => g (yt r) (yp r)) (zip_rows (repeat x n) (repeat y n) (ones n))
  == if g x y then inject_Z (Z.of_nat n) else 0.
Proof.
  induction n as [|n IH].
  - cbn. destruct (g x y); reflexivity.
  - change (ones (S n)) with (1 :: ones n). cbn [repeat zip_rows wsum yt yp wt]. rewrite IH.
    destruct (g x y); [rewrite inject_succ|]; lra.
Qed.

Lemma wsum_expand (g : Z -> Z -> bool) ks a b :
  length a = length b -> length ks = length a ->
  wsum (fun r => g (yt r) (yp r))
       (zip_rows (replicate ks a) (replicate ks b) (ones (length (replicate ks a))))
  == wsum (fun r => g (yt r) (yp r)) (zip_rows a b (map kq ks)).
Proof.
  revert a b. induction ks as [|k ks IH]; intros [|x a] [|y b] H1 H2; cbn in H1, H2; try discriminate.
  - reflexivity.
  - cbn [replicate map zip_rows wsum yt yp wt].
    rewrite app_length, repeat_length, ones_add.
    rewrite zip_rows_app by (rewrite ?repeat_length; unfold ones; rewrite ?repeat_length; reflexivity).
    rewrite wsum_app, wsum_block, (IH a b) by lia. rewrite kq_nat. reflexivity.
Qed.

Lemma cell_expand u v ks a b :
  length a = length b -> length ks = length a ->
  cell u v (zip_rows (replicate ks a) (replicate ks b) (ones (length (replicate ks a))))
  == cell u v (zip_rows a b (map kq ks)).
Proof.
  intros H1 H2. unfold cell.
  exact (wsum_expand (fun s t => (s =? u)%Z && (t =? v)%Z) ks a b H1 H2).
Qed.

Lemma cm_norm_comp n p rows rows' :
  (forall u v, cell u v rows == cell u v rows') -> c4_eq (cm_norm n p rows) (cm_norm n p rows').
Proof.
  intro H. unfold c4_eq, cm_norm, q_tpr, q_fnr, q_fpr, q_tnr. cbn [fst snd].
  repeat split; apply qdiv0_comp; rewrite ?H; reflexivity.
Qed.

(* ★ rate_expand for the four confusion-matrix rates: integer weight k = k unit-weight copies *)
Theorem rates_expand y_true y_pred ks pos :
  length y_true = length y_pred -> length ks = length y_true ->
  orates_eq (rates y_true y_pred (Some (map kq ks)) pos)
            (rates (replicate ks y_true) (replicate ks y_pred) None pos).
Proof.
  intros H1 H2. unfold rates, rates_with, mk_rows, weights_or_ones.
  rewrite map_length, H1, H2, H1, Nat.eqb_refl. cbn [andb].
  rewrite (replicate_length_eq ks y_true y_pred H1), Nat.eqb_refl.
  unfold ones at 1. rewrite repeat_length, <- (replicate_length_eq ks y_true y_pred H1), Nat.eqb_refl.
  cbn [andb]. rewrite zuniq_replicate by lia.
  destruct (labels_for_cm (zuniq (y_true ++ y_pred)) pos) as [[|n [|p [|z l]]]|]; cbn; trivial.
  apply cm_norm_comp. intros u v. symmetry. apply cell_expand; assumption.
Qed.

(* ------------------------------------------------------------------ *)
(* selection_rate and mean_prediction on replicated data                *)
(* ------------------------------------------------------------------ *)

Lemma dot_app a1 a2 b1 b2 :
  length a1 = length b1 -> dot (a1 ++ a2) (b1 ++ b2) == dot a1 b1 + dot a2 b2.
Proof.
  revert b1. induction a1 as [|x a1 IH]; intros [|y b1] H; cbn in H; try discriminate.
  - cbn. lra.
  - cbn [app dot]. rewrite IH by lia. lra.
Qed.

Lemma dot_repeat_ones v n : dot (repeat v n) (ones n) == v * inject_Z (Z.of_nat n).
Proof.
  induction n as [|n IH].
  - unfold ones. cbn [repeat dot Z.of_nat]. change (inject_Z 0) with 0. lra.
  - change (ones (S n)) with (1 :: ones n). cbn [repeat dot]. rewrite IH, inject_succ. lra.
Qed.

Lemma dot_expand (h : Z -> Q) ks ys :
  length ks = length ys ->
  dot (map h (replicate ks ys)) (ones (length (replicate ks ys))) == dot (map h ys) (map kq ks).
Proof.
  revert ys. induction ks as [|k ks IH]; intros [|y ys] H; cbn in H; try discriminate.
  - reflexivity.
  - cbn [replicate map dot]. rewrite app_length, repeat_length, ones_add, map_app, map_repeat'.
    rewrite dot_app by (unfold ones; rewrite !repeat_length; reflexivity).
    rewrite dot_repeat_ones, IH by lia. rewrite kq_nat. reflexivity.
Qed.

Lemma qsum_ones n : qsum (ones n) == inject_Z (Z.of_nat n).
Proof.
  induction n as [|n IH]; [reflexivity|].
  change (ones (S n)) with (1 :: ones n). cbn [qsum]. rewrite IH, inject_succ. reflexivity.
Qed.

Lemma qsum_app a b : qsum (a ++ b) == qsum a + qsum b.
Proof. induction a as [|x a IH]; cbn [app qsum]; [lra | rewrite IH; lra]. Qed.

Lemma qsum_expand {A} ks (ys : list A) :
  length ks = length ys -> qsum (ones (length (replicate ks ys))) == qsum (map kq ks).
Proof.
  revert ys. induction ks as [|k ks IH]; intros [|y ys] H; cbn in H; try discriminate.
  - reflexivity.
  - cbn [replicate map qsum]. rewrite app_length, repeat_length, ones_add, qsum_app, qsum_ones.
    rewrite IH by lia. rewrite kq_nat. reflexivity.
Qed.

Lemma ext_div_comp a a' b b' :
  a == a' -> b == b' -> ext_eq (ext_div (Fin a) (Fin b)) (ext_div (Fin a') (Fin b')).
Proof.
  intros Ha Hb. unfold ext_div, qsign. rewrite <- Ha, <- Hb.
  destruct (b ?= 0); destruct (a ?= 0); cbn; trivial; rewrite Ha, Hb; reflexivity.
Qed.

Lemma replicate_nonempty {A} k ks (y : A) ys : replicate (k :: ks) (y :: ys) <> [].
Proof.
  cbn [replicate]. destruct (Pos2Nat.is_succ k) as [n E]. rewrite E. discriminate.
Qed.

(* ★ rate_expand for selection_rate *)
Theorem selection_rate_expand y_pred ks p :
  length ks = length y_pred ->
  oext_eq (selection_rate y_pred p (Some (map kq ks)))
          (selection_rate (replicate ks y_pred) p None).
Proof.
  intro H. destruct y_pred as [|y ys]; destruct ks as [|k ks]; cbn in H; try discriminate.
  - exact I.
  - assert (Hne := replicate_nonempty k ks y ys).
    unfold selection_rate. destruct (replicate (k :: ks) (y :: ys)) as [|r0 rr] eqn:E; [contradiction|].
    rewrite <- E. unfold weights_or_ones. rewrite map_length. cbn [length]. rewrite H, Nat.eqb_refl.
    unfold ones at 1. rewrite repeat_length, Nat.eqb_refl. cbn [oext_eq].
    apply ext_div_comp; symmetry; [apply dot_expand | apply qsum_expand]; cbn; lia.
Qed.

(* ★ rate_expand for mean_prediction *)
Theorem mean_prediction_expand y_pred ks :
  length ks = length y_pred ->
  oext_eq (mean_prediction y_pred (Some (map kq ks))) (mean_prediction (replicate ks y_pred) None).
Proof.
  intro H. unfold mean_prediction, weights_or_ones. rewrite map_length, H, Nat.eqb_refl.
  unfold ones at 1. rewrite repeat_length, Nat.eqb_refl. cbn [oext_eq].
  apply ext_div_comp; symmetry; [apply dot_expand | apply qsum_expand]; exact H.
Qed.

(* ------------------------------------------------------------------ *)
(* ★ rate_scale: multiplying all weights by c > 0 changes nothing       *)
(* ------------------------------------------------------------------ *)

Lemma wsum_scale (g : Z -> Z -> bool) c a b ws :
  wsum (fun r => g (yt r) (yp r)) (zip_rows a b (scale_w c ws))
  == c * wsum (fun r => g (yt r) (yp r)) (zip_rows a b ws).
Proof.
  revert b ws. induction a as [|x a IH]; intros [|y b] [|w ws]; cbn [scale_w map zip_rows wsum yt yp wt];
    try lra.
  fold (scale_w c ws). rewrite IH. destruct (g x y); lra.
Qed.

#[global] Instance qdiv0_proper : Proper (Qeq ==> Qeq ==> Qeq) qdiv0.
Proof. intros a a' Ha b b' Hb. apply qdiv0_comp; assumption. Qed.

Lemma qdiv0_scale c a b : ~ c == 0 -> qdiv0 (c * a) (c * b) == qdiv0 a b.
Proof.
  intro Hc. destruct (Qeq_dec b 0) as [E|E].
  - rewrite !qdiv0_zero_den; [reflexivity | exact E | rewrite E; lra].
  - assert (~ c * b == 0).
    { intro H. apply Qmult_integral in H. tauto. }
    rewrite !qdiv0_nz by assumption. field. tauto.
Qed.

Theorem rates_scale y_true y_pred ws c pos :
  0 < c ->
  orates_eq (rates y_true y_pred (Some ws) pos) (rates y_true y_pred (Some (scale_w c ws)) pos).
Proof.
  intro Hc. unfold rates, rates_with, mk_rows, weights_or_ones, scale_w. rewrite map_length. fold (scale_w c ws).
  destruct (_ && _); [|exact I].
  destruct (labels_for_cm (zuniq (y_true ++ y_pred)) pos) as [[|n [|p [|z l]]]|];
    unfold orates_eq; cbv beta iota; trivial.
  assert (Hs : forall u v, cell u v (zip_rows y_true y_pred (scale_w c ws))
                           == c * cell u v (zip_rows y_true y_pred ws)).
  { intros u v. unfold cell.
    exact (wsum_scale (fun s t => (s =? u)%Z && (t =? v)%Z) c y_true y_pred ws). }
  unfold c4_eq, cm_norm, q_tpr, q_fnr, q_fpr, q_tnr. cbn [fst snd]. rewrite !Hs.
  assert (Hc' : ~ c == 0) by lra.
  repeat split; symmetry; rewrite <- Qmult_plus_distr_r; apply qdiv0_scale; exact Hc'.
Qed.

Lemma dot_scale xs c ws : dot xs (scale_w c ws) == c * dot xs ws.
Proof.
  revert ws. induction xs as [|x xs IH]; intros [|w ws]; cbn [scale_w map dot]; try lra.
  fold (scale_w c ws). rewrite IH. lra.
Qed.

Lemma qsum_scale c ws : qsum (scale_w c ws) == c * qsum ws.
Proof.
  induction ws as [|w ws IH]; cbn [scale_w map qsum]; [lra|]. fold (scale_w c ws). rewrite IH. lra.
Qed.

Lemma qsign_scale c x : 0 < c -> qsign (c * x) = qsign x.
Proof.
  intro Hc. unfold qsign. destruct (Qcompare_spec x 0) as [E|E|E].
  - rewrite <- Qeq_alt. rewrite E. lra.
  - rewrite <- Qlt_alt. nra.
  - rewrite <- Qgt_alt. nra.
Qed.

Lemma ext_div_scale c a b :
  0 < c -> ext_eq (ext_div (Fin a) (Fin b)) (ext_div (Fin (c * a)) (Fin (c * b))).
Proof.
  intro Hc. unfold ext_div. rewrite !qsign_scale by exact Hc.
  assert (Hnz : qsign b <> Eq -> ~ b == 0).
  { intros Hs Hb. apply Hs. unfold qsign. rewrite <- Qeq_alt. exact Hb. }
  destruct (qsign b) eqn:Eb; destruct (qsign a); cbn [ext_eq]; trivial;
    (assert (Hb : ~ b == 0) by (apply Hnz; discriminate));
    field; split; first [assumption | lra].
Qed.

Lemma ext_eq_trans x y z : ext_eq x y -> ext_eq y z -> ext_eq x z.
Proof.
  destruct x, y, z; cbn; try tauto. intros H1 H2. rewrite H1. exact H2.
Qed.

Theorem selection_rate_scale y_pred p ws c :
  0 < c -> oext_eq (selection_rate y_pred p (Some ws)) (selection_rate y_pred p (Some (scale_w c ws))).
Proof.
  intro Hc. unfold selection_rate, weights_or_ones. destruct y_pred as [|y ys]; [exact I|].
  unfold scale_w at 1. rewrite map_length. destruct (Nat.eqb _ _); [|exact I]. cbn [oext_eq].
  eapply ext_eq_trans; [apply (ext_div_scale c); exact Hc|].
  apply ext_div_comp; symmetry; [apply dot_scale | apply qsum_scale].
Qed.

Theorem mean_prediction_scale y_pred ws c :
  0 < c -> oext_eq (mean_prediction y_pred (Some ws)) (mean_prediction y_pred (Some (scale_w c ws))).
Proof.
  intro Hc. unfold mean_prediction, weights_or_ones.
  unfold scale_w at 1. rewrite map_length. destruct (Nat.eqb _ _); [|exact I]. cbn [oext_eq].
  eapply ext_eq_trans; [apply (ext_div_scale c); exact Hc|].
  apply ext_div_comp; symmetry; [apply dot_scale | apply qsum_scale].
Qed.

(* ------------------------------------------------------------------ *)
(* ★ rate_ones: omitted weights = all ones                              *)
(* ------------------------------------------------------------------ *)

Theorem rates_ones y_true y_pred pos :
  rates y_true y_pred None pos = rates y_true y_pred (Some (ones (length y_true))) pos.
Proof. reflexivity. Qed.

Theorem selection_rate_ones y_pred p :
  selection_rate y_pred p None = selection_rate y_pred p (Some (ones (length y_pred))).
Proof. reflexivity. Qed.

Theorem mean_prediction_ones y_pred :
  mean_prediction y_pred None = mean_prediction y_pred (Some (ones (length y_pred))).
Proof. reflexivity. Qed.

(* ------------------------------------------------------------------ *)
(* ★ group slicing commutes with replication                            *)
(* ------------------------------------------------------------------ *)

Lemma select_app {A} m1 m2 (x1 x2 : list A) :
  length m1 = length x1 -> select (m1 ++ m2) (x1 ++ x2) = select m1 x1 ++ select m2 x2.
Proof.
  revert x1. induction m1 as [|b m1 IH]; intros [|x x1] H; cbn in H; try discriminate; [reflexivity|].
  cbn [app select]. rewrite IH by lia. destruct b; reflexivity.
Qed.

Lemma select_repeat {A} b (x : A) n :
  select (repeat b n) (repeat x n) = if b then repeat x n else [].
Proof.
  induction n as [|n IH]; cbn [repeat select]; [destruct b; reflexivity|].
  rewrite IH. destruct b; reflexivity.
Qed.

Lemma select_nil_r {A} m : @select A m [] = [].
Proof. destruct m; reflexivity. Qed.

Lemma replicate_nil_r {A} ks : @replicate A ks [] = [].
Proof. destruct ks; reflexivity. Qed.

Theorem select_replicate {A} ks m (xs : list A) :
  select (replicate ks m) (replicate ks xs) = replicate (select m ks) (select m xs).
Proof.
  revert m xs. induction ks as [|k ks IH]; intros m xs.
  - rewrite !replicate_nil_r || cbn [replicate]. rewrite select_nil_r. destruct m; reflexivity.
  - destruct m as [|b m]; [reflexivity|]. destruct xs as [|x xs].
    + rewrite replicate_nil_r, !select_nil_r, replicate_nil_r. reflexivity.
    + cbn [replicate select]. rewrite select_app by (rewrite !repeat_length; reflexivity).
      rewrite select_repeat, IH. destruct b; reflexivity.
Qed.

Lemma mask_replicate g ks sf : mask_of g (replicate ks sf) = replicate ks (mask_of g sf).
Proof. unfold mask_of. apply map_replicate. Qed.

Lemma select_length_eq {A B} m (a : list A) (b : list B) :
  length a = length b -> length (select m a) = length (select m b).
Proof.
  revert a b. induction m as [|c m IH]; intros [|x a] [|y b] H; cbn in H; try discriminate;
    cbn [select]; try reflexivity.
  destruct c; cbn [length]; rewrite (IH a b) by lia; reflexivity.
Qed.

(* per group: the metric of the group's weighted rows = the metric of the group's rows in the
   replicated data set (a group may consist of a single weighted row) *)
Theorem rates_expand_group g sf y_true y_pred ks pos :
  length y_true = length y_pred -> length ks = length y_true ->
  let m := mask_of g sf in
  let m' := mask_of g (replicate ks sf) in
  orates_eq (rates (select m y_true) (select m y_pred) (Some (map kq (select m ks))) pos)
            (rates (select m' (replicate ks y_true)) (select m' (replicate ks y_pred)) None pos).
Proof.
  intros H1 H2. cbv zeta. rewrite mask_replicate, !select_replicate.
  apply rates_expand; apply select_length_eq; assumption.
Qed.

Theorem selection_rate_expand_group g sf y_pred ks p :
  length ks = length y_pred ->
  let m := mask_of g sf in
  let m' := mask_of g (replicate ks sf) in
  oext_eq (selection_rate (select m y_pred) p (Some (map kq (select m ks))))
          (selection_rate (select m' (replicate ks y_pred)) p None).
Proof.
  intro H. cbv zeta. rewrite mask_replicate, !select_replicate.
  apply selection_rate_expand, select_length_eq, H.
Qed.

Theorem mean_prediction_expand_group g sf y_pred ks :
  length ks = length y_pred ->
  let m := mask_of g sf in
  let m' := mask_of g (replicate ks sf) in
  oext_eq (mean_prediction (select m y_pred) (Some (map kq (select m ks))))
          (mean_prediction (select m' (replicate ks y_pred)) None).
Proof.
  intro H. cbv zeta. rewrite mask_replicate, !select_replicate.
  apply mean_prediction_expand, select_length_eq, H.
Qed.

(* slicing also commutes with rescaling the weights *)
Lemma select_scale m c ws : select m (scale_w c ws) = scale_w c (select m ws).
Proof.
  revert ws. induction m as [|b m IH]; intros [|w ws]; cbn [scale_w map select]; try reflexivity.
  fold (scale_w c ws). rewrite IH. destruct b; reflexivity.
Qed.
