From Coq Require Import QArith ZArith List Bool Lia Lra Psatz.
From FL Require Import Num Aggregates.
Import ListNotations.
Open Scope Q_scope.

Definition fin_or_nan (x : ext) : Prop := match x with Fin _ | NaN => True | _ => False end.
Definition nonneg_or_nan (x : ext) : Prop := match x with Fin q => 0 <= q | NaN => True | _ => False end.
Definition unit_or_nan (x : ext) : Prop := match x with Fin q => 0 <= q <= 1 | NaN => True | _ => False end.
(* x <= 1 in the extended order, or NaN *)
Definition le_one_or_nan (x : ext) : Prop :=
  match x with Fin q => q <= 1 | NInf => True | NaN => True | PInf => False end.
Definition ext_eq (x y : ext) : Prop :=
  match x, y with
  | Fin a, Fin b => a == b
  | PInf, PInf | NInf, NInf | NaN, NaN => True
  | _, _ => False
  end.

Lemma Qleb_true a b : Qleb a b = true <-> a <= b.
Proof. unfold Qleb. apply Qle_bool_iff. Qed.
Lemma Qleb_false a b : Qleb a b = false -> b < a.
Proof.
  intro H. apply Qnot_le_lt. intro H2. apply Qleb_true in H2. congruence.
Qed.

Lemma qabs_spec a : (0 <= a /\ qabs a = a) \/ (a < 0 /\ qabs a = - a).
Proof.
  unfold qabs. destruct (Qleb 0 a) eqn:E; [left | right]; split; auto.
  - apply Qleb_true. exact E.
  - apply Qleb_false. exact E.
Qed.

Lemma qabs_nonneg a : 0 <= qabs a.
Proof. destruct (qabs_spec a) as [[H ->]|[H ->]]; lra. Qed.

(* ---------- max / min of a list of finite-or-NaN cells ---------- *)
Lemma ext_max_spec l : Forall fin_or_nan l ->
  (ext_max l = NaN /\ forall x, In x l -> x = NaN) \/
  (exists q, ext_max l = Fin q /\ In (Fin q) l /\ forall q', In (Fin q') l -> q' <= q).
Proof.
  induction 1 as [|x l Hx Hl IH]; cbn [ext_max fold_right].
  - left. split; [reflexivity | intros ? []].
  - fold (ext_max l). destruct x as [a| | |]; try contradiction.
    + right. destruct IH as [[E Hall]|[q [E [Hin Hub]]]]; rewrite E; cbn [ext_max2].
      * exists a. split; [reflexivity|]. split; [left; reflexivity|].
        intros q' [H|H]; [injection H as <-; lra | apply Hall in H; discriminate].
      * unfold ext_leb. destruct (Qleb a q) eqn:Ele.
        -- apply Qleb_true in Ele. exists q. split; [reflexivity|]. split; [right; exact Hin|].
           intros q' [H|H]; [injection H as <-; exact Ele | apply Hub; exact H].
        -- apply Qleb_false in Ele. exists a. split; [reflexivity|]. split; [left; reflexivity|].
           intros q' [H|H]; [injection H as <-; lra | apply Hub in H; lra].
    + cbn [ext_max2]. destruct IH as [[E Hall]|[q [E [Hin Hub]]]].
      * left. split; [exact E|]. intros x [<-|H]; [reflexivity | apply Hall; exact H].
      * right. exists q. split; [exact E|]. split; [right; exact Hin|].
        intros q' [H|H]; [discriminate | apply Hub; exact H].
Qed.

Lemma ext_min_spec l : Forall fin_or_nan l ->
  (ext_min l = NaN /\ forall x, In x l -> x = NaN) \/
  (exists q, ext_min l = Fin q /\ In (Fin q) l /\ forall q', In (Fin q') l -> q <= q').
Proof.
  induction 1 as [|x l Hx Hl IH]; cbn [ext_min fold_right].
  - left. split; [reflexivity | intros ? []].
  - fold (ext_min l). destruct x as [a| | |]; try contradiction.
    + right. destruct IH as [[E Hall]|[q [E [Hin Hub]]]]; rewrite E; cbn [ext_min2].
      * exists a. split; [reflexivity|]. split; [left; reflexivity|].
        intros q' [H|H]; [injection H as <-; lra | apply Hall in H; discriminate].
      * unfold ext_leb. destruct (Qleb a q) eqn:Ele.
        -- apply Qleb_true in Ele. exists a. split; [reflexivity|]. split; [left; reflexivity|].
           intros q' [H|H]; [injection H as <-; lra | apply Hub in H; lra].
        -- apply Qleb_false in Ele. exists q. split; [reflexivity|]. split; [right; exact Hin|].
           intros q' [H|H]; [injection H as <-; lra | apply Hub; exact H].
    + cbn [ext_min2]. destruct IH as [[E Hall]|[q [E [Hin Hub]]]].
      * left. split; [exact E|]. intros x [<-|H]; [reflexivity | apply Hall; exact H].
      * right. exists q. split; [exact E|]. split; [right; exact Hin|].
        intros q' [H|H]; [discriminate | apply Hub; exact H].
Qed.

(* min of ANY list is NaN or one of its elements *)
Lemma ext_min_in l : ext_min l = NaN \/ In (ext_min l) l.
Proof.
  induction l as [|x l IH]; cbn [ext_min fold_right]; [left; reflexivity|]. fold (ext_min l).
  destruct x; destruct (ext_min l) eqn:E; cbn [ext_min2];
    try (destruct (ext_leb _ _));
    try (right; left; reflexivity);
    try (destruct IH as [IH|IH]; [discriminate | right; right; exact IH]);
    try (left; reflexivity).
Qed.

Lemma abs_diffs_fin cells sub : Forall fin_or_nan cells -> fin_or_nan sub ->
  Forall fin_or_nan (abs_diffs cells sub).
Proof.
  intros H Hs. unfold abs_diffs. apply Forall_forall. intros y Hy.
  apply in_map_iff in Hy. destruct Hy as [v [<- Hv]].
  rewrite Forall_forall in H. specialize (H v Hv).
  destruct v, sub; cbn in *; auto.
Qed.

Lemma abs_diffs_in_fin cells o d :
  In (Fin d) (abs_diffs cells (Fin o)) -> exists v, In (Fin v) cells /\ d = qabs (v + - o).
Proof.
  unfold abs_diffs. intro H. apply in_map_iff in H. destruct H as [x [E Hx]].
  destruct x as [v| | |]; cbn in E; try discriminate. injection E as <-. exists v. auto.
Qed.

Lemma abs_diffs_fin_in cells o v :
  In (Fin v) cells -> In (Fin (qabs (v + - o))) (abs_diffs cells (Fin o)).
Proof. intro H. unfold abs_diffs. apply in_map_iff. exists (Fin v). split; [reflexivity | exact H]. Qed.

Lemma diff_with_all_nan cells sub : (forall x, In x cells -> x = NaN) -> diff_with cells sub = NaN.
Proof.
  intro H. unfold diff_with, abs_diffs. induction cells as [|x l IH]; [reflexivity|].
  cbn [map ext_max fold_right]. rewrite (H x) by (left; reflexivity). cbn.
  apply IH. intros y Hy. apply H. right. exact Hy.
Qed.

(* shape of diff_with against a finite subtrahend *)
Lemma diff_with_fin cells o : Forall fin_or_nan cells ->
  ((forall x, In x cells -> x = NaN) /\ diff_with cells (Fin o) = NaN) \/
  (exists d v, diff_with cells (Fin o) = Fin d /\ In (Fin v) cells /\ d = qabs (v + - o)
               /\ forall v', In (Fin v') cells -> qabs (v' + - o) <= d).
Proof.
  intro Hc.
  destruct (ext_max_spec (abs_diffs cells (Fin o)) (abs_diffs_fin cells (Fin o) Hc I))
    as [[E Hall]|[d [E [Hin Hub]]]].
  - left. split; [|exact E]. intros x Hx. rewrite Forall_forall in Hc. specialize (Hc x Hx).
    destruct x as [v| | |]; try contradiction; [|reflexivity].
    specialize (Hall _ (abs_diffs_fin_in cells o v Hx)). discriminate.
  - right. destruct (abs_diffs_in_fin cells o d Hin) as [v [Hv Hd]].
    exists d, v. split; [exact E|]. split; [exact Hv|]. split; [exact Hd|].
    intros v' Hv'. apply Hub. apply abs_diffs_fin_in. exact Hv'.
Qed.

(* ---------- difference ---------- *)
Theorem diff_between_eq cells : Forall fin_or_nan cells ->
  ext_eq (diff_between cells) (ext_sub (group_max cells) (group_min cells)).
Proof.
  intro Hc. unfold diff_between, group_min, group_max.
  destruct (ext_min_spec cells Hc) as [[Emin Hall]|[mn [Emin [Hmn Hlb]]]].
  - destruct (ext_max_spec cells Hc) as [[Emax _]|[mx [_ [Hmx _]]]].
    + rewrite Emin, Emax, (diff_with_all_nan cells NaN Hall). exact I.
    + apply Hall in Hmx. discriminate.
  - destruct (ext_max_spec cells Hc) as [[_ Hall]|[mx [Emax [Hmx Hub]]]].
    + apply Hall in Hmn. discriminate.
    + rewrite Emin, Emax. cbn [ext_sub ext_neg ext_add].
      destruct (diff_with_fin cells mn Hc) as [[Hall _]|[d [v [E [Hv [Hd Hbound]]]]]].
      * apply Hall in Hmn. discriminate.
      * rewrite E. unfold ext_eq. specialize (Hbound mx Hmx). pose proof (Hlb v Hv) as Hv1.
        pose proof (Hub v Hv) as Hv2. pose proof (Hlb mx Hmx) as Hmm. subst d.
        destruct (qabs_spec (v + - mn)) as [[Ha Ea]|[Ha Ea]]; rewrite Ea in *;
          destruct (qabs_spec (mx + - mn)) as [[Hb Hq]|[Hb Hq]]; rewrite Hq in Hbound; lra.
Qed.

Theorem diff_nonneg cells ov : Forall fin_or_nan cells -> fin_or_nan ov ->
  nonneg_or_nan (diff_between cells) /\ nonneg_or_nan (diff_to_overall cells ov).
Proof.
  intros Hc Ho.
  assert (G : forall sub, fin_or_nan sub -> nonneg_or_nan (diff_with cells sub)).
  { intros sub Hs. destruct sub as [o| | |]; try contradiction.
    - destruct (diff_with_fin cells o Hc) as [[_ ->]|[d [v [-> [_ [-> _]]]]]]; cbn; [exact I | apply qabs_nonneg].
    - assert (E : diff_with cells NaN = NaN); [|rewrite E; exact I].
      unfold diff_with, abs_diffs. clear. induction cells as [|x l IH]; [reflexivity|].
      cbn [map ext_max fold_right]. fold (ext_max (map (fun v => ext_abs (ext_sub v NaN)) l)). rewrite IH.
      destruct x; reflexivity. }
  split; [|apply G; exact Ho].
  unfold diff_between, group_min. apply G.
  destruct (ext_min_spec cells Hc) as [[-> _]|[q [-> _]]]; exact I.
Qed.

Theorem between_le_twice_overall cells o : Forall fin_or_nan cells ->
  match diff_between cells, diff_to_overall cells (Fin o) with
  | Fin a, Fin b => a <= 2 * b
  | NaN, NaN => True
  | _, _ => False
  end.
Proof.
  intro Hc. pose proof (diff_between_eq cells Hc) as Heq. unfold group_max, group_min in Heq.
  unfold diff_to_overall.
  destruct (ext_min_spec cells Hc) as [[Emin Hall]|[mn [Emin [Hmn Hlb]]]].
  - unfold diff_between, group_min. rewrite Emin, !(diff_with_all_nan cells _ Hall). exact I.
  - destruct (ext_max_spec cells Hc) as [[_ Hall]|[mx [Emax [Hmx Hub]]]].
    + apply Hall in Hmn. discriminate.
    + rewrite Emin, Emax in Heq. cbn [ext_sub ext_neg ext_add] in Heq.
      destruct (diff_between cells) as [a| | |]; cbn [ext_eq] in Heq; try contradiction.
      destruct (diff_with_fin cells o Hc) as [[Hall _]|[b [v [-> [_ [_ Hbound]]]]]].
      * apply Hall in Hmn. discriminate.
      * pose proof (Hbound mx Hmx) as B1. pose proof (Hbound mn Hmn) as B2.
        destruct (qabs_spec (mx + - o)) as [[? Hq1]|[? Hq1]]; rewrite Hq1 in B1;
          destruct (qabs_spec (mn + - o)) as [[? Hq2]|[? Hq2]]; rewrite Hq2 in B2; lra.
Qed.

(* overall a positive-weight mean of the non-empty group values *)
Lemma wmean_bounds ws cells lo hi :
  length ws = length cells -> Forall (fun w => 0 < w) ws ->
  (forall v, In (Fin v) cells -> lo <= v <= hi) ->
  lo * wsum_fin ws cells <= wvsum_fin ws cells <= hi * wsum_fin ws cells /\ 0 <= wsum_fin ws cells.
Proof.
  revert cells. induction ws as [|w ws IH]; intros [|c cells] Hlen Hw Hb; cbn [wsum_fin wvsum_fin];
    try (cbn in Hlen; discriminate); try lra.
  inversion Hw as [|? ? Hw0 Hws]; subst.
  assert (Hb' : forall v, In (Fin v) cells -> lo <= v <= hi) by (intros v Hv; apply Hb; right; exact Hv).
  injection Hlen as Hlen. specialize (IH cells Hlen Hws Hb').
  destruct c as [v| | |]; try exact IH.
  assert (Hv : lo <= v <= hi) by (apply Hb; left; reflexivity). nra.
Qed.

Lemma wsum_nonneg ws cells : Forall (fun w => 0 < w) ws -> 0 <= wsum_fin ws cells.
Proof.
  revert cells. induction ws as [|w ws IH]; intros [|c cells] Hw; cbn [wsum_fin]; try lra.
  inversion Hw as [|? ? Hw0 Hws]; subst. specialize (IH cells Hws). destruct c; lra.
Qed.

Lemma wsum_pos ws cells v :
  length ws = length cells -> Forall (fun w => 0 < w) ws -> In (Fin v) cells -> 0 < wsum_fin ws cells.
Proof.
  revert cells. induction ws as [|w ws IH]; intros [|c cells] Hlen Hw Hin; cbn [wsum_fin];
    try (cbn in Hlen; discriminate); try contradiction.
  inversion Hw as [|? ? Hw0 Hws]; subst. injection Hlen as Hlen.
  pose proof (wsum_nonneg ws cells Hws) as Hnn.
  destruct Hin as [->|Hin]; [lra|].
  specialize (IH cells Hlen Hws Hin). destruct c; lra.
Qed.

Theorem overall_le_between_for_means cells ws o :
  Forall fin_or_nan cells -> length ws = length cells -> Forall (fun w => 0 < w) ws ->
  o * wsum_fin ws cells == wvsum_fin ws cells ->
  match diff_between cells, diff_to_overall cells (Fin o) with
  | Fin a, Fin b => b <= a
  | NaN, NaN => True
  | _, _ => False
  end.
Proof.
  intros Hc Hlen Hw Hmean. pose proof (diff_between_eq cells Hc) as Heq.
  unfold group_max, group_min in Heq. unfold diff_to_overall.
  destruct (ext_min_spec cells Hc) as [[Emin Hall]|[mn [Emin [Hmn Hlb]]]].
  - unfold diff_between, group_min. rewrite Emin, !(diff_with_all_nan cells _ Hall). exact I.
  - destruct (ext_max_spec cells Hc) as [[_ Hall]|[mx [Emax [Hmx Hub]]]].
    + apply Hall in Hmn. discriminate.
    + rewrite Emin, Emax in Heq. cbn [ext_sub ext_neg ext_add] in Heq.
      destruct (diff_between cells) as [a| | |]; cbn [ext_eq] in Heq; try contradiction.
      assert (Hb : forall v, In (Fin v) cells -> mn <= v <= mx) by (intros v Hv; split; auto).
      destruct (wmean_bounds ws cells mn mx Hlen Hw Hb) as [[B1 B2] _].
      pose proof (wsum_pos ws cells mn Hlen Hw Hmn) as Hpos.
      assert (Ho : mn <= o <= mx) by (split; nra).
      destruct (diff_with_fin cells o Hc) as [[Hall _]|[b [v [-> [Hv [-> _]]]]]].
      * apply Hall in Hmn. discriminate.
      * specialize (Hb v Hv). destruct (qabs_spec (v + - o)) as [[? ->]|[? ->]]; lra.
Qed.

(* ---------- ratio ---------- *)
Lemma ratio_sub_one_le_one x : le_one_or_nan (ratio_sub_one x).
Proof.
  unfold ratio_sub_one. destruct x as [a| | |]; cbn [ext_ltb]; try exact I.
  - unfold Qltb. destruct (Qle_bool a 1) eqn:E; cbn [negb].
    + cbn. apply Qle_bool_iff. exact E.
    + assert (H : 1 < a) by (apply Qnot_le_lt; intro H2; apply Qle_bool_iff in H2; congruence).
      cbn [ext_div]. unfold qsign. destruct (Qcompare_spec a 0) as [H0|H0|H0]; try lra.
      cbn. apply Qle_shift_div_r; lra.
  - cbn. lra.
Qed.

(* to_overall: never above one, whatever the cells and the overall value *)
Theorem ratio_to_overall_le_one cells ov : le_one_or_nan (ratio_to_overall cells ov).
Proof.
  unfold ratio_to_overall, ratio_to_overall_with.
  destruct (ext_min_in (map (fun v => ratio_sub_one (ext_div v ov)) cells)) as [->|H]; [exact I|].
  apply in_map_iff in H. destruct H as [v [<- _]]. apply ratio_sub_one_le_one.
Qed.

Theorem ratio_between_unit cells : Forall nonneg_or_nan cells -> unit_or_nan (ratio_between cells).
Proof.
  intro Hn.
  assert (Hc : Forall fin_or_nan cells).
  { eapply Forall_impl; [|exact Hn]. intros [| | |]; cbn; auto. }
  unfold ratio_between, group_min, group_max.
  destruct (ext_min_spec cells Hc) as [[-> _]|[mn [-> [Hmn Hlb]]]]; [exact I|].
  destruct (ext_max_spec cells Hc) as [[_ Hall]|[mx [-> [Hmx Hub]]]].
  - apply Hall in Hmn. discriminate.
  - rewrite Forall_forall in Hn. pose proof (Hn _ Hmn) as N1. pose proof (Hn _ Hmx) as N2. cbn in N1, N2.
    specialize (Hub mn Hmn). cbn [ext_div]. unfold qsign.
    destruct (Qcompare_spec mx 0) as [H0|H0|H0]; try lra.
    + destruct (Qcompare_spec mn 0) as [H1|H1|H1]; try exact I; lra.
    + cbn. split; [apply Qle_shift_div_l; lra | apply Qle_shift_div_r; lra].
Qed.

Lemma ratio_sub_one_unit v o : nonneg_or_nan v -> nonneg_or_nan o ->
  unit_or_nan (ratio_sub_one (ext_div v o)).
Proof.
  intros Hv Ho. destruct v as [a| | |], o as [b| | |]; try contradiction; try exact I. cbn in Hv, Ho.
  cbn [ext_div]. unfold qsign.
  destruct (Qcompare_spec b 0) as [H0|H0|H0]; try lra.
  - destruct (Qcompare_spec a 0) as [H1|H1|H1]; try lra; [exact I|].
    unfold ratio_sub_one. cbn. lra.
  - unfold ratio_sub_one. cbn [ext_ltb]. unfold Qltb.
    assert (Hq : 0 <= a / b) by (apply Qle_shift_div_l; lra).
    destruct (Qle_bool (a / b) 1) eqn:E; cbn [negb].
    + cbn. split; [exact Hq | apply Qle_bool_iff; exact E].
    + assert (H : 1 < a / b) by (apply Qnot_le_lt; intro H2; apply Qle_bool_iff in H2; congruence).
      cbn [ext_div]. unfold qsign. destruct (Qcompare_spec (a / b) 0) as [H2|H2|H2]; try lra.
      cbn. split; [apply Qle_shift_div_l; lra | apply Qle_shift_div_r; lra].
Qed.

Theorem ratio_to_overall_unit cells ov : Forall nonneg_or_nan cells -> nonneg_or_nan ov ->
  unit_or_nan (ratio_to_overall cells ov).
Proof.
  intros Hn Ho. unfold ratio_to_overall, ratio_to_overall_with.
  destruct (ext_min_in (map (fun v => ratio_sub_one (ext_div v ov)) cells)) as [->|H]; [exact I|].
  apply in_map_iff in H. destruct H as [v [<- Hv]]. rewrite Forall_forall in Hn.
  apply ratio_sub_one_unit; auto.
Qed.

(* ratio <= 1 is FALSE for between_groups on negative metric values *)
Lemma ratio_between_exceeds_one :
  let cells := [Fin (-2 # 1); Fin (-1 # 1)] in
  Forall fin_or_nan cells /\ ratio_between cells = Fin ((-2 # 1) / (-1 # 1)) /\ 1 < (-2 # 1) / (-1 # 1).
Proof. cbv zeta. split; [repeat constructor | split; [vm_compute; reflexivity | reflexivity]]. Qed.

(* ---------- errors = 'raise' vs 'coerce' on scalar cells ---------- *)
Theorem raise_coerce_agree cells ov :
  aggregates_coerce (map Sc cells) (Sc ov) = aggregates cells ov.
Proof.
  unfold aggregates_coerce. rewrite map_map. cbn [coerce_cell]. rewrite map_id. reflexivity.
Qed.
