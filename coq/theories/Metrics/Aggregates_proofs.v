From Coq Require Import QArith ZArith List Bool Lia Lra Psatz.
From FL Require Import Num Aggregates.
Import ListNotations.
Open Scope Q_scope.

Definition fin_or_nan (x : ext) : Prop := match x with Fin _ | NaN => True | _ => False end.
Definition nonneg_or_nan (x : ext) : Prop := match x with Fin q => 0 <= q | NaN => True | _ => False end.
Definition unit_or_nan (x : ext) : Prop := match x with Fin q => 0 <= q <= 1 | NaN => True | _ => False end.
(* x <= 1 in the extended order, or NaN *)
Definition le_one_or_nan (x : ext) : Prop :=
  match x with Fin q => q <= 1 | NInf => True | NaN => True | PInf => False end.
Definition ext_eq (x y : ext) : Prop :=
  match x, y with
  | Fin a, Fin b => a == b
  | PInf, PInf | NInf, NInf | NaN, NaN => True
  | _, _ => False
  end.

Lemma Qleb_true a b : Qleb a b = true <-> a <= b.
Proof. unfold Qleb. apply Qle_bool_iff. Qed.
Lemma Qleb_false a b : Qleb a b = false -> b < a.
Proof.
  intro H. apply Qnot_le_lt. intro H2. apply Qleb_true in H2. congruence.
Qed.

Lemma qabs_spec a : (0 <= a /\ qabs a = a) \/ (a < 0 /\ qabs a = - a).
Proof.
  unfold qabs. destruct (Qleb 0 a) eqn:E; [left | right]; split; auto.
  - apply Qleb_true. exact E.
  - apply Qleb_false. exact E.
Qed.

Lemma qabs_nonneg a : 0 <= qabs a.
Proof. destruct (qabs_spec a) as [[H ->]|[H ->]]; lra. Qed.

(* ---------- max / min of a list of finite-or-NaN cells ---------- *)
Lemma ext_max_spec l : Forall fin_or_nan l ->
  (ext_max l = NaN /\ forall x, In x l -> x = NaN) \/
  (exists q, ext_max l = Fin q /\ In (Fin q) l /\ forall q', In (Fin q') l -> q' <= q).
Proof.
  induction 1 as [|x l Hx Hl IH]; cbn [ext_max fold_right].
  - left. split; [reflexivity | intros ? []].
  - fold (ext_max l). destruct x as [a| | |]; try contradiction.
    + right. destruct IH as [[E Hall]|[q [E [Hin Hub]]]]; rewrite E; cbn [ext_max2].
      * exists a. split; [reflexivity|]. split; [left; reflexivity|].
        intros q' [H|H]; [injection H as <-; lra | apply Hall in H; discriminate].
      * unfold ext_leb. destruct (Qleb a q) eqn:Ele.
        -- apply Qleb_true in Ele. exists q. split; [reflexivity|]. split; [right; exact Hin|].
           intros q' [H|H]; [injection H as <-; exact Ele | apply Hub; exact H].
        -- apply Qleb_false in Ele. exists a. split; [reflexivity|]. split; [left; reflexivity|].
           intros q' [H|H]; [injection H as <-; lra | apply Hub in H; lra].
    + cbn [ext_max2]. destruct IH as [[E Hall]|[q [E [Hin Hub]]]].
      * left. split; [exact E|]. intros x [<-|H]; [reflexivity | apply Hall; exact H].
      * right. exists q. split; [exact E|]. split; [right; exact Hin|].
        intros q' [H|H]; [discriminate | apply Hub; exact H].
Qed.

Lemma ext_min_spec l : Forall fin_or_nan l ->
  (ext_min l = NaN /\ forall x, In x l -> x = NaN) \/
  (exists q, ext_min l = Fin q /\ In (Fin q) l /\ forall q', In (Fin q') l -> q <= q').
Proof.
  induction 1 as [|x l Hx Hl IH]; cbn [ext_min fold_right].
  - left. split; [reflexivity | intros ? []].
  - fold (ext_min l). destruct x as [a| | |]; try contradiction.
    + right. destruct IH as [[E Hall]|[q [E [Hin Hub]]]]; rewrite E; cbn [ext_min2].
      * exists a. split; [reflexivity|]. split; [left; reflexivity|].
        intros q' [H|H]; [injection H as <-; lra | apply Hall in H; discriminate].
      * unfold ext_leb. destruct (Qleb a q) eqn:Ele.
        -- apply Qleb_true in Ele. exists a. split; [reflexivity|]. split; [left; reflexivity|].
           intros q' [H|H]; [injection H as <-; lra | apply Hub in H; lra].
        -- apply Qleb_false in Ele. exists q. split; [reflexivity|]. split; [right; exact Hin|].
           intros q' [H|H]; [injection H as <-; lra | apply Hub; exact H].
    + cbn [ext_min2]. destruct IH as [[E Hall]|[q [E [Hin Hub]]]].
      * left. split; [exact E|]. intros x [<-|H]; [reflexivity | apply Hall; exact H].
      * right. exists q. split; [exact E|]. split; [right; exact Hin|].
        intros q' [H|H]; [discriminate | apply Hub; exact H].
Qed.

(* min of ANY list is NaN or one of its elements *)
Lemma ext_min_in l : ext_min l = NaN \/ In (ext_min l) l.
Proof.
  induction l as [|x l IH]; cbn [ext_min fold_right]; [left; reflexivity|]. fold (ext_min l).
  destruct x; destruct (ext_min l) eqn:E; cbn [ext_min2];
    try (destruct (ext_leb _ _));
    try (right; left; reflexivity);
    try (destruct IH as [IH|IH]; [discriminate | right; right; exact IH]);
    try (left; reflexivity).
Qed.

Lemma abs_diffs_fin cells sub : Forall fin_or_nan cells -> fin_or_nan sub ->
  Forall fin_or_nan (abs_diffs cells sub).
Proof.
  intros H Hs. unfold abs_diffs. apply Forall_forall. intros y Hy.
  apply in_map_iff in Hy. destruct Hy as [v [<- Hv]].
  rewrite Forall_forall in H. specialize (H v Hv).
  destruct v, sub; cbn in *; auto.
Qed.

Lemma abs_diffs_in_fin cells o d :
  In (Fin d) (abs_diffs cells (Fin o)) -> exists v, In (Fin v) cells /\ d = qabs (v + - o).
Proof.
  unfold abs_diffs. intro H. apply in_map_iff in H. destruct H as [x [E Hx]].
  destruct x as [v| | |]; cbn in E; try discriminate. injection E as <-. exists v. auto.
Qed.

Lemma abs_diffs_fin_in cells o v :
  In (Fin v) cells -> In (Fin (qabs (v + - o))) (abs_diffs cells (Fin o)).
Proof. intro H. unfold abs_diffs. apply in_map_iff. exists (Fin v). split; [reflexivity | exact H]. Qed.

Lemma diff_with_all_nan cells sub : (forall x, In x cells -> x = NaN) -> diff_with cells sub = NaN.
Proof.
  intro H. unfold diff_with, abs_diffs. induction cells as [|x l IH]; [reflexivity|].
  cbn [map ext_max fold_right]. rewrite (H x) by (left; reflexivity). cbn.
  apply IH. intros y Hy. apply H. right. exact Hy.
Qed.

(* shape of diff_with against a finite subtrahend *)
Lemma diff_with_fin cells o : Forall fin_or_nan cells ->
  ((forall x, In x cells -> x = NaN) /\ diff_with cells (Fin o) = NaN) \/
  (exists d v, diff_with cells (Fin o) = Fin d /\ In (Fin v) cells /\ d = qabs (v + - o)
               /\ forall v', In (Fin v') cells -> qabs (v' + - o) <= d).
Proof.
  intro Hc.
  destruct (ext_max_spec (abs_diffs cells (Fin o)) (abs_diffs_fin cells (Fin o) Hc I))
    as [[E Hall]|[d [E [Hin Hub]]]].
  - left. split; [|exact E]. intros x Hx. rewrite Forall_forall in Hc. specialize (Hc x Hx).
    destruct x as [v| | |]; try contradiction; [|reflexivity].
    specialize (Hall _ (abs_diffs_fin_in cells o v Hx)). discriminate.
  - right. destruct (abs_diffs_in_fin cells o d Hin) as [v [Hv Hd]].
    exists d, v. split; [exact E|]. split; [exact Hv|]. split; [exact Hd|].
    intros v' Hv'. apply Hub. apply abs_diffs_fin_in. exact Hv'.
Qed.

(* ---------- difference ---------- *)
Theorem diff_between_eq cells : Forall fin_or_nan cells ->
  ext_eq (diff_between cells) (ext_sub (group_max cells) (group_min cells)).
Proof.
  intro Hc. unfold diff_between, group_min, group_max.
  destruct (ext_min_spec cells Hc) as [[Emin Hall]|[mn [Emin [Hmn Hlb]]]].
  - destruct (ext_max_spec cells Hc) as [[Emax _]|[mx [_ [Hmx _]]]].
    + rewrite Emin, Emax, (diff_with_all_nan cells NaN Hall). exact I.
    + apply Hall in Hmx. discriminate.
  - destruct (ext_max_spec cells Hc) as [[_ Hall]|[mx [Emax [Hmx Hub]]]].
    + apply Hall in Hmn. discriminate.
    + rewrite Emin, Emax. cbn [ext_sub ext_neg ext_add].
      destruct (diff_with_fin cells mn Hc) as [[Hall _]|[d [v [E [Hv [Hd Hbound]]]]]].
      * apply Hall in Hmn. discriminate.
      * rewrite E. unfold ext_eq. specialize (Hbound mx Hmx). pose proof (Hlb v Hv) as Hv1.
        pose proof (Hub v Hv) as Hv2. pose proof (Hlb mx Hmx) as Hmm. subst d.
        destruct (qabs_spec (v + - mn)) as [[Ha Ea]|[Ha Ea]]; rewrite Ea in *;
          destruct (qabs_spec (mx + - mn)) as [[Hb Hq]|[Hb Hq]]; rewrite Hq in Hbound; lra.
Qed.

Theorem diff_nonneg cells ov : Forall fin_or_nan cells -> fin_or_nan ov ->
  nonneg_or_nan (diff_between cells) /\ nonneg_or_nan (diff_to_overall cells ov).
Proof.
  intros Hc Ho.
  assert (G : forall sub, fin_or_nan sub -> nonneg_or_nan (diff_with cells sub)).
  { intros sub Hs. destruct sub as [o| | |]; try contradiction.
    - destruct (diff_with_fin cells o Hc) as [[_ ->]|[d [v [-> [_ [-> _]]]]]]; cbn; [exact I | apply qabs_nonneg].
    - assert (E : diff_with cells NaN = NaN); [|rewrite E; exact I].
      unfold diff_with, abs_diffs. clear. induction cells as [|x l IH]; [reflexivity|].
      cbn [map ext_max fold_right]. fold (ext_max (map (fun v => ext_abs (ext_sub v NaN)) l)). rewrite IH.
      destruct x; reflexivity. }
  split; [|apply G; exact Ho].
  unfold diff_between, group_min. apply G.
  destruct (ext_min_spec cells Hc) as [[-> _]|[q [-> _]]]; exact I.
Qed.

Theorem between_le_twice_overall cells o : Forall fin_or_nan cells ->
  match diff_between cells, diff_to_overall cells (Fin o) with
  | Fin a, Fin b => a <= 2 * b
  | NaN, NaN => True
  | _, _ => False
  end.
Proof.
  intro Hc. pose proof (diff_between_eq cells Hc) as Heq. unfold group_max, group_min in Heq.
  unfold diff_to_overall.
  destruct (ext_min_spec cells Hc) as [[Emin Hall]|[mn [Emin [Hmn Hlb]]]].
  - unfold diff_between, group_min. rewrite Emin, !(diff_with_all_nan cells _ Hall). exact I.
  - destruct (ext_max_spec cells Hc) as [[_ Hall]|[mx [Emax [Hmx Hub]]]].
    + apply Hall in Hmn. discriminate.
    + rewrite Emin, Emax in Heq. cbn [ext_sub ext_neg ext_add] in Heq.
      destruct (diff_between cells) as [a| | |]; cbn [ext_eq] in Heq; try contradiction.
      destruct (diff_with_fin cells o Hc) as [[Hall _]|[b [v [-> [_ [_ Hbound]]]]]].
      * apply Hall in Hmn. discriminate.
      * pose proof (Hbound mx Hmx) as B1. pose proof (Hbound mn Hmn) as B2.
        destruct (qabs_spec (mx + - o)) as [[? Hq1]|[? Hq1]]; rewrite Hq1 in B1;
          destruct (qabs_spec (mn + - o)) as [[? Hq2]|[? Hq2]]; rewrite Hq2 in B2; lra.
Qed.

(* overall a positive-weight mean of the non-empty group values *)
Lemma wmean_bounds ws cells lo hi :
  length ws = length cells -> Forall (fun w => 0 < w) ws ->
  (forall v, In (Fin v) cells -> lo <= v <= hi) ->
  lo * wsum_fin ws cells <= wvsum_fin ws cells <= hi * wsum_fin ws cells /\ 0 <= wsum_fin ws cells.
Proof.
  revert cells. induction ws as [|w ws IH]; intros [|c cells] Hlen Hw Hb; cbn [wsum_fin wvsum_fin];
    try (cbn in Hlen; discriminate); try lra.
  inversion Hw as [|? ? Hw0 Hws]; subst.
  assert (Hb' : forall v, In (Fin v) cells -> lo <= v <= hi) by (intros v Hv; apply Hb; right; exact Hv).
  injection Hlen as Hlen. specialize (IH cells Hlen Hws Hb').
  destruct c as [v| | |]; try exact IH.
  assert (Hv : lo <= v <= hi) by (apply Hb; left; reflexivity). nra.
Qed.

Lemma wsum_nonneg ws cells : Forall (fun w => 0 < w) ws -> 0 <= wsum_fin ws cells.
Proof.
  revert cells. induction ws as [|w ws IH]; intros [|c cells] Hw; cbn [wsum_fin]; try lra.
  inversion Hw as [|? ? Hw0 Hws]; subst. specialize (IH cells Hws). destruct c; lra.
Qed.

Lemma wsum_pos ws cells v :
  length ws = length cells -> Forall (fun w => 0 < w) ws -> In (Fin v) cells -> 0 < wsum_fin ws cells.
Proof.
  revert cells. induction ws as [|w ws IH]; intros [|c cells] Hlen Hw Hin; cbn [wsum_fin];
    try (cbn in Hlen; discriminate); try contradiction.
  inversion Hw as [|? ? Hw0 Hws]; subst. injection Hlen as Hlen.
  pose proof (wsum_nonneg ws cells Hws) as Hnn.
  destruct Hin as [->|Hin]; [lra|].
  specialize (IH cells Hlen Hws Hin). destruct c; lra.
Qed.

Theorem overall_le_between_for_means cells ws o :
  Forall fin_or_nan cells -> length ws = length cells -> Forall (fun w => 0 < w) ws ->
  o * wsum_fin ws cells == wvsum_fin ws cells ->
  match diff_between cells, diff_to_overall cells (Fin o) with
  | Fin a, Fin b => b <= a
  | NaN, NaN => True
  | _, _ => False
  end.
Proof.
  intros Hc Hlen Hw Hmean. pose proof (diff_between_eq cells Hc) as Heq.
  unfold group_max, group_min in Heq. unfold diff_to_overall.
  destruct (ext_min_spec cells Hc) as [[Emin Hall]|[mn [Emin [Hmn Hlb]]]].
  - unfold diff_between, group_min. rewrite Emin, !(diff_with_all_nan cells _ Hall). exact I.
  - destruct (ext_max_spec cells Hc) as [[_ Hall]|[mx [Emax [Hmx Hub]]]].
    + apply Hall in Hmn. discriminate.
    + rewrite Emin, Emax in Heq. cbn [ext_sub ext_neg ext_add] in Heq.
      destruct (diff_between cells) as [a| | |]; cbn [ext_eq] in Heq; try contradiction.
      assert (Hb : forall v, In (Fin v) cells -> mn <= v <= mx) by (intros v Hv; split; auto).
      destruct (wmean_bounds ws cells mn mx Hlen Hw Hb) as [[B1 B2] _].
      pose proof (wsum_pos ws cells mn Hlen Hw Hmn) as Hpos.
      assert (Ho : mn <= o <= mx) by (split; nra).
      destruct (diff_with_fin cells o Hc) as [[Hall _]|[b [v [-> [Hv [-> _]]]]]].
      * apply Hall in Hmn. discriminate.
      * specialize (Hb v Hv). destruct (qabs_spec (v + - o)) as [[? ->]|[? ->]]; lra.
Qed.

(* ---------- ratio ---------- *)
Lemma ratio_sub_one_le_one x : le_one_or_nan (ratio_sub_one x).
Proof.
  unfold ratio_sub_one. destruct x as [a| | |]; cbn [ext_ltb]; try exact I.
  - unfold Qltb. destruct (Qle_bool a 1) eqn:E; cbn [negb].
    + cbn. apply Qle_bool_iff. exact E.
    + assert (H : 1 < a) by (apply Qnot_le_lt; intro H2; apply Qle_bool_iff in H2; congruence).
      cbn [ext_div]. unfold qsign. destruct (Qcompare_spec a 0) as [H0|H0|H0]; try lra.
      cbn. apply Qle_shift_div_r; lra.
  - cbn. lra.
Qed.

(* to_overall: never above one, whatever the cells and the overall value *)
Theorem ratio_to_overall_le_one cells ov : le_one_or_nan (ratio_to_overall cells ov).
Proof.
  unfold ratio_to_overall, ratio_to_overall_with.
  destruct (ext_min_in (map (fun v => ratio_sub_one (ext_div v ov)) cells)) as [->|H]; [exact I|].
  apply in_map_iff in H. destruct H as [v [<- _]]. apply ratio_sub_one_le_one.
Qed.

Theorem ratio_between_unit cells : Forall nonneg_or_nan cells -> unit_or_nan (ratio_between cells).
Proof.
  intro Hn.
  assert (Hc : Forall fin_or_nan cells).
  { eapply Forall_impl; [|exact Hn]. intros [| | |]; cbn; auto. }
  unfold ratio_between, group_min, group_max.
  destruct (ext_min_spec cells Hc) as [[-> _]|[mn [-> [Hmn Hlb]]]]; [exact I|].
  destruct (ext_max_spec cells Hc) as [[_ Hall]|[mx [-> [Hmx Hub]]]].
  - apply Hall in Hmn. discriminate.
  - rewrite Forall_forall in Hn. pose proof (Hn _ Hmn) as N1. pose proof (Hn _ Hmx) as N2. cbn in N1, N2.
    specialize (Hub mn Hmn). cbn [ext_div]. unfold qsign.
    destruct (Qcompare_spec mx 0) as [H0|H0|H0]; try lra.
    + destruct (Qcompare_spec mn 0) as [H1|H1|H1]; try exact I; lra.
    + cbn. split; [apply Qle_shift_div_l; lra | apply Qle_shift_div_r; lra].
Qed.

Lemma ratio_sub_one_unit v o : nonneg_or_nan v -> nonneg_or_nan o ->
  unit_or_nan (ratio_sub_one (ext_div v o)).
Proof.
  intros Hv Ho. destruct v as [a| | |], o as [b| | |]; try contradiction; try exact I. cbn in Hv, Ho.
  cbn [ext_div]. unfold qsign.
  destruct (Qcompare_spec b 0) as [H0|H0|H0]; try lra.
  - destruct (Qcompare_spec a 0) as [H1|H1|H1]; try lra; [exact I|].
    unfold ratio_sub_one. cbn. lra.
  - unfold ratio_sub_one. cbn [ext_ltb]. unfold Qltb.
    assert (Hq : 0 <= a / b) by (apply Qle_shift_div_l; lra).
    destruct (Qle_bool (a / b) 1) eqn:E; cbn [negb].
    + cbn. split; [exact Hq | apply Qle_bool_iff; exact E].
    + assert (H : 1 < a / b) by (apply Qnot_le_lt; intro H2; apply Qle_bool_iff in H2; congruence).
      cbn [ext_div]. unfold qsign. destruct (Qcompare_spec (a / b) 0) as [H2|H2|H2]; try lra.
      cbn. split; [apply Qle_shift_div_l; lra | apply Qle_shift_div_r; lra].
Qed.

Theorem ratio_to_overall_unit cells ov : Forall nonneg_or_nan cells -> nonneg_or_nan ov ->
  unit_or_nan (ratio_to_overall cells ov).
Proof.
  intros Hn Ho. unfold ratio_to_overall, ratio_to_overall_with.
  destruct (ext_min_in (map (fun v => ratio_sub_one (ext_div v ov)) cells)) as [->|H]; [exact I|].
  apply in_map_iff in H. destruct H as [v [<- Hv]]. rewrite Forall_forall in Hn.
  apply ratio_sub_one_unit; auto.
Qed.

(* ratio <= 1 is FALSE for between_groups on negative metric values *)
Lemma ratio_between_exceeds_one :
  let cells := [Fin (-2 # 1); Fin (-1 # 1)] in
  Forall fin_or_nan cells /\ ratio_between cells = Fin ((-2 # 1) / (-1 # 1)) /\ 1 < (-2 # 1) / (-1 # 1).
Proof. cbv zeta. split; [repeat constructor | split; [vm_compute; reflexivity | reflexivity]]. Qed.

(* ---------- errors = 'raise' vs 'coerce' on scalar cells ---------- *)
Theorem raise_coerce_agree cells ov :
  aggregates_coerce (map Sc cells) (Sc ov) = aggregates cells ov.
Proof.
  unfold aggregates_coerce. rewrite map_map. cbn [coerce_cell]. rewrite map_id. reflexivity.
Qed.

(* ================================================================================================
   WHOLE-TABLE MODEL: control-level structure
   ================================================================================================ *)
Lemma agg_ext_nil g s : agg_ext g s [] = NaN.
Proof. destruct g, s; reflexivity. Qed.

Lemma c_diff_is_diff_with cells sub : c_agg AggMax true (c_abs (c_sub cells sub)) = diff_with cells sub.
Proof. unfold c_agg, agg_ext, c_abs, c_sub, diff_with, abs_diffs. rewrite map_map. reflexivity. Qed.

Lemma c_ratio_is_ratio_with fold cells ov :
  c_agg AggMin true (c_map fold (c_div cells ov)) = ratio_to_overall_with fold cells ov.
Proof. unfold c_agg, agg_ext, c_map, c_div, ratio_to_overall_with. rewrite map_map. reflexivity. Qed.

Section KeyedProofs.
Context {K : Type} (keqb : K -> K -> bool).
Hypothesis keqb_spec : forall a b, keqb a b = true <-> a = b.

Lemma keqb_refl k : keqb k k = true.
Proof. apply keqb_spec. reflexivity. Qed.

Lemma keqb_false a b : keqb a b = false <-> a <> b.
Proof.
  split.
  - intros H E. apply keqb_spec in E. congruence.
  - intro H. destruct (keqb a b) eqn:E; [|reflexivity]. apply keqb_spec in E. contradiction.
Qed.

Lemma klookup_tabulate (F : K -> ext) ks k :
  In k ks -> klookup keqb k (map (fun k' => (k', F k')) ks) = F k.
Proof.
  induction ks as [|a ks IH]; intro H; [contradiction|]. cbn [map klookup fst snd].
  destruct (keqb k a) eqn:E.
  - apply keqb_spec in E. subst a. reflexivity.
  - destruct H as [->|H]; [rewrite keqb_refl in E; discriminate | apply IH; exact H].
Qed.

Lemma kkeys_in k l : In k (kkeys keqb l) <-> In k l.
Proof.
  induction l as [|a l IH]; cbn [kkeys]; [tauto|]. split.
  - intros [->|H]; [left; reflexivity|]. apply filter_In in H. right. apply IH. tauto.
  - intros [->|H]; [left; reflexivity|]. destruct (keqb k a) eqn:E.
    + apply keqb_spec in E. left. congruence.
    + right. apply filter_In. split; [apply IH; exact H | rewrite E; reflexivity].
Qed.

Lemma kcells_app {A} k (r1 r2 : list (K * A)) : kcells keqb k (r1 ++ r2) = kcells keqb k r1 ++ kcells keqb k r2.
Proof. unfold kcells. rewrite filter_app, map_app. reflexivity. Qed.

(* a map that keeps the key and rewrites the cell from the key and the cell commutes with kcells *)
Lemma kcells_map_cell {A B} (f : K -> A -> B) k (rows : list (K * A)) :
  kcells keqb k (map (fun r => (fst r, f (fst r) (snd r))) rows) = map (f k) (kcells keqb k rows).
Proof.
  unfold kcells. induction rows as [|r rows IH]; [reflexivity|]. cbn [map filter fst snd].
  destruct (keqb (fst r) k) eqn:E; cbn [map snd]; [|exact IH].
  apply keqb_spec in E. rewrite E, IH. reflexivity.
Qed.

Lemma fst_map_cell {A B} (f : K -> A -> B) (rows : list (K * A)) :
  map fst (map (fun r => (fst r, f (fst r) (snd r))) rows) = map fst rows.
Proof. rewrite map_map. apply map_ext. reflexivity. Qed.

Lemma kcells_t_num k rows : kcells keqb k (t_num rows) = c_num (kcells keqb k rows).
Proof. exact (kcells_map_cell (fun _ => num_of) k rows). Qed.
Lemma kcells_t_filter f k rows : kcells keqb k (t_filter f rows) = c_filter f (kcells keqb k rows).
Proof. exact (kcells_map_cell (fun _ => f) k rows). Qed.
Lemma kcells_t_map f k rows : kcells keqb k (t_map f rows) = c_map f (kcells keqb k rows).
Proof. exact (kcells_map_cell (fun _ => f) k rows). Qed.
Lemma kcells_t_abs k rows : kcells keqb k (t_abs rows) = c_abs (kcells keqb k rows).
Proof. exact (kcells_map_cell (fun _ => ext_abs) k rows). Qed.
(* the subtrahend / denominator a row meets is the one of ITS OWN control key *)
Lemma kcells_t_sub k rows sub :
  kcells keqb k (t_sub keqb rows sub) = c_sub (kcells keqb k rows) (klookup keqb k sub).
Proof. exact (kcells_map_cell (fun k' v => ext_sub v (klookup keqb k' sub)) k rows). Qed.
Lemma kcells_t_div k rows den :
  kcells keqb k (t_div keqb rows den) = c_div (kcells keqb k rows) (klookup keqb k den).
Proof. exact (kcells_map_cell (fun k' v => ext_div v (klookup keqb k' den)) k rows). Qed.

Lemma fst_t_num (rows : list (K * pycell)) : map fst (t_num rows) = map fst rows.
Proof. exact (fst_map_cell (fun _ => num_of) rows). Qed.
Lemma fst_t_filter f (rows : list (K * pycell)) : map fst (t_filter f rows) = map fst rows.
Proof. exact (fst_map_cell (fun _ => f) rows). Qed.
Lemma fst_t_map f (rows : list (K * ext)) : map fst (t_map f rows) = map fst rows.
Proof. exact (fst_map_cell (fun _ => f) rows). Qed.
Lemma fst_t_abs (rows : list (K * ext)) : map fst (t_abs rows) = map fst rows.
Proof. exact (fst_map_cell (fun _ => ext_abs) rows). Qed.
Lemma fst_t_sub rows sub : map fst (t_sub keqb rows sub) = map fst rows.
Proof. exact (fst_map_cell (fun k' v => ext_sub v (klookup keqb k' sub)) rows). Qed.
Lemma fst_t_div rows den : map fst (t_div keqb rows den) = map fst rows.
Proof. exact (fst_map_cell (fun k' v => ext_div v (klookup keqb k' den)) rows). Qed.

Lemma klookup_t_agg g s rows k :
  In k (map fst rows) -> klookup keqb k (t_agg keqb g s rows) = agg_ext g s (kcells keqb k rows).
Proof.
  intro H. unfold t_agg.
  apply (klookup_tabulate (fun k' => agg_ext g s (kcells keqb k' rows))). apply kkeys_in. exact H.
Qed.

(* ---------- per control key: every whole-table aggregate, read at key k, is the no-control aggregate
   of the rows of key k and of the overall value AT KEY k ---------- *)
Lemma group_cf_at g e by_group k : In k (map fst by_group) ->
  klookup keqb k (mf_group_cf keqb g e by_group) = mf_group_nocf g e (kcells keqb k by_group).
Proof.
  intro H. destruct e; unfold mf_group_cf, mf_group_nocf, c_agg.
  - rewrite klookup_t_agg by (rewrite fst_t_num; exact H). rewrite kcells_t_num. reflexivity.
  - rewrite klookup_t_agg by (rewrite fst_t_num, fst_t_filter; exact H).
    rewrite kcells_t_num, kcells_t_filter. reflexivity.
Qed.

Lemma difference_cf_at m e by_group overall k : In k (map fst by_group) ->
  klookup keqb k (mf_difference_cf keqb m e by_group overall)
  = mf_difference_nocf m e (kcells keqb k by_group) (klookup keqb k overall).
Proof.
  intro H.
  assert (G : forall sub,
    klookup keqb k (t_agg keqb AggMax true (t_abs (t_sub keqb (t_num (t_filter coerce_py by_group)) sub)))
    = c_agg AggMax true (c_abs (c_sub (c_num (c_filter coerce_py (kcells keqb k by_group))) (klookup keqb k sub)))).
  { intro sub. rewrite klookup_t_agg by (rewrite fst_t_abs, fst_t_sub, fst_t_num, fst_t_filter; exact H).
    rewrite kcells_t_abs, kcells_t_sub, kcells_t_num, kcells_t_filter. reflexivity. }
  destruct m, e; unfold mf_difference_cf, mf_difference_nocf; rewrite G;
    try rewrite (group_cf_at AggMin _ by_group k H); reflexivity.
Qed.

Lemma klookup_t_div_tabulate (F : K -> ext) ks den k : In k ks ->
  klookup keqb k (t_div keqb (map (fun k' => (k', F k')) ks) den) = ext_div (F k) (klookup keqb k den).
Proof.
  intro H. unfold t_div. rewrite map_map. cbn [fst snd].
  apply (klookup_tabulate (fun k' => ext_div (F k') (klookup keqb k' den))). exact H.
Qed.

Lemma ratio_cf_at fold m e by_group overall k : In k (map fst by_group) ->
  klookup keqb k (mf_ratio_cf keqb fold m e by_group overall)
  = mf_ratio_nocf fold m e (kcells keqb k by_group) (klookup keqb k overall).
Proof.
  intro H.
  assert (B : forall e', klookup keqb k (t_div keqb (mf_group_cf keqb AggMin e' by_group)
                                               (mf_group_cf keqb AggMax e' by_group))
                         = ext_div (mf_group_nocf AggMin e' (kcells keqb k by_group))
                                   (mf_group_nocf AggMax e' (kcells keqb k by_group))).
  { intro e'. rewrite <- (group_cf_at AggMin e' by_group k H), <- (group_cf_at AggMax e' by_group k H).
    destruct e'; unfold mf_group_cf at 1, t_agg at 1.
    - rewrite (klookup_t_div_tabulate (fun k' => agg_ext AggMin true (kcells keqb k' (t_num by_group)))).
      + rewrite <- (klookup_t_agg AggMin true (t_num by_group) k) by (rewrite fst_t_num; exact H). reflexivity.
      + apply kkeys_in. rewrite fst_t_num. exact H.
    - rewrite (klookup_t_div_tabulate
                 (fun k' => agg_ext AggMin true (kcells keqb k' (t_num (t_filter coerce_py by_group))))).
      + rewrite <- (klookup_t_agg AggMin true (t_num (t_filter coerce_py by_group)) k)
          by (rewrite fst_t_num, fst_t_filter; exact H). reflexivity.
      + apply kkeys_in. rewrite fst_t_num, fst_t_filter. exact H. }
  assert (O : klookup keqb k (t_agg keqb AggMin true (t_map fold (t_div keqb (t_num by_group) overall)))
              = c_agg AggMin true (c_map fold (c_div (c_num (kcells keqb k by_group)) (klookup keqb k overall)))).
  { rewrite klookup_t_agg by (rewrite fst_t_map, fst_t_div, fst_t_num; exact H).
    rewrite kcells_t_map, kcells_t_div, kcells_t_num. reflexivity. }
  destruct m, e; unfold mf_ratio_cf, mf_ratio_nocf; first [apply B | apply O].
Qed.

(* whole table, rows in ANY order: one record per control key, each the no-control record of that key *)
Theorem mf_table_keyed fold e by_group overall :
  mf_table_cf keqb fold e by_group overall
  = map (fun k => (k, mf_record_nocf fold e (kcells keqb k by_group) (klookup keqb k overall)))
        (kkeys keqb (map fst by_group)).
Proof.
  unfold mf_table_cf. apply map_ext_in. intros k Hk. apply (proj1 (kkeys_in k _)) in Hk.
  unfold mf_record_nocf.
  rewrite !(group_cf_at _ e by_group k Hk), !(difference_cf_at _ e by_group overall k Hk),
          !(ratio_cf_at fold _ e by_group overall k Hk). reflexivity.
Qed.

(* ---------- level-by-level layout ---------- *)
Lemma filter_all_true {A} (p : A -> bool) l : (forall x, In x l -> p x = true) -> filter p l = l.
Proof.
  induction l as [|a l IH]; intro H; [reflexivity|]. cbn [filter].
  rewrite (H a) by (left; reflexivity). f_equal. apply IH. intros x Hx. apply H. right. exact Hx.
Qed.

Lemma filter_idem {A} (p : A -> bool) l : filter p (filter p l) = filter p l.
Proof. apply filter_all_true. intros x Hx. apply filter_In in Hx. tauto. Qed.

Lemma kkeys_const_app {A} k (cells : list A) l : cells <> [] ->
  kkeys keqb (map (fun _ => k) cells ++ l) = k :: filter (fun k' => negb (keqb k' k)) (kkeys keqb l).
Proof.
  induction cells as [|c cs IH]; intro H; [contradiction|]. cbn [map app kkeys].
  destruct cs as [|c' cs]; [reflexivity|].
  rewrite IH by discriminate. cbn [filter]. rewrite keqb_refl. cbn [negb]. rewrite filter_idem. reflexivity.
Qed.

Lemma fst_rows_of lv (levels : list (K * (list pycell * ext))) :
  map fst (rows_of (lv :: levels)) = map (fun _ => fst lv) (fst (snd lv)) ++ map fst (rows_of levels).
Proof. unfold rows_of. cbn [flat_map]. rewrite map_app, map_map. reflexivity. Qed.

Lemma kkeys_rows_of (levels : list (K * (list pycell * ext))) :
  NoDup (map fst levels) -> (forall lv, In lv levels -> fst (snd lv) <> []) ->
  kkeys keqb (map fst (rows_of levels)) = map fst levels.
Proof.
  induction levels as [|lv levels IH]; intros Hnd Hne; [reflexivity|].
  rewrite fst_rows_of, kkeys_const_app by (apply Hne; left; reflexivity).
  cbn [map] in *. inversion Hnd as [|? ? Hnotin Hnd']; subst.
  rewrite IH by (auto; intros; apply Hne; right; assumption).
  f_equal. apply filter_all_true. intros k' Hk'. apply negb_true_iff. apply keqb_false.
  intros ->. contradiction.
Qed.

Lemma kcells_const {A} k k' (cells : list A) :
  kcells keqb k (map (fun c => (k', c)) cells) = if keqb k' k then cells else [].
Proof.
  unfold kcells. induction cells as [|c cs IH]; cbn [map filter fst]; [destruct (keqb k' k); reflexivity|].
  destruct (keqb k' k) eqn:E; cbn [map snd]; rewrite IH; reflexivity.
Qed.

Lemma kcells_rows_of (levels : list (K * (list pycell * ext))) lv :
  NoDup (map fst levels) -> In lv levels -> kcells keqb (fst lv) (rows_of levels) = fst (snd lv).
Proof.
  induction levels as [|l0 levels IH]; intros Hnd Hin; [contradiction|].
  unfold rows_of. cbn [flat_map]. fold (rows_of levels). rewrite kcells_app, kcells_const.
  cbn [map] in Hnd. inversion Hnd as [|? ? Hnotin Hnd']; subst.
  destruct Hin as [->|Hin].
  - rewrite keqb_refl.
    assert (E : kcells keqb (fst lv) (rows_of levels) = []).
    { clear IH Hnd Hnd'. induction levels as [|l1 levels IH]; [reflexivity|].
      unfold rows_of. cbn [flat_map]. fold (rows_of levels). rewrite kcells_app, kcells_const.
      destruct (keqb (fst l1) (fst lv)) eqn:E.
      - apply keqb_spec in E. exfalso. apply Hnotin. left. exact E.
      - apply IH. intro H. apply Hnotin. right. exact H. }
    rewrite E, app_nil_r. reflexivity.
  - destruct (keqb (fst l0) (fst lv)) eqn:E.
    + apply keqb_spec in E. exfalso. apply Hnotin. rewrite E. apply in_map. exact Hin.
    + cbn [app]. apply IH; assumption.
Qed.

Lemma klookup_overall_of (levels : list (K * (list pycell * ext))) lv :
  NoDup (map fst levels) -> In lv levels -> klookup keqb (fst lv) (overall_of levels) = snd (snd lv).
Proof.
  induction levels as [|l0 levels IH]; intros Hnd Hin; [contradiction|].
  cbn [overall_of map klookup fst snd]. cbn [map] in Hnd. inversion Hnd as [|? ? Hnotin Hnd']; subst.
  destruct Hin as [->|Hin]; [rewrite keqb_refl; reflexivity|].
  destruct (keqb (fst lv) (fst l0)) eqn:E.
  - apply keqb_spec in E. exfalso. apply Hnotin. rewrite <- E. apply in_map. exact Hin.
  - apply IH; assumption.
Qed.

(* C02_per_control_level: the aggregates of the whole table are, level by level, the NO-CONTROL aggregates
   of that level's cells and of that level's OWN overall value *)
Theorem per_control_level fold e (levels : list (K * (list pycell * ext))) :
  NoDup (map fst levels) -> (forall lv, In lv levels -> fst (snd lv) <> []) ->
  mf_table_cf keqb fold e (rows_of levels) (overall_of levels)
  = map (fun lv => (fst lv, mf_record_nocf fold e (fst (snd lv)) (snd (snd lv)))) levels.
Proof.
  intros Hnd Hne. rewrite mf_table_keyed, kkeys_rows_of by assumption. rewrite map_map.
  apply map_ext_in. intros lv Hin.
  rewrite kcells_rows_of, klookup_overall_of by assumption. reflexivity.
Qed.

Lemma level_key_in_rows (levels : list (K * (list pycell * ext))) lv :
  NoDup (map fst levels) -> (forall lv, In lv levels -> fst (snd lv) <> []) -> In lv levels ->
  In (fst lv) (map fst (rows_of levels)).
Proof.
  intros Hnd Hne Hin. apply kkeys_in. rewrite kkeys_rows_of by assumption. apply in_map. exact Hin.
Qed.

(* the same, aggregate by aggregate (these are the statements props/C02.v makes about the REGENERATED functions) *)
Theorem group_per_level g e (levels : list (K * (list pycell * ext))) lv :
  NoDup (map fst levels) -> (forall lv, In lv levels -> fst (snd lv) <> []) -> In lv levels ->
  klookup keqb (fst lv) (mf_group_cf keqb g e (rows_of levels)) = mf_group_nocf g e (fst (snd lv)).
Proof.
  intros Hnd Hne Hin. rewrite group_cf_at by (apply level_key_in_rows; assumption).
  rewrite kcells_rows_of by assumption. reflexivity.
Qed.

Theorem difference_per_level m e (levels : list (K * (list pycell * ext))) lv :
  NoDup (map fst levels) -> (forall lv, In lv levels -> fst (snd lv) <> []) -> In lv levels ->
  klookup keqb (fst lv) (mf_difference_cf keqb m e (rows_of levels) (overall_of levels))
  = mf_difference_nocf m e (fst (snd lv)) (snd (snd lv)).
Proof.
  intros Hnd Hne Hin. rewrite difference_cf_at by (apply level_key_in_rows; assumption).
  rewrite kcells_rows_of, klookup_overall_of by assumption. reflexivity.
Qed.

Theorem ratio_per_level fold m e (levels : list (K * (list pycell * ext))) lv :
  NoDup (map fst levels) -> (forall lv, In lv levels -> fst (snd lv) <> []) -> In lv levels ->
  klookup keqb (fst lv) (mf_ratio_cf keqb fold m e (rows_of levels) (overall_of levels))
  = mf_ratio_nocf fold m e (fst (snd lv)) (snd (snd lv)).
Proof.
  intros Hnd Hne Hin. rewrite ratio_cf_at by (apply level_key_in_rows; assumption).
  rewrite kcells_rows_of, klookup_overall_of by assumption. reflexivity.
Qed.

(* a per-level theorem lifted to the whole table (rows in any order, any cells, any overall table) *)
Theorem table_ratio_to_overall_le_one e by_group overall :
  Forall (fun kr => le_one_or_nan (a_ratio_overall (snd kr)))
         (mf_table_cf keqb ratio_sub_one e by_group overall).
Proof.
  rewrite mf_table_keyed. apply Forall_forall. intros kr H. apply in_map_iff in H.
  destruct H as [k [<- _]]. cbn [snd mf_record_nocf a_ratio_overall].
  destruct e; unfold mf_ratio_nocf; rewrite c_ratio_is_ratio_with; apply ratio_to_overall_le_one.
Qed.
End KeyedProofs.

(* no control features = ONE level (key tt) *)
Theorem no_control_is_one_level fold e cells ov : cells <> [] ->
  mf_table_cf (fun _ _ : unit => true) fold e (rows_of [(tt, (cells, ov))]) (overall_of [(tt, (cells, ov))])
  = [(tt, mf_record_nocf fold e cells ov)].
Proof.
  intro H.
  apply (per_control_level (fun _ _ : unit => true)).
  - intros [] []. tauto.
  - repeat constructor. intros [].
  - intros lv [<-|[]]. exact H.
Qed.

(* ---------- the column-level functions are the per-level model above ---------- *)
Lemma coerce_py_scalar y : py_scalar y -> coerce_py y = y.
Proof. destruct y; cbn; tauto. Qed.

Lemma coerce_py_is_coerce_cell y : num_of (coerce_py y) = coerce_cell (py_to_acell y) /\ py_scalar (coerce_py y).
Proof. destruct y; cbn; auto. Qed.

Lemma c_filter_scalar cells : Forall py_scalar cells -> c_filter coerce_py cells = cells.
Proof.
  induction 1 as [|y l Hy Hl IH]; [reflexivity|]. cbn [c_filter map].
  rewrite (coerce_py_scalar y Hy). f_equal. exact IH.
Qed.

(* scalar cells (python ints, floats, bools), errors = 'raise' or 'coerce' alike *)
Theorem record_nocf_scalar fold e cells ov : Forall py_scalar cells ->
  mf_record_nocf fold e cells ov = aggregates_with fold (c_num cells) ov.
Proof.
  intro H. unfold mf_record_nocf, aggregates_with, mf_difference_nocf, mf_ratio_nocf, mf_group_nocf.
  destruct e; rewrite ?(c_filter_scalar cells H), ?c_diff_is_diff_with, ?c_ratio_is_ratio_with; reflexivity.
Qed.

(* errors = 'coerce', any cells: the five aggregates that pass through the filter see non-scalars as NaN *)
Lemma c_num_coerce cells : c_num (c_filter coerce_py cells) = map coerce_cell (map py_to_acell cells).
Proof.
  unfold c_num, c_filter. rewrite !map_map. apply map_ext. intro y. apply coerce_py_is_coerce_cell.
Qed.

Theorem record_nocf_coerce fold cells ov :
  let r := mf_record_nocf fold ErrCoerce cells ov in
  let a := aggregates_coerce (map py_to_acell cells) (Sc ov) in
  a_min r = a_min a /\ a_max r = a_max a /\ a_diff_between r = a_diff_between a
  /\ a_diff_overall r = a_diff_overall a /\ a_ratio_between r = a_ratio_between a.
Proof.
  cbv zeta. unfold mf_record_nocf, aggregates_coerce, aggregates, aggregates_with, mf_difference_nocf,
    mf_ratio_nocf, mf_group_nocf. cbn [a_min a_max a_diff_between a_diff_overall a_ratio_between coerce_cell].
  rewrite !c_diff_is_diff_with, !c_num_coerce. repeat split; reflexivity.
Qed.

(* a cell filter that keeps bools, ints and floats (zero included) and turns a non-scalar into NaN IS the
   model's filter; used for the filters regenerated from the source *)
Lemma filter_by_cases (f : pycell -> pycell) :
  (forall b, f (PyBool b) = PyBool b) -> (forall z, f (PyInt z) = PyInt z) ->
  (forall x, f (PyFloat x) = PyFloat x) -> f PyNonScalar = py_nan -> forall y, f y = coerce_py y.
Proof. intros Hb Hz Hf Hn [b|z|x|]; cbn; auto. Qed.
