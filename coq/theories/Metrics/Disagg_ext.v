(* Extensions of the MetricFrame model (C01 / C12), proof-free:
     - joint row permutation of every argument column (apply_perm, perm_cols, perm_spec) and renaming of the
       codes of one grouping column (upd_key): what the C12 statements on the real model are about;
     - MetricFrame._extract_result: callable-vs-dict unwrapping (extract_result);
     - MetricFrame._process_features / GroupFeature: generated and given feature names as functions of a
       container tag (feature_names);
     - _apply_functions / AnnotatedMetricFunction.__call__ with the decisions that the translator t_disagg
       regenerates from the source left as parameters (apply_functions_with).
   Lemmas are in Disagg_perm.v and Disagg_ext_proofs.v. *)
From Coq Require Import QArith ZArith List Bool.
From FL Require Import Num ListX Flat Disagg.
Import ListNotations.
Open Scope Z_scope.

(* ---------- joint row permutation ---------- *)
Definition opt_list {A} (o : option A) : list A := match o with Some x => [x] | None => [] end.

(* the rows of [l] in the order given by the index list [pi] (an index out of range contributes nothing) *)
Definition apply_perm {A} (pi : list nat) (l : list A) : list A :=
  flat_map (fun i => opt_list (nth_error l i)) pi.

Definition perm_cols {V} (pi : list nat) (cols : list (name * list V)) : list (name * list V) :=
  map (fun nc => (fst nc, apply_perm pi (snd nc))) cols.

Definition perm_spec {V} (pi : list nat) (m : metric_spec V) : metric_spec V :=
  {| m_name := m_name m; m_prefix := m_prefix m; m_params := perm_cols pi (m_params m) |}.

(* rows selected by a mask, seen from the permuted data: position of row i among the selected rows *)
Fixpoint rank (mask : list bool) (i : nat) : nat :=
  match mask, i with
  | b :: m, S i' => (if b then 1 else 0) + rank m i'
  | _, _ => O
  end.

Definition mtrue (mask : list bool) (i : nat) : bool :=
  match nth_error mask i with Some true => true | _ => false end.

Definition sub_perm (mask : list bool) (pi : list nat) : list nat := map (rank mask) (filter (mtrue mask) pi).

Fixpoint ntrue (mask : list bool) : nat :=
  match mask with [] => O | b :: m => (if b then 1 else 0) + ntrue m end.

(* ---------- renaming the codes of grouping column j ---------- *)
Fixpoint upd_key (j : nat) (g : Z -> Z) (k : list Z) : list Z :=
  match k, j with
  | [], _ => []
  | x :: r, O => g x :: r
  | x :: r, S j' => x :: upd_key j' g r
  end.

Definition rename_table {W} (j : nat) (g : Z -> Z) (t : list (list Z * W)) : list (list Z * W) :=
  map (fun kr => (upd_key j g (fst kr), snd kr)) t.

(* ---------- MetricFrame._extract_result ---------- *)
(* value shown for the first metric of a row (None = the call raised KeyError; never in a finished frame) *)
Definition row_at0 {cell} (row : list (name * option cell)) : option cell :=
  match row with e :: _ => snd e | [] => None end.

Inductive extracted (cell : Type) : Type :=
| XSame (t : table cell)                                     (* dict of metrics: returned as is *)
| XColumn (nm : name) (c : list (list Z * option (option cell)))
                                                             (* .iloc[:, 0]: Series named after the metric,
                                                                same index; None = NaN (key without rows) *)
| XScalar (c : option cell)                                  (* .iloc[0] of the overall Series *)
| XIndexError.
Arguments XSame {cell}. Arguments XColumn {cell}. Arguments XScalar {cell}. Arguments XIndexError {cell}.

(* names = the columns of the underlying frame (the annotated function names, in dict order) *)
(* underlying_result.iloc[:, 0] *)
Definition iloc_col0 {cell} (names : list name) (t : table cell) : extracted cell :=
  match names with
  | nm :: _ => XColumn nm (map (fun kr => (fst kr, option_map row_at0 (snd kr))) t)
  | [] => XIndexError
  end.

(* underlying_result.iloc[0] on the Series that `overall` is without control features *)
Definition iloc_row0 {cell} (t : table cell) : extracted cell :=
  match t with
  | [(_, Some (e :: _))] => XScalar (snd e)
  | _ => XIndexError
  end.

(* has_control = bool(self.control_levels) *)
Definition extract_result {cell} (callable has_control no_control_levels : bool) (names : list name)
           (t : table cell) : extracted cell :=
  if callable then
    if has_control || no_control_levels then iloc_col0 names t else iloc_row0 t
  else XSame t.

(* ---------- feature names: _process_features + GroupFeature.__init__ ---------- *)
Inductive fcontainer : Type :=
| FList                              (* list of scalars *)
| FArray1                            (* anything np.asarray makes 1-D (or (n,1)) *)
| FArray2 (ncol : nat)               (* 2-D ndarray *)
| FSeries (nm : option name)         (* pandas Series, its .name *)
| FFrame (cols : list name)          (* DataFrame, its column labels *)
| FDict (keys : list name).          (* dict, keys in insertion order (DataFrame.from_dict) *)

(* "{0}{1}".format(base_name, index) *)
Fixpoint digits_fuel (fuel n : nat) : list Z :=
  match fuel with
  | O => []
  | S f => if (n <? 10)%nat then [48 + Z.of_nat n]
           else digits_fuel f (n / 10) ++ [48 + Z.of_nat (n mod 10)]
  end.
Definition decimal (n : nat) : list Z := digits_fuel (S n) n.
Definition gen_name (base : name) (i : nat) : name := base ++ decimal i.

Definition feature_names (base : name) (c : fcontainer) : list name :=
  match c with
  | FList | FArray1 | FSeries None => [gen_name base 0]
  | FSeries (Some nm) => [nm]
  | FArray2 k => map (gen_name base) (seq 0 k)
  | FFrame cols | FDict cols => cols
  end.

(* the name each feature was GIVEN by its container (None = generated) *)
Definition given_names (c : fcontainer) : list (option name) :=
  match c with
  | FList | FArray1 | FSeries None => [None]
  | FSeries (Some nm) => [Some nm]
  | FArray2 k => repeat None k
  | FFrame cols | FDict cols => map Some cols
  end.

(* "sensitive_feature_", "control_feature_" *)
Definition sf_base : name :=
  [115; 101; 110; 115; 105; 116; 105; 118; 101; 95; 102; 101; 97; 116; 117; 114; 101; 95].
Definition cf_base : name :=
  [99; 111; 110; 116; 114; 111; 108; 95; 102; 101; 97; 116; 117; 114; 101; 95].

(* ---------- _apply_functions with the source's decisions as parameters ---------- *)
Section With.
  Variable V : Type.
  Variable key_of : V -> Z.
  Variable cell : Type.
  Variable callf : annot -> frame V -> option cell.          (* AnnotatedMetricFunction.__call__ *)
  Variable early : nat -> bool.                              (* no grouping: apply to the whole frame *)
  Variable cond : nat -> bool.                               (* re-index to the product of the levels? *)
  Variable fill : option (list (name * option cell)).        (* row of a product key that has no rows *)
  Variable levels : list (list Z) -> list (list Z).          (* per grouping column: the index level *)

  Definition apply_to_df_with (afs : list annot) (df : frame V) : list (name * option cell) :=
    map (fun af => (af_name af, callf af df)) afs.

  Definition apply_functions_with (f : frame V) (afs : list annot) (gs : list name) : option (table cell) :=
    if early (length gs) then Some [([], Some (apply_to_df_with afs f))]
    else
      match get_all V gs f with
      | None => None
      | Some cols =>
        let kcols := map (map key_of) cols in
        let keys := row_keys kcols (nrows V f) in
        let temp := map (fun k => (k, apply_to_df_with afs (sub_frame V (mask_of k keys) f))) (kuniq keys) in
        if cond (length gs)
        then Some (map (fun k => (k, match assoc k temp with Some r => Some r | None => fill end))
                       (product (levels kcols)))
        else Some (map (fun kr => (fst kr, Some (snd kr))) temp)
      end.
End With.

(* ---------- wire format of the extended correspondence run ---------- *)
Definition enc_extracted (x : extracted ccell) : list Z :=
  match x with
  | XSame t => 0 :: enc_table (Some t)
  | XColumn nm c => 1 :: enc_key nm ++ enc_list (fun kv => enc_key (fst kv) ++ enc_opt (enc_opt enc_ccell) (snd kv)) c
  | XScalar c => 2 :: enc_opt enc_ccell c
  | XIndexError => [3]
  end.

Definition is_nil {A} (l : list A) : bool := match l with [] => true | _ => false end.

(* one MetricFrame construction from container TAGS: by_group, overall (raw DisaggregatedResult), feature names,
   and what the user sees after _extract_result *)
Definition run_metric_frame_x (kinds : list (name * Z)) (callable : bool) (yt yp : list Z)
           (ms : list (metric_spec Z)) (sf_c : fcontainer) (cf_c : option fcontainer)
           (sf_cols cf_cols : list (list Z)) : list Z :=
  let sfn := feature_names sf_base sf_c in
  let cfn := match cf_c with Some c => feature_names cf_base c | None => [] end in
  let sfs := combine sfn sf_cols in
  let cfs := combine cfn cf_cols in
  let names := map (@m_name Z) ms in
  let bg := mf_by_group Z (fun z => z) ccell (fnc kinds) yt yp ms sfs cfs in
  let ov := mf_overall Z (fun z => z) ccell (fnc kinds) yt yp ms sfs cfs in
  let hc := negb (is_nil cfn) in
  enc_table bg ++ enc_table ov ++ enc_list enc_key sfn ++ enc_list enc_key cfn
  ++ enc_opt enc_extracted (option_map (extract_result callable hc true names) bg)
  ++ enc_opt enc_extracted (option_map (extract_result callable hc false names) ov).
