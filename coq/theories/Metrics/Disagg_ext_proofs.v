(* C01 extensions: _extract_result only selects (extract_preserves, callable_ theorems), the feature names
   (feature_names_spec), and the parameterised _apply_functions equals the model at the model's own
   parameters (apply_functions_with_model: the lemma the translator obligation is discharged with). *)
From Coq Require Import QArith ZArith List Bool Lia FinFun.
From FL Require Import Num ListX Disagg Disagg_proofs Disagg_ext.
Import ListNotations.
Open Scope Z_scope.

Lemma assoc_map_snd {A B} (h : A -> B) k (t : list (list Z * A)) :
  assoc k (map (fun kr => (fst kr, h (snd kr))) t) = option_map h (assoc k t).
Proof.
  induction t as [|[k0 v] t IH]; cbn; [reflexivity|]. destruct (key_eqb k k0); [reflexivity | exact IH].
Qed.

Section Extract.
  Variable cell : Type.

  (* _extract_result never computes: a dict of metrics is returned as is; for a bare callable the result is
     column 0 (same index, every entry is the entry of the first metric in that row, NaN rows stay NaN) or,
     for `overall` without control features, the single entry of the single row *)
  Theorem extract_preserves (t : table cell) names hc ncl :
    extract_result false hc ncl names t = XSame t
    /\ (forall nm rest, names = nm :: rest -> hc || ncl = true ->
          exists c, extract_result true hc ncl names t = XColumn nm c
                    /\ map fst c = map fst t
                    /\ forall k, assoc k c = option_map (option_map row_at0) (assoc k t))
    /\ (forall k e r, t = [(k, Some (e :: r))] -> hc || ncl = false ->
          extract_result true hc ncl names t = XScalar (snd e)).
  Proof.
    split; [reflexivity|]. split.
    - intros nm rest -> H. unfold extract_result, iloc_col0. rewrite H. eexists. split; [reflexivity|]. split.
      + rewrite map_map. reflexivity.
      + intro k. apply assoc_map_snd.
    - intros k e r -> H. unfold extract_result. rewrite H. reflexivity.
  Qed.

  Variable V : Type.
  Variable key_of : V -> Z.
  Variable fn : name -> list (list V) -> list (name * list V) -> cell.

  (* bare callable: what the user reads in mf.by_group *)
  Theorem callable_by_group yt yp (m : metric_spec V) sfs cfs tbl :
    NoDup (map fst (all_assigns V yt yp [m] sfs cfs)) -> sfs <> [] ->
    mf_by_group V key_of cell fn yt yp [m] sfs cfs = Some tbl ->
    let keys := feature_keys V key_of (cfs ++ sfs) (length yt) in
    exists c, extract_result true (negb (is_nil cfs)) true [m_name m] tbl = XColumn (m_name m) c
      /\ map fst c = map fst tbl
      /\ forall k, In k (map fst tbl) ->
           assoc k c = Some (if kmem k keys
                             then Some (Some (expected_cell V cell fn yt yp m (sel (mask_of k keys))))
                             else None).
  Proof.
    intros Hnd Hne Htbl keys.
    destruct (extract_preserves tbl [m_name m] (negb (is_nil cfs)) true) as [_ [Hcol _]].
    destruct (Hcol (m_name m) [] eq_refl (orb_true_r _)) as [c [H1 [H2 H3]]].
    exists c. split; [exact H1|]. split; [exact H2|]. intros k Hk.
    rewrite H3, (by_group_cell V key_of cell fn yt yp [m] sfs cfs tbl Hnd Hne Htbl k Hk). fold keys.
    cbn [option_map]. destruct (kmem k keys); reflexivity.
  Qed.

  (* bare callable, no control features: mf.overall is the value of the callable on all rows *)
  Theorem callable_overall_nocontrol yt yp (m : metric_spec V) sfs :
    NoDup (map fst (all_assigns V yt yp [m] sfs [])) ->
    option_map (extract_result true false false [m_name m]) (mf_overall V key_of cell fn yt yp [m] sfs [])
    = Some (XScalar (Some (expected_cell V cell fn yt yp m (fun x => x)))).
  Proof. intro Hnd. rewrite (overall_cell_nocontrol V key_of cell fn yt yp [m] sfs Hnd). reflexivity. Qed.

  (* bare callable with control features: mf.overall is column 0, one entry per control combination *)
  Theorem callable_overall_control yt yp (m : metric_spec V) sfs cfs :
    NoDup (map fst (all_assigns V yt yp [m] sfs cfs)) -> cfs <> [] ->
    let keys := feature_keys V key_of cfs (length yt) in
    exists tbl c, mf_overall V key_of cell fn yt yp [m] sfs cfs = Some tbl
      /\ extract_result true (negb (is_nil cfs)) false [m_name m] tbl = XColumn (m_name m) c
      /\ map fst c = map fst tbl
      /\ forall k, In k (map fst tbl) ->
           assoc k c = Some (if kmem k keys
                             then Some (Some (expected_cell V cell fn yt yp m (sel (mask_of k keys))))
                             else None).
  Proof.
    intros Hnd Hne keys.
    destruct (overall_cell_control V key_of cell fn yt yp [m] sfs cfs Hnd Hne) as [tbl [H1 [_ [_ [_ H5]]]]].
    destruct (extract_preserves tbl [m_name m] (negb (is_nil cfs)) false) as [_ [Hcol _]].
    assert (Hhc : negb (is_nil cfs) || false = true) by (destruct cfs; [contradiction | reflexivity]).
    destruct (Hcol (m_name m) [] eq_refl Hhc) as [c [E1 [E2 E3]]].
    exists tbl, c. split; [exact H1|]. split; [exact E1|]. split; [exact E2|]. intros k Hk.
    rewrite E3, (H5 k Hk). fold keys. cbn [option_map]. destruct (kmem k keys); reflexivity.
  Qed.
End Extract.

(* ---------- feature names ---------- *)
Definition dval (ds : list Z) : nat := fold_left (fun a d => (10 * a + Z.to_nat (d - 48))%nat) ds 0%nat.

Lemma dval_digits f n : (n < f)%nat -> dval (digits_fuel f n) = n.
Proof.
  revert n. induction f as [|f IH]; intros n H; [lia|]. cbn [digits_fuel].
  destruct (n <? 10)%nat eqn:E.
  - unfold dval. cbn [fold_left]. replace (48 + Z.of_nat n - 48) with (Z.of_nat n) by lia. rewrite Nat2Z.id. lia.
  - apply Nat.ltb_ge in E. unfold dval. rewrite fold_left_app. cbn [fold_left].
    fold (dval (digits_fuel f (n / 10))).
    assert (Hlt : (n / 10 < n)%nat) by (apply Nat.div_lt; lia).
    rewrite IH by lia.
    replace (48 + Z.of_nat (n mod 10) - 48) with (Z.of_nat (n mod 10)) by lia. rewrite Nat2Z.id.
    pose proof (Nat.div_mod n 10). lia.
Qed.

Lemma decimal_inj i j : decimal i = decimal j -> i = j.
Proof.
  intro H. apply (f_equal dval) in H. unfold decimal in H. rewrite !dval_digits in H by lia. exact H.
Qed.

Lemma gen_name_inj base i j : gen_name base i = gen_name base j -> i = j.
Proof. unfold gen_name. intro H. apply app_inv_head in H. apply decimal_inj. exact H. Qed.

Lemma gen_name_small base i : (i < 10)%nat -> gen_name base i = base ++ [48 + Z.of_nat i].
Proof.
  intro H. unfold gen_name, decimal. cbn [digits_fuel]. apply Nat.ltb_lt in H. rewrite H. reflexivity.
Qed.

Lemma nth_error_given base cols i :
  (i < length cols)%nat ->
  nth_error cols i = Some (match nth i (map Some cols) None with Some nm => nm | None => gen_name base i end).
Proof.
  revert i. induction cols as [|c cols IH]; intros [|i] H; cbn in *; try lia; [reflexivity|].
  rewrite (IH i) by lia.
  (* the generated alternative is never taken: rewrite both sides to the given name *)
  destruct (nth_error_nth' (map Some cols) None (n := i)) as []; [rewrite map_length; lia|].
  assert (E : exists nm, nth i (map (@Some name) cols) None = Some nm).
  { clear -H. revert i H. induction cols as [|c cols IHc]; intros [|i] H; cbn in *; try lia; eauto.
    apply IHc. lia. }
  destruct E as [nm ->]. reflexivity.
Qed.

Lemma nth_repeat_none {A} (k i : nat) : nth i (repeat (@None A) k) None = None.
Proof. revert i. induction k as [|k IH]; intros [|i]; cbn; auto. Qed.

Lemma feat_names_from_gen base k i0 :
  (i0 + k <= 10)%nat -> feat_names_from base (repeat None k) i0 = map (gen_name base) (seq i0 k).
Proof.
  revert i0. induction k as [|k IH]; intros i0 H; cbn; [reflexivity|].
  rewrite IH by lia. rewrite gen_name_small by lia. reflexivity.
Qed.

Lemma feat_names_from_given base cols i0 : feat_names_from base (map Some cols) i0 = cols.
Proof. revert i0. induction cols as [|c cols IH]; intro i0; cbn; [reflexivity|]. rewrite IH. reflexivity. Qed.

(* the names MetricFrame gives its features:
   - as many as the container has columns; a name GIVEN by the container (Series.name, DataFrame column,
     dict key) is used verbatim, otherwise "{base}{i}" with i the column's position, written in decimal;
   - generated names of different positions differ; a generated sensitive name never equals a generated
     control name (so the duplicate-name check can only fire on given names);
   - up to 10 columns this is the older Disagg.feat_names_from (used by run_metric_frame). *)
Theorem feature_names_spec base c :
  length (feature_names base c) = length (given_names c)
  /\ (forall i, (i < length (given_names c))%nat ->
        nth_error (feature_names base c) i
        = Some (match nth i (given_names c) None with Some nm => nm | None => gen_name base i end))
  /\ (forall i, (i < 10)%nat -> gen_name base i = base ++ [48 + Z.of_nat i])
  /\ (forall i j, gen_name base i = gen_name base j -> i = j)
  /\ (forall i j, gen_name sf_base i <> gen_name cf_base j)
  /\ ((length (given_names c) <= 10)%nat -> feature_names base c = feat_names_from base (given_names c) 0).
Proof.
  split; [|split; [|split; [exact (gen_name_small base) | split; [exact (gen_name_inj base) | split]]]].
  - destruct c as [| |k|[nm|]|cols|cols]; cbn; try reflexivity;
      rewrite ?map_length, ?seq_length, ?repeat_length; reflexivity.
  - destruct c as [| |k|[nm|]|cols|cols]; cbn [given_names feature_names length];
      try (intros [|i] H; [reflexivity | cbn in H; lia]).
    + rewrite repeat_length. intros i H. rewrite nth_repeat_none, nth_error_map.
      rewrite (nth_error_nth' (seq 0 k) 0%nat) by (rewrite seq_length; exact H). rewrite seq_nth by exact H.
      reflexivity.
    + rewrite map_length. apply nth_error_given.
    + rewrite map_length. apply nth_error_given.
  - intros i j H. unfold gen_name, sf_base, cf_base in H. cbn [app] in H. discriminate.
  - destruct c as [| |k|[nm|]|cols|cols]; cbn [given_names feature_names length feat_names_from feat_name];
      intro H; rewrite ?gen_name_small by lia; try reflexivity.
    + rewrite repeat_length in H. symmetry. apply feat_names_from_gen. lia.
    + symmetry. apply feat_names_from_given.
    + symmetry. apply feat_names_from_given.
Qed.

(* ---------- the parameterised _apply_functions at the model's own parameters ---------- *)
Lemma apply_functions_with_model (V : Type) (key_of : V -> Z) (cell : Type)
      (fn : name -> list (list V) -> list (name * list V) -> cell) f afs gs :
  apply_functions_with V key_of cell (call V cell fn) (fun n => (n =? 0)%nat) (fun n => (1 <? n)%nat)
                       None (map zuniq) f afs gs
  = apply_functions V key_of cell fn f afs gs.
Proof.
  unfold apply_functions_with, apply_functions, apply_to_df_with, apply_to_df.
  destruct gs as [|g0 gs']; [reflexivity|].
  cbn [length Nat.eqb]. destruct (get_all V (g0 :: gs') f) as [cols|]; [|reflexivity]. cbv zeta.
  destruct (1 <? S (length gs'))%nat; [|reflexivity].
  f_equal. apply map_ext. intro k. f_equal.
  match goal with |- match ?o with _ => _ end = _ => destruct o; reflexivity end.
Qed.

(* DisaggregatedResult.create: overall groups by the control features, by_group by control ++ sensitive *)
Lemma create_grouping_model (V : Type) (key_of : V -> Z) (cell : Type)
      (fn : name -> list (list V) -> list (name * list V) -> cell) yt yp ms sfs cfs :
  mf_overall V key_of cell fn yt yp ms sfs cfs
  = apply_functions V key_of cell fn (build_frame V yt yp ms sfs cfs) (map (annot_of V) ms) (map fst cfs)
  /\ mf_by_group V key_of cell fn yt yp ms sfs cfs
     = apply_functions V key_of cell fn (build_frame V yt yp ms sfs cfs) (map (annot_of V) ms)
                       (map fst cfs ++ map fst sfs).
Proof. split; reflexivity. Qed.
