(* Model of fairlearn.metrics._base_metrics (C14, used by C11):
   _get_labels_for_confusion_matrix, true/false positive/negative rate (through
   sklearn.metrics.confusion_matrix(labels=..., sample_weight=..., normalize="true")),
   selection_rate, mean_prediction, count.
   Labels are Z codes (order preserving), weights exact rationals.
   Proof-free: lemmas are in BaseRates_proofs.v.

   sklearn's confusion_matrix is modelled, not verified: cell (i,j) is the sum of the weights of
   the rows with y_true = labels[i] and y_pred = labels[j]; normalize="true" divides every row by
   its sum and nan_to_num turns the 0/0 of an empty row into 0 (faithful for weights >= 0). *)
From Coq Require Import QArith ZArith List Bool.
From FL Require Import Num ListX Flat.
Import ListNotations.
Open Scope Z_scope.

(* ---------- _get_labels_for_confusion_matrix ---------- *)

(* np.iinfo(np.int64).min : the placeholder for the missing negative class *)
Definition INT64_MIN : Z := -9223372036854775808.

(* Second half of the function: pos_label is known.  `unique_labels` stands for
   list(np.unique(labels)) (sorted, duplicate free). *)
Definition labels_two (unique_labels : list Z) (pos_label : Z) : option (list Z) :=
  if Nat.eqb (length unique_labels) 1 then
    (if nth 0 unique_labels 0 =? pos_label then Some [INT64_MIN; pos_label]
     else Some (unique_labels ++ [pos_label]))
  else if Nat.eqb (length unique_labels) 2 then
    (if pos_label =? nth 0 unique_labels 0 then Some (rev unique_labels)
     else if pos_label =? nth 1 unique_labels 0 then Some unique_labels
     else None)
  else None.

(* frozenset(s).issuperset(l) *)
Definition issuperset (s l : list Z) : bool := forallb (fun x => existsb (Z.eqb x) s) l.

(* None = ValueError *)
Definition labels_for_cm (unique_labels : list Z) (pos_label : option Z) : option (list Z) :=
  match pos_label with
  | None =>
      if issuperset [0; 1] unique_labels || issuperset [-1; 1] unique_labels
      then labels_two unique_labels 1 else None
  | Some p => labels_two unique_labels p
  end.

(* ---------- rows and weighted counts ---------- *)

Record row : Type := mkrow { yt : Z; yp : Z; wt : Q }.

Fixpoint zip_rows (a b : list Z) (c : list Q) : list row :=
  match a, b, c with
  | x :: a', y :: b', w :: c' => mkrow x y w :: zip_rows a' b' c'
  | _, _, _ => []
  end.

Definition ones (n : nat) : list Q := repeat 1%Q n.

(* sample_weight=None is np.ones(n) *)
Definition weights_or_ones (n : nat) (sw : option (list Q)) : list Q :=
  match sw with None => ones n | Some ws => ws end.

(* np.vstack((y_true, y_pred)) and sklearn's check_consistent_length raise on unequal lengths *)
Definition mk_rows (y_true y_pred : list Z) (sw : option (list Q)) : option (list row) :=
  let ws := weights_or_ones (length y_true) sw in
  if Nat.eqb (length y_true) (length y_pred) && Nat.eqb (length ws) (length y_true)
  then Some (zip_rows y_true y_pred ws) else None.

(* total weight of the rows satisfying p *)
Fixpoint wsum (p : row -> bool) (rows : list row) : Q :=
  match rows with
  | [] => 0%Q
  | r :: rest => ((if p r then wt r else 0) + wsum p rest)%Q
  end.

(* confusion matrix cell: true label a, predicted label b *)
Definition cell (a b : Z) (rows : list row) : Q :=
  wsum (fun r => (yt r =? a) && (yp r =? b)) rows.

(* confusion_matrix(labels=[n;p], normalize="true").ravel() = (tnr, fpr, fnr, tpr) *)
Definition cm_norm (n p : Z) (rows : list row) : Q * Q * Q * Q :=
  let tn := cell n n rows in let fp := cell n p rows in
  let fn := cell p n rows in let tp := cell p p rows in
  (qdiv0 tn (tn + fp), qdiv0 fp (tn + fp), qdiv0 fn (fn + tp), qdiv0 tp (fn + tp)).

(* the common body of the four rate functions; `lf` is _get_labels_for_confusion_matrix (a
   parameter so that props/C14.v can instantiate it with the function regenerated from /repo) *)
Definition rates_with (lf : list Z -> option Z -> option (list Z))
           (y_true y_pred : list Z) (sw : option (list Q)) (pos_label : option Z)
  : option (Q * Q * Q * Q) :=
  match mk_rows y_true y_pred sw with
  | None => None
  | Some rows =>
      match lf (zuniq (y_true ++ y_pred)) pos_label with
      | Some [n; p] => Some (cm_norm n p rows)
      | _ => None
      end
  end.

Definition rates := rates_with labels_for_cm.

Definition q_tnr (c : Q * Q * Q * Q) : Q := fst (fst (fst c)).
Definition q_fpr (c : Q * Q * Q * Q) : Q := snd (fst (fst c)).
Definition q_fnr (c : Q * Q * Q * Q) : Q := snd (fst c).
Definition q_tpr (c : Q * Q * Q * Q) : Q := snd c.

(* k-th entry of confusion_matrix(...).ravel() *)
Definition nth_cell (k : nat) (c : Q * Q * Q * Q) : Q :=
  match k with 0%nat => q_tnr c | 1%nat => q_fpr c | 2%nat => q_fnr c | _ => q_tpr c end.

Definition true_positive_rate y_true y_pred sw pos := option_map q_tpr (rates y_true y_pred sw pos).
Definition true_negative_rate y_true y_pred sw pos := option_map q_tnr (rates y_true y_pred sw pos).
Definition false_positive_rate y_true y_pred sw pos := option_map q_fpr (rates y_true y_pred sw pos).
Definition false_negative_rate y_true y_pred sw pos := option_map q_fnr (rates y_true y_pred sw pos).

(* ---------- selection_rate, mean_prediction, count ---------- *)

Definition indicator (pos : Z) (y : Z) : Q := if y =? pos then 1%Q else 0%Q.

(* np.dot(selected, s_w) / s_w.sum(); y_true is ignored (not even its length is looked at);
   None = ValueError (empty y_pred, or np.dot on unequal lengths); the division is numpy's
   float division (nan / inf for a zero total weight, no exception). *)
Definition selection_rate (y_pred : list Z) (pos_label : Z) (sw : option (list Q)) : option ext :=
  match y_pred with
  | [] => None
  | _ =>
      let ws := weights_or_ones (length y_pred) sw in
      if Nat.eqb (length ws) (length y_pred)
      then Some (ext_div (Fin (dot (map (indicator pos_label) y_pred) ws)) (Fin (qsum ws)))
      else None
  end.

Definition mean_prediction (y_pred : list Z) (sw : option (list Q)) : option ext :=
  let ws := weights_or_ones (length y_pred) sw in
  if Nat.eqb (length ws) (length y_pred)
  then Some (ext_div (Fin (dot (map inject_Z y_pred) ws)) (Fin (qsum ws)))
  else None.

(* check_consistent_length(y_true, y_pred); len(y_true) *)
Definition count (y_true y_pred : list Z) : option nat :=
  if Nat.eqb (length y_true) (length y_pred) then Some (length y_true) else None.

(* ---------- the definitions the rates are claimed to equal (specification side) ---------- *)

Definition is_pos (p : Z) (y : Z) : bool := y =? p.

Definition tpr_spec (p : Z) (rows : list row) : Q :=
  qdiv0 (wsum (fun r => is_pos p (yt r) && is_pos p (yp r)) rows) (wsum (fun r => is_pos p (yt r)) rows).
Definition fnr_spec (p : Z) (rows : list row) : Q :=
  qdiv0 (wsum (fun r => is_pos p (yt r) && negb (is_pos p (yp r))) rows) (wsum (fun r => is_pos p (yt r)) rows).
Definition fpr_spec (p : Z) (rows : list row) : Q :=
  qdiv0 (wsum (fun r => negb (is_pos p (yt r)) && is_pos p (yp r)) rows)
        (wsum (fun r => negb (is_pos p (yt r))) rows).
Definition tnr_spec (p : Z) (rows : list row) : Q :=
  qdiv0 (wsum (fun r => negb (is_pos p (yt r)) && negb (is_pos p (yp r))) rows)
        (wsum (fun r => negb (is_pos p (yt r))) rows).

Definition total_weight (rows : list row) : Q := wsum (fun _ => true) rows.
Definition sel_spec (p : Z) (rows : list row) : Q :=
  (wsum (fun r => is_pos p (yp r)) rows / total_weight rows)%Q.
Fixpoint wmean_num (rows : list row) : Q :=
  match rows with [] => 0%Q | r :: rest => (inject_Z (yp r) * wt r + wmean_num rest)%Q end.
Definition mean_spec (rows : list row) : Q := (wmean_num rows / total_weight rows)%Q.

(* ---------- drivers for the correspondence run (harness glue, evaluated by vm_compute) ---------- *)

Definition enc_oq (o : option Q) : list Z := enc_opt enc_q o.
Definition enc_oext (o : option ext) : list Z := enc_opt enc_ext o.

(* function ids: 0 tpr, 1 fnr, 2 fpr, 3 tnr, 4 selection_rate, 5 mean_prediction, 6 count.
   For selection_rate an omitted pos_label is the default 1. *)
Definition run_fn (fn : nat) (y_true y_pred : list Z) (sw : option (list Q)) (pos : option Z) : list Z :=
  match fn with
  | 0%nat => enc_oq (true_positive_rate y_true y_pred sw pos)
  | 1%nat => enc_oq (false_negative_rate y_true y_pred sw pos)
  | 2%nat => enc_oq (false_positive_rate y_true y_pred sw pos)
  | 3%nat => enc_oq (true_negative_rate y_true y_pred sw pos)
  | 4%nat => enc_oext (selection_rate y_pred (match pos with Some p => p | None => 1 end) sw)
  | 5%nat => enc_oext (mean_prediction y_pred sw)
  | _ => enc_opt enc_nat (count y_true y_pred)
  end.

(* one block: every (y_true, y_pred, weight options) x every pos_label option, in this order *)
Definition run_block (fn : nat) (poss : list (option Z))
           (items : list (list Z * list Z * list (option (list Q)))) : list Z :=
  flat_map (fun it =>
    let '(a, b, wopts) := it in
    flat_map (fun pos => flat_map (fun sw => run_fn fn a b sw pos) wopts) poss) items.
