(* Lemmas about the source-shaped view ThreshOptSrc.v (C04, C05): under the tags the model was written from,
   every interpreter IS the model definition; the arithmetic of the source (group frequency as a quotient,
   0 * x_grid, acc + p * y, threshold midpoints as rationals, the degenerate-label test) agrees with the
   model's representation (fractions, repeat 0, zip_add, doubled integers, both_labels). *)
From Coq Require Import QArith ZArith List Bool Lia Lra Psatz.
From FL Require Import Num Tradeoff Tradeoff_proofs Hull Hull_proofs Interp Interp_proofs ThreshOpt ThreshOptSrc.
Import ListNotations.
Open Scope Q_scope.

(* ---------- interpreters under the model tags ---------- *)
Lemma fit_simple_src_model flip mx my N gs :
  fit_simple_src SelFirstMax IdxCommon flip mx my N gs = fit_simple flip mx my N gs.
Proof. reflexivity. Qed.

Lemma simple_rules_src_model f : simple_rules_src model_bunch f = simple_rules f.
Proof. reflexivity. Qed.

Lemma fit_eo_src_model flip obj N gs :
  fit_eo_src FPR TPR RedMin SelFirstMax IdxCommon ConstXBest model_bunch (fun n p => (n - p)%Z)
             eo_counts (fun x y _ yb => if Qeqb y x then 0 else (y - yb) / (y - x)) flip obj N gs
  = fit_eo flip obj N gs.
Proof. reflexivity. Qed.

Lemma points_at_src_model flip mx my nneg npos e :
  points_at_src actual_cm flipped_cm model_ops_flip model_ops_noflip flip mx my nneg npos e
  = points_at flip mx my nneg npos e.
Proof. destruct e as [[t c0] c1]; destruct flip; reflexivity. Qed.

(* ---------- sort keys ---------- *)
Lemma Qleb_ltb_eqb a b : Qleb a b = Qltb a b || Qeqb a b.
Proof.
  destruct (Qlt_le_dec a b) as [H|H].
  - rewrite (proj2 (Qleb_le a b) (Qlt_le_weak _ _ H)), (proj2 (Qltb_lt a b) H). reflexivity.
  - rewrite (proj2 (Qltb_ge a b) H). cbn [orb]. destruct (Qeqb a b) eqn:E.
    + apply Qeqb_eq in E. apply Qleb_le. rewrite E. apply Qle_refl.
    + apply Qeqb_neq in E. apply Qleb_gt. destruct (Qle_lt_or_eq _ _ H) as [L|L]; [exact L|].
      exfalso. apply E. symmetry. exact L.
Qed.

Lemma key_leb_model a b : sort_leb true model_sort_keys a b = pt_leb a b.
Proof.
  unfold sort_leb, model_sort_keys, key_leb, pt_leb, keyv. rewrite Qleb_ltb_eqb, andb_true_r. reflexivity.
Qed.

(* ---------- the group frequency ---------- *)
Lemma gweight_ratio gs g : total_rows gs <> 0%nat ->
  gweight gs g == inject_Z (Z.of_nat (length g)) / inject_Z (Z.of_nat (total_rows gs)).
Proof.
  intro Hn. unfold gweight.
  assert (Hp : (0 < Z.of_nat (total_rows gs))%Z) by lia.
  rewrite (Qmake_Qdiv (Z.of_nat (length g)) (Pos.of_nat (total_rows gs))).
  replace (Z.pos (Pos.of_nat (total_rows gs))) with (Z.of_nat (total_rows gs)); [reflexivity|].
  destruct (total_rows gs) as [|k]; [lia|]. rewrite <- Pos.of_nat_succ, Zpos_P_of_succ_nat. lia.
Qed.

(* ---------- the accumulation loop with the source's arithmetic ---------- *)
Lemma zip_acc_step acc w w' : (forall a p y, acc a p y == a + p * y) -> w == w' ->
  forall a a' c, Forall2 Qeq a a' ->
  Forall2 Qeq (zip_acc acc w a c) (zip_add a' (map (fun i => w' * iy i) c)).
Proof.
  intros Hacc Hw a a' c H. revert c. induction H as [|x x' a a' Hx _ IH]; intros [|i c]; cbn [zip_acc zip_add map];
    try constructor.
  - rewrite Hacc, Hx, Hw. reflexivity.
  - apply IH.
Qed.

Lemma fold_acc_model init_l init_l' acc (W W' : group -> Q) l :
  (forall a p y, acc a p y == a + p * y) -> (forall g, W g == W' g) -> Forall2 Qeq init_l init_l' ->
  Forall2 Qeq (fold_left (fun a (gc : group * list ipt) => zip_acc acc (W (fst gc)) a (snd gc)) l init_l)
              (fold_left (fun a (gc : group * list ipt) => zip_add a (map (fun i => W' (fst gc) * iy i) (snd gc))) l init_l').
Proof.
  intros Hacc HW. revert init_l init_l'. induction l as [|gc l IH]; intros a a' H; cbn [fold_left]; [exact H|].
  apply IH. apply zip_acc_step; [exact Hacc | apply HW | exact H].
Qed.

Lemma grid_length N : length (grid N) = S (Pos.to_nat N).
Proof. unfold grid. rewrite map_length, seq_length. reflexivity. Qed.

Theorem overall_curve_src_model init weight acc gs curves N : total_rows gs <> 0%nat ->
  (forall x, init x == 0) -> (forall a b, ~ b == 0 -> weight a b == a / b) ->
  (forall a p y, acc a p y == a + p * y) ->
  Forall2 Qeq (overall_curve_src init weight acc gs curves (grid N)) (overall_curve gs curves (S (Pos.to_nat N))).
Proof.
  intros Hn Hi Hw Hacc. unfold overall_curve_src, overall_curve.
  apply (fold_acc_model _ _ acc
           (fun g => weight (inject_Z (Z.of_nat (length g))) (inject_Z (Z.of_nat (total_rows gs))))
           (gweight gs)); [exact Hacc| |].
  - intro g. rewrite gweight_ratio by exact Hn. apply Hw.
    intro H0. assert (H1 : (Z.of_nat (total_rows gs) = 0)%Z).
    { unfold Qeq in H0. cbn in H0. lia. }
    lia.
  - rewrite <- grid_length. induction (grid N) as [|x l IH]; cbn [map length repeat]; constructor; [apply Hi | exact IH].
Qed.

(* the first arg-max does not distinguish == values *)
Lemma Qltb_compat a a' b b' : a == a' -> b == b' -> Qltb a b = Qltb a' b'.
Proof.
  intros Ha Hb. destruct (Qltb a b) eqn:H1, (Qltb a' b') eqn:H2; try reflexivity; exfalso;
    try apply Qltb_lt in H1; try apply Qltb_ge in H1; try apply Qltb_lt in H2; try apply Qltb_ge in H2; lra.
Qed.

Lemma argmax_from_compat l l' : Forall2 Qeq l l' -> forall i b b' bi, b == b' ->
  argmax_from l i b bi = argmax_from l' i b' bi.
Proof.
  induction 1 as [|x x' l l' Hx _ IH]; intros i b b' bi Hb; cbn [argmax_from]; [reflexivity|].
  rewrite (Qltb_compat b b' x x' Hb Hx). destruct (Qltb b' x'); apply IH; assumption.
Qed.

Lemma argmax_compat l l' : Forall2 Qeq l l' -> argmax l = argmax l'.
Proof. intros [|x x' l0 l0' Hx H]; [reflexivity|]. unfold argmax. apply argmax_from_compat; assumption. Qed.

(* i_best computed from the source's arithmetic is the model's i_best *)
Theorem simple_best_src_model init weight acc flip mx my N gs : total_rows gs <> 0%nat ->
  (forall x, init x == 0) -> (forall a b, ~ b == 0 -> weight a b == a / b) ->
  (forall a p y, acc a p y == a + p * y) ->
  select_src SelFirstMax
    (overall_curve_src init weight acc gs (map (group_curve flip mx my N) gs) (grid N))
  = fs_best (fit_simple flip mx my N gs).
Proof.
  intros Hn Hi Hw Hacc. unfold select_src, fit_simple. cbn [fs_best].
  apply argmax_compat. apply overall_curve_src_model; assumption.
Qed.

(* ---------- the degenerate-label guard ---------- *)
Lemma both_labels_guard g :
  both_labels g = negb ((count_label true g =? 0)%Z || (count_label false g =? 0)%Z).
Proof.
  unfold both_labels.
  assert (H1 : (0 <= count_label true g)%Z) by (unfold count_label; lia).
  assert (H0 : (0 <= count_label false g)%Z) by (unfold count_label; lia).
  generalize dependent (count_label true g). generalize dependent (count_label false g). intros a Ha b Hb.
  destruct (Z.ltb_spec 0 b), (Z.ltb_spec 0 a), (Z.eqb_spec b 0), (Z.eqb_spec a 0); cbn; try reflexivity; lia.
Qed.

(* ---------- thresholds: doubled integers vs the source's rational midpoints ---------- *)
Lemma thr_q_mid s s' : thr_q (s + s') == (inject_Z s + inject_Z s') / 2.
Proof. unfold thr_q. rewrite inject_Z_plus. reflexivity. Qed.

Lemma thr_q_lt w s : thr_q w < inject_Z s <-> (w < 2 * s)%Z.
Proof. unfold thr_q, Qlt, Qdiv, Qmult, Qinv, inject_Z. cbn [Qnum Qden Pos.mul]. lia. Qed.
Lemma thr_q_gt w s : inject_Z s < thr_q w <-> (2 * s < w)%Z.
Proof. unfold thr_q, Qlt, Qdiv, Qmult, Qinv, inject_Z. cbn [Qnum Qden Pos.mul]. lia. Qed.

Lemma apply_op_mid k w s :
  apply_op (mkop k (TMid w)) s
  = apply_op_q (fun thr y => Qltb thr y) (fun thr y => Qltb y thr) k (thr_q w) (inject_Z s).
Proof.
  unfold apply_op, apply_op_q. cbn [op_kind op_thr above below]. destruct k.
  - destruct (Qltb (thr_q w) (inject_Z s)) eqn:H.
    + apply Qltb_lt, thr_q_lt in H. apply Z.ltb_lt. exact H.
    + apply Z.ltb_ge. apply Qltb_ge in H. destruct (Z.lt_ge_cases w (2 * s)) as [C|C]; [|lia].
      apply thr_q_lt in C. lra.
  - destruct (Qltb (inject_Z s) (thr_q w)) eqn:H.
    + apply Qltb_lt, thr_q_gt in H. apply Z.ltb_lt. exact H.
    + apply Z.ltb_ge. apply Qltb_ge in H. destruct (Z.lt_ge_cases (2 * s) w) as [C|C]; [|lia].
      apply thr_q_gt in C. lra.
Qed.

(* searchsorted side *)
Lemma searchsorted_src_model xs x : searchsorted_src SideRight xs x = ss_right xs x.
Proof. reflexivity. Qed.
