(* C10 (extension) -- bridge from the FIT models to the rule / weights the predict-side model
   Thresholder.v takes as data.  Proof-free (lemmas and theorems: ThresholderBridge_proofs.v).

     ThresholdOptimizer.fit    (C04/C05 model ThreshOpt.fit_simple / fit_eo: per group p0, operation0, p1,
                                operation1 and, for equalized odds, p_ignore, prediction_constant)
         --conv_rule-->        Thresholder.rule          (one entry of interpolation_dict)
     ExponentiatedGradient.fit (C08 model Saddle / SaddleFit: Q_EG = Qsum / Qsum.sum(), the LP candidate,
                                keep_pair, returned)   + the zero padding at the end of fit
         --eg_fit_weights-->   Thresholder.weights       (weights_ as a Series: (predictor id, weight))

   Units.  The C04 model works on INTEGER scores; a finite rational score table is an integer table after
   multiplication by a common denominator D, and a midpoint threshold is stored as the doubled integer w.
   In the units of the real scores the threshold is w / (2 D); conv_rule takes D as a parameter (D = 1:
   integer scores as they are). *)
From Coq Require Import QArith ZArith List Bool.
From FL Require Import Num Flat ListX Tradeoff Hull Interp ThreshOpt.
From FL Require Thresholder Saddle SaddleFit.
Import ListNotations.
Open Scope Q_scope.

Module T := Thresholder.

(* ---------- ThresholdOptimizer ---------- *)

Definition conv_thr (D : positive) (t : thr) : ext :=
  match t with
  | TInf => PInf
  | TNInf => NInf
  | TMid w => Fin (w # (2 * D))
  end.

Definition conv_kind (k : opk) : T.opk := match k with OpGt => T.OpGt | OpLt => T.OpLt end.

Definition conv_op (D : positive) (o : op) : T.throp :=
  T.mk_throp (conv_kind (op_kind o)) (conv_thr D (op_thr o)).

(* simple constraints store no p_ignore / prediction_constant: 0 and 0, for which the ignore formula is the
   identity (the convention of Thresholder.rule and of harness/props/c10.py) *)
Definition conv_rule (D : positive) (r : rule) : T.rule :=
  T.mk_rule (r_p0 r) (conv_op D (r_op0 r)) (r_p1 r) (conv_op D (r_op1 r))
            (match r_ignore r with Some pc => fst pc | None => 0 end)
            (match r_ignore r with Some pc => snd pc | None => 0 end).

(* the rules ThresholdOptimizer.fit stores, one per group, in the order of the groups *)
Definition fitted_simple (D : positive) (flip : bool) (mx my : metric) (N : positive) (gs : list group)
  : list T.rule := map (conv_rule D) (simple_rules (fit_simple flip mx my N gs)).

Definition fitted_eo (D : positive) (flip : bool) (obj : metric) (N : positive) (gs : list group)
  : list T.rule := map (conv_rule D) (fe_rules (fit_eo flip obj N gs)).

(* interpolation_dict: group code -> rule *)
Definition fitted_dict (codes : list Z) (rules : list T.rule) : list (Z * T.rule) := combine codes rules.

(* ----- tie flags: when one is set the float implementation may legitimately select another rule
   (same conventions as harness/props/_c04_common.decode) ----- *)
Definition tie_eps : Q := 1 # 1000000000.

Definition argmax_tie (l : list Q) : bool :=
  negb (Nat.eqb (count_max l) 1) || Qltb (runner_up_gap l) tie_eps.

(* Hull.hull_ties flags every drop test decided by an exact equality that is not structural.  Finer: an equality
   0 = 0 is decided identically in floating point when every coordinate is ONE ratio count / (constant of the
   group) -- equal rationals are then identical floats, their difference is exactly 0.0 and so is the product --
   which holds for every metric of METRIC_DICT except balanced accuracy (a sum of two ratios).  Typical: three
   points on the top edge y = 1 of a ROC curve. *)
Definition fragile_eq_nz (r0 r1 r2 : pt) : bool :=
  fragile_eq r0 r1 r2 && negb (Qeqb ((py r1 - py r0) * (px r2 - px r0)) 0).

Fixpoint pop_ties_nz (st : list pt) (r2 : pt) : bool :=
  match st with
  | r1 :: st' =>
      match st' with
      | r0 :: _ => fragile_eq_nz r0 r1 r2 || (if drop_test r0 r1 r2 then pop_ties_nz st' r2 else false)
      | [] => false
      end
  | [] => false
  end.

Definition hull_ties_nz (pts : list pt) : bool :=
  snd (fold_left (fun (a : list pt * bool) r2 => (hull_step (fst a) r2, snd a || pop_ties_nz (fst a) r2))
                 pts ([], false)).

Definition single_ratio (m : metric) : bool := match m with BalAcc => false | _ => true end.

Definition hull_tie (flip : bool) (mx my : metric) (gs : list group) : bool :=
  existsb (fun g => if single_ratio mx && single_ratio my then hull_ties_nz (tradeoff_points flip mx my g)
                    else hull_ties (tradeoff_points flip mx my g)) gs.

Definition simple_tie (flip : bool) (mx my : metric) (N : positive) (gs : list group) : bool :=
  argmax_tie (fs_overall (fit_simple flip mx my N gs)) || hull_tie flip mx my gs.

Definition eo_tie (flip : bool) (obj : metric) (N : positive) (gs : list group) : bool :=
  argmax_tie (fe_obj (fit_eo flip obj N gs)) || hull_tie flip FPR TPR gs.

(* decidable form of Thresholder_proofs.rule_valid, evaluated on every correspondence case *)
Definition rule_valid_b (r : T.rule) : bool :=
  Qleb 0 (T.p0 r) && Qleb 0 (T.p1 r) && Qeqb (T.p0 r + T.p1 r) 1 &&
  Qleb 0 (T.p_ignore r) && Qleb (T.p_ignore r) 1 && Qleb 0 (T.pred_const r) && Qleb (T.pred_const r) 1.

Definition enc_throp (o : T.throp) : list Z :=
  (match T.t_op o with T.OpGt => 1%Z | T.OpLt => 0%Z end) :: enc_ext (T.t_thr o).
Definition enc_trule (r : T.rule) : list Z :=
  enc_q (T.p0 r) ++ enc_throp (T.op0 r) ++ enc_q (T.p1 r) ++ enc_throp (T.op1 r)
  ++ enc_q (T.p_ignore r) ++ enc_q (T.pred_const r).

(* what the correspondence run reads: tie flag, all rules valid, the converted rules, and the pmf table the
   model-from-fit reports on the query rows (codes = group codes in the order of gs) *)
Definition bridge_obs (tie : bool) (rules : list T.rule) (codes : list Z) (rows : list (Z * Q)) : list Z :=
  enc_bool tie ++ enc_bool (forallb rule_valid_b rules) ++ enc_list enc_trule rules
  ++ enc_list (enc_pair enc_q enc_q) (T.pmf_rows (fitted_dict codes rules) rows).

Definition run_bridge_simple (D : positive) (flip : bool) (mx my : metric) (N : positive) (gs : list group)
                             (codes : list Z) (rows : list (Z * Q)) : list Z :=
  bridge_obs (simple_tie flip mx my N gs) (fitted_simple D flip mx my N gs) codes rows.

Definition run_bridge_eo (D : positive) (flip : bool) (obj : metric) (N : positive) (gs : list group)
                         (codes : list Z) (rows : list (Z * Q)) : list Z :=
  bridge_obs (eo_tie flip obj N gs) (fitted_eo D flip obj N gs) codes rows.

(* ---------- ExponentiatedGradient ---------- *)

Module S := Saddle.
Module SF := SaddleFit.

(* Qsum after the best responses h_0 .. h_t, a Series in first-insertion order:
     if h_idx not in Qsum.index: Qsum.at[h_idx] = 0.0
     Qsum[h_idx] += 1.0 *)
Fixpoint bump (h : nat) (s : list (nat * Q)) : list (nat * Q) :=
  match s with
  | [] => [(h, 0 + 1)]
  | (k, v) :: r => if Nat.eqb h k then (k, v + 1) :: r else (k, v) :: bump h r
  end.

Definition qsum_series (hs : list nat) : list (nat * Q) := fold_left (fun s h => bump h s) hs [].

(* Q_EG = Qsum / Qsum.sum()   (Saddle.eg_weights on the values, the index unchanged) *)
Definition q_eg (hs : list nat) : T.weights :=
  let s := qsum_series hs in combine (map fst s) (S.eg_weights (map snd s)).

(* Q_LP = pd.Series(result.x[:-1], self.hs.index): predictor ids 0 .. n-1 in order *)
Definition q_lp (x : list Q) : T.weights := combine (seq 0 (length x)) x.

(* one iteration of fit as the C08 model sees it: the best responses so far (h_0 .. h_t), gap_EG, and the
   LP candidate (weights, gap_LP) when solve_linprog ran *)
Record eg_iter : Type := mk_iter { it_hs : list nat; it_gap : Q; it_lp : option (list Q * Q) }.

(* what the iteration appends to (Qs, gaps): SaddleFit.keep_pair on the two candidates *)
Definition iter_pair (it : eg_iter) : T.weights * Q :=
  SF.keep_pair (q_eg (it_hs it)) (it_gap it)
               (match it_lp it with Some xg => Some (q_lp (fst xg), snd xg) | None => None end).

(* weights_ = Qs[best_iter_]   (SaddleFit.returned) *)
Definition eg_selected (prec : Q) (its : list eg_iter) : T.weights :=
  let ps := map iter_pair its in
  SF.ret_weights (SF.returned ([] : T.weights) prec (map snd ps) (map fst ps)).

(* for h_idx in self._hs.index: if h_idx not in self.weights_.index: self.weights_.at[h_idx] = 0.0 *)
Definition has_id (t : nat) (w : T.weights) : bool := existsb (fun tw => Nat.eqb t (fst tw)) w.
Definition pad_zero (n : nat) (w : T.weights) : T.weights :=
  fold_left (fun acc t => if has_id t acc then acc else acc ++ [(t, 0)]) (seq 0 n) w.

(* the attribute weights_ after fit, n = len(self._hs) *)
Definition eg_fit_weights (prec : Q) (n : nat) (its : list eg_iter) : T.weights :=
  pad_zero n (eg_selected prec its).

(* ---------- the same pipeline with the source-dependent pieces as parameters (instantiated in props/C10.v
   with the fragments translators/t_egweights.py and t_egconst.py regenerate) ----------
     new, step : `Qsum.at[h_idx] = new`, `Qsum[h_idx] += ...`        norm : Q_EG from the values of Qsum
     padv      : the value stored for predictor ids missing in weights_
     keep, ret : the EG/LP choice of one iteration and the selection of best_iter_ *)
Fixpoint bump_gen (new : Q) (step : Q -> Q) (h : nat) (s : list (nat * Q)) : list (nat * Q) :=
  match s with
  | [] => [(h, step new)]
  | (k, v) :: r => if Nat.eqb h k then (k, step v) :: r else (k, v) :: bump_gen new step h r
  end.

Definition qsum_series_gen (new : Q) (step : Q -> Q) (hs : list nat) : list (nat * Q) :=
  fold_left (fun s h => bump_gen new step h s) hs [].

Definition q_eg_gen (new : Q) (step : Q -> Q) (norm : list Q -> list Q) (hs : list nat) : T.weights :=
  let s := qsum_series_gen new step hs in combine (map fst s) (norm (map snd s)).

Definition pad_zero_gen (padv : Q) (n : nat) (w : T.weights) : T.weights :=
  fold_left (fun acc t => if has_id t acc then acc else acc ++ [(t, padv)]) (seq 0 n) w.

Definition eg_fit_weights_gen (new : Q) (step : Q -> Q) (norm : list Q -> list Q) (padv : Q)
    (keep : T.weights -> Q -> option (T.weights * Q) -> T.weights * Q)
    (ret : T.weights -> list Q -> list T.weights -> nat * Q * T.weights)
    (n : nat) (its : list eg_iter) : T.weights :=
  let ps := map (fun it => keep (q_eg_gen new step norm (it_hs it)) (it_gap it)
                                (match it_lp it with Some xg => Some (q_lp (fst xg), snd xg) | None => None end)) its in
  pad_zero_gen padv n (SF.ret_weights (ret ([] : T.weights) (map snd ps) (map fst ps))).
