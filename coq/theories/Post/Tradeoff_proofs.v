(* Lemmas about Tradeoff.v: boolean/Prop bridges on Q, metric linearity (moment property),
   soundness of the recorded (threshold, counts) pairs. *)
From Coq Require Import QArith ZArith List Bool Lia Lra Psatz.
From FL Require Import Num Tradeoff.
Import ListNotations.
Open Scope Q_scope.

(* ---------- Q booleans ---------- *)
Lemma Qleb_le a b : Qleb a b = true <-> a <= b.
Proof. unfold Qleb. apply Qle_bool_iff. Qed.
Lemma Qleb_gt a b : Qleb a b = false <-> b < a.
Proof.
  unfold Qleb. split; intro H.
  - apply Qnot_le_lt. intro C. apply Qle_bool_iff in C. congruence.
  - destruct (Qle_bool a b) eqn:E; [|reflexivity]. apply Qle_bool_iff in E. lra.
Qed.
Lemma Qltb_lt a b : Qltb a b = true <-> a < b.
Proof. unfold Qltb. rewrite negb_true_iff. apply (Qleb_gt b a). Qed.
Lemma Qltb_ge a b : Qltb a b = false <-> b <= a.
Proof. unfold Qltb. rewrite negb_false_iff. apply (Qleb_le b a). Qed.
Lemma Qeqb_eq a b : Qeqb a b = true <-> a == b.
Proof. unfold Qeqb. apply Qeq_bool_iff. Qed.
Lemma Qeqb_neq a b : Qeqb a b = false <-> ~ a == b.
Proof.
  unfold Qeqb. split; intro H.
  - intro C. apply Qeq_bool_iff in C. congruence.
  - destruct (Qeq_bool a b) eqn:E; [|reflexivity]. apply Qeq_bool_iff in E. contradiction.
Qed.

(* ---------- fieldwise equality of confusion matrices ---------- *)
Definition cm_eq (a b : cm) : Prop := tp a == tp b /\ fp a == fp b /\ tn a == tn b /\ fn a == fn b.

Lemma metric_eval_proper m a b : cm_eq a b -> metric_eval m a == metric_eval m b.
Proof.
  intros (H1 & H2 & H3 & H4).
  destruct m; unfold metric_eval, predicted_positives, positives, negatives, n_;
    rewrite ?H1, ?H2, ?H3, ?H4; reflexivity.
Qed.

(* mixture of two confusion matrices *)
Definition cm_mix (p0 p1 : Q) (a b : cm) : cm :=
  mkcm (p0 * tp a + p1 * tp b) (p0 * fp a + p1 * fp b) (p0 * tn a + p1 * tn b) (p0 * fn a + p1 * fn b).

(* metric_linear, matrix form: every METRIC_DICT entry is affine on confusion matrices that share
   the label totals (the "moment" property) *)
Lemma metric_eval_mix m p0 p1 a b :
  p0 + p1 == 1 -> positives a == positives b -> negatives a == negatives b ->
  ~ positives a == 0 -> ~ negatives a == 0 -> ~ n_ a == 0 ->
  metric_eval m (cm_mix p0 p1 a b) == p0 * metric_eval m a + p1 * metric_eval m b.
Proof.
  intros Hp HP HN NP NN Nn.
  assert (Hn : n_ a == n_ b).
  { unfold n_, positives, negatives in *. lra. }
  assert (E1 : positives (cm_mix p0 p1 a b) == positives a).
  { unfold positives, cm_mix in *; cbn [tp fn]. nra. }
  assert (E2 : negatives (cm_mix p0 p1 a b) == negatives a).
  { unfold negatives, cm_mix in *; cbn [tn fp]. nra. }
  assert (E3 : n_ (cm_mix p0 p1 a b) == n_ a).
  { unfold n_, positives, negatives, cm_mix in *; cbn [tp fp tn fn]. nra. }
  assert (NPb : ~ positives b == 0) by (rewrite <- HP; exact NP).
  assert (NNb : ~ negatives b == 0) by (rewrite <- HN; exact NN).
  assert (Nnb : ~ n_ b == 0) by (rewrite <- Hn; exact Nn).
  destruct m; unfold metric_eval; rewrite ?E1, ?E2, ?E3; rewrite <- ?HP, <- ?HN, <- ?Hn;
    unfold predicted_positives, cm_mix; cbn [tp fp tn fn]; field; auto.
Qed.

(* ---------- counting ---------- *)
Definition cnt (p : row -> bool) (g : list row) : Z := Z.of_nat (length (filter p g)).

Lemma cnt_nil p : cnt p [] = 0%Z. Proof. reflexivity. Qed.
Lemma cnt_cons p r g : cnt p (r :: g) = ((if p r then 1 else 0) + cnt p g)%Z.
Proof. unfold cnt. cbn [filter]. destruct (p r); cbn [length]; lia. Qed.
Lemma cnt_app p a b : cnt p (a ++ b) = (cnt p a + cnt p b)%Z.
Proof. unfold cnt. rewrite filter_app, app_length. lia. Qed.
Lemma cnt_nonneg p g : (0 <= cnt p g)%Z. Proof. unfold cnt. lia. Qed.
Lemma cnt_ext p q g : (forall r, In r g -> p r = q r) -> cnt p g = cnt q g.
Proof.
  induction g as [|r g IH]; intro H; [reflexivity|].
  rewrite !cnt_cons, IH by (intros; apply H; right; assumption).
  rewrite (H r) by (left; reflexivity). reflexivity.
Qed.
Lemma cnt_false p g : (forall r, In r g -> p r = false) -> cnt p g = 0%Z.
Proof.
  intro H. rewrite (cnt_ext p (fun _ => false) g H). clear H. induction g; [reflexivity|]. rewrite cnt_cons, IHg. reflexivity.
Qed.
Lemma count_label_cnt b g : count_label b g = cnt (fun r => Bool.eqb (snd r) b) g.
Proof. reflexivity. Qed.

Lemma qsum_ind (p : row -> bool) g :
  qsum (map (fun r => if p r then 1 else 0) g) == inject_Z (cnt p g).
Proof.
  induction g as [|r g IH]; [reflexivity|].
  cbn [map qsum]. rewrite IH, cnt_cons, inject_Z_plus. destruct (p r); reflexivity.
Qed.

Lemma cnt_ins p r l : cnt p (ins_desc r l) = cnt p (r :: l).
Proof.
  induction l as [|h t IH]; [reflexivity|]. cbn [ins_desc].
  destruct (fst h <=? fst r)%Z; [reflexivity|]. rewrite cnt_cons, IH, !cnt_cons. lia.
Qed.
Lemma cnt_sort p g : cnt p (sort_desc g) = cnt p g.
Proof.
  induction g as [|r g IH]; [reflexivity|]. cbn [sort_desc fold_right].
  fold (sort_desc g). rewrite cnt_ins, !cnt_cons, IH. reflexivity.
Qed.

(* ---------- the descending sort ---------- *)
Fixpoint dsorted (l : list row) : Prop :=
  match l with
  | [] => True
  | h :: t => (forall r, In r t -> (fst r <= fst h)%Z) /\ dsorted t
  end.

Lemma ins_desc_in r x l : In r (ins_desc x l) -> r = x \/ In r l.
Proof.
  induction l as [|h t IH]; cbn [ins_desc].
  - intros [H|[]]; left; congruence.
  - destruct (fst h <=? fst x)%Z.
    + intros [H|H]; [left; congruence | right; exact H].
    + intros [H|H]; [right; left; exact H|]. destruct (IH H) as [E|E]; [left; exact E | right; right; exact E].
Qed.

Lemma ins_desc_sorted x l : dsorted l -> dsorted (ins_desc x l).
Proof.
  induction l as [|h t IH]; intro H.
  - cbn. split; [intros r []| exact I].
  - cbn [ins_desc]. destruct (fst h <=? fst x)%Z eqn:E.
    + apply Z.leb_le in E. cbn [dsorted]. split; [|exact H].
      intros r [Hr|Hr]; [subst r; exact E|]. destruct H as [H1 _]. specialize (H1 r Hr). lia.
    + apply Z.leb_gt in E. destruct H as [H1 H2]. cbn [dsorted]. split; [|apply IH; exact H2].
      intros r Hr. destruct (ins_desc_in _ _ _ Hr) as [->|Hr']; [lia | apply H1; exact Hr'].
Qed.

Lemma sort_desc_sorted g : dsorted (sort_desc g).
Proof.
  induction g as [|r g IH]; [exact I|]. cbn [sort_desc fold_right]. apply ins_desc_sorted. exact IH.
Qed.

(* ---------- the walk ---------- *)
(* the threshold t separates the consumed rows l1 (strictly above) from the others l2 (strictly below) *)
Definition sep (t : thr) (l1 l2 : list row) : Prop :=
  (forall r, In r l1 -> above t (fst r) = true /\ below t (fst r) = false) /\
  (forall r, In r l2 -> above t (fst r) = false /\ below t (fst r) = true).

Lemma count_label_cons b s l g :
  count_label b ((s, l) :: g) = ((if Bool.eqb l b then 1 else 0) + count_label b g)%Z.
Proof. rewrite !count_label_cnt, cnt_cons. reflexivity. Qed.

Lemma walk_spec : forall rows c0 c1 t a b, dsorted rows -> In (t, a, b) (walk rows c0 c1) ->
  exists l1 l2, rows = l1 ++ l2 /\ sep t l1 l2 /\
    a = (c0 + count_label false l1)%Z /\ b = (c1 + count_label true l1)%Z /\
    (forall r0 s0, head rows = Some r0 -> (fst r0 <= s0)%Z -> above t s0 = true /\ below t s0 = false).
Proof.
  induction rows as [|[s l] rest IH]; intros c0 c1 t a b Hs Hin; [destruct Hin|].
  cbn [walk] in Hin. destruct Hs as [Hle Hs'].
  destruct rest as [|[s' l'] rest'].
  - destruct Hin as [E|[]]. inversion E; subst t a b. exists [(s, l)], [].
    split; [reflexivity|]. split; [split|].
    + intros r _. split; reflexivity.
    + intros r [].
    + rewrite !count_label_cons. change (count_label false []) with 0%Z. change (count_label true []) with 0%Z.
      split; [|split].
      * destruct l; cbn [Bool.eqb]; lia.
      * destruct l; cbn [Bool.eqb]; lia.
      * intros r0 s0 _ _. split; reflexivity.
  - assert (Hs's : (s' <= s)%Z) by (apply (Hle (s', l')); left; reflexivity).
    assert (Later : In (t, a, b) (walk ((s', l') :: rest') (if l then c0 else (c0 + 1)%Z) (if l then (c1 + 1)%Z else c1)) ->
      exists l1 l2, (s, l) :: (s', l') :: rest' = l1 ++ l2 /\ sep t l1 l2 /\
        a = (c0 + count_label false l1)%Z /\ b = (c1 + count_label true l1)%Z /\
        (forall r0 s0, head ((s, l) :: (s', l') :: rest') = Some r0 -> (fst r0 <= s0)%Z ->
           above t s0 = true /\ below t s0 = false)).
    { intro Hin'. destruct (IH _ _ _ _ _ Hs' Hin') as (l1 & l2 & E & [S1 S2] & Ea & Eb & Hh).
      exists ((s, l) :: l1), l2. split; [cbn [app]; f_equal; exact E|]. split; [split|].
      - intros r [Hr|Hr]; [subst r; cbn [fst]; apply (Hh (s', l') s); [reflexivity | exact Hs's] | apply S1; exact Hr].
      - exact S2.
      - rewrite !count_label_cons. split; [|split].
        + rewrite Ea. destruct l; cbn [Bool.eqb]; lia.
        + rewrite Eb. destruct l; cbn [Bool.eqb]; lia.
        + intros r0 s0 E0 Hr0. inversion E0; subst r0. cbn [fst] in Hr0.
          apply (Hh (s', l') s0); [reflexivity | cbn [fst]; lia]. }
    destruct (s' =? s)%Z eqn:Eq; [exact (Later Hin)|].
    apply Z.eqb_neq in Eq. destruct Hin as [E|Hin]; [|exact (Later Hin)].
    inversion E; subst t a b. exists [(s, l)], ((s', l') :: rest'). split; [reflexivity|]. split; [split|].
    + intros r [Hr|[]]. subst r. cbn [fst above below]. split; [apply Z.ltb_lt | apply Z.ltb_ge]; lia.
    + intros r Hr. assert (Hr' : (fst r <= s')%Z).
      { destruct Hr as [Hr|Hr]; [subst r; cbn; lia|]. destruct Hs' as [H1 _]. apply (H1 r Hr). }
      cbn [above below]. split; [apply Z.ltb_ge | apply Z.ltb_lt]; lia.
    + rewrite !count_label_cons. change (count_label false []) with 0%Z. change (count_label true []) with 0%Z.
      split; [|split].
      * destruct l; cbn [Bool.eqb]; lia.
      * destruct l; cbn [Bool.eqb]; lia.
      * intros r0 s0 E0 Hr0. inversion E0; subst r0. cbn [fst] in Hr0. cbn [above below].
        split; [apply Z.ltb_lt | apply Z.ltb_ge]; lia.
Qed.

(* every recorded (threshold, count[0], count[1]) splits the sorted rows *)
Lemma thresholds_counts_split g t c0 c1 : In (t, c0, c1) (thresholds_counts g) ->
  exists l1 l2, sort_desc g = l1 ++ l2 /\ sep t l1 l2 /\
    c0 = count_label false l1 /\ c1 = count_label true l1.
Proof.
  unfold thresholds_counts. intros [E|Hin].
  - inversion E; subst t c0 c1. exists [], (sort_desc g).
    split; [reflexivity|]. split; [split|split; reflexivity].
    + intros r [].
    + intros r _. split; reflexivity.
  - destruct (walk_spec _ _ _ _ _ _ (sort_desc_sorted g) Hin) as (l1 & l2 & E & S & Ea & Eb & _).
    exists l1, l2. split; [exact E|]. split; [exact S|]. split; [rewrite Ea; lia | rewrite Eb; lia].
Qed.

Lemma exp_cm_op_rule o g :
  cm_eq (exp_cm (op_rule o) g)
        (mkcm (inject_Z (cnt (fun r => snd r && apply_op o (fst r)) g))
              (inject_Z (cnt (fun r => negb (snd r) && apply_op o (fst r)) g))
              (inject_Z (cnt (fun r => negb (snd r) && negb (apply_op o (fst r))) g))
              (inject_Z (cnt (fun r => snd r && negb (apply_op o (fst r))) g))).
Proof.
  unfold cm_eq, exp_cm, op_rule. cbn [tp fp tn fn].
  repeat split; rewrite <- qsum_ind; (apply Qeq_refl || idtac);
    match goal with |- qsum (map ?f g) == qsum (map ?h g) =>
      rewrite (map_ext f h); [reflexivity|] end;
    intros [s l]; cbn [fst snd]; destruct l, (apply_op o s); reflexivity.
Qed.

(* op_counts_sound: applying a recorded operation to the group's own scores gives exactly the
   confusion counts from which the point's (x, y) were computed -- ties, +-inf and the flipped
   operation included *)
Theorem op_counts_sound g t c0 c1 : In (t, c0, c1) (thresholds_counts g) ->
  cm_eq (exp_cm (op_rule (mkop OpGt t)) g) (actual_cm (count_label false g) (count_label true g) c0 c1) /\
  cm_eq (exp_cm (op_rule (mkop OpLt t)) g) (flipped_cm (count_label false g) (count_label true g) c0 c1) /\
  (0 <= c0 <= count_label false g)%Z /\ (0 <= c1 <= count_label true g)%Z.
Proof.
  intro Hin. destruct (thresholds_counts_split g t c0 c1 Hin) as (l1 & l2 & E & [S1 S2] & E0 & E1).
  assert (Tot : forall b, count_label b g = (count_label b l1 + count_label b l2)%Z).
  { intro b. rewrite !count_label_cnt, <- cnt_app, <- E, cnt_sort. reflexivity. }
  assert (C : forall (lab : bool -> bool) (sel : bool -> bool) (o : op) (v1 v2 : bool),
     (forall r, In r l1 -> apply_op o (fst r) = v1) ->
     (forall r, In r l2 -> apply_op o (fst r) = v2) ->
     cnt (fun r => lab (snd r) && sel (apply_op o (fst r))) g =
     ((if sel v1 then cnt (fun r => lab (snd r)) l1 else 0) + (if sel v2 then cnt (fun r => lab (snd r)) l2 else 0))%Z).
  { intros lab sel o v1 v2 H1 H2. rewrite <- cnt_sort, E, cnt_app. f_equal.
    - destruct (sel v1) eqn:Es.
      + apply cnt_ext. intros r Hr. rewrite (H1 r Hr), Es. apply andb_true_r.
      + apply cnt_false. intros r Hr. rewrite (H1 r Hr), Es. apply andb_false_r.
    - destruct (sel v2) eqn:Es.
      + apply cnt_ext. intros r Hr. rewrite (H2 r Hr), Es. apply andb_true_r.
      + apply cnt_false. intros r Hr. rewrite (H2 r Hr), Es. apply andb_false_r. }
  assert (Lt : forall l, cnt (fun r : row => snd r) l = count_label true l).
  { intro l. rewrite count_label_cnt. apply cnt_ext. intros [s b] _. destruct b; reflexivity. }
  assert (Lf : forall l, cnt (fun r : row => negb (snd r)) l = count_label false l).
  { intro l. rewrite count_label_cnt. apply cnt_ext. intros [s b] _. destruct b; reflexivity. }
  pose proof (cnt_nonneg (fun r => Bool.eqb (snd r) false) l2) as N0.
  pose proof (cnt_nonneg (fun r => Bool.eqb (snd r) true) l2) as N1.
  pose proof (cnt_nonneg (fun r => Bool.eqb (snd r) false) l1) as M0.
  pose proof (cnt_nonneg (fun r => Bool.eqb (snd r) true) l1) as M1.
  rewrite <- !count_label_cnt in N0, N1, M0, M1.
  assert (K : forall o v1 v2,
     (forall r, In r l1 -> apply_op o (fst r) = v1) -> (forall r, In r l2 -> apply_op o (fst r) = v2) ->
     cm_eq (exp_cm (op_rule o) g)
       (mkcm (inject_Z ((if v1 then count_label true l1 else 0) + (if v2 then count_label true l2 else 0)))
             (inject_Z ((if v1 then count_label false l1 else 0) + (if v2 then count_label false l2 else 0)))
             (inject_Z ((if v1 then 0 else count_label false l1) + (if v2 then 0 else count_label false l2)))
             (inject_Z ((if v1 then 0 else count_label true l1) + (if v2 then 0 else count_label true l2))))).
  { intros o v1 v2 A1 A2. pose proof (exp_cm_op_rule o g) as (H1 & H2 & H3 & H4).
    unfold cm_eq. cbn [tp fp tn fn] in *. rewrite H1, H2, H3, H4.
    pose proof (C (fun b => b) (fun b => b) o v1 v2 A1 A2) as C1.
    pose proof (C negb (fun b => b) o v1 v2 A1 A2) as C2.
    pose proof (C negb negb o v1 v2 A1 A2) as C3.
    pose proof (C (fun b => b) negb o v1 v2 A1 A2) as C4.
    cbv beta in C1, C2, C3, C4. rewrite C1, C2, C3, C4, !Lt, !Lf.
    destruct v1, v2; cbn [negb]; repeat split; reflexivity. }
  split; [|split; [|rewrite (Tot false), (Tot true); lia]].
  - assert (A1 : forall r, In r l1 -> apply_op (mkop OpGt t) (fst r) = true) by (intros r Hr; apply (S1 r Hr)).
    assert (A2 : forall r, In r l2 -> apply_op (mkop OpGt t) (fst r) = false) by (intros r Hr; apply (S2 r Hr)).
    destruct (K _ _ _ A1 A2) as (H1 & H2 & H3 & H4).
    unfold cm_eq, actual_cm. cbn [tp fp tn fn] in *. rewrite H1, H2, H3, H4, (Tot false), (Tot true), E0, E1.
    repeat split; apply inject_Z_injective; lia.
  - assert (A1 : forall r, In r l1 -> apply_op (mkop OpLt t) (fst r) = false) by (intros r Hr; apply (S1 r Hr)).
    assert (A2 : forall r, In r l2 -> apply_op (mkop OpLt t) (fst r) = true) by (intros r Hr; apply (S2 r Hr)).
    destruct (K _ _ _ A1 A2) as (H1 & H2 & H3 & H4).
    unfold cm_eq, flipped_cm. cbn [tp fp tn fn] in *. rewrite H1, H2, H3, H4, (Tot false), (Tot true), E0, E1.
    repeat split; apply inject_Z_injective; lia.
Qed.
