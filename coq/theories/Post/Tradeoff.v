(* Model of fairlearn.postprocessing._tradeoff_curve_utilities._calculate_tradeoff_points,
   METRIC_DICT / _extend_confusion_matrix and ThresholdOperation (C04, C05).
   A group is a list of (score, label) rows; scores are integers (any finite set of rational
   scores is an integer set after a positive rescaling, which commutes with thresholding);
   a threshold is +inf, -inf or the midpoint t/2 of two scores, stored as the doubled value t.
   Proof-free: lemmas are in Tradeoff_proofs.v. *)
From Coq Require Import QArith ZArith List Bool.
From FL Require Import Num.
Import ListNotations.
Open Scope Q_scope.

(* ---------- confusion-matrix Bunch and METRIC_DICT ---------- *)

Record cm : Type := mkcm { tp : Q; fp : Q; tn : Q; fn : Q }.

(* derived fields of _extend_confusion_matrix *)
Definition predicted_positives (c : cm) : Q := tp c + fp c.
Definition predicted_negatives (c : cm) : Q := tn c + fn c.
Definition positives (c : cm) : Q := tp c + fn c.
Definition negatives (c : cm) : Q := tn c + fp c.
Definition n_ (c : cm) : Q := tp c + tn c + fp c + fn c.

Inductive metric : Type := SelRate | FPR | FNR | TPR | TNR | Acc | BalAcc.

Definition metric_eval (m : metric) (c : cm) : Q :=
  match m with
  | SelRate => predicted_positives c / n_ c
  | FPR => fp c / negatives c
  | FNR => fn c / positives c
  | TPR => tp c / positives c
  | TNR => tn c / negatives c
  | Acc => (tp c + tn c) / n_ c
  | BalAcc => (1#2) * tp c / positives c + (1#2) * tn c / negatives c
  end.

(* ---------- thresholds and threshold operations ---------- *)

Inductive thr : Type := TInf | TNInf | TMid (twice : Z).
Inductive opk : Type := OpGt | OpLt.
Record op : Type := mkop { op_kind : opk; op_thr : thr }.

(* s > t  and  s < t  as numpy evaluates them (inf included) *)
Definition above (t : thr) (s : Z) : bool :=
  match t with TInf => false | TNInf => true | TMid w => (w <? 2 * s)%Z end.
Definition below (t : thr) (s : Z) : bool :=
  match t with TInf => true | TNInf => false | TMid w => (2 * s <? w)%Z end.

(* ThresholdOperation.__call__ *)
Definition apply_op (o : op) (s : Z) : bool :=
  match op_kind o with OpGt => above (op_thr o) s | OpLt => below (op_thr o) s end.

(* ---------- rows, groups, counts ---------- *)

Definition row : Type := (Z * bool)%type.      (* (score, label) *)
Definition group : Type := list row.

Definition count_label (b : bool) (g : group) : Z :=
  Z.of_nat (length (filter (fun r => Bool.eqb (snd r) b) g)).

(* data.sort_values(by=score, ascending=False); the order inside a block of equal scores is
   irrelevant because the loop consumes a whole block before it records a point *)
Fixpoint ins_desc (r : row) (l : list row) : list row :=
  match l with
  | [] => [r]
  | h :: t => if (fst h <=? fst r)%Z then r :: l else h :: ins_desc r t
  end.
Definition sort_desc (g : group) : list row := fold_right ins_desc [] g.

(* the while loop: walk the rows (decreasing score), count[label] += 1, and when the block of
   equal scores ends record (midpoint to the next score | -inf at the end, count[0], count[1]) *)
Fixpoint walk (rows : list row) (c0 c1 : Z) : list (thr * Z * Z) :=
  match rows with
  | [] => []
  | (s, l) :: rest =>
      let c0' := if l then c0 else (c0 + 1)%Z in
      let c1' := if l then (c1 + 1)%Z else c1 in
      match rest with
      | [] => [(TNInf, c0', c1')]
      | (s', _) :: _ =>
          if (s' =? s)%Z then walk rest c0' c1'
          else (TMid (s + s'), c0', c1') :: walk rest c0' c1'
      end
  end.

(* the initial point (threshold +inf, nothing counted) followed by one point per score level *)
Definition thresholds_counts (g : group) : list (thr * Z * Z) :=
  (TInf, 0%Z, 0%Z) :: walk (sort_desc g) 0%Z 0%Z.

Definition actual_cm (nneg npos c0 c1 : Z) : cm :=
  mkcm (inject_Z c1) (inject_Z c0) (inject_Z (nneg - c0)) (inject_Z (npos - c1)).
Definition flipped_cm (nneg npos c0 c1 : Z) : cm :=
  mkcm (inject_Z (npos - c1)) (inject_Z (nneg - c0)) (inject_Z c0) (inject_Z c1).

Record pt : Type := mkpt { px : Q; py : Q; pop : op }.

Definition points_at (flip : bool) (mx my : metric) (nneg npos : Z) (e : thr * Z * Z) : list pt :=
  let '(t, c0, c1) := e in
  let a := actual_cm nneg npos c0 c1 in
  let f := flipped_cm nneg npos c0 c1 in
  mkpt (metric_eval mx a) (metric_eval my a) (mkop OpGt t) ::
  (if flip then [mkpt (metric_eval mx f) (metric_eval my f) (mkop OpLt t)] else []).

(* x_list, y_list, operation_list before the sort *)
Definition tradeoff_raw (flip : bool) (mx my : metric) (g : group) : list pt :=
  flat_map (points_at flip mx my (count_label false g) (count_label true g)) (thresholds_counts g).

(* the guard of _calculate_tradeoff_points: both labels present *)
Definition both_labels (g : group) : bool :=
  (0 <? count_label true g)%Z && (0 <? count_label false g)%Z.

(* ---------- expected confusion matrix of a randomised rule on a group ---------- *)

Definition ind (b : bool) : Q := if b then 1 else 0.

(* f s = probability of predicting 1 on a row with score s *)
Definition exp_cm (f : Z -> Q) (g : group) : cm :=
  mkcm (qsum (map (fun r : row => if snd r then f (fst r) else 0) g))
       (qsum (map (fun r : row => if snd r then 0 else f (fst r)) g))
       (qsum (map (fun r : row => if snd r then 0 else 1 - f (fst r)) g))
       (qsum (map (fun r : row => if snd r then 1 - f (fst r) else 0) g)).

(* deterministic rule of one threshold operation *)
Definition op_rule (o : op) (s : Z) : Q := ind (apply_op o s).
