(* C10 -- lemmas and main theorems about Thresholder.v *)
From Coq Require Import QArith ZArith List Bool Lia Lra Psatz Permutation.
From FL Require Import Num ListX Thresholder.
Import ListNotations.
Open Scope Q_scope.

(* ---------- boolean comparisons ---------- *)

Lemma Qleb_true : forall a b, Qleb a b = true <-> a <= b.
Proof. intros a b. unfold Qleb. apply Qle_bool_iff. Qed.

Lemma Qleb_false : forall a b, Qleb a b = false <-> b < a.
Proof.
  intros a b. unfold Qleb. split; intro H.
  - apply Qnot_le_lt. intro H1. apply Qle_bool_iff in H1. congruence.
  - destruct (Qle_bool a b) eqn:E; auto. apply Qle_bool_iff in E. lra.
Qed.

Lemma Qltb_true : forall a b, Qltb a b = true <-> a < b.
Proof. intros a b. unfold Qltb. rewrite negb_true_iff. apply (Qleb_false b a). Qed.

Lemma Qltb_false : forall a b, Qltb a b = false <-> b <= a.
Proof. intros a b. unfold Qltb. rewrite negb_false_iff. apply (Qleb_true b a). Qed.

Lemma Qeqb_true : forall a b, Qeqb a b = true <-> a == b.
Proof. intros a b. unfold Qeqb. apply Qeq_bool_iff. Qed.

Lemma b2q_unit : forall b, 0 <= b2q b /\ b2q b <= 1.
Proof. destruct b; cbn [b2q]; lra. Qed.

(* ---------- threshold operations ---------- *)

(* '>' is strict: a score equal to the threshold is NOT above it *)
Lemma apply_gt_strict : forall thr s, apply_op (mk_throp OpGt (Fin thr)) s = true <-> thr < s.
Proof. intros. cbn [apply_op t_op t_thr ext_ltb]. apply Qltb_true. Qed.

Lemma apply_lt_strict : forall thr s, apply_op (mk_throp OpLt (Fin thr)) s = true <-> s < thr.
Proof. intros. cbn [apply_op t_op t_thr ext_ltb]. apply Qltb_true. Qed.

Lemma apply_gt_inf : forall s, apply_op (mk_throp OpGt PInf) s = false /\ apply_op (mk_throp OpGt NInf) s = true.
Proof. intros. split; reflexivity. Qed.

Lemma gt_mono : forall thr s s', s <= s' -> ext_ltb thr (Fin s) = true -> ext_ltb thr (Fin s') = true.
Proof.
  intros thr s s' Hs. destruct thr; cbn [ext_ltb]; auto.
  rewrite !Qltb_true. lra.
Qed.

Lemma apply_gt_mono : forall o s s', t_op o = OpGt -> s <= s' -> b2q (apply_op o s) <= b2q (apply_op o s').
Proof.
  intros o s s' Ho Hs. unfold apply_op. rewrite Ho.
  destruct (ext_ltb (t_thr o) (Fin s)) eqn:E.
  - rewrite (gt_mono _ _ _ Hs E). lra.
  - cbn [b2q]. apply b2q_unit.
Qed.

(* ---------- the thresholder pmf ---------- *)

Definition rule_valid (r : rule) : Prop :=
  0 <= p0 r /\ 0 <= p1 r /\ p0 r + p1 r == 1 /\
  0 <= p_ignore r /\ p_ignore r <= 1 /\ 0 <= pred_const r /\ pred_const r <= 1.

Lemma interp_unit : forall a0 a1 b0 b1, 0 <= a0 -> 0 <= a1 -> a0 + a1 == 1 ->
  0 <= interp_formula a0 (b2q b0) a1 (b2q b1) /\ interp_formula a0 (b2q b0) a1 (b2q b1) <= 1.
Proof.
  intros a0 a1 b0 b1 H0 H1 Hs. unfold interp_formula.
  destruct b0, b1; cbn [b2q]; lra.
Qed.

Lemma ignore_unit : forall pig c x, 0 <= pig -> pig <= 1 -> 0 <= c -> c <= 1 -> 0 <= x -> x <= 1 ->
  0 <= ignore_formula pig c x /\ ignore_formula pig c x <= 1.
Proof. intros. unfold ignore_formula. split; nra. Qed.

Theorem pmf_thr_unit : forall r s, rule_valid r ->
  0 <= pmf_thr r s /\ pmf_thr r s <= 1 /\
  fst (pmf_cols (pmf_thr r s)) + snd (pmf_cols (pmf_thr r s)) == 1 /\
  0 <= fst (pmf_cols (pmf_thr r s)) /\ fst (pmf_cols (pmf_thr r s)) <= 1.
Proof.
  intros r s (H0 & H1 & Hs & Hi0 & Hi1 & Hc0 & Hc1).
  destruct (interp_unit (p0 r) (p1 r) (apply_op (op0 r) s) (apply_op (op1 r) s) H0 H1 Hs) as [Ha Hb].
  destruct (ignore_unit _ _ _ Hi0 Hi1 Hc0 Hc1 Ha Hb) as [Hc Hd].
  unfold pmf_thr, pmf_cols. cbn [fst snd]. repeat split; lra.
Qed.

(* the whole table: every row is a distribution; rows of unknown groups get (1, 0) *)
Theorem pmf_rows_unit : forall d rows, (forall g r, In (g, r) d -> rule_valid r) ->
  Forall (fun c => 0 <= fst c /\ 0 <= snd c /\ fst c + snd c == 1) (pmf_rows d rows).
Proof.
  intros d rows Hd. unfold pmf_rows. apply Forall_forall. intros c Hc.
  apply in_map_iff in Hc. destruct Hc as ((g, s) & <- & _). cbn [fst snd].
  unfold pmf_row. destruct (zassoc g d) as [r|] eqn:E.
  - assert (Hr : rule_valid r).
    { clear - E Hd. induction d as [|(k, v) d IH]; cbn [zassoc] in E; [discriminate|].
      destruct (g =? k)%Z eqn:Ek.
      - inversion E; subst. apply (Hd k r). left; reflexivity.
      - apply IH; auto. intros g' r' Hin. apply (Hd g' r'). right; exact Hin. }
    destruct (pmf_thr_unit r s Hr) as (A & B & C & D & F). cbn [pmf_cols fst snd] in *. lra.
  - unfold pmf_cols. cbn [fst snd]. lra.
Qed.

(* By construction the table is a `map` over the rows: the entry of row i is a function of that
   row's (group, score) alone, and permuting / duplicating rows permutes / duplicates entries. *)
Theorem pmf_thr_group_score_only : forall d rows i,
  nth_error (pmf_rows d rows) i =
  option_map (fun gs => pmf_cols (pmf_row d (fst gs) (snd gs))) (nth_error rows i).
Proof. intros. unfold pmf_rows. apply nth_error_map. Qed.

Theorem pmf_rows_perm : forall d rows rows', Permutation rows rows' ->
  Permutation (pmf_rows d rows) (pmf_rows d rows').
Proof. intros. unfold pmf_rows. apply Permutation_map. assumption. Qed.

Theorem pmf_rows_app : forall d r1 r2, pmf_rows d (r1 ++ r2) = pmf_rows d r1 ++ pmf_rows d r2.
Proof. intros. unfold pmf_rows. apply map_app. Qed.

Theorem pmf_thr_monotone : forall r s s',
  0 <= p0 r -> 0 <= p1 r -> p_ignore r <= 1 ->
  t_op (op0 r) = OpGt -> t_op (op1 r) = OpGt ->
  s <= s' -> pmf_thr r s <= pmf_thr r s'.
Proof.
  intros r s s' H0 H1 Hi Ho0 Ho1 Hs.
  pose proof (apply_gt_mono (op0 r) s s' Ho0 Hs) as M0.
  pose proof (apply_gt_mono (op1 r) s s' Ho1 Hs) as M1.
  unfold pmf_thr, ignore_formula, interp_formula.
  set (b0 := b2q (apply_op (op0 r) s)) in *. set (b0' := b2q (apply_op (op0 r) s')) in *.
  set (b1 := b2q (apply_op (op1 r) s)) in *. set (b1' := b2q (apply_op (op1 r) s')) in *.
  assert (A : p0 r * b0 <= p0 r * b0') by nra.
  assert (B : p1 r * b1 <= p1 r * b1') by nra.
  assert (C : (1 - p_ignore r) * (p0 r * b0 + p1 r * b1) <= (1 - p_ignore r) * (p0 r * b0' + p1 r * b1')) by nra.
  lra.
Qed.

(* with a '<' operation (flip=True) monotonicity is really lost: the guard above is needed *)
Example pmf_thr_flip_not_monotone :
  let r := mk_rule 1 (mk_throp OpLt (Fin (1#2))) 0 (mk_throp OpGt PInf) 0 0 in
  rule_valid r /\ ~ (pmf_thr r 0 <= pmf_thr r 1).
Proof.
  cbv zeta. split.
  - unfold rule_valid. cbn [p0 p1 p_ignore pred_const]. repeat split; lra.
  - vm_compute. intro H. apply H. reflexivity.
Qed.

(* ---------- the Bernoulli draw ---------- *)

Theorem draw_spec : forall p u, draw p u = 1%Z <-> u <= p.
Proof.
  intros p u. unfold draw. destruct (Qleb u p) eqn:E.
  - apply Qleb_true in E. split; auto.
  - apply Qleb_false in E. split; [discriminate | lra].
Qed.

Theorem draw_binary : forall p u, draw p u = 0%Z \/ draw p u = 1%Z.
Proof. intros. unfold draw. destruct (Qleb u p); auto. Qed.

Theorem draw_zero_spec : forall p u, draw p u = 0%Z <-> p < u.
Proof.
  intros p u. unfold draw. destruct (Qleb u p) eqn:E.
  - apply Qleb_true in E. split; [discriminate | lra].
  - apply Qleb_false in E. split; auto.
Qed.

(* p = 1: every uniform number of [0,1) (indeed every u <= 1) gives label 1 *)
Theorem draw_at_one : forall p u, p == 1 -> u <= 1 -> draw p u = 1%Z.
Proof. intros p u Hp Hu. apply draw_spec. lra. Qed.

(* p = 0: the comparison is `p >= u`, so u = 0 (which rand() can return) still gives label 1;
   every u in (0,1) gives 0.  "Deterministic at p = 0" holds up to that single point. *)
Theorem draw_at_zero : forall p u, p == 0 -> 0 <= u -> (draw p u = 1%Z <-> u == 0).
Proof. intros p u Hp Hu. rewrite draw_spec. split; intro; lra. Qed.

Theorem draw_at_zero_pos : forall p u, p == 0 -> 0 < u -> draw p u = 0%Z.
Proof. intros p u Hp Hu. apply draw_zero_spec. lra. Qed.

Lemma draws_spec : forall ps us,
  draws ps us = map (fun pu => draw (fst pu) (snd pu)) (combine ps us).
Proof.
  induction ps as [|p ps IH]; intros [|u us]; cbn [draws combine map]; auto.
  rewrite IH. reflexivity.
Qed.

(* ---------- EG mixture ---------- *)

Lemma qsum_ext_in : forall {A} (f g : A -> Q) l,
  (forall x, In x l -> f x == g x) -> qsum (map f l) == qsum (map g l).
Proof.
  intros A f g l. induction l as [|x l IH]; intro H; cbn [map qsum]; [reflexivity|].
  rewrite (H x (or_introl eq_refl)). rewrite IH; [reflexivity|].
  intros y Hy. apply H. right; exact Hy.
Qed.

Lemma weight_of_in : forall Qw t w, NoDup (map fst Qw) -> In (t, w) Qw -> weight_of Qw t = w.
Proof.
  induction Qw as [|(t', w') Qw IH]; intros t w Hnd Hin; [destruct Hin|].
  cbn [map fst] in Hnd. inversion Hnd as [|? ? Hni Hnd']; subst.
  cbn [weight_of]. destruct Hin as [E | Hin].
  - inversion E; subst. rewrite Nat.eqb_refl. reflexivity.
  - destruct (Nat.eqb t t') eqn:Et.
    + apply Nat.eqb_eq in Et. subst. exfalso. apply Hni.
      apply in_map_iff. exists (t', w). split; auto.
    + apply IH; auto.
Qed.

Lemma weight_of_notin : forall Qw t, ~ In t (map fst Qw) -> weight_of Qw t = 0.
Proof.
  induction Qw as [|(t', w') Qw IH]; intros t Hni; cbn [weight_of]; auto.
  cbn [map fst] in Hni. destruct (Nat.eqb t t') eqn:Et.
  - apply Nat.eqb_eq in Et. subst. exfalso. apply Hni. left; reflexivity.
  - apply IH. intro H. apply Hni. right; exact H.
Qed.

Lemma weight_of_nonneg : forall Qw t, Forall (fun tw => 0 <= snd tw) Qw -> 0 <= weight_of Qw t.
Proof.
  induction Qw as [|(t', w') Qw IH]; intros t H; cbn [weight_of]; [lra|].
  inversion H as [|? ? Hw Hr]; subst. cbn [snd] in Hw.
  destruct (Nat.eqb t t'); auto.
Qed.

(* the reported probability IS the weights_-weighted mixture of the stored predictors' outputs
   (skipping the evaluation of zero-weight predictors changes nothing) *)
Theorem pmf_eg_mixture : forall Qw outs, NoDup (map fst Qw) ->
  pmf_eg Qw outs == qsum (map (fun tw => snd tw * nth (fst tw) outs 0) Qw).
Proof.
  intros Qw outs Hnd. unfold pmf_eg. apply qsum_ext_in.
  intros (t, w) Hin. cbn [fst snd]. unfold col.
  rewrite (weight_of_in Qw t w Hnd Hin).
  destruct (Qeqb w 0) eqn:E.
  - apply Qeqb_true in E. rewrite E. ring.
  - ring.
Qed.

Lemma nth_unit : forall outs t, Forall (fun o => 0 <= o /\ o <= 1) outs ->
  0 <= nth t outs 0 /\ nth t outs 0 <= 1.
Proof.
  induction outs as [|o outs IH]; intros t H.
  - destruct t; cbn [nth]; lra.
  - inversion H as [|? ? Ho Hr]; subst. destruct t; cbn [nth]; auto.
Qed.

Lemma col_unit : forall Qw outs t, Forall (fun o => 0 <= o /\ o <= 1) outs ->
  0 <= col Qw outs t /\ col Qw outs t <= 1.
Proof.
  intros. unfold col. destruct (Qeqb (weight_of Qw t) 0); [lra | apply nth_unit; assumption].
Qed.

Lemma mix_bounds : forall (c : nat * Q -> Q) (l : weights),
  Forall (fun tw => 0 <= snd tw) l -> (forall tw, 0 <= c tw /\ c tw <= 1) ->
  0 <= qsum (map (fun tw => c tw * snd tw) l) /\
  qsum (map (fun tw => c tw * snd tw) l) <= qsum (map snd l).
Proof.
  intros c l Hl Hc. induction l as [|tw l IH]; cbn [map qsum]; [lra|].
  inversion Hl as [|? ? Hw Hr]; subst. destruct (IH Hr) as [A B].
  destruct (Hc tw) as [C D]. split; nra.
Qed.

Theorem pmf_eg_unit : forall Qw outs,
  Forall (fun tw => 0 <= snd tw) Qw -> qsum (map snd Qw) == 1 ->
  Forall (fun o => 0 <= o /\ o <= 1) outs ->
  0 <= pmf_eg Qw outs /\ pmf_eg Qw outs <= 1 /\
  fst (pmf_cols (pmf_eg Qw outs)) + snd (pmf_cols (pmf_eg Qw outs)) == 1.
Proof.
  intros Qw outs Hw Hs Ho. unfold pmf_eg.
  destruct (mix_bounds (fun tw => col Qw outs (fst tw)) Qw Hw) as [A B].
  { intro tw. apply col_unit. assumption. }
  unfold pmf_cols. cbn [fst snd]. repeat split; lra.
Qed.

(* ---------- regression: choice by inverse cdf, weights aligned by predictor id ---------- *)

Lemma choice_index_ge : forall p u acc i, (i <= choice_index p u acc i)%nat.
Proof.
  induction p as [|x p IH]; intros u acc i; cbn [choice_index]; [lia|].
  destruct (Qltb u (acc + x)); [lia|]. specialize (IH u (acc + x) (S i)). lia.
Qed.

Lemma qsum_firstn_nonneg : forall p k, Forall (fun x => 0 <= x) p -> 0 <= qsum (firstn k p).
Proof.
  induction p as [|x p IH]; intros k H; destruct k; cbn [firstn qsum]; try lra.
  inversion H as [|? ? Hx Hr]; subst. specialize (IH k Hr). lra.
Qed.

Lemma choice_index_spec : forall p u acc i k,
  Forall (fun x => 0 <= x) p -> (k < length p)%nat -> acc <= u ->
  (choice_index p u acc i = (i + k)%nat <->
   acc + qsum (firstn k p) <= u /\ u < acc + qsum (firstn (S k) p)).
Proof.
  induction p as [|x p IH]; intros u acc i k Hp Hk Hacc; cbn [length] in Hk; [lia|].
  inversion Hp as [|? ? Hx Hr]; subst.
  cbn [choice_index]. destruct (Qltb u (acc + x)) eqn:E.
  - apply Qltb_true in E. destruct k as [|k].
    + cbn [firstn qsum]. split; [intros _; split; lra | intros _; lia].
    + split; [intro; lia|]. intros [A _]. cbn [firstn qsum] in A.
      pose proof (qsum_firstn_nonneg p k Hr). lra.
  - apply Qltb_false in E. destruct k as [|k].
    + split.
      * intro H. pose proof (choice_index_ge p u (acc + x) (S i)). lia.
      * intros [_ B]. cbn [firstn qsum] in B. lra.
    + assert (Hk' : (k < length p)%nat) by lia.
      specialize (IH u (acc + x) (S i) k Hr Hk' E).
      replace (i + S k)%nat with (S i + k)%nat by lia.
      rewrite IH. cbn [firstn qsum]. split; intros [A B]; split; lra.
Qed.

Lemma choice_index_lt : forall p u acc i,
  acc <= u -> u < acc + qsum p -> (choice_index p u acc i < i + length p)%nat.
Proof.
  induction p as [|x p IH]; intros u acc i Ha H; cbn [choice_index length qsum] in *; [lra|].
  destruct (Qltb u (acc + x)) eqn:E; [lia|].
  apply Qltb_false in E.
  assert (H' : u < (acc + x) + qsum p) by lra.
  specialize (IH u (acc + x) (S i) E H'). lia.
Qed.

Lemma qsum_firstn_S : forall l t, (t < length l)%nat ->
  qsum (firstn (S t) l) == qsum (firstn t l) + nth t l 0.
Proof.
  induction l as [|x l IH]; intros t H; cbn [length] in H; [lia|].
  destruct t as [|t].
  - cbn [firstn qsum nth]. lra.
  - assert (H' : (t < length l)%nat) by lia. specialize (IH t H').
    change (firstn (S (S t)) (x :: l)) with (x :: firstn (S t) l).
    change (firstn (S t) (x :: l)) with (x :: firstn t l).
    cbn [qsum nth]. rewrite IH. ring.
Qed.

Lemma reg_probs_length : forall Qw outs, length (reg_probs Qw outs) = length outs.
Proof. intros. unfold reg_probs. rewrite map_length, seq_length. reflexivity. Qed.

Lemma reg_values_length : forall Qw outs, length (reg_values Qw outs) = length outs.
Proof. intros. unfold reg_values. rewrite map_length, seq_length. reflexivity. Qed.

Lemma reg_probs_nth : forall Qw outs t, (t < length outs)%nat ->
  nth t (reg_probs Qw outs) 0 = weight_of Qw t.
Proof.
  intros Qw outs t H. unfold reg_probs.
  rewrite (nth_indep _ 0 (weight_of Qw 0%nat)) by (rewrite map_length, seq_length; exact H).
  rewrite map_nth. rewrite seq_nth by exact H. reflexivity.
Qed.

Lemma reg_values_nth : forall Qw outs t, (t < length outs)%nat ->
  nth t (reg_values Qw outs) 0 = col Qw outs t.
Proof.
  intros Qw outs t H. unfold reg_values.
  rewrite (nth_indep _ 0 (col Qw outs 0%nat)) by (rewrite map_length, seq_length; exact H).
  rewrite map_nth. rewrite seq_nth by exact H. reflexivity.
Qed.

Lemma reg_probs_nonneg : forall Qw outs, Forall (fun tw => 0 <= snd tw) Qw ->
  Forall (fun x => 0 <= x) (reg_probs Qw outs).
Proof.
  intros Qw outs H. unfold reg_probs. apply Forall_forall. intros x Hx.
  apply in_map_iff in Hx. destruct Hx as (t & <- & _). apply weight_of_nonneg. exact H.
Qed.

(* the set of uniform numbers that select predictor t is the interval
   [prefix_t, prefix_t + weights_[t])  -- its length is t's OWN weight *)
Theorem draw_reg_aligned : forall Qw outs u t,
  Forall (fun tw => 0 <= snd tw) Qw -> (t < length outs)%nat -> 0 <= u ->
  (draw_reg_index Qw outs u = t <->
   reg_prefix Qw outs t <= u /\ u < reg_prefix Qw outs t + weight_of Qw t).
Proof.
  intros Qw outs u t Hw Ht Hu. unfold draw_reg_index, reg_prefix.
  pose proof (choice_index_spec (reg_probs Qw outs) u 0 0%nat t (reg_probs_nonneg Qw outs Hw)) as S.
  rewrite reg_probs_length in S. specialize (S Ht Hu). cbn [Nat.add] in S. rewrite S.
  rewrite qsum_firstn_S by (rewrite reg_probs_length; exact Ht).
  rewrite reg_probs_nth by exact Ht.
  split; intros [A B]; split; lra.
Qed.

(* ... whatever the order in which weights_ stores its support *)
Lemma weight_of_perm : forall Qw Qw' t, NoDup (map fst Qw) -> Permutation Qw Qw' ->
  weight_of Qw' t = weight_of Qw t.
Proof.
  intros Qw Qw' t Hnd Hp.
  assert (Hnd' : NoDup (map fst Qw')).
  { eapply Permutation_NoDup; [apply Permutation_map; exact Hp | exact Hnd]. }
  destruct (in_dec Nat.eq_dec t (map fst Qw)) as [Hin | Hni].
  - apply in_map_iff in Hin. destruct Hin as ((t0, w) & E & Hin). cbn [fst] in E. subst t0.
    rewrite (weight_of_in Qw t w Hnd Hin).
    apply weight_of_in; auto. eapply Permutation_in; eauto.
  - rewrite (weight_of_notin Qw t Hni). apply weight_of_notin.
    intro H. apply Hni. eapply Permutation_in; [apply Permutation_sym, Permutation_map; exact Hp | exact H].
Qed.

Theorem draw_reg_order_irrelevant : forall Qw Qw' outs u,
  NoDup (map fst Qw) -> Permutation Qw Qw' ->
  reg_pairs Qw' outs = reg_pairs Qw outs /\ draw_reg Qw' outs u = draw_reg Qw outs u.
Proof.
  intros Qw Qw' outs u Hnd Hp.
  assert (P : reg_probs Qw' outs = reg_probs Qw outs).
  { unfold reg_probs. apply map_ext. intro t. apply weight_of_perm; assumption. }
  assert (V : reg_values Qw' outs = reg_values Qw outs).
  { unfold reg_values. apply map_ext. intro t. unfold col. rewrite (weight_of_perm Qw Qw' t Hnd Hp). reflexivity. }
  unfold reg_pairs, draw_reg. rewrite P, V. split; reflexivity.
Qed.

Lemma qsum_perm : forall l l', Permutation l l' -> qsum l == qsum l'.
Proof.
  intros l l' H. induction H; cbn [qsum]; try lra.
Qed.

(* the aligned probability vector carries the same total mass as weights_ *)
Lemma reg_probs_total : forall Qw outs, ids_cover Qw (length outs) ->
  qsum (reg_probs Qw outs) == qsum (map snd Qw).
Proof.
  intros Qw outs [Hnd Hcov].
  set (Qw' := map (fun t => (t, weight_of Qw t)) (seq 0 (length outs))).
  assert (Hfst : map fst Qw' = seq 0 (length outs)).
  { unfold Qw'. rewrite map_map. cbn [fst]. apply map_id. }
  assert (Hp : Permutation Qw Qw').
  { apply NoDup_Permutation.
    - eapply NoDup_map_inv. exact Hnd.
    - eapply NoDup_map_inv. rewrite Hfst. apply seq_NoDup.
    - intros (t, w). split; intro Hin.
      + assert (Ht : In t (map fst Qw)) by (apply in_map_iff; exists (t, w); auto).
        apply Hcov in Ht. unfold Qw'. apply in_map_iff. exists t. split.
        * rewrite (weight_of_in Qw t w Hnd Hin). reflexivity.
        * apply in_seq. lia.
      + unfold Qw' in Hin. apply in_map_iff in Hin. destruct Hin as (t0 & E & Hs).
        inversion E; subst. apply in_seq in Hs.
        assert (Ht : In t (map fst Qw)) by (apply Hcov; lia).
        apply in_map_iff in Ht. destruct Ht as ((t1, w1) & E1 & Hin1). cbn [fst] in E1. subst t1.
        rewrite (weight_of_in Qw t w1 Hnd Hin1). exact Hin1. }
  assert (E : reg_probs Qw outs = map snd Qw').
  { unfold reg_probs, Qw'. rewrite map_map. reflexivity. }
  rewrite E. apply qsum_perm. apply Permutation_map. apply Permutation_sym. exact Hp.
Qed.

(* predict returns the value of ONE stored predictor of positive weight: the one whose own
   interval of the cumulative distribution contains u *)
Theorem draw_reg_value : forall Qw outs u,
  Forall (fun tw => 0 <= snd tw) Qw -> ids_cover Qw (length outs) -> qsum (map snd Qw) == 1 ->
  0 <= u -> u < 1 ->
  exists t, (t < length outs)%nat /\ 0 < weight_of Qw t /\
            reg_prefix Qw outs t <= u /\ u < reg_prefix Qw outs t + weight_of Qw t /\
            draw_reg_index Qw outs u = t /\ draw_reg Qw outs u = nth t outs 0.
Proof.
  intros Qw outs u Hw Hc Hs Hu0 Hu1.
  pose proof (reg_probs_total Qw outs Hc) as Ht.
  set (t := draw_reg_index Qw outs u).
  assert (Hlt : (t < length outs)%nat).
  { unfold t, draw_reg_index.
    pose proof (choice_index_lt (reg_probs Qw outs) u 0 0%nat) as L.
    rewrite reg_probs_length in L. cbn [Nat.add] in L. apply L; lra. }
  destruct (proj1 (draw_reg_aligned Qw outs u t Hw Hlt Hu0) eq_refl) as [A B].
  exists t. repeat split; auto; try lra.
  unfold draw_reg, choice. fold (draw_reg_index Qw outs u). fold t.
  rewrite reg_values_nth by exact Hlt. unfold col.
  destruct (Qeqb (weight_of Qw t) 0) eqn:E; [|reflexivity].
  apply Qeqb_true in E. lra.
Qed.

(* ---------- packaged statements used by props/C10.v ---------- *)

Theorem draw_spec_all : forall p u,
  (draw p u = 1%Z <-> u <= p) /\ (draw p u = 1%Z <-> u <= p) /\
  (draw p u = 0%Z \/ draw p u = 1%Z) /\ (draw p u = 0%Z <-> p < u).
Proof.
  intros p u. split; [apply draw_spec | split; [apply draw_spec | split; [apply draw_binary | apply draw_zero_spec]]].
Qed.

Theorem draw_deterministic : forall p u,
  (p == 1 -> u <= 1 -> draw p u = 1%Z) /\
  (p == 0 -> 0 < u -> draw p u = 0%Z) /\
  (p == 0 -> 0 <= u -> (draw p u = 1%Z <-> u == 0)).
Proof.
  intros p u. split; [apply draw_at_one | split; [apply draw_at_zero_pos | apply draw_at_zero]].
Qed.

Lemma example_mispairing :
  let Qw := [(2%nat, 1#2); (0%nat, 1#2); (1%nat, 0)] in
  let outs := [1#4; 1#2; 3#4] in
  Forall (fun tw => 0 <= snd tw) Qw /\ ids_cover Qw (length outs) /\ qsum (map snd Qw) == 1 /\
  draw_reg Qw outs (3#4) = (3#4) /\ draw_reg_positional Qw outs (3#4) = 0 /\
  draw_reg [(0%nat, 1#2); (1%nat, 0); (2%nat, 1#2)] outs (3#4) = (3#4).
Proof.
  cbv zeta. split; [|split; [|split; [|split; [|split]]]]; try (vm_compute; reflexivity).
  - repeat constructor; cbn; discriminate.
  - split.
    + repeat constructor; cbn; intuition discriminate.
    + intro t. cbn. split.
      * intros [H | [H | [H | []]]]; subst; repeat constructor.
      * intro H. destruct t as [|[|[|t]]]; auto. exfalso. lia.
Qed.

Lemma example_rule :
  let r := mk_rule (1#3) (mk_throp OpGt (Fin (1#2))) (2#3) (mk_throp OpGt PInf) (1#4) (1#2) in
  rule_valid r /\ pmf_thr r (1#2) == 1#8 /\ pmf_thr r 1 == 3#8 /\ pmf_thr r (1#2) <= pmf_thr r 1.
Proof.
  cbv zeta. split; [|split; [|split]]; try (vm_compute; reflexivity).
  - unfold rule_valid. cbn [p0 p1 p_ignore pred_const]. repeat split; lra.
  - vm_compute. intro H; discriminate H.
Qed.
