(* Model of ThresholdOptimizer._threshold_optimization_for_simple_constraints,
   _threshold_optimization_for_equalized_odds and InterpolatedThresholder._pmf_predict (C04, C05).
   Proof-free. *)
From Coq Require Import QArith ZArith List Bool.
From FL Require Import Num Flat Tradeoff Hull Interp.
Import ListNotations.
Open Scope Q_scope.

(* ---------- the fitted randomised rule of one group ---------- *)
Record rule : Type := mkrule {
  r_p0 : Q; r_op0 : op; r_p1 : Q; r_op1 : op;
  r_ignore : option (Q * Q)      (* (p_ignore, prediction_constant), equalized odds only *)
}.

(* InterpolatedThresholder._pmf_predict on one row of that group *)
Definition pmf (r : rule) (s : Z) : Q :=
  let base := r_p0 r * op_rule (r_op0 r) s + r_p1 r * op_rule (r_op1 r) s in
  match r_ignore r with
  | None => base
  | Some (pig, c) => pig * c + (1 - pig) * base
  end.

(* ---------- common pieces ---------- *)
Definition group_hull (flip : bool) (mx my : metric) (g : group) : list pt :=
  hull (tradeoff_points flip mx my g).
Definition group_curve (flip : bool) (mx my : metric) (N : positive) (g : group) : list ipt :=
  interpolate (group_hull flip mx my g) (grid N).

Definition total_rows (gs : list group) : nat := length (concat gs).
(* len(group) / n *)
Definition gweight (gs : list group) (g : group) : Q :=
  Z.of_nat (length g) # Pos.of_nat (total_rows gs).

Fixpoint zip_add (a b : list Q) : list Q :=
  match a, b with
  | x :: a', y :: b' => (x + y) :: zip_add a' b'
  | _, _ => []
  end.

(* first index of the maximum (Series.idxmax) *)
Fixpoint argmax_from (l : list Q) (i : nat) (best : Q) (bi : nat) : nat :=
  match l with
  | [] => bi
  | x :: r => if Qltb best x then argmax_from r (S i) x i else argmax_from r (S i) best bi
  end.
Definition argmax (l : list Q) : nat :=
  match l with [] => 0%nat | x :: r => argmax_from r 1%nat x 0%nat end.

Definition dipt : ipt := mkipt 0 0 0 dop 0 dop.

(* ---------- simple constraints ---------- *)
(* overall_tradeoff_curve = 0 * x_grid; for each group: overall += p_group * curve["y"] *)
Definition overall_curve (gs : list group) (curves : list (list ipt)) (len : nat) : list Q :=
  fold_left (fun acc gc => zip_add acc (map (fun i => gweight gs (fst gc) * iy i) (snd gc)))
            (combine gs curves) (repeat 0 len).

Record fit_simple_t : Type := mkfs {
  fs_best : nat;                 (* i_best *)
  fs_overall : list Q;           (* overall_tradeoff_curve *)
  fs_sel : list ipt;             (* per group: the row i_best of its interpolated curve *)
}.

Definition fit_simple (flip : bool) (mx my : metric) (N : positive) (gs : list group) : fit_simple_t :=
  let curves := map (group_curve flip mx my N) gs in
  let ov := overall_curve gs curves (S (Pos.to_nat N)) in
  let ib := argmax ov in
  mkfs ib ov (map (fun c => nth ib c dipt) curves).

Definition rule_of_ipt (i : ipt) : rule := mkrule (ip0 i) (iop0 i) (ip1 i) (iop1 i) None.
Definition simple_rules (f : fit_simple_t) : list rule := map rule_of_ipt (fs_sel f).

(* ---------- equalized odds ---------- *)
Fixpoint zip_min (a b : list Q) : list Q :=
  match a, b with
  | x :: a', y :: b' => Qminq x y :: zip_min a' b'
  | _, _ => []
  end.

(* np.amin(y_values, axis=1) *)
Definition y_min_curve (curves : list (list ipt)) : list Q :=
  match curves with
  | [] => []
  | c :: rest => fold_left (fun acc c' => zip_min acc (map iy c')) rest (map iy c)
  end.

Definition eo_counts (npos nneg : Z) (x ymin : Q) : cm :=
  mkcm (inject_Z npos * ymin) (inject_Z nneg * x) (inject_Z nneg * (1 - x)) (inject_Z npos * (1 - ymin)).

Record fit_eo_t : Type := mkfe {
  fe_best : nat; fe_xbest : Q; fe_ybest : Q;
  fe_obj : list Q;               (* objective_values (before np.around) *)
  fe_sel : list ipt;
  fe_rules : list rule;
}.

Definition p_ignore_of (i : ipt) (ybest : Q) : Q :=
  if Qeqb (iy i) (ix i) then 0 else (iy i - ybest) / (iy i - ix i).

Definition fit_eo (flip : bool) (obj : metric) (N : positive) (gs : list group) : fit_eo_t :=
  let all := concat gs in
  let npos := count_label true all in
  let nneg := (Z.of_nat (length all) - npos)%Z in
  let curves := map (group_curve flip FPR TPR N) gs in
  let ymin := y_min_curve curves in
  let objs := map (fun xy => metric_eval obj (eo_counts npos nneg (fst xy) (snd xy)))
                  (combine (grid N) ymin) in
  let ib := argmax objs in
  let xb := nth ib (grid N) 0 in
  let yb := nth ib ymin 0 in
  let sel := map (fun c => nth ib c dipt) curves in
  mkfe ib xb yb objs sel
       (map (fun i => mkrule (ip0 i) (iop0 i) (ip1 i) (iop1 i) (Some (p_ignore_of i yb, xb))) sel).

(* ---------- observables for the correspondence run ---------- *)
Definition exp_metric (m : metric) (r : rule) (g : group) : Q := metric_eval m (exp_cm (pmf r) g).

(* number of grid points attaining the maximum, and distance to the best strictly smaller value *)
Definition count_max (l : list Q) : nat :=
  let m := nth (argmax l) l 0 in length (filter (fun v => Qeqb v m) l).
Definition runner_up_gap (l : list Q) : Q :=
  let m := nth (argmax l) l 0 in
  match qmax1 (filter (fun v => negb (Qeqb v m)) l) with
  | Some v => m - v
  | None => 1
  end.

Definition enc_thr (t : thr) : list Z :=
  match t with TInf => [1%Z] | TNInf => [2%Z] | TMid w => [0%Z; w] end.
Definition enc_op (o : op) : list Z :=
  (match op_kind o with OpGt => 1%Z | OpLt => 0%Z end) :: enc_thr (op_thr o).
Definition enc_rule (r : rule) : list Z :=
  enc_q (r_p0 r) ++ enc_op (r_op0 r) ++ enc_q (r_p1 r) ++ enc_op (r_op1 r)
  ++ enc_opt (fun pc : Q * Q => enc_q (fst pc) ++ enc_q (snd pc)) (r_ignore r).

Definition enc_group_obs (flip : bool) (mx my : metric) (ms : list metric) (g : group) (r : rule) (i : ipt) : list Z :=
  let pts := tradeoff_points flip mx my g in
  enc_rule r ++ enc_q (iy i)
  ++ enc_list (fun m => enc_q (exp_metric m r g)) ms
  ++ enc_bool (is_upper_hull (hull pts) pts)
  ++ enc_bool (hull_ties pts) ++ enc_bool (has_dup_xy pts)
  ++ enc_list (fun s => enc_q (pmf r s)) (map fst g).

Fixpoint map3 {A B C D} (f : A -> B -> C -> D) (a : list A) (b : list B) (c : list C) : list D :=
  match a, b, c with
  | x :: a', y :: b', z :: c' => f x y z :: map3 f a' b' c'
  | _, _, _ => []
  end.

Definition run_simple (flip : bool) (mx my : metric) (N : positive) (gs : list group) : list Z :=
  let f := fit_simple flip mx my N gs in
  enc_nat (fs_best f) ++ enc_q (grid_pt N (fs_best f)) ++ enc_q (nth (fs_best f) (fs_overall f) 0)
  ++ enc_nat (count_max (fs_overall f)) ++ enc_q (runner_up_gap (fs_overall f))
  ++ enc_list (fun l => l) (map3 (enc_group_obs flip mx my [mx; my]) gs (simple_rules f) (fs_sel f)).

Definition run_eo (flip : bool) (obj : metric) (N : positive) (gs : list group) : list Z :=
  let f := fit_eo flip obj N gs in
  enc_nat (fe_best f) ++ enc_q (fe_xbest f) ++ enc_q (nth (fe_best f) (fe_obj f) 0)
  ++ enc_nat (count_max (fe_obj f)) ++ enc_q (runner_up_gap (fe_obj f))
  ++ enc_list (fun l => l) (map3 (enc_group_obs flip FPR TPR [FPR; TPR]) gs (fe_rules f) (fe_sel f))
  ++ enc_q (fe_ybest f).
