(* Main theorems of C04 / C05 about ThreshOpt.v. *)
From Coq Require Import QArith ZArith List Bool Lia Lra Psatz.
From FL Require Import Num Tradeoff Tradeoff_proofs Hull Hull_proofs Interp Interp_proofs ThreshOpt.
Import ListNotations.
Open Scope Q_scope.

Definition constraint_metric (m : metric) : Prop :=
  match m with SelRate | FPR | FNR | TPR | TNR => True | _ => False end.

(* ---------- expected confusion matrices ---------- *)
Lemma exp_cm_totals f g :
  positives (exp_cm f g) == inject_Z (count_label true g) /\
  negatives (exp_cm f g) == inject_Z (count_label false g).
Proof.
  unfold positives, negatives, exp_cm. cbn [tp fp tn fn].
  induction g as [|[s l] g [IH1 IH2]]; [split; reflexivity|].
  rewrite !count_label_cons, !inject_Z_plus. cbn [map qsum fst snd].
  destruct l; cbn [Bool.eqb]; change (inject_Z 1) with 1; change (inject_Z 0) with 0; split; lra.
Qed.

Lemma exp_cm_mix p0 p1 f h g : p0 + p1 == 1 ->
  cm_eq (exp_cm (fun s => p0 * f s + p1 * h s) g) (cm_mix p0 p1 (exp_cm f g) (exp_cm h g)).
Proof.
  intro Hp. unfold cm_eq, cm_mix, exp_cm. cbn [tp fp tn fn].
  induction g as [|[s l] g (I1 & I2 & I3 & I4)]; [cbn [map qsum]; repeat split; ring|].
  cbn [map qsum fst snd]. rewrite I1, I2, I3, I4.
  destruct l; repeat split; nra.
Qed.

Lemma both_labels_pos g : both_labels g = true ->
  (0 < count_label true g)%Z /\ (0 < count_label false g)%Z.
Proof. unfold both_labels. rewrite andb_true_iff, !Z.ltb_lt. tauto. Qed.

Lemma inject_Z_pos z : (0 < z)%Z -> 0 < inject_Z z.
Proof. intro H. unfold inject_Z, Qlt. cbn. lia. Qed.

(* metric_linear: the metric of a p0/p1 mixture of two rules on a fixed group (both labels
   present) is the same convex combination of the two metrics *)
Theorem metric_linear m p0 p1 f h g : both_labels g = true -> p0 + p1 == 1 ->
  metric_eval m (exp_cm (fun s => p0 * f s + p1 * h s) g) ==
  p0 * metric_eval m (exp_cm f g) + p1 * metric_eval m (exp_cm h g).
Proof.
  intros Hb Hp. destruct (both_labels_pos g Hb) as [P N].
  apply inject_Z_pos in P. apply inject_Z_pos in N.
  destruct (exp_cm_totals f g) as [Pf Nf]. destruct (exp_cm_totals h g) as [Ph Nh].
  rewrite (metric_eval_proper m _ _ (exp_cm_mix p0 p1 f h g Hp)).
  apply metric_eval_mix; try exact Hp; try lra.
  unfold n_, positives, negatives in *. lra.
Qed.

(* ---------- the tradeoff points of a group ---------- *)
Lemma tradeoff_point_sound flip mx my g p : In p (tradeoff_points flip mx my g) ->
  px p == metric_eval mx (exp_cm (op_rule (pop p)) g) /\
  py p == metric_eval my (exp_cm (op_rule (pop p)) g).
Proof.
  unfold tradeoff_points. rewrite sort_xy_in. unfold tradeoff_raw. rewrite in_flat_map.
  intros ([[t c0] c1] & Hin & Hp).
  destruct (op_counts_sound g t c0 c1 Hin) as (Ha & Hf & _).
  unfold points_at in Hp. destruct Hp as [<-|Hp].
  - cbn [px py pop]. split; symmetry; apply metric_eval_proper; exact Ha.
  - destruct flip; [|destruct Hp]. destruct Hp as [<-|[]].
    cbn [px py pop]. split; symmetry; apply metric_eval_proper; exact Hf.
Qed.

Lemma metric_range m c : constraint_metric m ->
  0 <= tp c -> 0 <= fp c -> 0 <= tn c -> 0 <= fn c -> 0 < positives c -> 0 < negatives c ->
  0 <= metric_eval m c /\ metric_eval m c <= 1.
Proof.
  intros Hm H1 H2 H3 H4 HP HN.
  assert (Hn : 0 < n_ c) by (unfold n_, positives, negatives in *; lra).
  destruct m; try contradiction; unfold metric_eval; split;
    (apply Qle_shift_div_l || apply Qle_shift_div_r); try assumption;
    unfold predicted_positives, n_, positives, negatives in *; lra.
Qed.

Lemma exp_cm_op_nonneg o g :
  0 <= tp (exp_cm (op_rule o) g) /\ 0 <= fp (exp_cm (op_rule o) g) /\
  0 <= tn (exp_cm (op_rule o) g) /\ 0 <= fn (exp_cm (op_rule o) g).
Proof.
  destruct (exp_cm_op_rule o g) as (H1 & H2 & H3 & H4). cbn [tp fp tn fn] in *.
  rewrite H1, H2, H3, H4.
  repeat split; (rewrite <- (Zle_Qle 0); apply cnt_nonneg).
Qed.

Lemma tradeoff_point_range flip mx my g p : constraint_metric mx -> both_labels g = true ->
  In p (tradeoff_points flip mx my g) -> 0 <= px p /\ px p <= 1.
Proof.
  intros Hm Hb Hin. destruct (tradeoff_point_sound _ _ _ _ _ Hin) as [Hx _]. rewrite Hx.
  destruct (both_labels_pos g Hb) as [P N]. apply inject_Z_pos in P. apply inject_Z_pos in N.
  destruct (exp_cm_totals (op_rule (pop p)) g) as [Pf Nf].
  destruct (exp_cm_op_nonneg (pop p) g) as (A & B & C & D).
  apply metric_range; try assumption; lra.
Qed.

Lemma walk_last : forall rows c0 c1, rows <> [] ->
  In (TNInf, (c0 + count_label false rows)%Z, (c1 + count_label true rows)%Z) (walk rows c0 c1).
Proof.
  induction rows as [|[s l] rest IH]; intros c0 c1 Hn; [contradiction|].
  cbn [walk]. rewrite !count_label_cons. destruct rest as [|[s' l'] rest'].
  - change (count_label false []) with 0%Z. change (count_label true []) with 0%Z.
    left. destruct l; cbn [Bool.eqb]; f_equal; [f_equal|]; lia.
  - assert (K : In (TNInf, (c0 + ((if Bool.eqb l false then 1 else 0) + count_label false ((s', l') :: rest')))%Z,
                    (c1 + ((if Bool.eqb l true then 1 else 0) + count_label true ((s', l') :: rest')))%Z)
                   (walk ((s', l') :: rest') (if l then c0 else (c0 + 1)%Z) (if l then (c1 + 1)%Z else c1))).
    { specialize (IH (if l then c0 else (c0 + 1)%Z) (if l then (c1 + 1)%Z else c1) ltac:(discriminate)).
      assert (T : forall x y x' y' (w : list (thr * Z * Z)), x = x' -> y = y' -> In (TNInf, x, y) w -> In (TNInf, x', y') w)
        by (intros; subst; assumption).
      unfold row in *. set (X := count_label false ((s', l') :: rest')) in *. set (Y := count_label true ((s', l') :: rest')) in *.
      clearbody X Y.
      destruct l; cbn [Bool.eqb] in IH |- *; refine (T _ _ _ _ _ _ _ IH); lia. }
    destruct (s' =? s)%Z; [exact K | right; exact K].
Qed.

Lemma thresholds_counts_ends g : both_labels g = true ->
  In (TInf, 0%Z, 0%Z) (thresholds_counts g) /\
  In (TNInf, count_label false g, count_label true g) (thresholds_counts g).
Proof.
  intro Hb. split; [left; reflexivity|]. right.
  assert (Hn : sort_desc g <> []).
  { intro E. destruct (both_labels_pos g Hb) as [P _].
    rewrite count_label_cnt, <- cnt_sort, E in P. cbn in P. lia. }
  pose proof (walk_last (sort_desc g) 0%Z 0%Z Hn) as W.
  rewrite !count_label_cnt, !cnt_sort in W. exact W.
Qed.

Lemma tradeoff_has_01 flip mx my g : constraint_metric mx -> both_labels g = true ->
  (exists p, In p (tradeoff_points flip mx my g) /\ px p == 0) /\
  (exists p, In p (tradeoff_points flip mx my g) /\ px p == 1).
Proof.
  intros Hm Hb. destruct (thresholds_counts_ends g Hb) as [Hi Hl].
  destruct (both_labels_pos g Hb) as [P N].
  set (nneg := count_label false g) in *. set (npos := count_label true g) in *.
  assert (Pq : 0 < inject_Z npos) by (apply inject_Z_pos; exact P).
  assert (Nq : 0 < inject_Z nneg) by (apply inject_Z_pos; exact N).
  pose (pa := mkpt (metric_eval mx (actual_cm nneg npos 0 0)) (metric_eval my (actual_cm nneg npos 0 0)) (mkop OpGt TInf)).
  pose (pb := mkpt (metric_eval mx (actual_cm nneg npos nneg npos)) (metric_eval my (actual_cm nneg npos nneg npos)) (mkop OpGt TNInf)).
  assert (Ia : In pa (tradeoff_points flip mx my g)).
  { unfold tradeoff_points. rewrite sort_xy_in. unfold tradeoff_raw. rewrite in_flat_map.
    exists (TInf, 0%Z, 0%Z). split; [exact Hi | left; reflexivity]. }
  assert (Ib : In pb (tradeoff_points flip mx my g)).
  { unfold tradeoff_points. rewrite sort_xy_in. unfold tradeoff_raw. rewrite in_flat_map.
    exists (TNInf, nneg, npos). split; [exact Hl | left; reflexivity]. }
  assert (Z0 : forall z, inject_Z (z - z) == 0) by (intro z; rewrite Z.sub_diag; reflexivity).
  assert (Z1 : forall z, inject_Z (z - 0) == inject_Z z) by (intro z; rewrite Z.sub_0_r; reflexivity).
  destruct mx; try contradiction.
  - split; [exists pa | exists pb]; (split; [assumption|]); cbn [px pa pb];
      unfold metric_eval, predicted_positives, n_, actual_cm; cbn [tp fp tn fn];
      rewrite ?Z0, ?Z1; change (inject_Z 0) with 0; field; lra.
  - split; [exists pa | exists pb]; (split; [assumption|]); cbn [px pa pb];
      unfold metric_eval, negatives, actual_cm; cbn [tp fp tn fn];
      rewrite ?Z0, ?Z1; change (inject_Z 0) with 0; field; lra.
  - split; [exists pb | exists pa]; (split; [assumption|]); cbn [px pa pb];
      unfold metric_eval, positives, actual_cm; cbn [tp fp tn fn];
      rewrite ?Z0, ?Z1; change (inject_Z 0) with 0; field; lra.
  - split; [exists pa | exists pb]; (split; [assumption|]); cbn [px pa pb];
      unfold metric_eval, positives, actual_cm; cbn [tp fp tn fn];
      rewrite ?Z0, ?Z1; change (inject_Z 0) with 0; field; lra.
  - split; [exists pb | exists pa]; (split; [assumption|]); cbn [px pa pb];
      unfold metric_eval, negatives, actual_cm; cbn [tp fp tn fn];
      rewrite ?Z0, ?Z1; change (inject_Z 0) with 0; field; lra.
Qed.

(* hull_sublist_ends for a group: the x column of the group's hull starts at 0, ends at 1 *)
Theorem group_hull_chain_ok flip mx my g : constraint_metric mx -> both_labels g = true ->
  chain_ok (map px (group_hull flip mx my g)).
Proof.
  intros Hm Hb. unfold group_hull. destruct (tradeoff_has_01 flip mx my g Hm Hb) as [H0 H1].
  apply hull_chain_ok; [apply sort_xy_sorted | | exact H0 | exact H1].
  intros p Hp. apply (tradeoff_point_range flip mx my g p Hm Hb Hp).
Qed.

(* ---------- one group, one grid index ---------- *)
Lemma group_row flip mx my N g k : constraint_metric mx -> both_labels g = true -> (k <= Pos.to_nat N)%nat ->
  let row := nth k (group_curve flip mx my N g) dipt in
  let r := rule_of_ipt row in
  ix row = grid_pt N k /\ ip0 row + ip1 row == 1 /\ 0 <= ip0 row <= 1 /\
  exp_metric mx r g == grid_pt N k /\ exp_metric my r g == iy row.
Proof.
  intros Hm Hb Hk. cbv zeta. unfold group_curve.
  pose proof (group_hull_chain_ok flip mx my g Hm Hb) as Hc.
  destruct (interpolate_row_ok (group_hull flip mx my g) N k dipt Hc Hk) as [(i & Hi & O0 & O1 & P0 & P1 & Ps & Px & Py & Pab) Hx].
  set (row := nth k (interpolate (group_hull flip mx my g) (grid N)) dipt) in *.
  set (h := group_hull flip mx my g) in *.
  assert (Ia : In (nth i h dpt) (tradeoff_points flip mx my g)) by (apply hull_incl; change (hull (tradeoff_points flip mx my g)) with h; apply nth_In; lia).
  assert (Ib : In (nth (S i) h dpt) (tradeoff_points flip mx my g)) by (apply hull_incl; change (hull (tradeoff_points flip mx my g)) with h; apply nth_In; lia).
  destruct (tradeoff_point_sound _ _ _ _ _ Ia) as [Xa Ya].
  destruct (tradeoff_point_sound _ _ _ _ _ Ib) as [Xb Yb].
  split; [exact Hx|]. split; [exact Ps|]. split; [split; assumption|].
  unfold exp_metric.
  change (pmf (rule_of_ipt row)) with (fun s => ip0 row * op_rule (iop0 row) s + ip1 row * op_rule (iop1 row) s).
  rewrite !(metric_linear _ _ _ _ _ g Hb Ps). rewrite O0, O1, <- Xa, <- Xb, <- Ya, <- Yb.
  split; [rewrite Px, Hx; reflexivity | rewrite Py; reflexivity].
Qed.

(* ---------- arg-max ---------- *)
Lemma argmax_from_bound : forall l i best bi, (bi < i)%nat -> (argmax_from l i best bi < i + length l)%nat.
Proof.
  induction l as [|x r IH]; intros i best bi H; cbn [argmax_from length]; [lia|].
  destruct (Qltb best x).
  - specialize (IH (S i) x i ltac:(lia)). lia.
  - specialize (IH (S i) best bi ltac:(lia)). lia.
Qed.

Lemma argmax_bound l : (argmax l <= length l - 1)%nat.
Proof.
  destruct l as [|x r]; [cbn; lia|]. unfold argmax.
  pose proof (argmax_from_bound r 1 x 0 ltac:(lia)). cbn [length]. lia.
Qed.

Lemma zip_add_length a b : (length (zip_add a b) <= length a)%nat.
Proof. revert b. induction a as [|x a IH]; intros [|y b]; cbn; try lia. specialize (IH b). lia. Qed.

Lemma overall_curve_length gs curves len : (length (overall_curve gs curves len) <= len)%nat.
Proof.
  unfold overall_curve.
  set (F := fun (acc : list Q) (gc : group * list ipt) => zip_add acc (map (fun i => gweight gs (fst gc) * iy i) (snd gc))).
  assert (G : forall (l : list (group * list ipt)) acc, (length acc <= len)%nat -> (length (fold_left F l acc) <= len)%nat).
  { induction l as [|gc l IH]; intros acc Ha; [exact Ha|]. cbn [fold_left]. apply IH.
    unfold F. pose proof (zip_add_length acc (map (fun i => gweight gs (fst gc) * iy i) (snd gc))). lia. }
  apply G. rewrite repeat_length. lia.
Qed.

Lemma Forall2_map_r {A B} (P : A -> B -> Prop) (F : A -> B) l :
  (forall a, In a l -> P a (F a)) -> Forall2 P l (map F l).
Proof.
  induction l as [|a l IH]; intro H; [constructor|]. cbn [map]. constructor.
  - apply H. left; reflexivity.
  - apply IH. intros b Hb. apply H. right; exact Hb.
Qed.

(* ---------- C04, simple constraints ---------- *)
(* for every list of groups each containing both labels, every constraint metric, objective, flip
   and grid size, the expected constrained metric of the fitted rule on the training rows of each
   group equals the chosen grid value -- hence is the same for all groups *)
Theorem simple_parity flip mx my N gs : constraint_metric mx ->
  (forall g, In g gs -> both_labels g = true) ->
  let f := fit_simple flip mx my N gs in
  (fs_best f <= Pos.to_nat N)%nat /\
  Forall2 (fun g r => exp_metric mx r g == grid_pt N (fs_best f)) gs (simple_rules f).
Proof.
  intros Hm Hb. cbv zeta.
  assert (Hk : (fs_best (fit_simple flip mx my N gs) <= Pos.to_nat N)%nat).
  { unfold fit_simple. cbn [fs_best].
    pose proof (argmax_bound (overall_curve gs (map (group_curve flip mx my N) gs) (S (Pos.to_nat N)))) as A.
    pose proof (overall_curve_length gs (map (group_curve flip mx my N) gs) (S (Pos.to_nat N))) as B. lia. }
  split; [exact Hk|].
  unfold simple_rules. unfold fit_simple in *. cbn [fs_sel fs_best] in *.
  rewrite !map_map. apply Forall2_map_r. intros g Hg.
  apply (group_row flip mx my N g _ Hm (Hb g Hg) Hk).
Qed.

(* ---------- arg-max is a maximum ---------- *)
Lemma argmax_from_spec : forall l pre best bi, (bi < length pre)%nat -> nth bi pre 0 = best ->
  (forall j, (j < length pre)%nat -> nth j pre 0 <= best) ->
  forall j, (j < length (pre ++ l))%nat ->
  nth j (pre ++ l) 0 <= nth (argmax_from l (length pre) best bi) (pre ++ l) 0.
Proof.
  induction l as [|x l IH]; intros pre best bi Hb Hn Hle j Hj.
  - cbn [argmax_from]. rewrite app_nil_r in *. rewrite Hn. apply Hle. exact Hj.
  - cbn [argmax_from].
    assert (E : pre ++ x :: l = (pre ++ [x]) ++ l) by (rewrite <- app_assoc; reflexivity).
    assert (L : length (pre ++ [x]) = S (length pre)) by (rewrite app_length; cbn; lia).
    rewrite E in *. destruct (Qltb best x) eqn:C.
    + apply Qltb_lt in C. rewrite <- L. apply IH; try assumption.
      * rewrite L. lia.
      * rewrite app_nth2 by lia. rewrite Nat.sub_diag. reflexivity.
      * intros j' Hj'. rewrite L in Hj'. destruct (Nat.eq_dec j' (length pre)) as [->|Ne].
        -- rewrite app_nth2 by lia. rewrite Nat.sub_diag. cbn. lra.
        -- rewrite app_nth1 by lia. specialize (Hle j' ltac:(lia)). lra.
    + apply Qltb_ge in C. rewrite <- L. apply IH; try assumption.
      * rewrite L. lia.
      * rewrite app_nth1 by lia. exact Hn.
      * intros j' Hj'. rewrite L in Hj'. destruct (Nat.eq_dec j' (length pre)) as [->|Ne].
        -- rewrite app_nth2 by lia. rewrite Nat.sub_diag. cbn. exact C.
        -- rewrite app_nth1 by lia. apply Hle. lia.
Qed.

Lemma argmax_spec l j : (j < length l)%nat -> nth j l 0 <= nth (argmax l) l 0.
Proof.
  destruct l as [|x r]; [cbn; lia|]. intro Hj. unfold argmax.
  apply (argmax_from_spec r [x] x 0%nat); cbn [length]; try lia; try reflexivity.
  - intros j' Hj'. destruct j'; [cbn; lra | lia].
  - exact Hj.
Qed.

(* ---------- the overall curve is the weighted sum of the group curves ---------- *)
Lemma zip_add_len a b : length a = length b -> length (zip_add a b) = length a.
Proof. revert b. induction a as [|x a IH]; intros [|y b] H; cbn in *; try lia. rewrite IH; lia. Qed.

Lemma zip_add_nth a b k : length a = length b -> nth k (zip_add a b) 0 == nth k a 0 + nth k b 0.
Proof.
  revert b k. induction a as [|x a IH]; intros [|y b] k H; cbn in H; try lia.
  - destruct k; cbn; lra.
  - destruct k as [|k]; cbn [zip_add nth]; [reflexivity | apply IH; lia].
Qed.

Lemma nth_map_scaled (w : Q) c k : nth k (map (fun i => w * iy i) c) 0 == w * iy (nth k c dipt).
Proof.
  revert k. induction c as [|i c IH]; intro k.
  - destruct k; cbn; ring.
  - destruct k as [|k]; cbn [map nth]; [reflexivity | apply IH].
Qed.

Lemma fold_curves_nth (W : group -> Q) (l : list (group * list ipt)) acc k len :
  length acc = len -> (forall gc, In gc l -> length (snd gc) = len) ->
  nth k (fold_left (fun acc gc => zip_add acc (map (fun i => W (fst gc) * iy i) (snd gc))) l acc) 0
  == nth k acc 0 + qsum (map (fun gc => W (fst gc) * iy (nth k (snd gc) dipt)) l).
Proof.
  revert acc. induction l as [|gc l IH]; intros acc Ha Hl; cbn [fold_left map qsum]; [ring|].
  assert (Hg : length (snd gc) = len) by (apply Hl; left; reflexivity).
  rewrite IH.
  - rewrite zip_add_nth by (rewrite map_length; lia). rewrite nth_map_scaled. ring.
  - rewrite zip_add_len by (rewrite map_length; lia). exact Ha.
  - intros gc' H'. apply Hl. right; exact H'.
Qed.

Lemma combine_map_r {A B} (F : A -> B) l : combine l (map F l) = map (fun a => (a, F a)) l.
Proof. induction l as [|a l IH]; [reflexivity|]. cbn. rewrite IH. reflexivity. Qed.

Lemma interpolate_length h N : length (interpolate h (grid N)) = S (Pos.to_nat N).
Proof.
  pose proof (grid_length N) as G. unfold interpolate. destruct (grid N) as [|g0 rest]; [discriminate|].
  cbn [length] in *. rewrite map_length. exact G.
Qed.

Lemma nth_repeat0 k n : nth k (repeat 0 n) 0 = 0.
Proof. revert k. induction n as [|n IH]; intros [|k]; cbn; try reflexivity. apply IH. Qed.

Lemma overall_nth flip mx my N gs k :
  nth k (overall_curve gs (map (group_curve flip mx my N) gs) (S (Pos.to_nat N))) 0 ==
  qsum (map (fun g => gweight gs g * iy (nth k (group_curve flip mx my N g) dipt)) gs).
Proof.
  unfold overall_curve. rewrite combine_map_r.
  rewrite (fold_curves_nth (gweight gs) _ _ k (S (Pos.to_nat N))).
  - rewrite nth_repeat0, map_map. cbn [fst snd]. ring.
  - apply repeat_length.
  - intros gc H. apply in_map_iff in H. destruct H as (g & <- & _). cbn [snd]. apply interpolate_length.
Qed.

Lemma overall_len flip mx my N gs :
  length (overall_curve gs (map (group_curve flip mx my N) gs) (S (Pos.to_nat N))) = S (Pos.to_nat N).
Proof.
  unfold overall_curve. rewrite combine_map_r.
  set (F := fun (acc : list Q) (gc : group * list ipt) => zip_add acc (map (fun i => gweight gs (fst gc) * iy i) (snd gc))).
  assert (G : forall (l : list group) acc, length acc = S (Pos.to_nat N) ->
    length (fold_left F (map (fun a => (a, group_curve flip mx my N a)) l) acc) = S (Pos.to_nat N)).
  { induction l as [|g l IH]; intros acc Ha; [exact Ha|]. cbn [map fold_left]. apply IH.
    unfold F. cbn [fst snd]. rewrite zip_add_len; [exact Ha|].
    rewrite map_length. unfold group_curve. rewrite interpolate_length. exact Ha. }
  apply G, repeat_length.
Qed.

Lemma gweight_nonneg gs g : 0 <= gweight gs g.
Proof. unfold gweight, Qle. cbn. lia. Qed.

(* frequency-weighted objective of a family of per-group values *)
Definition weighted (gs : list group) (vals : list Q) : Q :=
  qsum (map (fun gv => gweight gs (fst gv) * snd gv) (combine gs vals)).

Lemma weighted_le (W : group -> Q) (l : list group) (a : list Q) (F : group -> Q) :
  (forall g, 0 <= W g) -> Forall2 (fun g v => v <= F g) l a ->
  qsum (map (fun gv => W (fst gv) * snd gv) (combine l a)) <= qsum (map (fun g => W g * F g) l).
Proof.
  intros HW H. induction H as [|g v l a Hv H IH]; cbn [combine map qsum fst snd]; [lra|].
  specialize (HW g). assert (W g * v <= W g * F g) by nra. lra.
Qed.

Lemma weighted_eq (W : group -> Q) (l : list group) (a : list Q) (F : group -> Q) :
  Forall2 (fun g v => v == F g) l a ->
  qsum (map (fun gv => W (fst gv) * snd gv) (combine l a)) == qsum (map (fun g => W g * F g) l).
Proof.
  intros H. induction H as [|g v l a Hv H IH]; cbn [combine map qsum fst snd]; [reflexivity|].
  rewrite IH, Hv. reflexivity.
Qed.

(* a per-group randomisation over the group's threshold rules that puts the group at constraint
   value x; its objective value is wsum py *)
Definition valid_mix (flip : bool) (mx my : metric) (x : Q) (g : group) (wp : list (Q * pt)) : Prop :=
  (forall e, In e wp -> 0 <= fst e /\ In (snd e) (tradeoff_points flip mx my g)) /\
  wtot wp == 1 /\ wsum px wp == x.

Lemma interp_curve_grid h N k : (k <= Pos.to_nat N)%nat ->
  interp_curve h (grid_pt N k) = iy (nth k (interpolate h (grid N)) dipt).
Proof.
  intro Hk. rewrite nth_interpolate by exact Hk. unfold interp_curve. destruct k as [|k'].
  - reflexivity.
  - assert (Z : Qeqb (grid_pt N (S k')) 0 = false).
    { apply Qeqb_neq. pose proof (grid_pt_pos N (S k') ltac:(lia)). lra. }
    rewrite Z. reflexivity.
Qed.

Lemma achieved_sum flip mx my N (W : group -> Q) l ib : constraint_metric mx ->
  (forall g, In g l -> both_labels g = true) -> (ib <= Pos.to_nat N)%nat ->
  qsum (map (fun g => W g * exp_metric my (rule_of_ipt (nth ib (group_curve flip mx my N g) dipt)) g) l) ==
  qsum (map (fun g => W g * iy (nth ib (group_curve flip mx my N g) dipt)) l).
Proof.
  intros Hm Hb Hk. induction l as [|g l IH]; cbn [map qsum]; [reflexivity|].
  rewrite IH by (intros g' H'; apply Hb; right; exact H').
  destruct (group_row flip mx my N g ib Hm (Hb g ltac:(left; reflexivity)) Hk) as (_ & _ & _ & _ & E).
  rewrite E. reflexivity.
Qed.

Lemma mix_sum_le flip mx my N (W : group -> Q) l mixes k : constraint_metric mx ->
  (forall g, 0 <= W g) -> (forall g, In g l -> both_labels g = true) ->
  (forall g, In g l -> is_upper_hull (group_hull flip mx my g) (tradeoff_points flip mx my g) = true) ->
  (k <= Pos.to_nat N)%nat ->
  Forall2 (fun g wp => valid_mix flip mx my (grid_pt N k) g wp) l mixes ->
  qsum (map (fun gm => W (fst gm) * wsum py (snd gm)) (combine l mixes)) <=
  qsum (map (fun g => W g * iy (nth k (group_curve flip mx my N g) dipt)) l).
Proof.
  intros Hm HW Hb Hu Hkk Hmix.
  induction Hmix as [|g wp l m Hv Hmix IH]; cbn [combine map qsum fst snd]; [lra|].
  assert (Hg : wsum py wp <= iy (nth k (group_curve flip mx my N g) dipt)).
  { destruct Hv as (V1 & V2 & V3).
    pose proof (group_hull_chain_ok flip mx my g Hm (Hb g ltac:(left; reflexivity))) as Hc.
    pose proof (grid_pt_range N k Hkk) as [R0 R1].
    pose proof (jensen_chain _ _ wp _ Hc (Hu g ltac:(left; reflexivity)) V1 V2 V3 R0 R1) as J.
    unfold group_curve. rewrite <- interp_curve_grid by exact Hkk. exact J. }
  specialize (IH ltac:(intros g' H'; apply Hb; right; exact H') ltac:(intros g' H'; apply Hu; right; exact H')).
  specialize (HW g). assert (W g * wsum py wp <= W g * iy (nth k (group_curve flip mx my N g) dipt)) by nra. lra.
Qed.

Lemma combine_map_snd {A B C} (F : B -> C) (l : list A) (m : list B) :
  combine l (map F m) = map (fun gm => (fst gm, F (snd gm))) (combine l m).
Proof. revert m. induction l as [|a l IH]; intros [|b m]; cbn; try reflexivity. rewrite IH. reflexivity. Qed.

(* ---------- C05, simple constraints (conditional on the per-group hull check) ---------- *)
(* FULL STATEMENT = the same without the is_upper_hull premise (needs hull_is_upper_hull). *)
Theorem simple_optimal_partial flip mx my N gs : constraint_metric mx ->
  (forall g, In g gs -> both_labels g = true) ->
  (forall g, In g gs -> is_upper_hull (group_hull flip mx my g) (tradeoff_points flip mx my g) = true) ->
  let f := fit_simple flip mx my N gs in
  let best := nth (fs_best f) (fs_overall f) 0 in
  (* the fitted rule attains `best` on the training data ... *)
  weighted gs (map (fun gr => exp_metric my (snd gr) (fst gr)) (combine gs (simple_rules f))) == best /\
  (* ... and no family of per-group randomisations with a common grid value does better *)
  forall k mixes, (k <= Pos.to_nat N)%nat ->
    Forall2 (fun g wp => valid_mix flip mx my (grid_pt N k) g wp) gs mixes ->
    weighted gs (map (wsum py) mixes) <= best.
Proof.
  intros Hm Hb Hu. cbv zeta.
  destruct (simple_parity flip mx my N gs Hm Hb) as [Hk _]. cbv zeta in Hk.
  unfold fit_simple in *. cbn [fs_best fs_overall fs_sel] in *.
  set (ov := overall_curve gs (map (group_curve flip mx my N) gs) (S (Pos.to_nat N))) in *.
  set (ib := argmax ov) in *.
  split.
  - unfold simple_rules, weighted. cbn [fs_sel]. rewrite !map_map, combine_map_r, map_map. cbn [fst snd].
    rewrite combine_map_r, map_map. cbn [fst snd]. unfold ov at 1. rewrite overall_nth.
    apply achieved_sum; assumption.
  - intros k mixes Hkk Hmix.
    apply Qle_trans with (nth k ov 0).
    + unfold ov. rewrite overall_nth. unfold weighted. rewrite combine_map_snd, map_map. cbn [fst snd].
      apply mix_sum_le; try assumption. apply gweight_nonneg.
    + apply argmax_spec. unfold ov. rewrite overall_len. lia.
Qed.

(* ---------- equalized odds ---------- *)
Lemma exp_cm_const c g :
  cm_eq (exp_cm (fun _ => c) g)
        (mkcm (c * inject_Z (count_label true g)) (c * inject_Z (count_label false g))
              ((1 - c) * inject_Z (count_label false g)) ((1 - c) * inject_Z (count_label true g))).
Proof.
  unfold cm_eq, exp_cm. cbn [tp fp tn fn].
  induction g as [|[s l] g (I1 & I2 & I3 & I4)].
  - cbn [map qsum]. change (count_label true []) with 0%Z. change (count_label false []) with 0%Z.
    change (inject_Z 0) with 0. repeat split; ring.
  - cbn [map qsum fst snd]. rewrite !count_label_cons, !inject_Z_plus, I1, I2, I3, I4.
    destruct l; cbn [Bool.eqb]; change (inject_Z 1) with 1; change (inject_Z 0) with 0; repeat split; ring.
Qed.

Lemma const_rule_rates c g : both_labels g = true ->
  metric_eval FPR (exp_cm (fun _ => c) g) == c /\ metric_eval TPR (exp_cm (fun _ => c) g) == c.
Proof.
  intro Hb. destruct (both_labels_pos g Hb) as [P N]. apply inject_Z_pos in P. apply inject_Z_pos in N.
  rewrite !(metric_eval_proper _ _ _ (exp_cm_const c g)).
  unfold metric_eval, positives, negatives. cbn [tp fp tn fn]. split; field; lra.
Qed.

(* the corner points of the ROC plot are among the group's tradeoff points *)
Lemma roc_corners flip g : both_labels g = true ->
  (exists p, In p (tradeoff_points flip FPR TPR g) /\ px p == 0 /\ py p == 0) /\
  (exists p, In p (tradeoff_points flip FPR TPR g) /\ px p == 1 /\ py p == 1).
Proof.
  intro Hb. destruct (thresholds_counts_ends g Hb) as [Hi Hl].
  destruct (both_labels_pos g Hb) as [P N].
  set (nneg := count_label false g) in *. set (npos := count_label true g) in *.
  assert (Pq : 0 < inject_Z npos) by (apply inject_Z_pos; exact P).
  assert (Nq : 0 < inject_Z nneg) by (apply inject_Z_pos; exact N).
  pose (pa := mkpt (metric_eval FPR (actual_cm nneg npos 0 0)) (metric_eval TPR (actual_cm nneg npos 0 0)) (mkop OpGt TInf)).
  pose (pb := mkpt (metric_eval FPR (actual_cm nneg npos nneg npos)) (metric_eval TPR (actual_cm nneg npos nneg npos)) (mkop OpGt TNInf)).
  assert (Ia : In pa (tradeoff_points flip FPR TPR g)).
  { unfold tradeoff_points. rewrite sort_xy_in. unfold tradeoff_raw. rewrite in_flat_map.
    exists (TInf, 0%Z, 0%Z). split; [exact Hi | left; reflexivity]. }
  assert (Ib : In pb (tradeoff_points flip FPR TPR g)).
  { unfold tradeoff_points. rewrite sort_xy_in. unfold tradeoff_raw. rewrite in_flat_map.
    exists (TNInf, nneg, npos). split; [exact Hl | left; reflexivity]. }
  assert (Z0 : forall z, inject_Z (z - z) == 0) by (intro z; rewrite Z.sub_diag; reflexivity).
  assert (Z1 : forall z, inject_Z (z - 0) == inject_Z z) by (intro z; rewrite Z.sub_0_r; reflexivity).
  split; [exists pa | exists pb]; (split; [assumption|]); cbn [px py pa pb];
    unfold metric_eval, positives, negatives, actual_cm; cbn [tp fp tn fn];
    rewrite ?Z0, ?Z1; change (inject_Z 0) with 0; split; field; lra.
Qed.

(* hull_ge_diagonal (conditional on the hull check): the interpolated ROC hull is on or above the diagonal *)
Lemma hull_ge_diagonal flip N g k : both_labels g = true ->
  is_upper_hull (group_hull flip FPR TPR g) (tradeoff_points flip FPR TPR g) = true ->
  (k <= Pos.to_nat N)%nat ->
  grid_pt N k <= iy (nth k (group_curve flip FPR TPR N g) dipt).
Proof.
  intros Hb Hu Hk. destruct (roc_corners flip g Hb) as [(pa & Ia & Xa & Ya) (pb & Ib & Xb & Yb)].
  pose proof (grid_pt_range N k Hk) as [R0 R1]. set (x := grid_pt N k) in *.
  pose proof (group_hull_chain_ok flip FPR TPR g I Hb) as Hc.
  assert (J := jensen_chain _ _ [(1 - x, pa); (x, pb)] x Hc Hu).
  unfold group_curve. rewrite <- interp_curve_grid by exact Hk. fold x.
  assert (Ey : wsum py [(1 - x, pa); (x, pb)] == x).
  { unfold wsum. cbn [map qsum fst snd]. rewrite Ya, Yb. ring. }
  rewrite <- Ey at 1. apply J; try assumption.
  - intros e [<-|[<-|[]]]; cbn [fst snd]; split; try assumption; lra.
  - unfold wtot. cbn [map qsum fst]. ring.
  - unfold wsum. cbn [map qsum fst snd]. rewrite Xa, Xb. ring.
Qed.

(* np.amin over the groups *)
Lemma zip_min_len a b : length a = length b -> length (zip_min a b) = length a.
Proof. revert b. induction a as [|x a IH]; intros [|y b] H; cbn in *; try lia. rewrite IH; lia. Qed.

Lemma zip_min_nth a b k : length a = length b -> nth k (zip_min a b) 0 = Qminq (nth k a 0) (nth k b 0).
Proof.
  revert b k. induction a as [|x a IH]; intros [|y b] k H; cbn in H; try lia.
  - destruct k; reflexivity.
  - destruct k as [|k]; cbn [zip_min nth]; [reflexivity | apply IH; lia].
Qed.

Lemma nth_map_iy c k : nth k (map iy c) 0 = iy (nth k c dipt).
Proof. change 0 with (iy dipt). apply map_nth. Qed.

Lemma fold_min_nth (l : list (list ipt)) acc k len : length acc = len -> (forall c, In c l -> length c = len) ->
  nth k (fold_left (fun acc c' => zip_min acc (map iy c')) l acc) 0 =
  fold_left (fun m c' => Qminq m (iy (nth k c' dipt))) l (nth k acc 0).
Proof.
  revert acc. induction l as [|c l IH]; intros acc Ha Hl; cbn [fold_left]; [reflexivity|].
  assert (Hc : length c = len) by (apply Hl; left; reflexivity).
  rewrite IH.
  - rewrite zip_min_nth by (rewrite map_length; lia). rewrite nth_map_iy. reflexivity.
  - rewrite zip_min_len by (rewrite map_length; lia). exact Ha.
  - intros c' H'. apply Hl. right; exact H'.
Qed.

Lemma Qminq_le_l a b : Qminq a b <= a.
Proof. unfold Qminq. destruct (Qleb a b) eqn:E; [lra|]. apply Qleb_gt in E. lra. Qed.
Lemma Qminq_le_r a b : Qminq a b <= b.
Proof. unfold Qminq. destruct (Qleb a b) eqn:E; [apply Qleb_le in E; exact E | lra]. Qed.
Lemma Qminq_glb lb a b : lb <= a -> lb <= b -> lb <= Qminq a b.
Proof. unfold Qminq. destruct (Qleb a b); auto. Qed.

Lemma fold_minq_le (F : list ipt -> Q) l m :
  fold_left (fun m c' => Qminq m (F c')) l m <= m /\
  (forall c, In c l -> fold_left (fun m c' => Qminq m (F c')) l m <= F c).
Proof.
  revert m. induction l as [|c l IH]; intro m; cbn [fold_left]; [split; [lra | intros c []]|].
  destruct (IH (Qminq m (F c))) as [A B]. split.
  - pose proof (Qminq_le_l m (F c)). lra.
  - intros c' [<-|H']; [pose proof (Qminq_le_r m (F c)); lra | apply B; exact H'].
Qed.

Lemma fold_minq_glb (F : list ipt -> Q) l m lb : lb <= m -> (forall c, In c l -> lb <= F c) ->
  lb <= fold_left (fun m c' => Qminq m (F c')) l m.
Proof.
  revert m. induction l as [|c l IH]; intros m Hm H; cbn [fold_left]; [exact Hm|].
  apply IH; [apply Qminq_glb; [exact Hm | apply H; left; reflexivity] | intros c' H'; apply H; right; exact H'].
Qed.

Lemma y_min_nth curves k len : (forall c, In c curves -> length c = len) ->
  (forall c, In c curves -> nth k (y_min_curve curves) 0 <= iy (nth k c dipt)) /\
  (forall lb, curves <> [] -> (forall c, In c curves -> lb <= iy (nth k c dipt)) -> lb <= nth k (y_min_curve curves) 0).
Proof.
  intro Hl. destruct curves as [|c0 rest]; [split; [intros c [] | intros lb H; contradiction]|].
  unfold y_min_curve.
  rewrite (fold_min_nth rest (map iy c0) k len);
    [| rewrite map_length; apply Hl; left; reflexivity | intros c H; apply Hl; right; exact H].
  rewrite nth_map_iy.
  destruct (fold_minq_le (fun c => iy (nth k c dipt)) rest (iy (nth k c0 dipt))) as [A B].
  split.
  - intros c [<-|H]; [exact A | apply B; exact H].
  - intros lb _ H. apply fold_minq_glb; [apply H; left; reflexivity | intros c Hc; apply H; right; exact Hc].
Qed.

Definition eo_curves flip N gs := map (group_curve flip FPR TPR N) gs.

Lemma fit_eo_best_le flip obj N gs : (fe_best (fit_eo flip obj N gs) <= Pos.to_nat N)%nat.
Proof.
  unfold fit_eo. cbn [fe_best].
  match goal with |- (argmax ?l <= _)%nat => pose proof (argmax_bound l) as A; assert (B : (length l <= S (Pos.to_nat N))%nat) end.
  { rewrite map_length, combine_length, grid_length. lia. }
  lia.
Qed.

(* C04, equalized odds, FPR half (unconditional) and TPR half *)
Theorem eo_parity_fpr flip obj N gs : (forall g, In g gs -> both_labels g = true) ->
  let f := fit_eo flip obj N gs in
  fe_xbest f = grid_pt N (fe_best f) /\
  Forall2 (fun g r => exp_metric FPR r g == fe_xbest f) gs (fe_rules f).
Proof.
  intros Hb. cbv zeta. pose proof (fit_eo_best_le flip obj N gs) as Hk.
  unfold fit_eo in *. cbn [fe_best fe_xbest fe_rules] in *.
  match type of Hk with (?e <= _)%nat => set (ib := e) in * end.
  split; [apply nth_grid; exact Hk|].
  rewrite !map_map. apply Forall2_map_r. intros g Hg.
  destruct (group_row flip FPR TPR N g ib I (Hb g Hg) Hk) as (Hx & Ps & _ & EX & EY).
  set (row := nth ib (group_curve flip FPR TPR N g) dipt) in *.
  set (xb := nth ib (grid N) 0). set (pig := p_ignore_of row _).
  unfold exp_metric.
  change (pmf _) with (fun s => pig * (fun _ : Z => xb) s + (1 - pig) * pmf (rule_of_ipt row) s).
  rewrite (metric_linear FPR pig (1 - pig) _ _ g (Hb g Hg)) by ring.
  destruct (const_rule_rates xb g (Hb g Hg)) as [C1 _]. rewrite C1.
  unfold exp_metric in EX. rewrite EX. unfold xb. rewrite (nth_grid N ib Hk). ring.
Qed.

(* FULL STATEMENT = the same without the is_upper_hull premise (needs hull_is_upper_hull; the premise is
   only used when a group's interpolated point lies exactly on the diagonal, where p_ignore = 0) *)
Theorem eo_parity_tpr_partial flip obj N gs : (forall g, In g gs -> both_labels g = true) ->
  (forall g, In g gs -> is_upper_hull (group_hull flip FPR TPR g) (tradeoff_points flip FPR TPR g) = true) ->
  let f := fit_eo flip obj N gs in
  Forall2 (fun g r => exp_metric TPR r g == fe_ybest f) gs (fe_rules f).
Proof.
  intros Hb Hu. cbv zeta. pose proof (fit_eo_best_le flip obj N gs) as Hk.
  unfold fit_eo in *. cbn [fe_best fe_ybest fe_rules] in *.
  match type of Hk with (?e <= _)%nat => set (ib := e) in * end.
  rewrite !map_map. apply Forall2_map_r. intros g Hg.
  destruct (group_row flip FPR TPR N g ib I (Hb g Hg) Hk) as (Hx & Ps & _ & EX & EY).
  set (row := nth ib (group_curve flip FPR TPR N g) dipt) in *.
  set (xb := nth ib (grid N) 0).
  set (yb := nth ib (y_min_curve (map (group_curve flip FPR TPR N) gs)) 0).
  assert (Exb : xb = grid_pt N ib) by (apply nth_grid; exact Hk).
  destruct (y_min_nth (map (group_curve flip FPR TPR N) gs) ib (S (Pos.to_nat N))) as [Ymin Yglb].
  { intros c Hc. apply in_map_iff in Hc. destruct Hc as (g' & <- & _). apply interpolate_length. }
  assert (Y1 : yb <= iy row) by (apply Ymin; apply in_map; exact Hg).
  unfold exp_metric.
  change (pmf _) with (fun s => p_ignore_of row yb * (fun _ : Z => xb) s + (1 - p_ignore_of row yb) * pmf (rule_of_ipt row) s).
  rewrite (metric_linear TPR _ (1 - p_ignore_of row yb) _ _ g (Hb g Hg)) by ring.
  destruct (const_rule_rates xb g (Hb g Hg)) as [_ C2]. rewrite C2.
  unfold exp_metric in EY. rewrite EY.
  unfold p_ignore_of. rewrite Hx, <- Exb. destruct (Qeqb (iy row) xb) eqn:E.
  - apply Qeqb_eq in E.
    assert (Y2 : xb <= yb).
    { apply Yglb; [destruct gs; [destruct Hg | discriminate]|].
      intros c Hc. apply in_map_iff in Hc. destruct Hc as (g' & <- & Hg').
      rewrite Exb. apply hull_ge_diagonal; [apply Hb | apply Hu | exact Hk]; exact Hg'. }
    lra.
  - apply Qeqb_neq in E. field. intro C. apply E. lra.
Qed.

(* ---------- C05, equalized odds (conditional on the per-group hull check) ---------- *)
Lemma count_label_concat_ge b g gs : In g gs -> (count_label b g <= count_label b (concat gs))%Z.
Proof.
  induction gs as [|h t IH]; [intros []|]; intros [<-|H]; cbn [concat]; rewrite !count_label_cnt, cnt_app.
  - pose proof (cnt_nonneg (fun r => Bool.eqb (snd r) b) (concat t)). lia.
  - specialize (IH H). rewrite !count_label_cnt in IH. pose proof (cnt_nonneg (fun r => Bool.eqb (snd r) b) h). lia.
Qed.

Lemma length_count l : Z.of_nat (length l) = (count_label true l + count_label false l)%Z.
Proof.
  induction l as [|[s b] l IH]; [reflexivity|]. rewrite !count_label_cons. cbn [length].
  destruct b; cbn [Bool.eqb]; lia.
Qed.

Lemma eo_objective_monotone obj npos nneg x y y' : obj = Acc \/ obj = BalAcc ->
  (0 < npos)%Z -> (0 < nneg)%Z -> y <= y' ->
  metric_eval obj (eo_counts npos nneg x y) <= metric_eval obj (eo_counts npos nneg x y').
Proof.
  intros Ho P N Hy. apply inject_Z_pos in P. apply inject_Z_pos in N.
  destruct Ho as [-> | ->]; unfold metric_eval, eo_counts, n_, positives, negatives; cbn [tp fp tn fn];
    set (p := inject_Z npos) in *; set (n := inject_Z nneg) in *.
  - assert (E : forall z, p * z + n * (1 - x) + n * x + p * (1 - z) == p + n) by (intro; ring).
    rewrite !E. apply Qmult_le_compat_r; [nra | apply Qlt_le_weak, Qinv_lt_0_compat; lra].
  - assert (E1 : forall z, p * z + p * (1 - z) == p) by (intro; ring).
    assert (E2 : n * (1 - x) + n * x == n) by ring.
    rewrite !E1, !E2.
    assert (A : (1 # 2) * (p * y) / p <= (1 # 2) * (p * y') / p).
    { apply Qmult_le_compat_r; [nra | apply Qlt_le_weak, Qinv_lt_0_compat; lra]. }
    lra.
Qed.

(* any rule that gives every group the same (FPR, TPR) = (grid value, y) by randomising over the group's
   threshold rules has y <= y_min(x), hence an objective not above the arg-max the fit selects.
   FULL STATEMENT = without the is_upper_hull premise, plus: the value metric_eval obj (eo_counts ... x_best
   y_best) is the overall objective of the fitted rule on the training rows (follows from eo_parity_* by
   summing the per-group confusion matrices; not mechanised). *)
Theorem eo_optimal_partial flip obj N gs : obj = Acc \/ obj = BalAcc -> gs <> [] ->
  (forall g, In g gs -> both_labels g = true) ->
  (forall g, In g gs -> is_upper_hull (group_hull flip FPR TPR g) (tradeoff_points flip FPR TPR g) = true) ->
  let f := fit_eo flip obj N gs in
  let npos := count_label true (concat gs) in
  let nneg := (Z.of_nat (length (concat gs)) - npos)%Z in
  nth (fe_best f) (fe_obj f) 0 = metric_eval obj (eo_counts npos nneg (fe_xbest f) (fe_ybest f)) /\
  forall k y mixes, (k <= Pos.to_nat N)%nat ->
    Forall2 (fun g wp => valid_mix flip FPR TPR (grid_pt N k) g wp /\ wsum py wp == y) gs mixes ->
    metric_eval obj (eo_counts npos nneg (grid_pt N k) y) <= nth (fe_best f) (fe_obj f) 0.
Proof.
  intros Ho Hne Hb Hu. cbv zeta. pose proof (fit_eo_best_le flip obj N gs) as Hk.
  unfold fit_eo in *. cbn [fe_best fe_obj fe_xbest fe_ybest] in *.
  set (npos := count_label true (concat gs)) in *.
  set (nneg := (Z.of_nat (length (concat gs)) - npos)%Z) in *.
  set (ymin := y_min_curve (map (group_curve flip FPR TPR N) gs)) in *.
  set (F := fun xy : Q * Q => metric_eval obj (eo_counts npos nneg (fst xy) (snd xy))) in *.
  set (objs := map F (combine (grid N) ymin)) in *.
  set (ib := argmax objs) in *.
  assert (Hcl : forall c, In c (map (group_curve flip FPR TPR N) gs) -> length c = S (Pos.to_nat N)).
  { intros c Hc. apply in_map_iff in Hc. destruct Hc as (g' & <- & _). apply interpolate_length. }
  assert (Hyl : length ymin = S (Pos.to_nat N)).
  { unfold ymin, y_min_curve. destruct gs as [|g0 rest]; [contradiction|]. cbn [map].
    assert (G : forall (l : list (list ipt)) acc, length acc = S (Pos.to_nat N) ->
              (forall c, In c l -> length c = S (Pos.to_nat N)) ->
              length (fold_left (fun acc c' => zip_min acc (map iy c')) l acc) = S (Pos.to_nat N)).
    { induction l as [|c l IH]; intros acc Ha Hl; [exact Ha|]. cbn [fold_left]. apply IH.
      - rewrite zip_min_len; [exact Ha | rewrite map_length, (Hl c ltac:(left; reflexivity)); exact Ha].
      - intros c' H'. apply Hl. right; exact H'. }
    apply G.
    - rewrite map_length. apply Hcl. left; reflexivity.
    - intros c Hc. apply Hcl. right. exact Hc. }
  assert (Hol : length objs = S (Pos.to_nat N)).
  { unfold objs. rewrite map_length, combine_length, grid_length, Hyl. lia. }
  assert (Hnth : forall k, (k <= Pos.to_nat N)%nat -> nth k objs 0 = F (grid_pt N k, nth k ymin 0)).
  { intros k Hkk. unfold objs. rewrite (nth_indep _ 0 (F (0, 0))) by (fold objs; rewrite Hol; lia).
    rewrite map_nth, combine_nth by (rewrite grid_length, Hyl; reflexivity).
    rewrite (nth_grid N k Hkk). reflexivity. }
  split.
  - rewrite (Hnth ib Hk). unfold F. cbn [fst snd]. rewrite (nth_grid N ib Hk). reflexivity.
  - intros k y mixes Hkk Hmix.
    apply Qle_trans with (nth k objs 0); [|apply argmax_spec; rewrite Hol; lia].
    rewrite (Hnth k Hkk). unfold F. cbn [fst snd].
    assert (P : (0 < npos)%Z /\ (0 < nneg)%Z).
    { destruct gs as [|g0 rest]; [contradiction|].
      destruct (both_labels_pos g0 (Hb g0 ltac:(left; reflexivity))) as [P0 N0].
      pose proof (count_label_concat_ge true g0 (g0 :: rest) ltac:(left; reflexivity)).
      pose proof (count_label_concat_ge false g0 (g0 :: rest) ltac:(left; reflexivity)).
      unfold nneg, npos. rewrite length_count. lia. }
    apply eo_objective_monotone; [exact Ho | apply P | apply P |].
    destruct (y_min_nth (map (group_curve flip FPR TPR N) gs) k (S (Pos.to_nat N)) Hcl) as [_ Yglb].
    apply Yglb; [destruct gs; [contradiction | discriminate]|].
    intros c Hc. apply in_map_iff in Hc. destruct Hc as (g & <- & Hg).
    clear -Hmix Hg Hb Hu Hkk.
    induction Hmix as [|g' wp l m [Hv Hy] Hmix IH]; [destruct Hg|].
    destruct Hg as [<-|Hg].
    + destruct Hv as (V1 & V2 & V3).
      pose proof (group_hull_chain_ok flip FPR TPR g' I (Hb g' ltac:(left; reflexivity))) as Hc.
      pose proof (grid_pt_range N k Hkk) as [R0 R1].
      pose proof (jensen_chain _ _ wp _ Hc (Hu g' ltac:(left; reflexivity)) V1 V2 V3 R0 R1) as J.
      unfold group_curve. rewrite <- interp_curve_grid by exact Hkk. rewrite <- Hy. exact J.
    + apply IH; [intros g'' H''; apply Hb; right; exact H'' | intros g'' H''; apply Hu; right; exact H'' | exact Hg].
Qed.

(* ---------- equalized odds: the arg-max value IS the overall objective of the fitted rule ---------- *)
Definition cm_add (a b : cm) : cm := mkcm (tp a + tp b) (fp a + fp b) (tn a + tn b) (fn a + fn b).
Definition cm_zero : cm := mkcm 0 0 0 0.
(* expected confusion matrix of the whole training set under per-group rules *)
Definition total_cm (grs : list (group * rule)) : cm :=
  fold_right (fun gr acc => cm_add (exp_cm (pmf (snd gr)) (fst gr)) acc) cm_zero grs.

Lemma rates_to_counts c x y P Nn : 0 < P -> 0 < Nn -> positives c == P -> negatives c == Nn ->
  metric_eval FPR c == x -> metric_eval TPR c == y ->
  cm_eq c (mkcm (P * y) (Nn * x) (Nn * (1 - x)) (P * (1 - y))).
Proof.
  intros HP HN EP EN Ex Ey. unfold metric_eval in Ex, Ey. rewrite EN in Ex. rewrite EP in Ey.
  assert (Efp : fp c == Nn * x) by (rewrite <- Ex; field; lra).
  assert (Etp : tp c == P * y) by (rewrite <- Ey; field; lra).
  unfold positives, negatives in EP, EN. unfold cm_eq. cbn [tp fp tn fn].
  repeat split; lra.
Qed.

Lemma Forall2_and {A B} (P Q : A -> B -> Prop) l m : Forall2 P l m -> Forall2 Q l m -> Forall2 (fun a b => P a b /\ Q a b) l m.
Proof.
  intro H. induction H as [|a b l m Hp H IH]; intro Hq; [constructor|].
  inversion Hq; subst. constructor; [split; assumption | apply IH; assumption].
Qed.

Lemma total_cm_eo x y gs rules : (forall g, In g gs -> both_labels g = true) ->
  Forall2 (fun g r => exp_metric FPR r g == x /\ exp_metric TPR r g == y) gs rules ->
  cm_eq (total_cm (combine gs rules))
        (eo_counts (count_label true (concat gs)) (count_label false (concat gs)) x y).
Proof.
  intros Hb H. induction H as [|g r gs rules [Hx Hy] H IH].
  - cbn. unfold cm_eq, eo_counts. cbn [tp fp tn fn]. change (inject_Z 0) with 0. repeat split; ring.
  - cbn [combine total_cm fold_right fst snd concat].
    specialize (IH ltac:(intros g' H'; apply Hb; right; exact H')).
    destruct (both_labels_pos g (Hb g ltac:(left; reflexivity))) as [P N].
    apply inject_Z_pos in P. apply inject_Z_pos in N.
    destruct (exp_cm_totals (pmf r) g) as [EP EN].
    pose proof (rates_to_counts _ x y _ _ P N EP EN Hx Hy) as (C1 & C2 & C3 & C4).
    destruct IH as (I1 & I2 & I3 & I4).
    fold (total_cm (combine gs rules)).
    unfold cm_eq, cm_add, eo_counts in *. cbn [tp fp tn fn] in *.
    rewrite C1, C2, C3, C4, I1, I2, I3, I4.
    rewrite !count_label_cnt, !cnt_app, !inject_Z_plus. repeat split; ring.
Qed.

(* FULL STATEMENT = without the is_upper_hull premise (inherited from eo_parity_tpr_partial). *)
Theorem eo_objective_achieved_partial flip obj N gs :
  (forall g, In g gs -> both_labels g = true) ->
  (forall g, In g gs -> is_upper_hull (group_hull flip FPR TPR g) (tradeoff_points flip FPR TPR g) = true) ->
  let f := fit_eo flip obj N gs in
  metric_eval obj (total_cm (combine gs (fe_rules f))) ==
  metric_eval obj (eo_counts (count_label true (concat gs))
                             (Z.of_nat (length (concat gs)) - count_label true (concat gs)) (fe_xbest f) (fe_ybest f)).
Proof.
  intros Hb Hu. cbv zeta.
  destruct (eo_parity_fpr flip obj N gs Hb) as [_ Hf]. pose proof (eo_parity_tpr_partial flip obj N gs Hb Hu) as Ht.
  cbv zeta in Hf, Ht. pose proof (Forall2_and _ _ _ _ Hf Ht) as H.
  apply metric_eval_proper.
  replace (Z.of_nat (length (concat gs)) - count_label true (concat gs))%Z with (count_label false (concat gs))
    by (rewrite length_count; lia).
  apply total_cm_eo; assumption.
Qed.

(* ====================================================================================== *)
(* With hull_is_upper_hull the conditional theorems become unconditional.                  *)
(* ====================================================================================== *)
Lemma group_hull_upper flip mx my g :
  is_upper_hull (group_hull flip mx my g) (tradeoff_points flip mx my g) = true.
Proof. unfold group_hull, tradeoff_points. apply hull_is_upper_hull, sort_xy_sorted. Qed.

Theorem eo_parity_tpr flip obj N gs : (forall g, In g gs -> both_labels g = true) ->
  let f := fit_eo flip obj N gs in
  Forall2 (fun g r => exp_metric TPR r g == fe_ybest f) gs (fe_rules f).
Proof. intro Hb. apply eo_parity_tpr_partial; [exact Hb | intros; apply group_hull_upper]. Qed.

Theorem simple_optimal flip mx my N gs : constraint_metric mx ->
  (forall g, In g gs -> both_labels g = true) ->
  let f := fit_simple flip mx my N gs in
  let best := nth (fs_best f) (fs_overall f) 0 in
  weighted gs (map (fun gr => exp_metric my (snd gr) (fst gr)) (combine gs (simple_rules f))) == best /\
  forall k mixes, (k <= Pos.to_nat N)%nat ->
    Forall2 (fun g wp => valid_mix flip mx my (grid_pt N k) g wp) gs mixes ->
    weighted gs (map (wsum py) mixes) <= best.
Proof. intros Hm Hb. apply simple_optimal_partial; [exact Hm | exact Hb | intros; apply group_hull_upper]. Qed.

Theorem eo_optimal flip obj N gs : obj = Acc \/ obj = BalAcc -> gs <> [] ->
  (forall g, In g gs -> both_labels g = true) ->
  let f := fit_eo flip obj N gs in
  let npos := count_label true (concat gs) in
  let nneg := (Z.of_nat (length (concat gs)) - npos)%Z in
  nth (fe_best f) (fe_obj f) 0 = metric_eval obj (eo_counts npos nneg (fe_xbest f) (fe_ybest f)) /\
  forall k y mixes, (k <= Pos.to_nat N)%nat ->
    Forall2 (fun g wp => valid_mix flip FPR TPR (grid_pt N k) g wp /\ wsum py wp == y) gs mixes ->
    metric_eval obj (eo_counts npos nneg (grid_pt N k) y) <= nth (fe_best f) (fe_obj f) 0.
Proof. intros Ho Hn Hb. apply eo_optimal_partial; [exact Ho | exact Hn | exact Hb | intros; apply group_hull_upper]. Qed.

Theorem eo_objective_achieved flip obj N gs : (forall g, In g gs -> both_labels g = true) ->
  let f := fit_eo flip obj N gs in
  metric_eval obj (total_cm (combine gs (fe_rules f))) ==
  metric_eval obj (eo_counts (count_label true (concat gs))
                             (Z.of_nat (length (concat gs)) - count_label true (concat gs)) (fe_xbest f) (fe_ybest f)).
Proof. intro Hb. apply eo_objective_achieved_partial; [exact Hb | intros; apply group_hull_upper]. Qed.

(* ---------- "never worse than the best constant classifier" ---------- *)
Definition const_thr (c : bool) : thr := if c then TNInf else TInf.      (* c = true: predict 1 everywhere *)
Definition corner_x (mx : metric) (c : bool) : Q :=
  match mx with
  | SelRate | FPR | TPR => if c then 1 else 0
  | _ => if c then 0 else 1
  end.

Lemma corner_point flip mx my g c : constraint_metric mx -> both_labels g = true ->
  exists p, In p (tradeoff_points flip mx my g) /\ pop p = mkop OpGt (const_thr c) /\ px p == corner_x mx c.
Proof.
  intros Hm Hb. destruct (thresholds_counts_ends g Hb) as [Hi Hl].
  destruct (both_labels_pos g Hb) as [P N].
  set (nneg := count_label false g) in *. set (npos := count_label true g) in *.
  assert (Pq : 0 < inject_Z npos) by (apply inject_Z_pos; exact P).
  assert (Nq : 0 < inject_Z nneg) by (apply inject_Z_pos; exact N).
  pose (pa := mkpt (metric_eval mx (actual_cm nneg npos 0 0)) (metric_eval my (actual_cm nneg npos 0 0)) (mkop OpGt TInf)).
  pose (pb := mkpt (metric_eval mx (actual_cm nneg npos nneg npos)) (metric_eval my (actual_cm nneg npos nneg npos)) (mkop OpGt TNInf)).
  assert (Ia : In pa (tradeoff_points flip mx my g)).
  { unfold tradeoff_points. rewrite sort_xy_in. unfold tradeoff_raw. rewrite in_flat_map.
    exists (TInf, 0%Z, 0%Z). split; [exact Hi | left; reflexivity]. }
  assert (Ib : In pb (tradeoff_points flip mx my g)).
  { unfold tradeoff_points. rewrite sort_xy_in. unfold tradeoff_raw. rewrite in_flat_map.
    exists (TNInf, nneg, npos). split; [exact Hl | left; reflexivity]. }
  assert (Z0 : forall z, inject_Z (z - z) == 0) by (intro z; rewrite Z.sub_diag; reflexivity).
  assert (Z1 : forall z, inject_Z (z - 0) == inject_Z z) by (intro z; rewrite Z.sub_0_r; reflexivity).
  destruct c; [exists pb | exists pa]; (split; [assumption|]); (split; [reflexivity|]);
    destruct mx; try contradiction; cbn [px pa pb corner_x];
    unfold metric_eval, predicted_positives, n_, positives, negatives, actual_cm; cbn [tp fp tn fn];
    rewrite ?Z0, ?Z1; change (inject_Z 0) with 0; field; lra.
Qed.

Lemma grid_pt_0 N : grid_pt N 0 == 0.
Proof. unfold grid_pt, Qeq. cbn. reflexivity. Qed.
Lemma grid_pt_N N : grid_pt N (Pos.to_nat N) == 1.
Proof. unfold grid_pt, Qeq. cbn [Qnum Qden]. rewrite positive_nat_Z. lia. Qed.

(* the fitted rule is at least as good as predicting 0 everywhere and as predicting 1 everywhere *)
Theorem simple_beats_constants flip mx my N gs (c : bool) : constraint_metric mx ->
  (forall g, In g gs -> both_labels g = true) ->
  let f := fit_simple flip mx my N gs in
  qsum (map (fun g => gweight gs g * metric_eval my (exp_cm (op_rule (mkop OpGt (const_thr c))) g)) gs)
  <= nth (fs_best f) (fs_overall f) 0.
Proof.
  intros Hm Hb. cbv zeta.
  destruct (simple_optimal flip mx my N gs Hm Hb) as [_ Hopt]. cbv zeta in Hopt.
  set (best := nth (fs_best (fit_simple flip mx my N gs)) (fs_overall (fit_simple flip mx my N gs)) 0) in *.
  (* the grid index of the constant rule *)
  assert (Hk : exists k, (k <= Pos.to_nat N)%nat /\ grid_pt N k == corner_x mx c).
  { destruct mx; try contradiction; destruct c; cbn [corner_x];
      first [ exists (Pos.to_nat N); split; [lia | apply grid_pt_N] | exists 0%nat; split; [lia | apply grid_pt_0] ]. }
  destruct Hk as (k & Hk & Ek).
  (* one mix per group: all weight on the corner point *)
  assert (Hm2 : exists mixes, Forall2 (fun g wp => valid_mix flip mx my (grid_pt N k) g wp) gs mixes /\
            Forall2 (fun g v => v == metric_eval my (exp_cm (op_rule (mkop OpGt (const_thr c))) g)) gs (map (wsum py) mixes)).
  { clear Hopt best. induction gs as [|g l IH]; [exists []; split; constructor|].
    destruct (IH ltac:(intros g' H'; apply Hb; right; exact H')) as (ms & F1 & F2).
    destruct (corner_point flip mx my g c Hm (Hb g ltac:(left; reflexivity))) as (p & Ip & Op & Xp).
    exists ([(1, p)] :: ms). split; constructor; try assumption.
    - unfold valid_mix, wtot, wsum. cbn [map qsum fst snd]. split; [|split].
      + intros e [<-|[]]. cbn [fst snd]. split; [lra | exact Ip].
      + ring.
      + rewrite Xp, Ek. ring.
    - unfold wsum. cbn [map qsum fst snd]. destruct (tradeoff_point_sound _ _ _ _ _ Ip) as [_ Yp].
      rewrite Yp, Op. ring. }
  destruct Hm2 as (mixes & F1 & F2).
  specialize (Hopt k mixes Hk F1). unfold weighted in Hopt.
  rewrite (weighted_eq (gweight gs) gs (map (wsum py) mixes) _ F2) in Hopt. exact Hopt.
Qed.
