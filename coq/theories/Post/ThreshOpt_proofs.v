From Coq Require Import QArith ZArith List Bool.
From FL Require Import Num ThreshOpt.
