(* Lemmas about the (x, y) sort and the monotone-chain loop: hull_sublist_ends, the shape of the
   hull's x column (chain_ok), and jensen_chain (C05). *)
From Coq Require Import QArith ZArith List Bool Lia Lra Psatz.
From FL Require Import Num Tradeoff Tradeoff_proofs Hull Interp Interp_proofs.
Import ListNotations.
Open Scope Q_scope.

(* ---------- lexicographic order and the sort ---------- *)
Definition pt_le (a b : pt) : Prop := px a < px b \/ (px a == px b /\ py a <= py b).

Lemma pt_leb_le a b : pt_leb a b = true <-> pt_le a b.
Proof.
  unfold pt_leb, pt_le. rewrite orb_true_iff, andb_true_iff, Qltb_lt, Qeqb_eq, Qleb_le. reflexivity.
Qed.

Lemma pt_leb_false a b : pt_leb a b = false -> pt_le b a.
Proof.
  unfold pt_leb, pt_le. rewrite orb_false_iff, andb_false_iff, Qltb_ge, Qeqb_neq, Qleb_gt.
  intros [H1 [H2|H2]].
  - left. destruct (Qlt_le_dec (px b) (px a)) as [L|L]; [exact L|]. exfalso. apply H2. lra.
  - destruct (Qlt_le_dec (px b) (px a)) as [L|L]; [left; exact L|]. right. split; lra.
Qed.

Lemma pt_le_trans a b c : pt_le a b -> pt_le b c -> pt_le a c.
Proof. unfold pt_le. intros [H1|[H1 H1']] [H2|[H2 H2']]; [left; lra | left; lra | left; lra | right; split; lra]. Qed.

Lemma pt_le_px a b : pt_le a b -> px a <= px b.
Proof. intros [H|[H _]]; lra. Qed.

Fixpoint lsorted (l : list pt) : Prop :=
  match l with
  | [] => True
  | h :: t => (forall r, In r t -> pt_le h r) /\ lsorted t
  end.

Lemma ins_xy_in a l r : In r (ins_xy a l) <-> r = a \/ In r l.
Proof.
  induction l as [|h t IH]; cbn [ins_xy].
  - cbn. intuition congruence.
  - destruct (pt_leb a h).
    + cbn. intuition congruence.
    + cbn [In]. rewrite IH. intuition congruence.
Qed.

Lemma sort_xy_in l r : In r (sort_xy l) <-> In r l.
Proof.
  induction l as [|h t IH]; [reflexivity|]. cbn [sort_xy fold_right]. fold (sort_xy t).
  rewrite ins_xy_in, IH. cbn. intuition congruence.
Qed.

Lemma ins_xy_sorted a l : lsorted l -> lsorted (ins_xy a l).
Proof.
  induction l as [|h t IH]; intro H.
  - cbn. split; [intros r []|exact I].
  - cbn [ins_xy]. destruct (pt_leb a h) eqn:E.
    + apply pt_leb_le in E. cbn [lsorted]. split; [|exact H].
      intros r [Hr|Hr]; [subst r; exact E|]. destruct H as [H1 _]. apply (pt_le_trans _ _ _ E), H1, Hr.
    + apply pt_leb_false in E. destruct H as [H1 H2]. cbn [lsorted]. split; [|apply IH; exact H2].
      intros r Hr. apply ins_xy_in in Hr. destruct Hr as [->|Hr]; [exact E | apply H1; exact Hr].
Qed.

Lemma sort_xy_sorted l : lsorted (sort_xy l).
Proof. induction l as [|h t IH]; [exact I|]. cbn [sort_xy fold_right]. apply ins_xy_sorted. exact IH. Qed.

Lemma lsorted_last l d p : lsorted l -> In p l -> px p <= px (last l d).
Proof.
  induction l as [|h t IH]; intros Hs Hin; [destruct Hin|].
  destruct Hs as [H1 H2]. destruct t as [|h' t'].
  - destruct Hin as [->|[]]. cbn. lra.
  - change (last (h :: h' :: t') d) with (last (h' :: t') d).
    destruct Hin as [->|Hin]; [|apply IH; assumption].
    assert (Hl : In (last (h' :: t') d) (h' :: t')).
    { clear. revert h'. induction t' as [|a t IH]; intro h'; [left; reflexivity|].
      change (last (h' :: a :: t) d) with (last (a :: t) d). right. apply IH. }
    apply pt_le_px, H1, Hl.
Qed.

(* ---------- the stack loop ---------- *)
Lemma pop_stack_spec st r2 :
  (exists pre, st = pre ++ pop_stack st r2) /\ (st <> [] -> pop_stack st r2 <> []) /\
  match pop_stack st r2 with r1 :: r0 :: _ => drop_test r0 r1 r2 = false | _ => True end.
Proof.
  induction st as [|r1 st' IH].
  - cbn. split; [exists []; reflexivity|]. split; [congruence | exact I].
  - cbn [pop_stack]. destruct st' as [|r0 rest].
    + split; [exists []; reflexivity|]. split; [congruence | exact I].
    + destruct (drop_test r0 r1 r2) eqn:E.
      * destruct IH as ((pre & Hp) & Hn & Hd). split; [exists (r1 :: pre); cbn [app]; f_equal; exact Hp|].
        split; [intros _; apply Hn; congruence | exact Hd].
      * split; [exists []; reflexivity|]. split; [congruence | exact E].
Qed.

Lemma pop_stack_incl st r2 r : In r (pop_stack st r2) -> In r st.
Proof.
  destruct (pop_stack_spec st r2) as ((pre & Hp) & _). intro H. rewrite Hp. apply in_or_app. right. exact H.
Qed.

(* x is non-increasing down the stack, strictly except for the bottom pair *)
Fixpoint dec_chain (st : list pt) : Prop :=
  match st with
  | r1 :: st' =>
      match st' with
      | r0 :: rest => (match rest with [] => px r0 <= px r1 | _ => px r0 < px r1 end) /\ dec_chain st'
      | [] => True
      end
  | [] => True
  end.

Lemma dec_chain_tail a st : dec_chain (a :: st) -> dec_chain st.
Proof. cbn [dec_chain]. destruct st as [|b rest]; [intros _; exact I | intros [_ H]; exact H]. Qed.

Lemma dec_chain_suffix pre s : dec_chain (pre ++ s) -> dec_chain s.
Proof. induction pre as [|a pre IH]; [auto|]. intro H. apply IH. apply (dec_chain_tail a). exact H. Qed.

Lemma dec_chain_step st r2 : dec_chain st -> (forall a, In a st -> pt_le a r2) -> dec_chain (hull_step st r2).
Proof.
  intros Hd Hle. unfold hull_step.
  destruct (pop_stack_spec st r2) as ((pre & Hp) & _ & Ht).
  assert (Hs : dec_chain (pop_stack st r2)) by (apply (dec_chain_suffix pre); rewrite <- Hp; exact Hd).
  assert (Hi : forall a, In a (pop_stack st r2) -> pt_le a r2) by (intros a Ha; apply Hle, (pop_stack_incl _ _ _ Ha)).
  destruct (pop_stack st r2) as [|r1 [|r0 rest]]; cbn [dec_chain].
  - exact I.
  - split; [|exact I]. apply pt_le_px, Hi. left; reflexivity.
  - split; [|exact Hs].
    assert (H1 : pt_le r1 r2) by (apply Hi; left; reflexivity).
    assert (H0 : px r0 <= px r1).
    { cbn [dec_chain] in Hs. destruct Hs as [Hs _]. destruct rest; lra. }
    unfold drop_test, drop_test_xy in Ht. apply Qleb_gt in Ht.
    destruct H1 as [H1|[H1 H1']]; [exact H1|]. exfalso.
    rewrite <- H1 in Ht.
    assert (0 <= (py r2 - py r1) * (px r1 - px r0)) by (apply Qmult_le_0_compat; lra).
    lra.
Qed.

Lemma hull_rev_chain : forall pts st, lsorted pts -> (forall a b, In a st -> In b pts -> pt_le a b) ->
  dec_chain st -> dec_chain (fold_left hull_step pts st).
Proof.
  induction pts as [|r2 pts IH]; intros st Hs Hle Hd; [exact Hd|].
  cbn [fold_left]. destruct Hs as [H1 H2]. apply IH; [exact H2 | | ].
  - intros a b Ha Hb. destruct Ha as [<-|Ha]; [apply H1; exact Hb|].
    apply Hle; [apply (pop_stack_incl _ _ _ Ha) | right; exact Hb].
  - apply dec_chain_step; [exact Hd|]. intros a Ha. apply Hle; [exact Ha | left; reflexivity].
Qed.

Lemma hull_rev_incl : forall pts st r, In r (fold_left hull_step pts st) -> In r st \/ In r pts.
Proof.
  induction pts as [|r2 pts IH]; intros st r H; [left; exact H|].
  cbn [fold_left] in H. destruct (IH _ _ H) as [[<-|H']|H'].
  - right; left; reflexivity.
  - left. apply (pop_stack_incl _ _ _ H').
  - right; right; exact H'.
Qed.

Lemma suffix_bottom {A} (pre s init : list A) b : pre ++ s = init ++ [b] -> s <> [] -> exists i', s = i' ++ [b].
Proof.
  revert init. induction pre as [|a pre IH]; intros init E Hn.
  - exists init. exact E.
  - destruct init as [|a' init'].
    + cbn in E. inversion E as [[E1 E2]]. destruct pre; [cbn in E2; contradiction | discriminate].
    + cbn in E. inversion E as [[E1 E2]]. apply (IH init' E2 Hn).
Qed.

Lemma hull_rev_bottom : forall pts st init b, st = init ++ [b] -> exists init', fold_left hull_step pts st = init' ++ [b].
Proof.
  induction pts as [|r2 pts IH]; intros st init b E; [exists init; exact E|].
  cbn [fold_left]. destruct (pop_stack_spec st r2) as ((pre & Hp) & Hn & _).
  assert (Hne : st <> []) by (rewrite E; destruct init; discriminate).
  rewrite E in Hp at 1. symmetry in Hp. destruct (suffix_bottom _ _ _ _ Hp (Hn Hne)) as (i' & Hi).
  apply (IH _ (r2 :: i')). unfold hull_step. rewrite Hi. reflexivity.
Qed.

Lemma hull_rev_top : forall pts st d, pts <> [] -> exists tl, fold_left hull_step pts st = last pts d :: tl.
Proof.
  induction pts as [|r pts IH]; intros st d Hn; [contradiction|].
  destruct pts as [|r' ps].
  - cbn. eexists. reflexivity.
  - change (last (r :: r' :: ps) d) with (last (r' :: ps) d). cbn [fold_left].
    apply (IH (hull_step st r) d). discriminate.
Qed.

(* hull_sublist_ends, part 1: every hull point is one of the sorted points; the hull keeps the
   first and the last of them *)
Theorem hull_incl pts r : In r (hull pts) -> In r pts.
Proof.
  unfold hull, hull_rev. rewrite <- in_rev. intro H.
  destruct (hull_rev_incl _ _ _ H) as [[]|H']. exact H'.
Qed.

Theorem hull_ends p ps d : exists mid, hull (p :: ps) = p :: mid /\ last (hull (p :: ps)) d = last (p :: ps) d.
Proof.
  unfold hull, hull_rev. cbn [fold_left]. change (hull_step [] p) with [p].
  destruct (hull_rev_bottom ps [p] [] p eq_refl) as (init' & Hb).
  rewrite Hb, rev_app_distr. cbn [rev app]. eexists. split; [reflexivity|].
  destruct ps as [|p' ps'].
  - cbn in Hb. destruct init' as [|a [|b i]]; cbn in Hb; try discriminate. reflexivity.
  - destruct (hull_rev_top (p' :: ps') [p] d ltac:(discriminate)) as (tl & Ht).
    change (last (p :: p' :: ps') d) with (last (p' :: ps') d).
    rewrite <- rev_unit, <- Hb, Ht.
    cbn [rev]. apply last_last.
Qed.

Lemma dec_chain_nth st : dec_chain st -> forall j, (S j < length st)%nat ->
  px (nth (S j) st dpt) <= px (nth j st dpt) /\
  ((S (S j) < length st)%nat -> px (nth (S j) st dpt) < px (nth j st dpt)).
Proof.
  induction st as [|r1 st' IH]; intros Hd j Hj; [cbn in Hj; lia|].
  destruct j as [|j].
  - destruct st' as [|r0 rest]; [cbn in Hj; lia|]. cbn [dec_chain] in Hd. destruct Hd as [Hd _].
    cbn [nth]. destruct rest as [|r rest'].
    + split; [exact Hd | cbn; lia].
    + split; [lra | intros _; exact Hd].
  - cbn [nth length] in *. destruct (IH (dec_chain_tail r1 _ Hd) j ltac:(lia)) as [A B].
    split; [exact A | intro; apply B; lia].
Qed.

(* hull_sublist_ends, part 2: shape of the hull's x column *)
Theorem hull_chain_ok pts : lsorted pts -> (forall p, In p pts -> 0 <= px p /\ px p <= 1) ->
  (exists p, In p pts /\ px p == 0) -> (exists p, In p pts /\ px p == 1) ->
  chain_ok (map px (hull pts)).
Proof.
  intros Hs Hr (p0 & Hp0 & E0) (p1 & Hp1 & E1).
  destruct pts as [|p ps]; [destruct Hp0|].
  destruct (hull_ends p ps dpt) as (mid & Hh & Hl).
  assert (Hd : dec_chain (hull_rev (p :: ps))).
  { apply hull_rev_chain; [exact Hs | intros a b [] | exact I]. }
  assert (Hfirst : px p == 0).
  { destruct (Hr p ltac:(left; reflexivity)) as [A _].
    destruct Hp0 as [<-|Hp0]; [exact E0|]. destruct Hs as [H1 _]. pose proof (pt_le_px _ _ (H1 _ Hp0)). lra. }
  assert (Hlast : px (last (p :: ps) dpt) == 1).
  { pose proof (lsorted_last _ dpt _ Hs Hp1) as A.
    assert (Hin : In (last (p :: ps) dpt) (p :: ps)).
    { clear. revert p. induction ps as [|a t IH]; intro p; [left; reflexivity|].
      change (last (p :: a :: t) dpt) with (last (a :: t) dpt). right. apply IH. }
    destruct (Hr _ Hin) as [_ B]. lra. }
  set (st := hull_rev (p :: ps)) in *.
  assert (Hrev : hull (p :: ps) = rev st) by reflexivity.
  assert (Hlen : length (hull (p :: ps)) = length st) by (rewrite Hrev; apply rev_length).
  assert (Hnth : forall i, (i < length st)%nat -> nth i (map px (hull (p :: ps))) 0 = px (nth (length st - S i) st dpt)).
  { intros i Hi. rewrite nth_map_px, Hrev. rewrite rev_nth by exact Hi. reflexivity. }
  assert (Hn0 : nth 0 (map px (hull (p :: ps))) 0 == 0) by (rewrite Hh; cbn; exact Hfirst).
  assert (Hn1 : nth (length (map px (hull (p :: ps))) - 1) (map px (hull (p :: ps))) 0 == 1).
  { rewrite nth_map_px, map_length. rewrite <- Hlast, <- Hl.
    assert (G : forall (l : list pt), l <> [] -> nth (length l - 1) l dpt = last l dpt).
    { clear. induction l as [|a [|b t] IH]; intro H; [contradiction | reflexivity |].
      change (last (a :: b :: t) dpt) with (last (b :: t) dpt). rewrite <- IH by discriminate.
      cbn [length]. replace (S (S (length t)) - 1)%nat with (S (S (length t) - 1)) by lia. reflexivity. }
    rewrite G by (rewrite Hh; discriminate). reflexivity. }
  assert (H2 : (2 <= length st)%nat).
  { rewrite <- Hlen in *. rewrite map_length in Hn1. destruct (hull (p :: ps)) as [|a [|b t]] eqn:Eh; cbn [length]; try lia.
    - discriminate.
    - cbn in Hn0, Hn1. lra. }
  unfold chain_ok. rewrite map_length, Hlen.
  split; [exact H2|]. split; [exact Hn0|]. split; [rewrite map_length, Hlen in Hn1; exact Hn1|].
  split.
  - intros i Hi. rewrite !Hnth by lia.
    pose proof (dec_chain_nth st Hd (length st - S (S i)) ltac:(lia)) as [A _].
    replace (S (length st - S (S i))) with (length st - S i)%nat in A by lia. exact A.
  - intros i Hi1 Hi. rewrite !Hnth by lia.
    pose proof (dec_chain_nth st Hd (length st - S (S i)) ltac:(lia)) as [_ A].
    replace (S (length st - S (S i))) with (length st - S i)%nat in A by lia. apply A. lia.
Qed.

(* ---------- C05: jensen_chain ---------- *)
(* a randomisation over points: list of (weight, point) *)
Definition wsum (f : pt -> Q) (wp : list (Q * pt)) : Q := qsum (map (fun e => fst e * f (snd e)) wp).
Definition wtot (wp : list (Q * pt)) : Q := qsum (map fst wp).

Lemma is_upper_hull_nth h pts : is_upper_hull h pts = true -> forall i, (S i < length h)%nat ->
  forall p, In p pts -> cross (nth i h dpt) (nth (S i) h dpt) p <= 0.
Proof.
  induction h as [|a t IH]; intros Hu i Hi p Hp; [cbn in Hi; lia|].
  cbn [is_upper_hull] in Hu. destruct t as [|b t']; [cbn in Hi; lia|].
  apply andb_true_iff in Hu. destruct Hu as [H1 H2].
  destruct i as [|i].
  - cbn [nth]. rewrite forallb_forall in H1. apply Qleb_le, H1, Hp.
  - cbn [nth length] in *. apply (IH H2 i ltac:(lia) p Hp).
Qed.

Lemma cross_affine a b wp :
  wsum (cross a b) wp ==
  (px b - px a) * (wsum py wp - py a * wtot wp) - (py b - py a) * (wsum px wp - px a * wtot wp).
Proof.
  unfold wsum, wtot. induction wp as [|[w p] wp IH]; cbn [map qsum fst snd]; [ring|].
  rewrite IH. unfold cross. ring.
Qed.

Lemma wsum_nonpos f wp : (forall e, In e wp -> 0 <= fst e /\ f (snd e) <= 0) -> wsum f wp <= 0.
Proof.
  unfold wsum. induction wp as [|[w p] wp IH]; intro H; cbn [map qsum fst snd]; [lra|].
  destruct (H (w, p) ltac:(left; reflexivity)) as [Hw Hf]. cbn [fst snd] in *.
  specialize (IH ltac:(intros e He; apply H; right; exact He)).
  assert (w * f p <= 0) by nra. lra.
Qed.

(* if chain is an upper hull of pts in the boolean sense, every convex combination of pts lies on
   or below the interpolated curve of the chain (the hull is the concave envelope) *)
Theorem jensen_chain h pts wp x : chain_ok (map px h) -> is_upper_hull h pts = true ->
  (forall e, In e wp -> 0 <= fst e /\ In (snd e) pts) -> wtot wp == 1 ->
  wsum px wp == x -> 0 <= x -> x <= 1 ->
  wsum py wp <= interp_curve h x.
Proof.
  intros Hc Hu Hw Ht HX HX0 HX1. set (Y := wsum py wp) in *.
  assert (Hrow : ipt_ok h (if Qeqb x 0 then interp_first h x else interp_rest h x) /\
                 ix (if Qeqb x 0 then interp_first h x else interp_rest h x) == x).
  { destruct (Qeqb x 0) eqn:E.
    - apply Qeqb_eq in E. split; [apply interp_index_valid_first; assumption | reflexivity].
    - apply Qeqb_neq in E. split; [apply interp_index_valid_rest; try assumption; lra | reflexivity]. }
  unfold interp_curve.
  destruct Hrow as [(i & Hi & _ & _ & P0 & P1 & Ps & Px & Py & Pab) Hx].
  set (r := if Qeqb x 0 then interp_first h x else interp_rest h x) in *.
  set (a := nth i h dpt) in *. set (b := nth (S i) h dpt) in *.
  assert (Hcross : wsum (cross a b) wp <= 0).
  { apply wsum_nonpos. intros e He. destruct (Hw e He) as [W I]. split; [exact W|].
    apply (is_upper_hull_nth h pts Hu i Hi _ I). }
  rewrite cross_affine, Ht, HX in Hcross. fold Y in Hcross.
  rewrite Py. rewrite Hx in Px.
  assert (E1 : x - px a == ip1 r * (px b - px a)) by nra.
  assert (D : 0 < px b - px a) by lra.
  assert (K : (px b - px a) * (Y - (ip0 r * py a + ip1 r * py b)) <= 0).
  { assert (E2 : ip0 r == 1 - ip1 r) by lra. rewrite E2.
    assert (E3 : (px b - px a) * (Y - ((1 - ip1 r) * py a + ip1 r * py b)) ==
                 (px b - px a) * (Y - py a * 1) - (py b - py a) * (ip1 r * (px b - px a))) by ring.
    rewrite E3, <- E1. lra. }
  destruct (Qlt_le_dec (ip0 r * py a + ip1 r * py b) Y) as [L|L]; [|exact L].
  exfalso. assert (0 < (px b - px a) * (Y - (ip0 r * py a + ip1 r * py b))) by (apply Qmult_lt_0_compat; lra). lra.
Qed.

(* ---------- the returned chain is strictly concave ---------- *)
(* every three consecutive hull points fail the drop test: the middle one is strictly above the
   segment joining its neighbours (one half of hull correctness; the other half -- no input point
   lies above the chain -- is the boolean is_upper_hull, evaluated per case) *)
Fixpoint conc (st : list pt) : Prop :=
  match st with
  | r2 :: st' =>
      match st' with
      | r1 :: r0 :: _ => drop_test r0 r1 r2 = false /\ conc st'
      | _ => True
      end
  | [] => True
  end.

Lemma conc_tail a st : conc (a :: st) -> conc st.
Proof. cbn [conc]. destruct st as [|b [|c r]]; try (intros; exact I). intros [_ H]; exact H. Qed.

Lemma conc_suffix pre s : conc (pre ++ s) -> conc s.
Proof. induction pre as [|a pre IH]; [auto|]. intro H. apply IH, (conc_tail a), H. Qed.

Lemma conc_step st r2 : conc st -> conc (hull_step st r2).
Proof.
  intro Hc. unfold hull_step. destruct (pop_stack_spec st r2) as ((pre & Hp) & _ & Ht).
  assert (Hs : conc (pop_stack st r2)) by (apply (conc_suffix pre); rewrite <- Hp; exact Hc).
  destruct (pop_stack st r2) as [|r1 [|r0 rest]]; cbn [conc]; try exact I. split; assumption.
Qed.

Lemma hull_rev_conc pts : forall st, conc st -> conc (fold_left hull_step pts st).
Proof. induction pts as [|r pts IH]; intros st H; [exact H|]. cbn [fold_left]. apply IH, conc_step, H. Qed.

Lemma conc_nth st : conc st -> forall j, (S (S j) < length st)%nat ->
  drop_test (nth (S (S j)) st dpt) (nth (S j) st dpt) (nth j st dpt) = false.
Proof.
  induction st as [|r2 st' IH]; intros Hc j Hj; [cbn in Hj; lia|].
  destruct j as [|j].
  - destruct st' as [|r1 [|r0 rest]]; cbn in Hj; try lia. cbn [conc] in Hc. cbn [nth]. apply Hc.
  - cbn [nth length] in *. apply IH; [apply (conc_tail r2), Hc | lia].
Qed.

Theorem hull_concave pts i : (S (S i) < length (hull pts))%nat ->
  drop_test (nth i (hull pts) dpt) (nth (S i) (hull pts) dpt) (nth (S (S i)) (hull pts) dpt) = false.
Proof.
  unfold hull. rewrite rev_length. intro Hi. set (st := hull_rev pts) in *.
  assert (Hc : conc st) by (apply hull_rev_conc; exact I).
  rewrite !rev_nth by lia.
  pose proof (conc_nth st Hc (length st - S (S (S i))) ltac:(lia)) as H.
  replace (S (S (length st - S (S (S i))))) with (length st - S i)%nat in H by lia.
  replace (S (length st - S (S (S i)))) with (length st - S (S i))%nat in H by lia.
  exact H.
Qed.

(* ====================================================================================== *)
(* hull_is_upper_hull: the monotone chain returns an upper hull of its (sorted) input     *)
(* ====================================================================================== *)
Lemma drop_test_true r0 r1 r2 : drop_test r0 r1 r2 = true <-> cross r0 r2 r1 <= 0.
Proof.
  unfold drop_test, drop_test_xy, cross. rewrite Qleb_le. split; intro H; lra.
Qed.
Lemma drop_test_false r0 r1 r2 : drop_test r0 r1 r2 = false <-> 0 < cross r0 r2 r1.
Proof.
  unfold drop_test, drop_test_xy, cross. rewrite Qleb_gt. split; intro H; lra.
Qed.
Lemma cross_swap a b c : cross a b c == - cross a c b.
Proof. unfold cross. ring. Qed.
Lemma cross_self a b : cross a b b == 0.
Proof. unfold cross. ring. Qed.

(* four-point facts (b is the pivot in each) *)
Lemma cross_chain a b c p : px a <= px b -> px b < px c -> px c <= px p ->
  0 < cross a c b -> cross b c p <= 0 -> cross a b p <= 0.
Proof.
  unfold cross. intros H1 H2 H3 H4 H5.
  set (a1 := px a - px b) in *. set (a2 := py a - py b) in *.
  set (c1 := px c - px b) in *. set (c2 := py c - py b) in *.
  set (p1 := px p - px b) in *. set (p2 := py p - py b) in *.
  assert (A1 : a1 <= 0) by (unfold a1, a2, c1, c2, p1, p2 in *; lra). assert (C1 : 0 < c1) by (unfold a1, a2, c1, c2, p1, p2 in *; lra).
  assert (P1 : 0 < p1) by (unfold a1, a2, c1, c2, p1, p2 in *; lra).
  assert (E4 : 0 < a1 * c2 - a2 * c1) by (unfold a1, a2, c1, c2, p1, p2 in *; lra).
  assert (E5 : c1 * p2 - c2 * p1 <= 0) by (unfold a1, a2, c1, c2, p1, p2 in *; lra).
  assert (G : a2 * p1 - a1 * p2 <= 0).
  { assert (K1 : 0 <= (- a1) * (- (c1 * p2 - c2 * p1))) by (apply Qmult_le_0_compat; lra).
    assert (K2 : 0 < p1 * (a1 * c2 - a2 * c1)) by (apply Qmult_lt_0_compat; lra).
    assert (K3 : c1 * (a2 * p1 - a1 * p2) <= 0) by lra.
    destruct (Qlt_le_dec 0 (a2 * p1 - a1 * p2)) as [L|L]; [|exact L].
    assert (0 < c1 * (a2 * p1 - a1 * p2)) by (apply Qmult_lt_0_compat; lra). lra. }
  unfold a1, a2, c1, c2, p1, p2 in *. lra.
Qed.

(* p to the right of a, below the edge a->b (a.x < b.x), b below the line a->c: p below a->c *)
Lemma cross_right a b c p : px a < px b -> px b <= px c -> px a <= px p ->
  cross a b p <= 0 -> cross a c b <= 0 -> cross a c p <= 0.
Proof.
  unfold cross. intros H1 H2 H3 H4 H5.
  set (b1 := px b - px a) in *. set (b2 := py b - py a) in *.
  set (c1 := px c - px a) in *. set (c2 := py c - py a) in *.
  set (p1 := px p - px a) in *. set (p2 := py p - py a) in *.
  assert (B1 : 0 < b1) by (unfold b1, b2, c1, c2, p1, p2 in *; lra). assert (C1 : 0 <= c1) by (unfold b1, b2, c1, c2, p1, p2 in *; lra).
  assert (P1 : 0 <= p1) by (unfold b1, b2, c1, c2, p1, p2 in *; lra).
  assert (K1 : 0 <= c1 * (- (b1 * p2 - b2 * p1))) by (apply Qmult_le_0_compat; lra).
  assert (K2 : 0 <= p1 * (- (c1 * b2 - c2 * b1))) by (apply Qmult_le_0_compat; lra).
  assert (K3 : b1 * (c1 * p2 - c2 * p1) <= 0) by lra.
  destruct (Qlt_le_dec 0 (c1 * p2 - c2 * p1)) as [L|L]; [|exact L].
  assert (0 < b1 * (c1 * p2 - c2 * p1)) by (apply Qmult_lt_0_compat; lra). lra.
Qed.

(* p to the left of b, below the edge a->b (a.x < b.x), b strictly above the line a->c, c right of b *)
Lemma cross_left a b c p : px a < px b -> px b <= px c -> px p <= px b ->
  cross a b p <= 0 -> 0 < cross a c b -> cross b c p <= 0.
Proof.
  unfold cross. intros H1 H2 H3 H4 H5.
  set (a1 := px a - px b) in *. set (a2 := py a - py b) in *.
  set (c1 := px c - px b) in *. set (c2 := py c - py b) in *.
  set (p1 := px p - px b) in *. set (p2 := py p - py b) in *.
  assert (A1 : a1 < 0) by (unfold a1, a2, c1, c2, p1, p2 in *; lra). assert (C1 : 0 <= c1) by (unfold a1, a2, c1, c2, p1, p2 in *; lra).
  assert (P1 : p1 <= 0) by (unfold a1, a2, c1, c2, p1, p2 in *; lra).
  assert (E4 : a2 * p1 - a1 * p2 <= 0) by (unfold a1, a2, c1, c2, p1, p2 in *; lra).
  assert (E5 : 0 < a1 * c2 - a2 * c1) by (unfold a1, a2, c1, c2, p1, p2 in *; lra).
  assert (K1 : 0 <= c1 * (- (a2 * p1 - a1 * p2))) by (apply Qmult_le_0_compat; lra).
  assert (K2 : 0 <= (- p1) * (a1 * c2 - a2 * c1)) by (apply Qmult_le_0_compat; lra).
  assert (K3 : (- a1) * (c1 * p2 - c2 * p1) <= 0) by lra.
  destruct (Qlt_le_dec 0 (c1 * p2 - c2 * p1)) as [L|L]; [|exact L].
  assert (0 < (- a1) * (c1 * p2 - c2 * p1)) by (apply Qmult_lt_0_compat; lra). lra.
Qed.

(* adjacent pairs of the stack: Q lower upper *)
Fixpoint edges (st : list pt) (Q : pt -> pt -> Prop) : Prop :=
  match st with
  | b :: st' => match st' with a :: _ => Q a b /\ edges st' Q | [] => True end
  | [] => True
  end.

Lemma edges_tail a st Q : edges (a :: st) Q -> edges st Q.
Proof. cbn [edges]. destruct st as [|b r]; [intros _; exact I | intros [_ H]; exact H]. Qed.
Lemma edges_suffix pre s Q : edges (pre ++ s) Q -> edges s Q.
Proof. induction pre as [|a pre IH]; [auto|]. intro H. apply IH, (edges_tail a), H. Qed.
Lemma edges_and st (Q1 Q2 Q : pt -> pt -> Prop) : (forall a b, Q1 a b -> Q2 a b -> Q a b) ->
  edges st Q1 -> edges st Q2 -> edges st Q.
Proof.
  intro HQ. induction st as [|b st IH]; [auto|]. cbn [edges]. destruct st as [|a r]; [auto|].
  intros [A1 A2] [B1 B2]. split; [apply HQ; assumption | apply IH; assumption].
Qed.
Lemma edges_nth st Q : edges st Q -> forall j, (S j < length st)%nat -> Q (nth (S j) st dpt) (nth j st dpt).
Proof.
  induction st as [|b st IH]; intros H j Hj; [cbn in Hj; lia|].
  destruct j as [|j].
  - destruct st as [|a r]; [cbn in Hj; lia|]. cbn [edges] in H. cbn [nth]. apply H.
  - cbn [nth length] in *. apply IH; [apply (edges_tail b), H | lia].
Qed.

Definition below_all (P : list pt) (a b : pt) : Prop := forall p, In p P -> cross a b p <= 0.
Definition Hr (P : list pt) (r2 t : pt) : Prop := forall p, In p P -> px t <= px p -> cross t r2 p <= 0.

(* r2 (to the right of the whole stack, below its top edge) is below every edge line *)
Lemma below_chain p : forall s, conc s -> dec_chain s ->
  match s with t :: t1 :: _ => cross t1 t p <= 0 /\ px t <= px p | _ => True end ->
  edges s (fun a b => cross a b p <= 0).
Proof.
  induction s as [|t s' IH]; intros Hc Hd H; [exact I|].
  cbn [edges]. destruct s' as [|t1 s'']; [exact I|]. destruct H as [H1 H2]. split; [exact H1|].
  apply IH; [apply (conc_tail t), Hc | apply (dec_chain_tail t), Hd |].
  destruct s'' as [|t2 s3]; [exact I|].
  cbn [conc] in Hc. destruct Hc as [Hc _]. apply drop_test_false in Hc.
  cbn [dec_chain] in Hd. destruct Hd as [Hd1 [Hd2 _]].
  assert (X21 : px t2 <= px t1) by (destruct s3; lra).
  split; [|lra]. apply (cross_chain t2 t1 t p); try assumption.
Qed.

(* the popping loop keeps: every processed point to the right of the current top is below top->r2 *)
Lemma pop_Hr P r2 : (forall p, In p P -> pt_le p r2) -> forall st, dec_chain st -> edges st pt_le ->
  (forall a, In a st -> px a <= px r2) -> edges st (below_all P) ->
  match st with t :: _ => Hr P r2 t | [] => True end ->
  match pop_stack st r2 with t :: _ => Hr P r2 t | [] => True end.
Proof.
  intros SP. induction st as [|r1 st' IH]; intros Hd Hl Hx HU HH; [exact I|].
  cbn [pop_stack]. destruct st' as [|r0 rest]; [exact HH|].
  destruct (drop_test r0 r1 r2) eqn:E; [|exact HH].
  apply drop_test_true in E.
  apply IH; [apply (dec_chain_tail r1), Hd | apply (edges_tail r1), Hl | intros a Ha; apply Hx; right; exact Ha
            | apply (edges_tail r1), HU |].
  cbn [edges] in HU, Hl. destruct HU as [HU _]. destruct Hl as [Hl _].
  cbn [dec_chain] in Hd. destruct Hd as [Hd _].
  assert (X01 : px r0 <= px r1) by (destruct rest; lra).
  assert (X12 : px r1 <= px r2) by (apply Hx; left; reflexivity).
  intros p Hp Hpx. specialize (HU p Hp).
  destruct (Qlt_le_dec (px r0) (px r1)) as [L|L].
  - apply (cross_right r0 r1 r2 p); assumption.
  - assert (EX : px r0 == px r1) by lra.
    destruct Hl as [Hl|[_ Hl]]; [lra|].
    destruct (Qlt_le_dec (py r0) (py r1)) as [LY|LY].
    + (* r1 strictly above r0 on the same vertical: dropping it forces r2 onto that vertical too *)
      unfold cross in E, HU |- *. rewrite <- EX in E.
      assert (Z : (px r2 - px r0) * (py r1 - py r0) <= 0) by lra.
      assert (C0 : 0 <= px r2 - px r0) by lra.
      assert (Z2 : 0 <= (px r2 - px r0) * (py r1 - py r0)) by (apply Qmult_le_0_compat; lra).
      assert (Z3 : px r2 - px r0 == 0).
      { destruct (Qlt_le_dec 0 (px r2 - px r0)) as [G|G]; [|lra].
        assert (0 < (px r2 - px r0) * (py r1 - py r0)) by (apply Qmult_lt_0_compat; lra). lra. }
      pose proof (pt_le_px _ _ (SP p Hp)) as PX.
      assert (P0 : px p - px r0 == 0) by lra.
      rewrite Z3, P0. lra.
    + (* r1 and r0 coincide *)
      assert (EY : py r0 == py r1) by lra.
      assert (G := HH p Hp ltac:(lra)). unfold cross in G |- *. rewrite EX, EY. exact G.
Qed.

Lemma pt_le_refl a : pt_le a a.
Proof. right. split; lra. Qed.

Lemma edges_dec_chain_strict t t1 t2 r : dec_chain (t :: t1 :: t2 :: r) -> px t1 < px t.
Proof. cbn [dec_chain]. intros [H _]. exact H. Qed.

(* one step of the for loop preserves "every edge of the stack has all processed points on/below" *)
Lemma U_step P r2 st init bt : st = init ++ [bt] -> dec_chain st -> conc st -> edges st pt_le ->
  edges st (below_all P) -> (forall p, In p P -> pt_le p r2) -> (forall a, In a st -> pt_le a r2) ->
  (forall p, In p P -> pt_le bt p) ->
  (match st with t :: _ => forall p, In p P -> pt_le p t | [] => True end) ->
  edges (hull_step st r2) (below_all (r2 :: P)).
Proof.
  intros Est Hd Hc Hl HU SP SA BP TM. unfold hull_step.
  destruct (pop_stack_spec st r2) as ((pre & Hp) & Hne & Ht).
  assert (Hne' : pop_stack st r2 <> []) by (apply Hne; rewrite Est; destruct init; discriminate).
  assert (HX : forall a, In a st -> px a <= px r2) by (intros a Ha; apply pt_le_px, SA, Ha).
  assert (HH0 : match st with t :: _ => Hr P r2 t | [] => True end).
  { destruct st as [|t st0]; [exact I|]. intros p Hpp Hpx.
    pose proof (TM p Hpp) as [A|[A B]]; [lra|].
    pose proof (HX t ltac:(left; reflexivity)) as XT.
    unfold cross. rewrite A.
    assert (0 <= (px r2 - px t) * (py t - py p)) by (apply Qmult_le_0_compat; lra). lra. }
  pose proof (pop_Hr P r2 SP st Hd Hl HX HU HH0) as HH.
  assert (Hds : dec_chain (pop_stack st r2)) by (apply (dec_chain_suffix pre); rewrite <- Hp; exact Hd).
  assert (Hcs : conc (pop_stack st r2)) by (apply (conc_suffix pre); rewrite <- Hp; exact Hc).
  assert (HUs : edges (pop_stack st r2) (below_all P)) by (apply (edges_suffix pre); rewrite <- Hp; exact HU).
  assert (Hbt : exists i', pop_stack st r2 = i' ++ [bt]).
  { apply (suffix_bottom pre _ init); [rewrite <- Hp; exact Est | exact Hne']. }
  assert (Hin : forall a, In a (pop_stack st r2) -> In a st) by (intros a Ha; apply (pop_stack_incl _ _ _ Ha)).
  destruct (pop_stack st r2) as [|t s'] eqn:Es; [contradiction|].
  assert (XT : px t <= px r2) by (apply HX, Hin; left; reflexivity).
  cbn [edges]. split.
  - (* the new edge t -> r2 *)
    intros p [<-|Hpp]; [rewrite cross_self; lra|].
    destruct (Qlt_le_dec (px p) (px t)) as [L|L]; [|apply HH; assumption].
    destruct s' as [|t1 s''].
    + destruct Hbt as (i' & Hi). destruct i' as [|x [|y i']]; cbn in Hi; try discriminate.
      inversion Hi; subst t. pose proof (pt_le_px _ _ (BP p Hpp)). lra.
    + apply drop_test_false in Ht.
      cbn [edges] in HUs. destruct HUs as [HUe _]. specialize (HUe p Hpp).
      assert (X1 : px t1 <= px t).
      { cbn [dec_chain] in Hds. destruct Hds as [Hds _]. destruct s''; lra. }
      destruct (Qlt_le_dec (px t1) (px t)) as [L1|L1].
      * apply (cross_left t1 t r2 p); try assumption; lra.
      * (* t1 on the same vertical as t: t1 is the bottom, and p would be left of it *)
        destruct s'' as [|t2 s3]; [|pose proof (edges_dec_chain_strict _ _ _ _ Hds); lra].
        destruct Hbt as (i' & Hi). destruct i' as [|x [|y [|z i']]]; cbn in Hi; try discriminate.
        inversion Hi; subst. pose proof (pt_le_px _ _ (BP p Hpp)). lra.
  - (* old edges: r2 is below them, the processed points were *)
    change (edges (t :: s') (below_all (r2 :: P))).
    apply (edges_and _ (fun a b => cross a b r2 <= 0) (below_all P)).
    + intros a b Q1 Q2 p [<-|Hpp]; [exact Q1 | apply Q2; exact Hpp].
    + apply below_chain; try assumption. destruct s' as [|t1 s'']; [exact I|].
      apply drop_test_false in Ht. split; [rewrite cross_swap; lra | exact XT].
    + exact HUs.
Qed.

Lemma hull_rev_upper : forall pts st P init bt, st = init ++ [bt] -> lsorted pts ->
  dec_chain st -> conc st -> edges st pt_le -> edges st (below_all P) ->
  (forall p b, In p P -> In b pts -> pt_le p b) -> (forall a b, In a st -> In b pts -> pt_le a b) ->
  (forall p, In p P -> pt_le bt p) -> (forall b, In b pts -> pt_le bt b) ->
  (match st with t :: _ => forall p, In p P -> pt_le p t | [] => True end) ->
  edges (fold_left hull_step pts st) (below_all (rev pts ++ P)).
Proof.
  induction pts as [|r2 pts IH]; intros st P init bt Est Hs Hd Hc Hl HU SP SA BP BB TM.
  - cbn. exact HU.
  - cbn [fold_left rev]. rewrite <- app_assoc. cbn [app].
    destruct Hs as [Hs1 Hs2].
    destruct (pop_stack_spec st r2) as ((pre & Hp) & Hne & _).
    assert (Hne' : pop_stack st r2 <> []) by (apply Hne; rewrite Est; destruct init; discriminate).
    destruct (suffix_bottom pre (pop_stack st r2) init bt ltac:(rewrite <- Hp; exact Est) Hne') as (i' & Hi).
    apply (IH (hull_step st r2) (r2 :: P) (r2 :: i') bt).
    + unfold hull_step. rewrite Hi. reflexivity.
    + exact Hs2.
    + apply dec_chain_step; [exact Hd|]. intros a Ha. apply SA; [exact Ha | left; reflexivity].
    + apply conc_step, Hc.
    + unfold hull_step. assert (Hls : edges (pop_stack st r2) pt_le) by (apply (edges_suffix pre); rewrite <- Hp; exact Hl).
      destruct (pop_stack st r2) as [|t s'] eqn:Es; [contradiction|]. cbn [edges]. split; [|exact Hls].
      apply SA; [apply (pop_stack_incl st r2); rewrite Es; left; reflexivity | left; reflexivity].
    + apply (U_step P r2 st init bt); try assumption.
      * intros p Hp'. apply SP; [exact Hp' | left; reflexivity].
      * intros a Ha. apply SA; [exact Ha | left; reflexivity].
    + intros p b [<-|Hp'] Hb; [apply Hs1; exact Hb | apply SP; [exact Hp' | right; exact Hb]].
    + intros a b [<-|Ha] Hb; [apply Hs1; exact Hb|].
      apply SA; [apply (pop_stack_incl _ _ _ Ha) | right; exact Hb].
    + intros p [<-|Hp']; [apply BB; left; reflexivity | apply BP; exact Hp'].
    + intros b Hb. apply BB. right; exact Hb.
    + unfold hull_step. intros p [<-|Hp']; [apply pt_le_refl | apply SP; [exact Hp' | left; reflexivity]].
Qed.

Lemma is_upper_hull_of_nth h pts :
  (forall i, (S i < length h)%nat -> forall p, In p pts -> cross (nth i h dpt) (nth (S i) h dpt) p <= 0) ->
  is_upper_hull h pts = true.
Proof.
  induction h as [|a t IH]; intro H; [reflexivity|].
  cbn [is_upper_hull]. destruct t as [|b t']; [reflexivity|].
  apply andb_true_iff. split.
  - apply forallb_forall. intros p Hp. apply Qleb_le. apply (H 0%nat); [cbn; lia | exact Hp].
  - apply IH. intros i Hi p Hp. apply (H (S i)); [cbn [length] in *; lia | exact Hp].
Qed.

(* hull_is_upper_hull: for every list sorted by (x, y), no point of the list lies above the line
   through two consecutive points of the returned chain *)
Theorem hull_is_upper_hull pts : lsorted pts -> is_upper_hull (hull pts) pts = true.
Proof.
  intro Hs. destruct pts as [|p0 ps]; [reflexivity|].
  apply is_upper_hull_of_nth. unfold hull, hull_rev. cbn [fold_left]. change (hull_step [] p0) with [p0].
  destruct Hs as [Hs1 Hs2].
  assert (HU : edges (fold_left hull_step ps [p0]) (below_all (rev ps ++ [p0]))).
  { apply (hull_rev_upper ps [p0] [p0] [] p0); try assumption; try reflexivity; try exact I.
    - intros p b [<-|[]] Hb. apply Hs1, Hb.
    - intros a b [<-|[]] Hb. apply Hs1, Hb.
    - intros p [<-|[]]. apply pt_le_refl.
    - intros p [<-|[]]. apply pt_le_refl. }
  set (st := fold_left hull_step ps [p0]) in *.
  rewrite rev_length. intros i Hi p Hp.
  rewrite !rev_nth by lia.
  pose proof (edges_nth st _ HU (length st - S (S i)) ltac:(lia)) as H.
  replace (S (length st - S (S i))) with (length st - S i)%nat in H by lia.
  apply H. apply in_or_app. destruct Hp as [<-|Hp]; [right; left; reflexivity | left; apply in_rev in Hp; exact Hp].
Qed.
