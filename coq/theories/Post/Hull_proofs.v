(* Lemmas about the (x, y) sort and the monotone-chain loop: hull_sublist_ends, the shape of the
   hull's x column (chain_ok), and jensen_chain (C05). *)
From Coq Require Import QArith ZArith List Bool Lia Lra Psatz.
From FL Require Import Num Tradeoff Tradeoff_proofs Hull Interp Interp_proofs.
Import ListNotations.
Open Scope Q_scope.

(* ---------- lexicographic order and the sort ---------- *)
Definition pt_le (a b : pt) : Prop := px a < px b \/ (px a == px b /\ py a <= py b).

Lemma pt_leb_le a b : pt_leb a b = true <-> pt_le a b.
Proof.
  unfold pt_leb, pt_le. rewrite orb_true_iff, andb_true_iff, Qltb_lt, Qeqb_eq, Qleb_le. reflexivity.
Qed.

Lemma pt_leb_false a b : pt_leb a b = false -> pt_le b a.
Proof.
  unfold pt_leb, pt_le. rewrite orb_false_iff, andb_false_iff, Qltb_ge, Qeqb_neq, Qleb_gt.
  intros [H1 [H2|H2]].
  - left. destruct (Qlt_le_dec (px b) (px a)) as [L|L]; [exact L|]. exfalso. apply H2. lra.
  - destruct (Qlt_le_dec (px b) (px a)) as [L|L]; [left; exact L|]. right. split; lra.
Qed.

Lemma pt_le_trans a b c : pt_le a b -> pt_le b c -> pt_le a c.
Proof. unfold pt_le. intros [H1|[H1 H1']] [H2|[H2 H2']]; [left; lra | left; lra | left; lra | right; split; lra]. Qed.

Lemma pt_le_px a b : pt_le a b -> px a <= px b.
Proof. intros [H|[H _]]; lra. Qed.

Fixpoint lsorted (l : list pt) : Prop :=
  match l with
  | [] => True
  | h :: t => (forall r, In r t -> pt_le h r) /\ lsorted t
  end.

Lemma ins_xy_in a l r : In r (ins_xy a l) <-> r = a \/ In r l.
Proof.
  induction l as [|h t IH]; cbn [ins_xy].
  - cbn. intuition congruence.
  - destruct (pt_leb a h).
    + cbn. intuition congruence.
    + cbn [In]. rewrite IH. intuition congruence.
Qed.

Lemma sort_xy_in l r : In r (sort_xy l) <-> In r l.
Proof.
  induction l as [|h t IH]; [reflexivity|]. cbn [sort_xy fold_right]. fold (sort_xy t).
  rewrite ins_xy_in, IH. cbn. intuition congruence.
Qed.

Lemma ins_xy_sorted a l : lsorted l -> lsorted (ins_xy a l).
Proof.
  induction l as [|h t IH]; intro H.
  - cbn. split; [intros r []|exact I].
  - cbn [ins_xy]. destruct (pt_leb a h) eqn:E.
    + apply pt_leb_le in E. cbn [lsorted]. split; [|exact H].
      intros r [Hr|Hr]; [subst r; exact E|]. destruct H as [H1 _]. apply (pt_le_trans _ _ _ E), H1, Hr.
    + apply pt_leb_false in E. destruct H as [H1 H2]. cbn [lsorted]. split; [|apply IH; exact H2].
      intros r Hr. apply ins_xy_in in Hr. destruct Hr as [->|Hr]; [exact E | apply H1; exact Hr].
Qed.

Lemma sort_xy_sorted l : lsorted (sort_xy l).
Proof. induction l as [|h t IH]; [exact I|]. cbn [sort_xy fold_right]. apply ins_xy_sorted. exact IH. Qed.

Lemma lsorted_last l d p : lsorted l -> In p l -> px p <= px (last l d).
Proof.
  induction l as [|h t IH]; intros Hs Hin; [destruct Hin|].
  destruct Hs as [H1 H2]. destruct t as [|h' t'].
  - destruct Hin as [->|[]]. cbn. lra.
  - change (last (h :: h' :: t') d) with (last (h' :: t') d).
    destruct Hin as [->|Hin]; [|apply IH; assumption].
    assert (Hl : In (last (h' :: t') d) (h' :: t')).
    { clear. revert h'. induction t' as [|a t IH]; intro h'; [left; reflexivity|].
      change (last (h' :: a :: t) d) with (last (a :: t) d). right. apply IH. }
    apply pt_le_px, H1, Hl.
Qed.

(* ---------- the stack loop ---------- *)
Lemma pop_stack_spec st r2 :
  (exists pre, st = pre ++ pop_stack st r2) /\ (st <> [] -> pop_stack st r2 <> []) /\
  match pop_stack st r2 with r1 :: r0 :: _ => drop_test r0 r1 r2 = false | _ => True end.
Proof.
  induction st as [|r1 st' IH].
  - cbn. split; [exists []; reflexivity|]. split; [congruence | exact I].
  - cbn [pop_stack]. destruct st' as [|r0 rest].
    + split; [exists []; reflexivity|]. split; [congruence | exact I].
    + destruct (drop_test r0 r1 r2) eqn:E.
      * destruct IH as ((pre & Hp) & Hn & Hd). split; [exists (r1 :: pre); cbn [app]; f_equal; exact Hp|].
        split; [intros _; apply Hn; congruence | exact Hd].
      * split; [exists []; reflexivity|]. split; [congruence | exact E].
Qed.

Lemma pop_stack_incl st r2 r : In r (pop_stack st r2) -> In r st.
Proof.
  destruct (pop_stack_spec st r2) as ((pre & Hp) & _). intro H. rewrite Hp. apply in_or_app. right. exact H.
Qed.

(* x is non-increasing down the stack, strictly except for the bottom pair *)
Fixpoint dec_chain (st : list pt) : Prop :=
  match st with
  | r1 :: st' =>
      match st' with
      | r0 :: rest => (match rest with [] => px r0 <= px r1 | _ => px r0 < px r1 end) /\ dec_chain st'
      | [] => True
      end
  | [] => True
  end.

Lemma dec_chain_tail a st : dec_chain (a :: st) -> dec_chain st.
Proof. cbn [dec_chain]. destruct st as [|b rest]; [intros _; exact I | intros [_ H]; exact H]. Qed.

Lemma dec_chain_suffix pre s : dec_chain (pre ++ s) -> dec_chain s.
Proof. induction pre as [|a pre IH]; [auto|]. intro H. apply IH. apply (dec_chain_tail a). exact H. Qed.

Lemma dec_chain_step st r2 : dec_chain st -> (forall a, In a st -> pt_le a r2) -> dec_chain (hull_step st r2).
Proof.
  intros Hd Hle. unfold hull_step.
  destruct (pop_stack_spec st r2) as ((pre & Hp) & _ & Ht).
  assert (Hs : dec_chain (pop_stack st r2)) by (apply (dec_chain_suffix pre); rewrite <- Hp; exact Hd).
  assert (Hi : forall a, In a (pop_stack st r2) -> pt_le a r2) by (intros a Ha; apply Hle, (pop_stack_incl _ _ _ Ha)).
  destruct (pop_stack st r2) as [|r1 [|r0 rest]]; cbn [dec_chain].
  - exact I.
  - split; [|exact I]. apply pt_le_px, Hi. left; reflexivity.
  - split; [|exact Hs].
    assert (H1 : pt_le r1 r2) by (apply Hi; left; reflexivity).
    assert (H0 : px r0 <= px r1).
    { cbn [dec_chain] in Hs. destruct Hs as [Hs _]. destruct rest; lra. }
    unfold drop_test, drop_test_xy in Ht. apply Qleb_gt in Ht.
    destruct H1 as [H1|[H1 H1']]; [exact H1|]. exfalso.
    rewrite <- H1 in Ht.
    assert (0 <= (py r2 - py r1) * (px r1 - px r0)) by (apply Qmult_le_0_compat; lra).
    lra.
Qed.

Lemma hull_rev_chain : forall pts st, lsorted pts -> (forall a b, In a st -> In b pts -> pt_le a b) ->
  dec_chain st -> dec_chain (fold_left hull_step pts st).
Proof.
  induction pts as [|r2 pts IH]; intros st Hs Hle Hd; [exact Hd|].
  cbn [fold_left]. destruct Hs as [H1 H2]. apply IH; [exact H2 | | ].
  - intros a b Ha Hb. destruct Ha as [<-|Ha]; [apply H1; exact Hb|].
    apply Hle; [apply (pop_stack_incl _ _ _ Ha) | right; exact Hb].
  - apply dec_chain_step; [exact Hd|]. intros a Ha. apply Hle; [exact Ha | left; reflexivity].
Qed.

Lemma hull_rev_incl : forall pts st r, In r (fold_left hull_step pts st) -> In r st \/ In r pts.
Proof.
  induction pts as [|r2 pts IH]; intros st r H; [left; exact H|].
  cbn [fold_left] in H. destruct (IH _ _ H) as [[<-|H']|H'].
  - right; left; reflexivity.
  - left. apply (pop_stack_incl _ _ _ H').
  - right; right; exact H'.
Qed.

Lemma suffix_bottom {A} (pre s init : list A) b : pre ++ s = init ++ [b] -> s <> [] -> exists i', s = i' ++ [b].
Proof.
  revert init. induction pre as [|a pre IH]; intros init E Hn.
  - exists init. exact E.
  - destruct init as [|a' init'].
    + cbn in E. inversion E as [[E1 E2]]. destruct pre; [cbn in E2; contradiction | discriminate].
    + cbn in E. inversion E as [[E1 E2]]. apply (IH init' E2 Hn).
Qed.

Lemma hull_rev_bottom : forall pts st init b, st = init ++ [b] -> exists init', fold_left hull_step pts st = init' ++ [b].
Proof.
  induction pts as [|r2 pts IH]; intros st init b E; [exists init; exact E|].
  cbn [fold_left]. destruct (pop_stack_spec st r2) as ((pre & Hp) & Hn & _).
  assert (Hne : st <> []) by (rewrite E; destruct init; discriminate).
  rewrite E in Hp at 1. symmetry in Hp. destruct (suffix_bottom _ _ _ _ Hp (Hn Hne)) as (i' & Hi).
  apply (IH _ (r2 :: i')). unfold hull_step. rewrite Hi. reflexivity.
Qed.

Lemma hull_rev_top : forall pts st d, pts <> [] -> exists tl, fold_left hull_step pts st = last pts d :: tl.
Proof.
  induction pts as [|r pts IH]; intros st d Hn; [contradiction|].
  destruct pts as [|r' ps].
  - cbn. eexists. reflexivity.
  - change (last (r :: r' :: ps) d) with (last (r' :: ps) d). cbn [fold_left].
    apply (IH (hull_step st r) d). discriminate.
Qed.

(* hull_sublist_ends, part 1: every hull point is one of the sorted points; the hull keeps the
   first and the last of them *)
Theorem hull_incl pts r : In r (hull pts) -> In r pts.
Proof.
  unfold hull, hull_rev. rewrite <- in_rev. intro H.
  destruct (hull_rev_incl _ _ _ H) as [[]|H']. exact H'.
Qed.

Theorem hull_ends p ps d : exists mid, hull (p :: ps) = p :: mid /\ last (hull (p :: ps)) d = last (p :: ps) d.
Proof.
  unfold hull, hull_rev. cbn [fold_left]. change (hull_step [] p) with [p].
  destruct (hull_rev_bottom ps [p] [] p eq_refl) as (init' & Hb).
  rewrite Hb, rev_app_distr. cbn [rev app]. eexists. split; [reflexivity|].
  destruct ps as [|p' ps'].
  - cbn in Hb. destruct init' as [|a [|b i]]; cbn in Hb; try discriminate. reflexivity.
  - destruct (hull_rev_top (p' :: ps') [p] d ltac:(discriminate)) as (tl & Ht).
    change (last (p :: p' :: ps') d) with (last (p' :: ps') d).
    rewrite <- rev_unit, <- Hb, Ht.
    cbn [rev]. apply last_last.
Qed.

Lemma dec_chain_nth st : dec_chain st -> forall j, (S j < length st)%nat ->
  px (nth (S j) st dpt) <= px (nth j st dpt) /\
  ((S (S j) < length st)%nat -> px (nth (S j) st dpt) < px (nth j st dpt)).
Proof.
  induction st as [|r1 st' IH]; intros Hd j Hj; [cbn in Hj; lia|].
  destruct j as [|j].
  - destruct st' as [|r0 rest]; [cbn in Hj; lia|]. cbn [dec_chain] in Hd. destruct Hd as [Hd _].
    cbn [nth]. destruct rest as [|r rest'].
    + split; [exact Hd | cbn; lia].
    + split; [lra | intros _; exact Hd].
  - cbn [nth length] in *. destruct (IH (dec_chain_tail r1 _ Hd) j ltac:(lia)) as [A B].
    split; [exact A | intro; apply B; lia].
Qed.

(* hull_sublist_ends, part 2: shape of the hull's x column *)
Theorem hull_chain_ok pts : lsorted pts -> (forall p, In p pts -> 0 <= px p /\ px p <= 1) ->
  (exists p, In p pts /\ px p == 0) -> (exists p, In p pts /\ px p == 1) ->
  chain_ok (map px (hull pts)).
Proof.
  intros Hs Hr (p0 & Hp0 & E0) (p1 & Hp1 & E1).
  destruct pts as [|p ps]; [destruct Hp0|].
  destruct (hull_ends p ps dpt) as (mid & Hh & Hl).
  assert (Hd : dec_chain (hull_rev (p :: ps))).
  { apply hull_rev_chain; [exact Hs | intros a b [] | exact I]. }
  assert (Hfirst : px p == 0).
  { destruct (Hr p ltac:(left; reflexivity)) as [A _].
    destruct Hp0 as [<-|Hp0]; [exact E0|]. destruct Hs as [H1 _]. pose proof (pt_le_px _ _ (H1 _ Hp0)). lra. }
  assert (Hlast : px (last (p :: ps) dpt) == 1).
  { pose proof (lsorted_last _ dpt _ Hs Hp1) as A.
    assert (Hin : In (last (p :: ps) dpt) (p :: ps)).
    { clear. revert p. induction ps as [|a t IH]; intro p; [left; reflexivity|].
      change (last (p :: a :: t) dpt) with (last (a :: t) dpt). right. apply IH. }
    destruct (Hr _ Hin) as [_ B]. lra. }
  set (st := hull_rev (p :: ps)) in *.
  assert (Hrev : hull (p :: ps) = rev st) by reflexivity.
  assert (Hlen : length (hull (p :: ps)) = length st) by (rewrite Hrev; apply rev_length).
  assert (Hnth : forall i, (i < length st)%nat -> nth i (map px (hull (p :: ps))) 0 = px (nth (length st - S i) st dpt)).
  { intros i Hi. rewrite nth_map_px, Hrev. rewrite rev_nth by exact Hi. reflexivity. }
  assert (Hn0 : nth 0 (map px (hull (p :: ps))) 0 == 0) by (rewrite Hh; cbn; exact Hfirst).
  assert (Hn1 : nth (length (map px (hull (p :: ps))) - 1) (map px (hull (p :: ps))) 0 == 1).
  { rewrite nth_map_px, map_length. rewrite <- Hlast, <- Hl.
    assert (G : forall (l : list pt), l <> [] -> nth (length l - 1) l dpt = last l dpt).
    { clear. induction l as [|a [|b t] IH]; intro H; [contradiction | reflexivity |].
      change (last (a :: b :: t) dpt) with (last (b :: t) dpt). rewrite <- IH by discriminate.
      cbn [length]. replace (S (S (length t)) - 1)%nat with (S (S (length t) - 1)) by lia. reflexivity. }
    rewrite G by (rewrite Hh; discriminate). reflexivity. }
  assert (H2 : (2 <= length st)%nat).
  { rewrite <- Hlen in *. rewrite map_length in Hn1. destruct (hull (p :: ps)) as [|a [|b t]] eqn:Eh; cbn [length]; try lia.
    - discriminate.
    - cbn in Hn0, Hn1. lra. }
  unfold chain_ok. rewrite map_length, Hlen.
  split; [exact H2|]. split; [exact Hn0|]. split; [rewrite map_length, Hlen in Hn1; exact Hn1|].
  split.
  - intros i Hi. rewrite !Hnth by lia.
    pose proof (dec_chain_nth st Hd (length st - S (S i)) ltac:(lia)) as [A _].
    replace (S (length st - S (S i))) with (length st - S i)%nat in A by lia. exact A.
  - intros i Hi1 Hi. rewrite !Hnth by lia.
    pose proof (dec_chain_nth st Hd (length st - S (S i)) ltac:(lia)) as [_ A].
    replace (S (length st - S (S i))) with (length st - S i)%nat in A by lia. apply A. lia.
Qed.
