(* C10 (extension) -- the rules / weights produced by the FIT models satisfy the hypotheses of the
   predict-side theorems of Thresholder_proofs.v. *)
From Coq Require Import QArith ZArith List Bool Lia Lra Psatz Permutation.
From FL Require Import Num Flat ListX Tradeoff Tradeoff_proofs Hull Hull_proofs Interp Interp_proofs
                       ThreshOpt ThreshOpt_proofs ThresholderBridge.
From FL Require Thresholder Thresholder_proofs Saddle Saddle_proofs SaddleFit SaddleFit_proofs.
Import ListNotations.
Open Scope Q_scope.

Module TP := Thresholder_proofs.
Module SP := Saddle_proofs.
Module SFP := SaddleFit_proofs.

(* ====================================================================================== *)
(* 1. the converted rule reports the pmf of the C04 model                                  *)
(* ====================================================================================== *)

Lemma Zpos_2D D : Zpos (2 * D) = (2 * Zpos D)%Z.
Proof. reflexivity. Qed.

Lemma conv_gt_mid D w s : Qltb (w # (2 * D)) (s # D) = (w <? 2 * s)%Z.
Proof.
  apply eq_true_iff_eq. rewrite Qltb_lt, Z.ltb_lt. unfold Qlt. cbn [Qnum Qden].
  rewrite Zpos_2D. pose proof (Pos2Z.is_pos D). nia.
Qed.

Lemma conv_lt_mid D w s : Qltb (s # D) (w # (2 * D)) = (2 * s <? w)%Z.
Proof.
  apply eq_true_iff_eq. rewrite Qltb_lt, Z.ltb_lt. unfold Qlt. cbn [Qnum Qden].
  rewrite Zpos_2D. pose proof (Pos2Z.is_pos D). nia.
Qed.

(* ThresholdOperation.__call__ on the real score s / D = the C04 model's operation on the integer s *)
Lemma conv_apply_op D o s : T.apply_op (conv_op D o) (s # D) = apply_op o s.
Proof.
  destruct o as [k t]. unfold T.apply_op, conv_op, apply_op. cbn [T.t_op T.t_thr op_kind op_thr].
  destruct k, t; cbn [conv_kind conv_thr ext_ltb above below]; try reflexivity.
  - apply conv_gt_mid.
  - apply conv_lt_mid.
Qed.

Lemma b2q_ind b : T.b2q b = ind b.
Proof. destruct b; reflexivity. Qed.

(* conv_pmf: InterpolatedThresholder._pmf_predict of the converted rule at the score s / D is the pmf
   the C04 / C05 theorems (parity, optimality) are about *)
Theorem conv_pmf D r s : T.pmf_thr (conv_rule D r) (s # D) == pmf r s.
Proof.
  unfold T.pmf_thr, T.ignore_formula, T.interp_formula, pmf, conv_rule, op_rule.
  cbn [T.p0 T.p1 T.op0 T.op1 T.p_ignore T.pred_const].
  rewrite !conv_apply_op, (b2q_ind (apply_op (r_op0 r) s)), (b2q_ind (apply_op (r_op1 r) s)).
  destruct (r_ignore r) as [[pig c]|]; cbn [fst snd]; ring.
Qed.

(* ====================================================================================== *)
(* 2. facts about one selected row of a group's interpolated curve                         *)
(* ====================================================================================== *)

Lemma fitted_row flip mx my N g k : constraint_metric mx -> both_labels g = true -> (k <= Pos.to_nat N)%nat ->
  let row := nth k (group_curve flip mx my N g) dipt in
  ix row = grid_pt N k /\ 0 <= ip0 row /\ 0 <= ip1 row /\ ip0 row + ip1 row == 1 /\
  (exists pa pb, In pa (tradeoff_points flip mx my g) /\ In pb (tradeoff_points flip mx my g) /\
                 iop0 row = pop pa /\ iop1 row = pop pb).
Proof.
  intros Hm Hb Hk. cbv zeta. unfold group_curve.
  pose proof (group_hull_chain_ok flip mx my g Hm Hb) as Hc.
  destruct (interpolate_row_ok (group_hull flip mx my g) N k dipt Hc Hk)
    as [(i & Hi & O0 & O1 & P0 & P1 & Ps & _ & _ & _) Hx].
  set (row := nth k (interpolate (group_hull flip mx my g) (grid N)) dipt) in *.
  set (h := group_hull flip mx my g) in *.
  assert (Ia : In (nth i h dpt) (tradeoff_points flip mx my g)).
  { apply hull_incl. change (hull (tradeoff_points flip mx my g)) with h. apply nth_In. lia. }
  assert (Ib : In (nth (S i) h dpt) (tradeoff_points flip mx my g)).
  { apply hull_incl. change (hull (tradeoff_points flip mx my g)) with h. apply nth_In. lia. }
  split; [exact Hx|]. split; [exact P0|]. split; [lra|]. split; [exact Ps|].
  exists (nth i h dpt), (nth (S i) h dpt). repeat split; assumption.
Qed.

(* without flip only '>' operations are generated *)
Lemma tradeoff_noflip_gt mx my g p : In p (tradeoff_points false mx my g) -> op_kind (pop p) = OpGt.
Proof.
  unfold tradeoff_points. rewrite sort_xy_in. unfold tradeoff_raw. rewrite in_flat_map.
  intros ([[t c0] c1] & _ & Hp). unfold points_at in Hp.
  destruct Hp as [<-|[]]. reflexivity.
Qed.

(* ====================================================================================== *)
(* 3. simple constraints                                                                   *)
(* ====================================================================================== *)

Lemma fs_best_le flip mx my N gs : (fs_best (fit_simple flip mx my N gs) <= Pos.to_nat N)%nat.
Proof.
  unfold fit_simple. cbn [fs_best].
  pose proof (argmax_bound (overall_curve gs (map (group_curve flip mx my N) gs) (S (Pos.to_nat N)))) as A.
  pose proof (overall_curve_length gs (map (group_curve flip mx my N) gs) (S (Pos.to_nat N))) as B. lia.
Qed.

(* every rule of the fitted model is (conv_rule of) the selected row of one of the groups *)
Lemma fitted_simple_in D flip mx my N gs r : In r (fitted_simple D flip mx my N gs) ->
  exists g, In g gs /\
    r = conv_rule D (rule_of_ipt (nth (fs_best (fit_simple flip mx my N gs)) (group_curve flip mx my N g) dipt)).
Proof.
  unfold fitted_simple, simple_rules. intro H.
  apply in_map_iff in H. destruct H as (r0 & <- & H).
  apply in_map_iff in H. destruct H as (row & <- & H).
  unfold fit_simple in H. cbn [fs_sel] in H.
  apply in_map_iff in H. destruct H as (c & <- & H).
  apply in_map_iff in H. destruct H as (g & <- & Hg).
  exists g. split; [exact Hg | reflexivity].
Qed.

Theorem fitted_simple_valid D flip mx my N gs : constraint_metric mx ->
  (forall g, In g gs -> both_labels g = true) ->
  Forall TP.rule_valid (fitted_simple D flip mx my N gs).
Proof.
  intros Hm Hb. apply Forall_forall. intros r Hr.
  destruct (fitted_simple_in D flip mx my N gs r Hr) as (g & Hg & ->).
  destruct (fitted_row flip mx my N g _ Hm (Hb g Hg) (fs_best_le flip mx my N gs)) as (_ & P0 & P1 & Ps & _).
  unfold TP.rule_valid, conv_rule, rule_of_ipt.
  cbn [T.p0 T.p1 T.p_ignore T.pred_const r_p0 r_p1 r_ignore].
  repeat split; try assumption; lra.
Qed.

Theorem fitted_simple_noflip_gt D mx my N gs : constraint_metric mx ->
  (forall g, In g gs -> both_labels g = true) ->
  Forall (fun r => T.t_op (T.op0 r) = T.OpGt /\ T.t_op (T.op1 r) = T.OpGt) (fitted_simple D false mx my N gs).
Proof.
  intros Hm Hb. apply Forall_forall. intros r Hr.
  destruct (fitted_simple_in D false mx my N gs r Hr) as (g & Hg & ->).
  destruct (fitted_row false mx my N g _ Hm (Hb g Hg) (fs_best_le false mx my N gs))
    as (_ & _ & _ & _ & pa & pb & Ia & Ib & Oa & Ob).
  unfold conv_rule, rule_of_ipt, conv_op.
  cbn [T.op0 T.op1 T.t_op r_op0 r_op1].
  rewrite Oa, Ob, (tradeoff_noflip_gt _ _ _ _ Ia), (tradeoff_noflip_gt _ _ _ _ Ib).
  split; reflexivity.
Qed.

(* ====================================================================================== *)
(* 4. equalized odds                                                                       *)
(* ====================================================================================== *)

Lemma fitted_eo_in D flip obj N gs r : In r (fitted_eo D flip obj N gs) ->
  exists g, In g gs /\
    let f := fit_eo flip obj N gs in
    let row := nth (fe_best f) (group_curve flip FPR TPR N g) dipt in
    r = conv_rule D (mkrule (ip0 row) (iop0 row) (ip1 row) (iop1 row)
                            (Some (p_ignore_of row (fe_ybest f), fe_xbest f))).
Proof.
  unfold fitted_eo. intro H.
  apply in_map_iff in H. destruct H as (r0 & <- & H).
  unfold fit_eo in H. cbn [fe_rules] in H.
  apply in_map_iff in H. destruct H as (row & <- & H).
  apply in_map_iff in H. destruct H as (c & <- & H).
  apply in_map_iff in H. destruct H as (g & <- & Hg).
  exists g. split; [exact Hg | reflexivity].
Qed.

(* p_ignore and prediction_constant of the equalized-odds fit are probabilities: the common minimum
   y_best lies between the diagonal value x_best and the group's own ROC value (hull_ge_diagonal for every
   group + the pointwise minimum) *)
Lemma eo_ignore_range flip obj N gs g : (forall g', In g' gs -> both_labels g' = true) -> In g gs ->
  let f := fit_eo flip obj N gs in
  let row := nth (fe_best f) (group_curve flip FPR TPR N g) dipt in
  0 <= p_ignore_of row (fe_ybest f) /\ p_ignore_of row (fe_ybest f) <= 1 /\
  0 <= fe_xbest f /\ fe_xbest f <= 1.
Proof.
  intros Hb Hg. cbv zeta. pose proof (fit_eo_best_le flip obj N gs) as Hk.
  unfold fit_eo in *. cbn [fe_best fe_xbest fe_ybest] in *.
  match type of Hk with (?e <= _)%nat => set (ib := e) in * end.
  destruct (group_row flip FPR TPR N g ib I (Hb g Hg) Hk) as (Hx & _).
  set (row := nth ib (group_curve flip FPR TPR N g) dipt) in *.
  set (xb := nth ib (grid N) 0).
  set (yb := nth ib (y_min_curve (map (group_curve flip FPR TPR N) gs)) 0).
  assert (Exb : xb = grid_pt N ib) by (apply nth_grid; exact Hk).
  destruct (grid_pt_range N ib Hk) as [R0 R1].
  destruct (y_min_nth (map (group_curve flip FPR TPR N) gs) ib (S (Pos.to_nat N))) as [Ymin Yglb].
  { intros c Hc. apply in_map_iff in Hc. destruct Hc as (g' & <- & _). apply interpolate_length. }
  assert (Y1 : yb <= iy row) by (apply Ymin; apply in_map; exact Hg).
  assert (Y2 : xb <= yb).
  { apply Yglb; [destruct gs; [destruct Hg | discriminate]|].
    intros c Hc. apply in_map_iff in Hc. destruct Hc as (g' & <- & Hg').
    rewrite Exb. apply hull_ge_diagonal; [apply Hb; exact Hg' | apply group_hull_upper | exact Hk]. }
  split; [|split; [|rewrite Exb; split; assumption]].
  - unfold p_ignore_of. rewrite Hx, <- Exb. destruct (Qeqb (iy row) xb) eqn:E; [lra|].
    apply Qeqb_neq in E. apply Qle_shift_div_l; lra.
  - unfold p_ignore_of. rewrite Hx, <- Exb. destruct (Qeqb (iy row) xb) eqn:E; [lra|].
    apply Qeqb_neq in E. apply Qle_shift_div_r; lra.
Qed.

Theorem fitted_eo_valid D flip obj N gs : (forall g, In g gs -> both_labels g = true) ->
  Forall TP.rule_valid (fitted_eo D flip obj N gs).
Proof.
  intros Hb. apply Forall_forall. intros r Hr.
  destruct (fitted_eo_in D flip obj N gs r Hr) as (g & Hg & E). cbv zeta in E. subst r.
  destruct (fitted_row flip FPR TPR N g _ I (Hb g Hg) (fit_eo_best_le flip obj N gs)) as (_ & P0 & P1 & Ps & _).
  destruct (eo_ignore_range flip obj N gs g Hb Hg) as (G0 & G1 & C0 & C1). cbv zeta in G0, G1, C0, C1.
  unfold TP.rule_valid, conv_rule.
  cbn [T.p0 T.p1 T.p_ignore T.pred_const r_p0 r_p1 r_ignore fst snd].
  repeat split; assumption.
Qed.

Theorem fitted_eo_noflip_gt D obj N gs : (forall g, In g gs -> both_labels g = true) ->
  Forall (fun r => T.t_op (T.op0 r) = T.OpGt /\ T.t_op (T.op1 r) = T.OpGt) (fitted_eo D false obj N gs).
Proof.
  intros Hb. apply Forall_forall. intros r Hr.
  destruct (fitted_eo_in D false obj N gs r Hr) as (g & Hg & E). cbv zeta in E. subst r.
  destruct (fitted_row false FPR TPR N g _ I (Hb g Hg) (fit_eo_best_le false obj N gs))
    as (_ & _ & _ & _ & pa & pb & Ia & Ib & Oa & Ob).
  unfold conv_rule, conv_op. cbn [T.op0 T.op1 T.t_op r_op0 r_op1].
  rewrite Oa, Ob, (tradeoff_noflip_gt _ _ _ _ Ia), (tradeoff_noflip_gt _ _ _ _ Ib).
  split; reflexivity.
Qed.

(* ====================================================================================== *)
(* 5. packaged: validity, the pmf of a fitted model, monotonicity without flip              *)
(* ====================================================================================== *)

Definition is_fitted (rules : list T.rule) (flip : bool) (gs : list group) : Prop :=
  (exists D mx my N, constraint_metric mx /\ rules = fitted_simple D flip mx my N gs) \/
  (exists D obj N, rules = fitted_eo D flip obj N gs).

Theorem fitted_rules_valid :
  (forall D flip mx my N gs, constraint_metric mx -> (forall g, In g gs -> both_labels g = true) ->
     Forall TP.rule_valid (fitted_simple D flip mx my N gs)) /\
  (forall D flip obj N gs, (forall g, In g gs -> both_labels g = true) ->
     Forall TP.rule_valid (fitted_eo D flip obj N gs)).
Proof. split; [exact fitted_simple_valid | exact fitted_eo_valid]. Qed.

Lemma is_fitted_valid rules flip gs : (forall g, In g gs -> both_labels g = true) ->
  is_fitted rules flip gs -> Forall TP.rule_valid rules.
Proof.
  intros Hb [(D & mx & my & N & Hm & ->) | (D & obj & N & ->)].
  - apply fitted_simple_valid; assumption.
  - apply fitted_eo_valid; assumption.
Qed.

Lemma is_fitted_length rules flip gs : is_fitted rules flip gs -> length rules = length gs.
Proof.
  intros [(D & mx & my & N & Hm & ->) | (D & obj & N & ->)].
  - unfold fitted_simple, simple_rules, fit_simple. cbn [fs_sel]. rewrite !map_length. reflexivity.
  - unfold fitted_eo, fit_eo. cbn [fe_rules]. rewrite !map_length. reflexivity.
Qed.

(* the reported pmf of a fitted ThresholdOptimizer is a distribution: for the rule of every group at every
   score, and for every table of query rows (any group codes, any scores; rows of unknown groups get (1,0)) *)
Theorem pmf_unit_for_fitted_models rules flip gs : (forall g, In g gs -> both_labels g = true) ->
  is_fitted rules flip gs ->
  (forall r s, In r rules ->
     0 <= T.pmf_thr r s /\ T.pmf_thr r s <= 1 /\
     fst (T.pmf_cols (T.pmf_thr r s)) + snd (T.pmf_cols (T.pmf_thr r s)) == 1 /\
     0 <= fst (T.pmf_cols (T.pmf_thr r s)) /\ fst (T.pmf_cols (T.pmf_thr r s)) <= 1) /\
  (forall codes rows,
     Forall (fun c => 0 <= fst c /\ 0 <= snd c /\ fst c + snd c == 1)
            (T.pmf_rows (fitted_dict codes rules) rows)).
Proof.
  intros Hb Hf. pose proof (is_fitted_valid rules flip gs Hb Hf) as Hv.
  rewrite Forall_forall in Hv. split.
  - intros r s Hr. apply TP.pmf_thr_unit. apply Hv. exact Hr.
  - intros codes rows. apply TP.pmf_rows_unit. intros g r Hin. apply Hv.
    unfold fitted_dict in Hin. apply in_combine_r in Hin. exact Hin.
Qed.

(* with flip = False the fit only produces '>' operations, hence the positive probability of every group
   never decreases as the score increases *)
Theorem monotone_for_fitted_models_without_flip rules gs : (forall g, In g gs -> both_labels g = true) ->
  is_fitted rules false gs ->
  forall r, In r rules ->
    T.t_op (T.op0 r) = T.OpGt /\ T.t_op (T.op1 r) = T.OpGt /\
    forall s s', s <= s' -> T.pmf_thr r s <= T.pmf_thr r s'.
Proof.
  intros Hb Hf r Hr.
  pose proof (is_fitted_valid rules false gs Hb Hf) as Hv. rewrite Forall_forall in Hv.
  destruct (Hv r Hr) as (P0 & P1 & _ & _ & G1 & _).
  assert (Ho : T.t_op (T.op0 r) = T.OpGt /\ T.t_op (T.op1 r) = T.OpGt).
  { destruct Hf as [(D & mx & my & N & Hm & ->) | (D & obj & N & ->)].
    - pose proof (fitted_simple_noflip_gt D mx my N gs Hm Hb) as F. rewrite Forall_forall in F. apply F. exact Hr.
    - pose proof (fitted_eo_noflip_gt D obj N gs Hb) as F. rewrite Forall_forall in F. apply F. exact Hr. }
  destruct Ho as [O0 O1]. split; [exact O0|]. split; [exact O1|].
  intros s s' Hs. apply TP.pmf_thr_monotone; assumption.
Qed.

(* the pmf the fitted model reports on the (integer) training scores is the C04 pmf *)
Theorem fitted_pmf_is_c04_pmf D r s : T.pmf_thr (conv_rule D r) (s # D) == pmf r s.
Proof. exact (conv_pmf D r s). Qed.

(* ====================================================================================== *)
(* 6. ExponentiatedGradient: weights_ after fit is a probability vector over predictor ids   *)
(* ====================================================================================== *)

Definition prob_series (w : T.weights) : Prop :=
  Forall (fun tw => 0 <= snd tw) w /\ qsum (map snd w) == 1.

Lemma rsum_qsum l : S.rsum l == qsum l.
Proof. induction l as [|x l IH]; [reflexivity|]. rewrite SP.rsum_cons, IH. reflexivity. Qed.

Lemma map_fst_combine {A B} (a : list A) : forall (b : list B), length a = length b -> map fst (combine a b) = a.
Proof.
  induction a as [|x a IH]; intros [|y b] H; cbn in *; try reflexivity; try lia.
  rewrite IH by lia. reflexivity.
Qed.

Lemma map_snd_combine {A B} (a : list A) : forall (b : list B), length a = length b -> map snd (combine a b) = b.
Proof.
  induction a as [|x a IH]; intros [|y b] H; cbn in *; try reflexivity; try lia.
  rewrite IH by lia. reflexivity.
Qed.

Lemma prob_series_of_values (ids : list nat) (x : list Q) : length ids = length x ->
  (forall q, In q x -> 0 <= q) -> S.rsum x == 1 -> prob_series (combine ids x).
Proof.
  intros Hl Hx Hs. split.
  - apply Forall_forall. intros [t w] Hin. cbn [snd]. apply Hx. apply in_combine_r in Hin. exact Hin.
  - rewrite map_snd_combine by exact Hl. rewrite <- rsum_qsum. exact Hs.
Qed.

(* ----- Qsum: every stored count is >= 0 and the counts sum to the number of iterations so far ----- *)
Lemma bump_facts h s : Forall (fun kv => 0 <= snd kv) s ->
  Forall (fun kv => 0 <= snd kv) (bump h s) /\ qsum (map snd (bump h s)) == qsum (map snd s) + 1.
Proof.
  induction s as [|[k v] s IH]; intro Hs; cbn [bump].
  - split; [constructor; [cbn [snd]; lra | constructor] | cbn [map qsum snd]; lra].
  - inversion Hs as [|? ? Hv Hr]; subst. cbn [snd] in Hv.
    destruct (Nat.eqb h k).
    + split; [constructor; [cbn [snd]; lra | exact Hr] | cbn [map qsum snd]; lra].
    + destruct (IH Hr) as [A B]. split; [constructor; [exact Hv | exact A] | cbn [map qsum snd]; rewrite B; lra].
Qed.

Lemma qsum_series_facts hs : forall s0, Forall (fun kv => 0 <= snd kv) s0 ->
  Forall (fun kv => 0 <= snd kv) (fold_left (fun s h => bump h s) hs s0) /\
  qsum (map snd (fold_left (fun s h => bump h s) hs s0)) == qsum (map snd s0) + inject_Z (Z.of_nat (length hs)).
Proof.
  induction hs as [|h hs IH]; intros s0 H0; cbn [fold_left length].
  - split; [exact H0 | change (inject_Z (Z.of_nat 0)) with 0; lra].
  - destruct (bump_facts h s0 H0) as [A B]. destruct (IH (bump h s0) A) as [C D].
    split; [exact C|]. rewrite D, B, Nat2Z.inj_succ, <- Z.add_1_r, inject_Z_plus.
    change (inject_Z 1) with 1. lra.
Qed.

Lemma q_eg_prob hs : hs <> [] -> prob_series (q_eg hs).
Proof.
  intro Hne. unfold q_eg. cbv zeta.
  destruct (qsum_series_facts hs [] (Forall_nil _)) as [A B]. fold (qsum_series hs) in A, B.
  cbn [map qsum] in B.
  assert (Hpos : 0 < S.rsum (map snd (qsum_series hs))).
  { rewrite rsum_qsum, B. destruct hs as [|h t]; [contradiction|]. cbn [length].
    rewrite Nat2Z.inj_succ, <- Z.add_1_r, inject_Z_plus. change (inject_Z 1) with 1.
    assert (0 <= inject_Z (Z.of_nat (length t))) by (rewrite <- (Zle_Qle 0); lia). lra. }
  assert (Hnn : forall x, In x (map snd (qsum_series hs)) -> 0 <= x).
  { intros x Hx. apply in_map_iff in Hx. destruct Hx as (kv & <- & Hin).
    rewrite Forall_forall in A. apply A. exact Hin. }
  destruct (SP.weights_probability _ Hnn Hpos) as [W1 W2].
  apply prob_series_of_values; [|exact W1|exact W2].
  unfold S.eg_weights. rewrite !map_length. reflexivity.
Qed.

Lemma q_lp_prob x : (exists H c z, SF.lp_feasible H c x z = true) -> prob_series (q_lp x).
Proof.
  intros (H & c & z & F). pose proof (SFP.lp_weights_probability H c x z F) as D.
  destruct (SP.is_dist_unpack H x D) as (_ & D2 & D3).
  unfold q_lp. apply prob_series_of_values; [apply seq_length | exact D2 | exact D3].
Qed.

(* the guard on one iteration: at least one best response has been recorded (always: iteration t has t+1),
   and the answer of scipy's linprog, when the LP step ran, satisfies the constraints solve_linprog passed
   (the solver is trusted, as in C08) *)
Definition iter_ok (it : eg_iter) : Prop :=
  it_hs it <> [] /\
  forall xg, it_lp it = Some xg -> exists H c z, SF.lp_feasible H c (fst xg) z = true.

Lemma keep_pair_fst {A} (P : A -> Prop) (a : A) g lp :
  P a -> (forall q gl, lp = Some (q, gl) -> P q) -> P (fst (SF.keep_pair a g lp)).
Proof.
  intros Ha Hl. unfold SF.keep_pair. destruct lp as [[q gl]|]; [|exact Ha].
  cbn [fst snd]. destruct (Qltb g gl); cbn [fst]; [exact Ha | apply (Hl q gl); reflexivity].
Qed.

Lemma iter_pair_prob it : iter_ok it -> prob_series (fst (iter_pair it)).
Proof.
  intros [Hne Hlp]. unfold iter_pair. apply keep_pair_fst.
  - apply q_eg_prob. exact Hne.
  - intros q gl E. destruct (it_lp it) as [xg|]; [|discriminate].
    inversion E; subst. apply q_lp_prob. apply Hlp. reflexivity.
Qed.

Lemma eg_selected_prob prec its : 0 <= prec -> its <> [] -> (forall it, In it its -> iter_ok it) ->
  prob_series (eg_selected prec its).
Proof.
  intros Hp Hne Hok. unfold eg_selected. cbv zeta.
  assert (Hne' : map iter_pair its <> []) by (destruct its; [contradiction | discriminate]).
  destruct (SFP.returned_consistent ([] : T.weights) prec (map iter_pair its) Hne' Hp) as (_ & _ & Hin & _).
  cbv zeta in Hin. apply in_map_iff in Hin. destruct Hin as (it & E & Hit).
  pose proof (iter_pair_prob it (Hok it Hit)) as P. rewrite E in P. cbn [fst] in P. exact P.
Qed.

Lemma pad_zero_prob n w : prob_series w -> prob_series (pad_zero n w).
Proof.
  unfold pad_zero. generalize (seq 0 n). intro l. revert w.
  induction l as [|t l IH]; intros w Hw; cbn [fold_left]; [exact Hw|].
  apply IH. destruct (has_id t w); [exact Hw|].
  destruct Hw as [A B]. split.
  - apply Forall_app. split; [exact A | constructor; [cbn [snd]; lra | constructor]].
  - rewrite map_app. cbn [map snd].
    assert (E : forall a b, qsum (a ++ b) == qsum a + qsum b).
    { induction a as [|x a IHa]; intro b; cbn [app qsum]; [lra | rewrite IHa; lra]. }
    rewrite E, B. cbn [qsum]. lra.
Qed.

(* weights_probability for the attribute weights_: whichever iteration is selected, whichever branch (EG or
   LP) produced it, after the zero padding *)
Theorem eg_fit_weights_probability prec n its : 0 <= prec -> its <> [] ->
  (forall it, In it its -> iter_ok it) ->
  Forall (fun tw => 0 <= snd tw) (eg_fit_weights prec n its) /\
  qsum (map snd (eg_fit_weights prec n its)) == 1.
Proof.
  intros Hp Hne Hok. apply pad_zero_prob. apply eg_selected_prob; assumption.
Qed.

(* ----- predictor ids are stored once ----- *)
Lemma bump_keys h s : map fst (bump h s) = if existsb (Nat.eqb h) (map fst s) then map fst s else map fst s ++ [h].
Proof.
  induction s as [|[k v] s IH]; cbn [bump map fst existsb app]; [reflexivity|].
  destruct (Nat.eqb h k) eqn:E; cbn [orb map fst]; [reflexivity|].
  rewrite IH. destruct (existsb (Nat.eqb h) (map fst s)); reflexivity.
Qed.

Lemma existsb_eqb_false h l : existsb (Nat.eqb h) l = false -> ~ In h l.
Proof.
  intros E Hin. assert (T : existsb (Nat.eqb h) l = true) by (apply existsb_exists; exists h; split; [exact Hin | apply Nat.eqb_refl]).
  congruence.
Qed.

Lemma NoDup_snoc (l : list nat) x : NoDup l -> ~ In x l -> NoDup (l ++ [x]).
Proof.
  intros Hl Hx. apply (Permutation_NoDup (Permutation_cons_append l x)). constructor; assumption.
Qed.

Lemma qsum_series_nodup hs : forall s0, NoDup (map fst s0) -> NoDup (map fst (fold_left (fun s h => bump h s) hs s0)).
Proof.
  induction hs as [|h hs IH]; intros s0 H0; cbn [fold_left]; [exact H0|].
  apply IH. rewrite bump_keys. destruct (existsb (Nat.eqb h) (map fst s0)) eqn:E; [exact H0|].
  apply NoDup_snoc; [exact H0 | apply existsb_eqb_false; exact E].
Qed.

Lemma q_eg_nodup hs : NoDup (map fst (q_eg hs)).
Proof.
  unfold q_eg. cbv zeta. rewrite map_fst_combine.
  - apply (qsum_series_nodup hs []). constructor.
  - unfold S.eg_weights. rewrite !map_length. reflexivity.
Qed.

Lemma q_lp_nodup x : NoDup (map fst (q_lp x)).
Proof. unfold q_lp. rewrite map_fst_combine by apply seq_length. apply seq_NoDup. Qed.

Lemma has_id_false t w : has_id t w = false -> ~ In t (map fst w).
Proof.
  intros E Hin. apply in_map_iff in Hin. destruct Hin as (tw & <- & Hin).
  assert (T : has_id (fst tw) w = true) by (apply existsb_exists; exists tw; split; [exact Hin | apply Nat.eqb_refl]).
  congruence.
Qed.

Lemma pad_zero_nodup n w : NoDup (map fst w) -> NoDup (map fst (pad_zero n w)).
Proof.
  unfold pad_zero. generalize (seq 0 n). intro l. revert w.
  induction l as [|t l IH]; intros w Hw; cbn [fold_left]; [exact Hw|].
  apply IH. destruct (has_id t w) eqn:E; [exact Hw|].
  rewrite map_app. cbn [map fst]. apply NoDup_snoc; [exact Hw | apply has_id_false; exact E].
Qed.

Theorem eg_fit_weights_nodup prec n its : 0 <= prec -> its <> [] ->
  NoDup (map fst (eg_fit_weights prec n its)).
Proof.
  intros Hp Hne. apply pad_zero_nodup. unfold eg_selected. cbv zeta.
  assert (Hne' : map iter_pair its <> []) by (destruct its; [contradiction | discriminate]).
  destruct (SFP.returned_consistent ([] : T.weights) prec (map iter_pair its) Hne' Hp) as (_ & _ & Hin & _).
  cbv zeta in Hin. apply in_map_iff in Hin. destruct Hin as (it & E & _).
  assert (F : NoDup (map fst (fst (iter_pair it)))).
  { unfold iter_pair. apply (keep_pair_fst (fun w : T.weights => NoDup (map fst w))).
    - apply q_eg_nodup.
    - intros q gl K. destruct (it_lp it) as [xg|]; [|discriminate]. inversion K; subst. apply q_lp_nodup. }
  rewrite E in F. exact F.
Qed.

(* every predictor id 0 .. n-1 is in the index after the padding *)
Lemma pad_zero_cover n w t : (t < n)%nat -> In t (map fst (pad_zero n w)).
Proof.
  intro Ht. unfold pad_zero.
  assert (G : forall l w0, In t (map fst w0) \/ In t l ->
              In t (map fst (fold_left (fun acc t0 => if has_id t0 acc then acc else acc ++ [(t0, 0)]) l w0))).
  { induction l as [|u l IH]; intros w0 [H|H]; cbn [fold_left]; try exact H; try destruct H.
    - apply IH. left. destruct (has_id u w0); [exact H | rewrite map_app; apply in_or_app; left; exact H].
    - subst u. apply IH. left. destruct (has_id t w0) eqn:E.
      + apply existsb_exists in E. destruct E as (tw & Hin & Eq). apply Nat.eqb_eq in Eq.
        apply in_map_iff. exists tw. split; [symmetry; exact Eq | exact Hin].
      + rewrite map_app. apply in_or_app. right. left. reflexivity.
    - apply IH. right. exact H. }
  apply G. right. apply in_seq. lia.
Qed.

(* ----- the reported pmf of a fitted ExponentiatedGradient (hard 0/1 predictors) ----- *)
Theorem pmf_eg_unit_for_fitted_models prec n its outs : 0 <= prec -> its <> [] ->
  (forall it, In it its -> iter_ok it) ->
  Forall (fun o => o == 0 \/ o == 1) outs ->
  let W := eg_fit_weights prec n its in
  0 <= T.pmf_eg W outs /\ T.pmf_eg W outs <= 1 /\
  fst (T.pmf_cols (T.pmf_eg W outs)) + snd (T.pmf_cols (T.pmf_eg W outs)) == 1 /\
  T.pmf_eg W outs == qsum (map (fun tw => snd tw * nth (fst tw) outs 0) W).
Proof.
  intros Hp Hne Hok Ho. cbv zeta.
  destruct (eg_fit_weights_probability prec n its Hp Hne Hok) as [A B].
  assert (Ho' : Forall (fun o => 0 <= o /\ o <= 1) outs).
  { apply Forall_forall. intros o Hin. rewrite Forall_forall in Ho. destruct (Ho o Hin) as [E|E]; rewrite E; lra. }
  destruct (TP.pmf_eg_unit _ outs A B Ho') as (U1 & U2 & U3).
  repeat split; try assumption.
  apply TP.pmf_eg_mixture. apply eg_fit_weights_nodup; assumption.
Qed.

(* ---------- the parametrised pipeline at the model's parameters IS the model ---------- *)
Lemma bump_gen_model h s : bump_gen 0 (fun v => v + 1) h s = bump h s.
Proof.
  induction s as [|[k v] s IH]; cbn [bump_gen bump]; [reflexivity|].
  destruct (Nat.eqb h k); [reflexivity | rewrite IH; reflexivity].
Qed.

Lemma qsum_series_gen_model hs : qsum_series_gen 0 (fun v => v + 1) hs = qsum_series hs.
Proof.
  unfold qsum_series_gen, qsum_series. generalize (@nil (nat * Q)).
  induction hs as [|h hs IH]; intro s0; cbn [fold_left]; [reflexivity|].
  rewrite bump_gen_model. apply IH.
Qed.

Lemma q_eg_gen_model hs : q_eg_gen 0 (fun v => v + 1) S.eg_weights hs = q_eg hs.
Proof. unfold q_eg_gen, q_eg. rewrite qsum_series_gen_model. reflexivity. Qed.

Theorem eg_fit_weights_gen_model prec n its :
  eg_fit_weights_gen 0 (fun v => v + 1) S.eg_weights 0 (@SF.keep_pair T.weights)
                     (fun d => SF.returned d prec) n its = eg_fit_weights prec n its.
Proof.
  unfold eg_fit_weights_gen, eg_fit_weights, eg_selected. cbv zeta.
  assert (E : map (fun it => SF.keep_pair (q_eg_gen 0 (fun v => v + 1) S.eg_weights (it_hs it)) (it_gap it)
                     (match it_lp it with Some xg => Some (q_lp (fst xg), snd xg) | None => None end)) its
              = map iter_pair its).
  { apply map_ext. intro it. unfold iter_pair. rewrite q_eg_gen_model. reflexivity. }
  rewrite E. reflexivity.
Qed.

(* the two fitted-model theorems, stated on the parametrised pipeline at the model's parameters (the form
   props/C10.v instantiates with the regenerated fragments) *)
Definition eg_fit_weights_std (prec : Q) (n : nat) (its : list eg_iter) : T.weights :=
  eg_fit_weights_gen 0 (fun v => v + 1) S.eg_weights 0 (@SF.keep_pair T.weights) (fun d => SF.returned d prec) n its.

Theorem eg_weights_probability_std prec n its : 0 <= prec -> its <> [] ->
  (forall it, In it its -> iter_ok it) ->
  Forall (fun tw => 0 <= snd tw) (eg_fit_weights_std prec n its) /\
  qsum (map snd (eg_fit_weights_std prec n its)) == 1 /\
  NoDup (map fst (eg_fit_weights_std prec n its)) /\
  (forall t, (t < n)%nat -> In t (map fst (eg_fit_weights_std prec n its))).
Proof.
  intros Hp Hne Hok. unfold eg_fit_weights_std. rewrite eg_fit_weights_gen_model.
  destruct (eg_fit_weights_probability prec n its Hp Hne Hok) as [A B].
  split; [exact A|]. split; [exact B|]. split; [apply eg_fit_weights_nodup; assumption|].
  intros t Ht. apply pad_zero_cover. exact Ht.
Qed.

Theorem pmf_eg_unit_std prec n its outs : 0 <= prec -> its <> [] ->
  (forall it, In it its -> iter_ok it) ->
  Forall (fun o => o == 0 \/ o == 1) outs ->
  let W := eg_fit_weights_std prec n its in
  0 <= T.pmf_eg W outs /\ T.pmf_eg W outs <= 1 /\
  fst (T.pmf_cols (T.pmf_eg W outs)) + snd (T.pmf_cols (T.pmf_eg W outs)) == 1 /\
  T.pmf_eg W outs == qsum (map (fun tw => snd tw * nth (fst tw) outs 0) W).
Proof.
  intros Hp Hne Hok Ho. unfold eg_fit_weights_std. rewrite eg_fit_weights_gen_model.
  apply pmf_eg_unit_for_fitted_models; assumption.
Qed.
