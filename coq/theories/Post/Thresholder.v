(* C10 -- the probability mass functions reported by the randomised predictors and the way
   `predict` samples from them.  Proof-free (lemmas are in Thresholder_proofs.v).

   Sources modelled (statement by statement):
     fairlearn/postprocessing/_threshold_operation.py   ThresholdOperation.__call__
     fairlearn/postprocessing/_interpolated_thresholder.py  _pmf_predict, predict
     fairlearn/reductions/_exponentiated_gradient/exponentiated_gradient.py  _pmf_predict, predict
   The FITTED rule (interpolation_dict / weights_ / the stored predictors' outputs) is DATA here:
   how fit produces it is the business of other models. *)
From Coq Require Import QArith ZArith List Bool.
From FL Require Import Num ListX.
Import ListNotations.
Open Scope Q_scope.

(* ---------- ThresholdOperation ---------- *)

Inductive opk : Type := OpGt | OpLt.

(* operator '>' or '<'; the threshold is a float cell: finite, +inf, -inf (NaN never produced by
   fit but representable: every comparison with it is False, as in numpy) *)
Record throp : Type := mk_throp { t_op : opk; t_thr : ext }.

(* __call__:  '>' -> y_hat > threshold ;  '<' -> y_hat < threshold   (both STRICT) *)
Definition apply_op (o : throp) (s : Q) : bool :=
  match t_op o with
  | OpGt => ext_ltb (t_thr o) (Fin s)
  | OpLt => ext_ltb (Fin s) (t_thr o)
  end.

(* a numpy bool multiplied by a float *)
Definition b2q (b : bool) : Q := if b then 1 else 0.

(* ---------- InterpolatedThresholder._pmf_predict ---------- *)

(* one entry of interpolation_dict.  Simple constraints store no p_ignore / prediction_constant:
   the harness passes p_ignore = 0, pred_const = 0, for which ignore_formula is the identity
   (also bit-for-bit in floating point: 0*0 + 1*x). *)
Record rule : Type := mk_rule {
  p0 : Q; op0 : throp; p1 : Q; op1 : throp; p_ignore : Q; pred_const : Q }.

(* interpolation.p0 * operation0(v) + interpolation.p1 * operation1(v) *)
Definition interp_formula (a0 b0 a1 b1 : Q) : Q := a0 * b0 + a1 * b1.
(* p_ignore * prediction_constant + (1 - p_ignore) * interpolated_predictions *)
Definition ignore_formula (pig c x : Q) : Q := pig * c + (1 - pig) * x.

Definition pmf_thr (r : rule) (s : Q) : Q :=
  ignore_formula (p_ignore r) (pred_const r)
    (interp_formula (p0 r) (b2q (apply_op (op0 r) s)) (p1 r) (b2q (apply_op (op1 r) s))).

(* positive_probs starts as 0.0 and is overwritten for the rows of every key of the dict:
   a row whose group is not a key keeps 0.  Groups are Z codes. *)
Definition pmf_row (d : list (Z * rule)) (g : Z) (s : Q) : Q :=
  match zassoc g d with Some r => pmf_thr r s | None => 0 end.

(* np.array([1.0 - positive_probs, positive_probs]).transpose() *)
Definition pmf_cols (p : Q) : Q * Q := (1 - p, p).

Definition pmf_rows (d : list (Z * rule)) (rows : list (Z * Q)) : list (Q * Q) :=
  map (fun gs => pmf_cols (pmf_row d (fst gs) (snd gs))) rows.

(* ---------- the Bernoulli draw of both predict methods ---------- *)

(* (positive_probs >= random_state.rand(n)) * 1 : label 1 iff p >= u, i.e. u <= p *)
Definition draw (p u : Q) : Z := if Qleb u p then 1%Z else 0%Z.

Fixpoint draws (ps us : list Q) : list Z :=
  match ps, us with
  | p :: ps', u :: us' => draw p u :: draws ps' us'
  | _, _ => []
  end.

(* ---------- ExponentiatedGradient._pmf_predict ---------- *)

(* weights_ : a Series whose INDEX holds predictor ids (labels), in storage order; the storage
   order need not be 0,1,2,... (zero-weight predictors are appended last by fit). *)
Definition weights := list (nat * Q).

(* self.weights_[t] : label lookup *)
Fixpoint weight_of (Qw : weights) (t : nat) : Q :=
  match Qw with
  | [] => 0
  | (t', w) :: r => if Nat.eqb t t' then w else weight_of r t
  end.

(* column t of `pred`: zeros when weights_[t] == 0, else h_t(X).  outs = [h_0 x; h_1 x; ...] *)
Definition col (Qw : weights) (outs : list Q) (t : nat) : Q :=
  if Qeqb (weight_of Qw t) 0 then 0 else nth t outs 0.

(* pred[self.weights_.index].dot(self.weights_) for one row *)
Definition pmf_eg (Qw : weights) (outs : list Q) : Q :=
  qsum (map (fun tw => col Qw outs (fst tw) * snd tw) Qw).

(* ---------- regression moments: predict = choice(pred.iloc[i, :], p = weights_[pred.columns]) ---------- *)

(* pred.columns = 0 .. len(_hs)-1 in this order *)
Definition reg_values (Qw : weights) (outs : list Q) : list Q :=
  map (col Qw outs) (seq 0 (length outs)).
(* weights_[pred.columns] : weights re-indexed BY PREDICTOR ID *)
Definition reg_probs (Qw : weights) (outs : list Q) : list Q :=
  map (weight_of Qw) (seq 0 (length outs)).

(* numpy RandomState.choice(a, p=p): cdf = cumsum(p); idx = cdf.searchsorted(u, side='right'),
   i.e. the first index whose cumulative sum is > u   (p sums to 1: numpy checks it) *)
Fixpoint choice_index (p : list Q) (u acc : Q) (i : nat) : nat :=
  match p with
  | [] => i
  | x :: r => if Qltb u (acc + x) then i else choice_index r u (acc + x) (S i)
  end.

Definition choice (a p : list Q) (u : Q) : Q := nth (choice_index p u 0 0) a 0.

Definition draw_reg_index (Qw : weights) (outs : list Q) (u : Q) : nat :=
  choice_index (reg_probs Qw outs) u 0 0.

Definition draw_reg (Qw : weights) (outs : list Q) (u : Q) : Q :=
  choice (reg_values Qw outs) (reg_probs Qw outs) u.

(* what the code did before /repo commit 072f331: p = self.weights_ taken POSITIONALLY *)
Definition draw_reg_positional (Qw : weights) (outs : list Q) (u : Q) : Q :=
  choice (reg_values Qw outs) (map snd Qw) u.

(* the (value, probability) pairs handed to choice, as the harness observes them *)
Definition reg_pairs (Qw : weights) (outs : list Q) : list (Q * Q) :=
  combine (reg_values Qw outs) (reg_probs Qw outs).

(* cumulative probability in front of predictor t in the aligned vector *)
Definition reg_prefix (Qw : weights) (outs : list Q) (t : nat) : Q :=
  qsum (firstn t (reg_probs Qw outs)).

(* guards used by the theorems *)
Definition ids_cover (Qw : weights) (n : nat) : Prop :=
  NoDup (map fst Qw) /\ forall t, In t (map fst Qw) <-> (t < n)%nat.
