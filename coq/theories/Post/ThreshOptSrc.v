(* Source-shaped view of the optimisation step of ThresholdOptimizer (C04, C05).
   translators/t_threshopt.py decodes _threshold_optimization_for_simple_constraints,
   _threshold_optimization_for_equalized_odds, _calculate_tradeoff_points (+ the small helpers around them)
   into the TAGS and expression functions declared here; this file gives every tag its meaning (an
   interpreter that re-assembles the fit from the tags, sharing only the already-tied pieces: metric table,
   hull, interpolation) and records the tags the model ThreshOpt.v / Tradeoff.v / Hull.v was written from.
   props/C04.v and props/C05.v state that the interpreters applied to the REGENERATED tags are the model
   definitions.  Proof-free; lemmas in ThreshOptSrc_proofs.v.  Does not import FLGen. *)
From Coq Require Import QArith ZArith List Bool.
From FL Require Import Num Flat Tradeoff Hull Interp ThreshOpt.
Import ListNotations.
Open Scope Q_scope.

(* ---------- tags ---------- *)
Inductive sel_tag : Type := SelFirstMax | SelFirstMin.      (* Series.idxmax() | Series.idxmin() *)
Inductive idx_tag : Type := IdxCommon | IdxOwn.             (* group's row read at the common index | at the
                                                               arg-extremum of the group's OWN curve *)
Inductive red_tag : Type := RedMin | RedMax | RedMean.      (* np.amin | np.amax | np.mean over the groups *)
Inductive const_tag : Type := ConstXBest | ConstYBest.      (* prediction_constant = self._x_best | self._y_best *)
Inductive col_tag : Type := ColX | ColY | ColP0 | ColOp0 | ColP1 | ColOp1.   (* columns of _interpolate_curve *)
Inductive cm_tag : Type := CmActual | CmFlipped.            (* actual_counts | flipped_counts *)
Inductive key_tag : Type := KeyX | KeyY.                    (* sort_values(by=[...]) *)
Inductive side_tag : Type := SideRight | SideLeft.          (* np.searchsorted(..., side=...) *)

(* which column each field of the per-group Bunch is read from *)
Record bunch_src : Type := mkbunch { b_p0 : col_tag; b_op0 : col_tag; b_p1 : col_tag; b_op1 : col_tag }.

(* ---------- interpreters: selection ---------- *)
Definition select_src (s : sel_tag) (l : list Q) : nat :=
  match s with SelFirstMax => argmax l | SelFirstMin => argmax (map Qopp l) end.

Definition index_src (i : idx_tag) (s : sel_tag) (common : nat) (c : list ipt) : nat :=
  match i with IdxCommon => common | IdxOwn => select_src s (map iy c) end.

Definition colq (c : col_tag) (i : ipt) : Q :=
  match c with ColX => ix i | ColY => iy i | ColP0 => ip0 i | ColP1 => ip1 i | ColOp0 | ColOp1 => 0 end.
Definition colop (c : col_tag) (i : ipt) : op :=
  match c with ColOp0 => iop0 i | ColOp1 => iop1 i | _ => dop end.
Definition rule_src (b : bunch_src) (i : ipt) (ig : option (Q * Q)) : rule :=
  mkrule (colq (b_p0 b) i) (colop (b_op0 b) i) (colq (b_p1 b) i) (colop (b_op1 b) i) ig.

(* ---------- simple constraints ---------- *)
(* i_best = <select>(overall curve); per group: Bunch(<bunch> of curve.iloc[<index>]) *)
Definition fit_simple_src (s : sel_tag) (i : idx_tag) (flip : bool) (mx my : metric) (N : positive)
                          (gs : list group) : fit_simple_t :=
  let curves := map (group_curve flip mx my N) gs in
  let ov := overall_curve gs curves (S (Pos.to_nat N)) in
  let ib := select_src s ov in
  mkfs ib ov (map (fun c => nth (index_src i s ib c) c dipt) curves).

Definition simple_rules_src (b : bunch_src) (f : fit_simple_t) : list rule :=
  map (fun i => rule_src b i None) (fs_sel f).

(* the arithmetic of the accumulation loop, parametrised by the three source expressions:
     overall = <init>(x_grid);  p = <weight>(len(group), n);  overall = <acc>(overall, p, curve.y) *)
Fixpoint zip_acc (acc : Q -> Q -> Q -> Q) (w : Q) (a : list Q) (c : list ipt) : list Q :=
  match a, c with
  | x :: a', i :: c' => acc x w (iy i) :: zip_acc acc w a' c'
  | _, _ => []
  end.
Definition overall_curve_src (init : Q -> Q) (weight : Q -> Q -> Q) (acc : Q -> Q -> Q -> Q)
                             (gs : list group) (curves : list (list ipt)) (xgrid : list Q) : list Q :=
  fold_left (fun a gc => zip_acc acc (weight (inject_Z (Z.of_nat (length (fst gc))))
                                             (inject_Z (Z.of_nat (total_rows gs)))) a (snd gc))
            (combine gs curves) (map init xgrid).

(* ---------- equalized odds ---------- *)
Fixpoint zip_max (a b : list Q) : list Q :=
  match a, b with
  | x :: a', y :: b' => Qmaxq x y :: zip_max a' b'
  | _, _ => []
  end.
Definition zip_red (r : red_tag) : list Q -> list Q -> list Q :=
  match r with RedMin => zip_min | RedMax => zip_max | RedMean => zip_add end.
Definition reduce_src (r : red_tag) (curves : list (list ipt)) : list Q :=
  match curves with
  | [] => []
  | c :: rest =>
      let acc := fold_left (fun acc c' => zip_red r acc (map iy c')) rest (map iy c) in
      match r with
      | RedMean => map (fun v => v / inject_Z (Z.of_nat (length curves))) acc
      | _ => acc
      end
  end.

Definition const_src (c : const_tag) (xb yb : Q) : Q := match c with ConstXBest => xb | ConstYBest => yb end.

(* counts : n_positive n_negative x y_min -> Bunch;  pig : x y x_best y_best -> p_ignore;  nneg : n n_positive -> n_negative *)
Definition fit_eo_src (xm ym : metric) (red : red_tag) (sel : sel_tag) (idx : idx_tag) (cst : const_tag)
                      (b : bunch_src) (nneg_of : Z -> Z -> Z) (counts : Z -> Z -> Q -> Q -> cm)
                      (pig : Q -> Q -> Q -> Q -> Q)
                      (flip : bool) (obj : metric) (N : positive) (gs : list group) : fit_eo_t :=
  let all := concat gs in
  let npos := count_label true all in
  let nneg := nneg_of (Z.of_nat (length all)) npos in
  let curves := map (group_curve flip xm ym N) gs in
  let ymin := reduce_src red curves in
  let objs := map (fun xy => metric_eval obj (counts npos nneg (fst xy) (snd xy))) (combine (grid N) ymin) in
  let ib := select_src sel objs in
  let xb := nth ib (grid N) 0 in
  let yb := nth ib ymin 0 in
  let sel_rows := map (fun c => nth (index_src idx sel ib c) c dipt) curves in
  mkfe ib xb yb objs sel_rows
       (map (fun i => rule_src b i (Some (pig (ix i) (iy i) xb yb, const_src cst xb yb))) sel_rows).

(* ---------- _calculate_tradeoff_points ---------- *)
Definition ops_src : Type := list (opk * cm_tag).

(* `operations` of one threshold: the list chosen by `if flip:` *)
Definition points_at_src (act flp : Z -> Z -> Z -> Z -> cm) (ops_flip ops_noflip : ops_src)
                         (flip : bool) (mx my : metric) (nneg npos : Z) (e : thr * Z * Z) : list pt :=
  let '(t, c0, c1) := e in
  map (fun oc : opk * cm_tag =>
         let c := match snd oc with CmActual => act nneg npos c0 c1 | CmFlipped => flp nneg npos c0 c1 end in
         mkpt (metric_eval mx c) (metric_eval my c) (mkop (fst oc) t))
      (if flip then ops_flip else ops_noflip).

(* sort_values(by=keys, ascending=asc): the order relation *)
Definition keyv (k : key_tag) (p : pt) : Q := match k with KeyX => px p | KeyY => py p end.
Fixpoint key_leb (ks : list key_tag) (a b : pt) : bool :=
  match ks with
  | [] => true
  | k :: r => Qltb (keyv k a) (keyv k b) || (Qeqb (keyv k a) (keyv k b) && key_leb r a b)
  end.
Definition sort_leb (asc : bool) (ks : list key_tag) (a b : pt) : bool :=
  if asc then key_leb ks a b else key_leb ks b a.

(* value of the threshold stored as the doubled integer w, and the two comparisons on it:
   cmp_gt thr s  <->  s > thr ;  cmp_lt thr s  <->  s < thr   (ThresholdOperation.__call__) *)
Definition thr_q (w : Z) : Q := inject_Z w / 2.
Definition apply_op_q (gt lt : Q -> Q -> bool) (k : opk) (thr s : Q) : bool :=
  match k with OpGt => gt thr s | OpLt => lt thr s end.

(* searchsorted side *)
Fixpoint ss_left (xs : list Q) (x : Q) : nat :=
  match xs with
  | [] => 0%nat
  | h :: t => if Qltb h x then S (ss_left t x) else 0%nat
  end.
Definition searchsorted_src (s : side_tag) (xs : list Q) (x : Q) : nat :=
  match s with SideRight => ss_right xs x | SideLeft => ss_left xs x end.

(* ---------- the tags ThreshOpt.v / Tradeoff.v / Hull.v / Interp.v were written from ---------- *)
Definition model_bunch : bunch_src := mkbunch ColP0 ColOp0 ColP1 ColOp1.
Definition model_ops_flip : ops_src := [(OpGt, CmActual); (OpLt, CmFlipped)].
Definition model_ops_noflip : ops_src := [(OpGt, CmActual)].
Definition model_sort_keys : list key_tag := [KeyX; KeyY].
