(* Model of _get_interpolation_indices and _interpolate_curve (C04, C05).  Proof-free. *)
From Coq Require Import QArith ZArith List Bool.
From FL Require Import Num Tradeoff Hull.
Import ListNotations.
Open Scope Q_scope.

(* np.searchsorted(xs, x, side="right") on a sorted array: the first index whose value is > x *)
Fixpoint ss_right (xs : list Q) (x : Q) : nat :=
  match xs with
  | [] => 0%nat
  | h :: t => if Qleb h x then S (ss_right t x) else 0%nat
  end.

(* indices = searchsorted(...) - 1   (first grid point: left as is) *)
Definition idx_raw (xs : list Q) (x : Q) : nat := pred (ss_right xs x).
(* indices[1:] = where(x_grid[1:] == x_values[indices[1:]], indices[1:] - 1, indices[1:]) *)
Definition idx_adj (xs : list Q) (x : Q) : nat :=
  let i := idx_raw xs x in if Qeqb x (nth i xs 0) then pred i else i.

Definition dop : op := mkop OpGt TInf.
Definition dpt : pt := mkpt 0 0 dop.

Record ipt : Type := mkipt { ix : Q; iy : Q; ip0 : Q; iop0 : op; ip1 : Q; iop1 : op }.

(* p0 = (x[i+1] - x) / (x[i+1] - x[i]); p1 = 1 - p0; y = p0*y[i] + p1*y[i+1] *)
Definition interp_at (h : list pt) (i : nat) (x : Q) : ipt :=
  let a := nth i h dpt in
  let b := nth (S i) h dpt in
  let p0 := (px b - x) / (px b - px a) in
  let p1 := 1 - p0 in
  mkipt x (p0 * py a + p1 * py b) p0 (pop a) p1 (pop b).

Definition interp_first (h : list pt) (x : Q) : ipt := interp_at h (idx_raw (map px h) x) x.
Definition interp_rest (h : list pt) (x : Q) : ipt := interp_at h (idx_adj (map px h) x) x.

Definition interpolate (h : list pt) (grid : list Q) : list ipt :=
  match grid with
  | [] => []
  | g0 :: rest => interp_first h g0 :: map (interp_rest h) rest
  end.

(* np.linspace(0, 1, N + 1) *)
Definition grid_pt (N : positive) (k : nat) : Q := Z.of_nat k # N.
Definition grid (N : positive) : list Q := map (grid_pt N) (seq 0 (S (Pos.to_nat N))).

(* the piecewise-linear curve of a chain, evaluated at any x in [0,1] with the same index rule
   (x = 0 is the first grid point, every other grid point is > 0) *)
Definition interp_curve (h : list pt) (x : Q) : Q :=
  iy (if Qeqb x 0 then interp_first h x else interp_rest h x).
