(* Model of the (x, y) sort and of _filter_points_to_get_convex_hull (Andrew's monotone chain,
   upper part only) -- C04, C05.  Proof-free. *)
From Coq Require Import QArith ZArith List Bool.
From FL Require Import Num Tradeoff.
Import ListNotations.
Open Scope Q_scope.

(* DataFrame.sort_values(by=["x","y"]): lexicographic, stable *)
Definition pt_leb (a b : pt) : bool :=
  Qltb (px a) (px b) || (Qeqb (px a) (px b) && Qleb (py a) (py b)).

Fixpoint ins_xy (a : pt) (l : list pt) : list pt :=
  match l with
  | [] => [a]
  | h :: t => if pt_leb a h then a :: l else h :: ins_xy a t
  end.
Definition sort_xy (l : list pt) : list pt := fold_right ins_xy [] l.

Definition tradeoff_points (flip : bool) (mx my : metric) (g : group) : list pt :=
  sort_xy (tradeoff_raw flip mx my g).

(* the drop test of the inner while loop, on coordinates:
   (r1.y - r0.y) * (r2.x - r0.x) <= (r2.y - r0.y) * (r1.x - r0.x) *)
Definition drop_test_xy (x0 y0 x1 y1 x2 y2 : Q) : bool :=
  Qleb ((y1 - y0) * (x2 - x0)) ((y2 - y0) * (x1 - x0)).
Definition drop_test (r0 r1 r2 : pt) : bool :=
  drop_test_xy (px r0) (py r0) (px r1) (py r1) (px r2) (py r2).

(* `selected` is kept reversed (top of the stack first) *)
Fixpoint pop_stack (st : list pt) (r2 : pt) : list pt :=
  match st with
  | r1 :: st' =>
      match st' with
      | r0 :: _ => if drop_test r0 r1 r2 then pop_stack st' r2 else st
      | [] => st
      end
  | [] => st
  end.

Definition hull_step (st : list pt) (r2 : pt) : list pt := r2 :: pop_stack st r2.
Definition hull_rev (pts : list pt) : list pt := fold_left hull_step pts [].
Definition hull (pts : list pt) : list pt := rev (hull_rev pts).

(* ---------- tie detection (separate replay of the same loop) ----------
   A drop test with exact equality is float-fragile unless both sides are equal for a structural
   reason (two of the three points coincide, or the three share one x). *)
Definition same_xy (a b : pt) : bool := Qeqb (px a) (px b) && Qeqb (py a) (py b).
Definition fragile_eq (r0 r1 r2 : pt) : bool :=
  Qeqb ((py r1 - py r0) * (px r2 - px r0)) ((py r2 - py r0) * (px r1 - px r0))
  && negb (same_xy r1 r2 || same_xy r0 r1 || (Qeqb (px r0) (px r1) && Qeqb (px r1) (px r2))).

Fixpoint pop_ties (st : list pt) (r2 : pt) : bool :=
  match st with
  | r1 :: st' =>
      match st' with
      | r0 :: _ => fragile_eq r0 r1 r2 || (if drop_test r0 r1 r2 then pop_ties st' r2 else false)
      | [] => false
      end
  | [] => false
  end.

Definition hull_ties (pts : list pt) : bool :=
  snd (fold_left (fun (a : list pt * bool) r2 => (hull_step (fst a) r2, snd a || pop_ties (fst a) r2))
                 pts ([], false)).

(* two sorted-adjacent points with the same (x, y) but different operations: which one survives
   depends on the stable order only; reported separately (not fragile by itself) *)
Fixpoint has_dup_xy (l : list pt) : bool :=
  match l with
  | a :: ((b :: _) as t) => same_xy a b || has_dup_xy t
  | _ => false
  end.

(* ---------- C05: the boolean "chain is an upper hull of pts" ---------- *)
Definition cross (a b p : pt) : Q :=
  (px b - px a) * (py p - py a) - (py b - py a) * (px p - px a).

Fixpoint is_upper_hull (chain pts : list pt) : bool :=
  match chain with
  | a :: t =>
      match t with
      | b :: _ => forallb (fun p => Qleb (cross a b p) 0) pts && is_upper_hull t pts
      | [] => true
      end
  | [] => true
  end.
