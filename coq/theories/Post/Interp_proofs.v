(* interp_index_valid: the index rule of _get_interpolation_indices brackets every grid value,
   so the interpolation weights are well defined, in [0,1], sum to 1 and reproduce the grid value. *)
From Coq Require Import QArith ZArith List Bool Lia Lra Psatz.
From FL Require Import Num Tradeoff Tradeoff_proofs Hull Interp.
Import ListNotations.
Open Scope Q_scope.

(* what the hull guarantees about its x column: starts at 0, ends at 1, non-decreasing, and
   strictly increasing from the second element on (only the first segment may be vertical) *)
Definition chain_ok (xs : list Q) : Prop :=
  (2 <= length xs)%nat /\ nth 0 xs 0 == 0 /\ nth (length xs - 1) xs 0 == 1 /\
  (forall i, (S i < length xs)%nat -> nth i xs 0 <= nth (S i) xs 0) /\
  (forall i, (1 <= i)%nat -> (S i < length xs)%nat -> nth i xs 0 < nth (S i) xs 0).

Definition bracket (xs : list Q) (i : nat) (x : Q) : Prop :=
  (S i < length xs)%nat /\ nth i xs 0 < nth (S i) xs 0 /\ nth i xs 0 <= x /\ x <= nth (S i) xs 0.

Lemma ss_right_len xs x : (ss_right xs x <= length xs)%nat.
Proof. induction xs as [|h t IH]; cbn; [lia|]. destruct (Qleb h x); cbn; lia. Qed.

Lemma ss_right_le xs x : forall i, (i < ss_right xs x)%nat -> nth i xs 0 <= x.
Proof.
  induction xs as [|h t IH]; cbn [ss_right]; intros i Hi; [lia|].
  destruct (Qleb h x) eqn:E; [|lia]. apply Qleb_le in E.
  destruct i as [|i]; cbn [nth]; [exact E | apply IH; lia].
Qed.

Lemma ss_right_gt xs x : (ss_right xs x < length xs)%nat -> x < nth (ss_right xs x) xs 0.
Proof.
  induction xs as [|h t IH]; cbn [ss_right length]; intro Hl; [lia|].
  destruct (Qleb h x) eqn:E.
  - cbn [nth]. apply IH. lia.
  - cbn [nth]. apply Qleb_gt in E. exact E.
Qed.

Lemma chain_nonneg xs : chain_ok xs -> forall i, (i < length xs)%nat -> 0 <= nth i xs 0.
Proof.
  intros (_ & H0 & _ & Hle & _) i. induction i as [|i IH]; intro Hi.
  - rewrite H0. lra.
  - specialize (Hle i Hi). specialize (IH ltac:(lia)). lra.
Qed.

Lemma ss_right_pos xs x : chain_ok xs -> 0 <= x -> (1 <= ss_right xs x)%nat.
Proof.
  intros (Hl & H0 & _) Hx. destruct xs as [|h t]; [cbn in Hl; lia|].
  cbn [nth] in H0. cbn [ss_right]. assert (E : Qleb h x = true) by (apply Qleb_le; lra).
  rewrite E. lia.
Qed.

(* first grid point (x = 0): index searchsorted - 1, not adjusted *)
Theorem idx_raw_valid xs x : chain_ok xs -> x == 0 -> bracket xs (idx_raw xs x) x.
Proof.
  intros Hc Hx. pose proof Hc as (Hl & H0 & H1 & Hle & Hlt).
  pose proof (ss_right_pos xs x Hc ltac:(lra)) as Hp.
  pose proof (ss_right_len xs x) as Hlen.
  unfold idx_raw, bracket.
  assert (Hj : (ss_right xs x < length xs)%nat).
  { destruct (Nat.eq_dec (ss_right xs x) (length xs)) as [E|E]; [|lia].
    pose proof (ss_right_le xs x (length xs - 1)%nat ltac:(lia)) as C. lra. }
  pose proof (ss_right_gt xs x Hj) as Hgt.
  pose proof (ss_right_le xs x (pred (ss_right xs x)) ltac:(lia)) as Hlo.
  pose proof (chain_nonneg xs Hc (pred (ss_right xs x)) ltac:(lia)) as Hnn.
  replace (S (pred (ss_right xs x))) with (ss_right xs x) by lia.
  repeat split; try lia; lra.
Qed.

(* every other grid point (x > 0): decrement when the grid value hits a hull vertex *)
Theorem idx_adj_valid xs x : chain_ok xs -> 0 < x -> x <= 1 ->
  let i := idx_adj xs x in bracket xs i x /\ nth i xs 0 < x.
Proof.
  intros Hc Hx0 Hx1. pose proof Hc as (Hl & H0 & H1 & Hle & Hlt).
  pose proof (ss_right_pos xs x Hc ltac:(lra)) as Hp.
  pose proof (ss_right_len xs x) as Hlen.
  pose proof (ss_right_le xs x (pred (ss_right xs x)) ltac:(lia)) as Hlo.
  cbv zeta. unfold idx_adj, idx_raw, bracket.
  destruct (Qeqb x (nth (pred (ss_right xs x)) xs 0)) eqn:E.
  - apply Qeqb_eq in E.
    assert (Hi : (1 <= pred (ss_right xs x))%nat).
    { destruct (pred (ss_right xs x)) eqn:Ep; [|lia]. rewrite H0 in E. lra. }
    replace (S (pred (pred (ss_right xs x)))) with (pred (ss_right xs x)) by lia.
    assert (Hs : nth (pred (pred (ss_right xs x))) xs 0 < nth (pred (ss_right xs x)) xs 0).
    { destruct (Nat.eq_dec (pred (pred (ss_right xs x))) 0) as [Z|Z].
      - rewrite Z, H0. lra.
      - pose proof (Hlt (pred (pred (ss_right xs x))) ltac:(lia) ltac:(lia)) as K.
        replace (S (pred (pred (ss_right xs x)))) with (pred (ss_right xs x)) in K by lia. exact K. }
    repeat split; try lia; lra.
  - apply Qeqb_neq in E.
    assert (Hj : (ss_right xs x < length xs)%nat).
    { destruct (Nat.eq_dec (ss_right xs x) (length xs)) as [Z|Z]; [|lia]. exfalso. apply E.
      replace (pred (ss_right xs x)) with (length xs - 1)%nat in * by lia. lra. }
    pose proof (ss_right_gt xs x Hj) as Hgt.
    replace (S (pred (ss_right xs x))) with (ss_right xs x) by lia.
    assert (nth (pred (ss_right xs x)) xs 0 < x).
    { destruct (Qlt_le_dec (nth (pred (ss_right xs x)) xs 0) x) as [L|L]; [exact L|]. exfalso. apply E. lra. }
    repeat split; try lia; lra.
Qed.

(* consequences for the interpolation weights *)
Lemma bracket_weights xs i x : bracket xs i x ->
  let a := nth i xs 0 in let b := nth (S i) xs 0 in
  let p0 := (b - x) / (b - a) in let p1 := 1 - p0 in
  ~ b - a == 0 /\ 0 <= p0 /\ p0 <= 1 /\ p0 + p1 == 1 /\ p0 * a + p1 * b == x.
Proof.
  intros (Hl & Hab & Ha & Hb). cbv zeta.
  set (a := nth i xs 0) in *. set (b := nth (S i) xs 0) in *.
  assert (Hd : 0 < b - a) by lra.
  assert (Hn : ~ b - a == 0) by lra.
  split; [exact Hn|].
  assert (Hp0 : 0 <= (b - x) / (b - a)).
  { apply Qle_shift_div_l; [exact Hd | lra]. }
  assert (Hp1 : (b - x) / (b - a) <= 1).
  { apply Qle_shift_div_r; [exact Hd | lra]. }
  repeat split; try assumption; try (field; exact Hn).
Qed.

(* interp_index_valid, assembled on the interpolated row *)
Definition ipt_ok (h : list pt) (r : ipt) : Prop :=
  exists i, (S i < length h)%nat /\
    iop0 r = pop (nth i h dpt) /\ iop1 r = pop (nth (S i) h dpt) /\
    0 <= ip0 r /\ ip0 r <= 1 /\ ip0 r + ip1 r == 1 /\
    ip0 r * px (nth i h dpt) + ip1 r * px (nth (S i) h dpt) == ix r /\
    iy r == ip0 r * py (nth i h dpt) + ip1 r * py (nth (S i) h dpt) /\
    px (nth i h dpt) < px (nth (S i) h dpt).

Lemma nth_map_px h i : nth i (map px h) 0 = px (nth i h dpt).
Proof. change 0 with (px dpt). apply map_nth. Qed.

Lemma interp_at_ok h i x : bracket (map px h) i x -> ipt_ok h (interp_at h i x).
Proof.
  intro B. pose proof (bracket_weights _ _ _ B) as W. cbv zeta in W.
  destruct B as (Hl & Hab & _). rewrite map_length in Hl. rewrite !nth_map_px in W, Hab.
  destruct W as (Hn & W0 & W1 & Ws & Wx).
  exists i. unfold interp_at. cbn [iop0 iop1 ip0 ip1 ix iy].
  repeat split; try assumption; reflexivity.
Qed.

Theorem interp_index_valid_first h x : chain_ok (map px h) -> x == 0 -> ipt_ok h (interp_first h x).
Proof. intros Hc Hx. apply interp_at_ok, idx_raw_valid; assumption. Qed.

Theorem interp_index_valid_rest h x : chain_ok (map px h) -> 0 < x -> x <= 1 -> ipt_ok h (interp_rest h x).
Proof. intros Hc H0 H1. apply interp_at_ok. apply (idx_adj_valid _ _ Hc H0 H1). Qed.

(* the rows of `interpolate h (grid N)` *)
Lemma grid_length N : length (grid N) = S (Pos.to_nat N).
Proof. unfold grid. rewrite map_length, seq_length. reflexivity. Qed.

Lemma nth_grid N k : (k <= Pos.to_nat N)%nat -> nth k (grid N) 0 = grid_pt N k.
Proof.
  intro Hk. unfold grid.
  rewrite (nth_indep _ 0 (grid_pt N 0)) by (rewrite map_length, seq_length; lia).
  rewrite map_nth. f_equal. apply seq_nth. lia.
Qed.

Lemma grid_pt_range N k : (k <= Pos.to_nat N)%nat -> 0 <= grid_pt N k /\ grid_pt N k <= 1.
Proof.
  intro Hk. unfold grid_pt, Qle. cbn [Qnum Qden]. lia.
Qed.

Lemma grid_pt_pos N k : (1 <= k)%nat -> 0 < grid_pt N k.
Proof. intro Hk. unfold grid_pt, Qlt. cbn [Qnum Qden]. lia. Qed.

Definition dipt0 : ipt := mkipt 0 0 0 dop 0 dop.

Lemma nth_map_seq {A} (f : nat -> A) n k d : (k < n)%nat -> nth k (map f (seq 0 n)) d = f k.
Proof.
  intro Hk. rewrite (nth_indep _ d (f 0%nat)) by (rewrite map_length, seq_length; lia).
  rewrite map_nth, seq_nth by lia. reflexivity.
Qed.

Lemma nth_interpolate h N k d : (k <= Pos.to_nat N)%nat ->
  nth k (interpolate h (grid N)) d =
  match k with O => interp_first h (grid_pt N 0) | S _ => interp_rest h (grid_pt N k) end.
Proof.
  intro Hk. unfold interpolate, grid. cbn [seq map].
  destruct k as [|k]; cbn [nth]; [reflexivity|].
  rewrite <- seq_shift, !map_map.
  rewrite nth_map_seq by lia. reflexivity.
Qed.

Theorem interpolate_row_ok h N k d : chain_ok (map px h) -> (k <= Pos.to_nat N)%nat ->
  let r := nth k (interpolate h (grid N)) d in ipt_ok h r /\ ix r = grid_pt N k.
Proof.
  intros Hc Hk. cbv zeta. rewrite nth_interpolate by exact Hk.
  destruct k as [|k].
  - split; [|reflexivity]. apply interp_index_valid_first; [exact Hc | reflexivity].
  - split; [|reflexivity]. apply interp_index_valid_rest; [exact Hc | apply grid_pt_pos; lia | apply grid_pt_range; exact Hk].
Qed.
