(* Base numerics: exact rationals, extended values (NaN / +-inf), sums, dot
   products, list minima / maxima.  Model files stay proof-free; the lemmas
   live in Num_proofs.v. *)
From Coq Require Import QArith ZArith List Bool.
Import ListNotations.
Open Scope Q_scope.

(* ---------- sums and dot products over Q ---------- *)

Fixpoint qsum (l : list Q) : Q :=
  match l with [] => 0 | x :: r => x + qsum r end.

Fixpoint dot (a b : list Q) : Q :=
  match a, b with
  | x :: a', y :: b' => x * y + dot a' b'
  | _, _ => 0
  end.

Definition qsum_map {A} (f : A -> Q) (l : list A) : Q := qsum (map f l).

Definition Qleb (a b : Q) : bool := Qle_bool a b.
Definition Qltb (a b : Q) : bool := negb (Qle_bool b a).
Definition Qeqb (a b : Q) : bool := Qeq_bool a b.

Definition Qmaxq (a b : Q) : Q := if Qleb a b then b else a.
Definition Qminq (a b : Q) : Q := if Qleb a b then a else b.

Definition qabs (a : Q) : Q := if Qleb 0 a then a else - a.

(* division as numpy does it is on ext below; qdiv0 is the guarded division
   used where the code itself guards (sklearn's normalize: 0 for an empty row) *)
Definition qdiv0 (a b : Q) : Q := if Qeqb b 0 then 0 else a / b.

Fixpoint qmax_list (d : Q) (l : list Q) : Q :=
  match l with [] => d | x :: r => Qmaxq x (qmax_list d r) end.
Fixpoint qmin_list (d : Q) (l : list Q) : Q :=
  match l with [] => d | x :: r => Qminq x (qmin_list d r) end.

(* non-empty max / min *)
Definition qmax1 (l : list Q) : option Q :=
  match l with [] => None | x :: r => Some (fold_left Qmaxq r x) end.
Definition qmin1 (l : list Q) : option Q :=
  match l with [] => None | x :: r => Some (fold_left Qminq r x) end.

(* ---------- extended numbers: what a float cell can hold ---------- *)

Inductive ext : Type := Fin (q : Q) | PInf | NInf | NaN.

Definition ext_is_nan (x : ext) : bool := match x with NaN => true | _ => false end.

Definition ext_neg (x : ext) : ext :=
  match x with Fin q => Fin (- q) | PInf => NInf | NInf => PInf | NaN => NaN end.

Definition ext_add (x y : ext) : ext :=
  match x, y with
  | NaN, _ | _, NaN => NaN
  | Fin a, Fin b => Fin (a + b)
  | PInf, NInf | NInf, PInf => NaN
  | PInf, _ | _, PInf => PInf
  | NInf, _ | _, NInf => NInf
  end.

Definition ext_sub (x y : ext) : ext := ext_add x (ext_neg y).

Definition ext_abs (x : ext) : ext :=
  match x with Fin q => Fin (qabs q) | PInf | NInf => PInf | NaN => NaN end.

Definition qsign (q : Q) : comparison := Qcompare q 0.

(* IEEE division (numpy / pandas float semantics, no exception) *)
Definition ext_div (x y : ext) : ext :=
  match x, y with
  | NaN, _ | _, NaN => NaN
  | Fin a, Fin b =>
      match qsign b with
      | Eq => match qsign a with Eq => NaN | Gt => PInf | Lt => NInf end
      | _ => Fin (a / b)
      end
  | Fin _, (PInf | NInf) => Fin 0
  | (PInf | NInf), (PInf | NInf) => NaN
  | PInf, Fin b => match qsign b with Lt => NInf | _ => PInf end
  | NInf, Fin b => match qsign b with Lt => PInf | _ => NInf end
  end.

(* x < y; false whenever a NaN is involved *)
Definition ext_ltb (x y : ext) : bool :=
  match x, y with
  | NaN, _ | _, NaN => false
  | Fin a, Fin b => Qltb a b
  | NInf, NInf => false | NInf, _ => true
  | _, NInf => false
  | PInf, _ => false
  | Fin _, PInf => true
  end.

Definition ext_leb (x y : ext) : bool :=
  match x, y with
  | NaN, _ | _, NaN => false
  | Fin a, Fin b => Qleb a b
  | NInf, _ => true
  | _, PInf => true
  | _, _ => false
  end.

(* pandas Series.min()/max(): skip NaN, NaN when nothing is left *)
Definition ext_min2 (x y : ext) : ext :=
  match x, y with
  | NaN, _ => y | _, NaN => x
  | _, _ => if ext_leb x y then x else y
  end.
Definition ext_max2 (x y : ext) : ext :=
  match x, y with
  | NaN, _ => y | _, NaN => x
  | _, _ => if ext_leb x y then y else x
  end.

Definition ext_min (l : list ext) : ext := fold_right ext_min2 NaN l.
Definition ext_max (l : list ext) : ext := fold_right ext_max2 NaN l.

Definition ext_of_opt (o : option Q) : ext := match o with Some q => Fin q | None => NaN end.

(* ---------- small helpers over nat / Z used by several models ---------- *)

Definition Zsum (l : list Z) : Z := fold_right Z.add 0%Z l.

Definition inject_nat (n : nat) : Q := inject_Z (Z.of_nat n).
