(* List utilities shared by the models: sorted-unique on Z and on Z-tuples,
   cartesian products, lookups, counting.  Proof-free. *)
From Coq Require Import ZArith List Bool.
Import ListNotations.
Open Scope Z_scope.

Fixpoint zinsert (x : Z) (l : list Z) : list Z :=
  match l with
  | [] => [x]
  | y :: r => if x <? y then x :: l else if x =? y then l else y :: zinsert x r
  end.

(* numpy.unique / sorted set of observed values *)
Definition zuniq (l : list Z) : list Z := fold_right zinsert [] l.

Fixpoint zmem (x : Z) (l : list Z) : bool :=
  match l with [] => false | y :: r => (x =? y) || zmem x r end.

(* tuples of codes (index keys), lexicographic order *)
Fixpoint key_cmp (a b : list Z) : comparison :=
  match a, b with
  | [], [] => Eq
  | [], _ => Lt
  | _, [] => Gt
  | x :: a', y :: b' => match Z.compare x y with Eq => key_cmp a' b' | c => c end
  end.

Definition key_eqb (a b : list Z) : bool :=
  match key_cmp a b with Eq => true | _ => false end.

Fixpoint kinsert (x : list Z) (l : list (list Z)) : list (list Z) :=
  match l with
  | [] => [x]
  | y :: r => match key_cmp x y with
              | Lt => x :: l
              | Eq => l
              | Gt => y :: kinsert x r
              end
  end.

Definition kuniq (l : list (list Z)) : list (list Z) := fold_right kinsert [] l.

Fixpoint kmem (x : list Z) (l : list (list Z)) : bool :=
  match l with [] => false | y :: r => key_eqb x y || kmem x r end.

(* pd.MultiIndex.from_product: first level varies slowest *)
Fixpoint product (levels : list (list Z)) : list (list Z) :=
  match levels with
  | [] => [[]]
  | l :: rest => flat_map (fun x => map (cons x) (product rest)) l
  end.

(* column j of a list of tuples *)
Definition column (j : nat) (rows : list (list Z)) : list Z :=
  map (fun r => nth j r 0) rows.

Fixpoint seq_nat (start len : nat) : list nat :=
  match len with O => [] | S k => start :: seq_nat (S start) k end.

Definition count_if {A} (p : A -> bool) (l : list A) : nat := length (filter p l).

Fixpoint assoc {V} (k : list Z) (m : list (list Z * V)) : option V :=
  match m with
  | [] => None
  | (k', v) :: r => if key_eqb k k' then Some v else assoc k r
  end.

Fixpoint zassoc {V} (k : Z) (m : list (Z * V)) : option V :=
  match m with
  | [] => None
  | (k', v) :: r => if k =? k' then Some v else zassoc k r
  end.
