(* Wire format of the correspondence runs: every model result is flattened to
   a list of integers that the harness decodes with the same grammar. *)
From Coq Require Import QArith ZArith List Bool.
From FL Require Import Num.
Import ListNotations.
Open Scope Z_scope.

Definition enc_q (q : Q) : list Z :=
  let r := Qred q in [Qnum r; Zpos (Qden r)].

Definition enc_ext (x : ext) : list Z :=
  match x with
  | Fin q => 0 :: enc_q q
  | PInf => [1]
  | NInf => [2]
  | NaN => [3]
  end.

Definition enc_bool (b : bool) : list Z := [if b then 1 else 0].
Definition enc_nat (n : nat) : list Z := [Z.of_nat n].
Definition enc_z (z : Z) : list Z := [z].

Definition enc_list {A} (f : A -> list Z) (l : list A) : list Z :=
  Z.of_nat (length l) :: flat_map f l.

Definition enc_opt {A} (f : A -> list Z) (o : option A) : list Z :=
  match o with None => [0] | Some a => 1 :: f a end.

Definition enc_pair {A B} (f : A -> list Z) (g : B -> list Z) (p : A * B) : list Z :=
  f (fst p) ++ g (snd p).

Definition enc_key (k : list Z) : list Z := enc_list enc_z k.
