(* C08 (extension) -- the parts of ExponentiatedGradient.fit / _Lagrangian around the certificate that
   Saddle.v left to textual checks:
     * the Python loop shape `for x in xs: cur = step x cur; if brk cur: break` (eval_gap)
     * what one iteration of fit appends to Qs / gaps (EG or LP candidate, as a PAIR)
     * what fit hands out: best_iter_, best_gap_ = gaps[best_iter_], weights_ = Qs[best_iter_]
     * which nu the run uses (`if self.nu is None: self.nu = <automatic value>`)
     * the linear program _Lagrangian.solve_linprog hands to scipy (objective, rows, bounds)
   Proof-free; the lemmas are in SaddleFit_proofs.v.  The solver and the multiplicative-weights update
   are NOT modelled: statements quantify over whatever candidates they produce. *)
From Coq Require Import QArith ZArith List Bool.
From FL Require Import Num Saddle.
Import ListNotations.
Open Scope Q_scope.

(* ---------- `for x in xs: cur = step x cur; if brk cur: break`; the value of cur afterwards ---------- *)
Fixpoint for_break {A : Type} (step : A -> Q -> Q) (brk : Q -> bool) (xs : list A) (cur : Q) : Q :=
  match xs with
  | [] => cur
  | x :: rest => let cur' := step x cur in if brk cur' then cur' else for_break step brk rest cur'
  end.

(* ---------- one iteration of fit.  EG candidate (Q_EG, gap_EG); LP candidate only when solve_linprog ran
   (otherwise gap_LP = np.inf and `gap_EG < gap_LP` holds).  What is appended to (Qs, gaps), as a pair:
     if gap_EG < gap_LP: Qs.append(Q_EG); gaps.append(gap_EG)  else: Qs.append(Q_LP); gaps.append(gap_LP) *)
Definition keep_pair {A : Type} (Q_EG : A) (gap_EG : Q) (LP : option (A * Q)) : A * Q :=
  match LP with
  | None => (Q_EG, gap_EG)
  | Some lp => if Qltb gap_EG (snd lp) then (Q_EG, gap_EG) else (fst lp, snd lp)
  end.

(* ---------- what fit hands out, from the two lists it built ----------
     gaps_best = gaps_series[gaps_series <= gaps_series.min() + _PRECISION]
     self.best_iter_ = gaps_best.index[-1]; self.best_gap_ = gaps[self.best_iter_]; self.weights_ = Qs[self.best_iter_] *)
Definition returned {A : Type} (d : A) (prec : Q) (gaps : list Q) (Qs : list A) : nat * Q * A :=
  let best_iter := select prec gaps in
  let best_gap := nth best_iter gaps 0 in
  let weights := nth best_iter Qs d in
  (best_iter, best_gap, weights).

Definition ret_iter {A : Type} (r : nat * Q * A) : nat := fst (fst r).
Definition ret_gap {A : Type} (r : nat * Q * A) : Q := snd (fst r).
Definition ret_weights {A : Type} (r : nat * Q * A) : A := snd r.

(* ---------- the threshold the run uses: the constructor's nu, the automatic value only for nu=None ---------- *)
Definition nu_used (nu_param : option Q) (auto : Q) : Q :=
  match nu_param with None => auto | Some v => v end.

(* ---------- solve_linprog: variables (x_1 .. x_n, z), n = number of hypotheses found so far
     c     = concatenate(errors, [B])                         minimise  errors . x + B z
     A_ub  = [gammas.sub(bound, axis=0) | -1], b_ub = 0        for every constraint j:
                                                                 sum_i (gamma_j(h_i) - c_j) x_i - z <= 0
     A_eq  = [1 .. 1 | 0], b_eq = 1                            sum_i x_i = 1
     no `bounds=` argument: scipy's default (0, None)          x_i >= 0, z >= 0
   H is the list of hypotheses found so far. *)
Section LP.
  Variable H : list hyp.
  Variable c : list Q.
  Variable B : Q.

  (* row j of gammas.sub(bound, axis=0), times x *)
  Definition lp_row (x : list Q) (j : nat) : Q :=
    rdot x (map (fun h => nth j (gam_h h) 0 - nth j c 0) H).

  Definition lp_rows (x : list Q) : list Q := map (lp_row x) (seq 0 (length c)).

  Definition lp_feasible (x : list Q) (z : Q) : bool :=
    Nat.eqb (length x) (length H) && all_nonneg x && Qleb 0 z &&
    Qeqb (rsum x) 1 &&
    forallb (fun r => Qleb (r - z) 0) (lp_rows x).

  Definition lp_objective (x : list Q) (z : Q) : Q := rdot x (map err_h H) + B * z.

  (* an answer of the solver that is what was asked for *)
  Definition lp_optimal (x : list Q) (z : Q) : Prop :=
    lp_feasible x z = true /\
    forall x' z', lp_feasible x' z' = true -> lp_objective x z <= lp_objective x' z'.
End LP.

(* correspondence helper: feasibility of the returned weights with the smallest admissible z, exactly *)
Definition lp_check (H : list hyp) (c : list Q) (x : list Q) : bool * Q :=
  let z := Qmaxq 0 (vmax (lp_rows H c x)) in (lp_feasible H c x z, z).
