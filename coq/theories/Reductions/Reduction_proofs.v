(* Theorems about Reduction.v (C07): the reduction identity by exchange of two finite sums. *)
From Coq Require Import QArith ZArith List Bool Lia Lqa Setoid Sorted.
From FL Require Import Num ListX Moments Moments_proofs Reduction.
Import ListNotations.
Open Scope Q_scope.

(* ---------- vectors ---------- *)

Lemma zipw_length {A B C} (f : A -> B -> C) a b :
  length (zipw f a b) = Nat.min (length a) (length b).
Proof.
  revert b. induction a as [|x a IH]; intros [|y b]; cbn; auto.
Qed.

Lemma dot_nil_l b : dot [] b = 0.
Proof. reflexivity. Qed.

Lemma dot_vadd a b x : length a = length b -> dot (vadd a b) x == dot a x + dot b x.
Proof.
  revert b x. induction a as [|p a IH]; intros [|q b] [|y x] L; try discriminate; cbn;
    try ring.
  rewrite IH by (cbn in L; lia). ring.
Qed.

Lemma dot_vsub w a b : length a = length b -> dot w (vsub a b) == dot w a - dot w b.
Proof.
  revert a b. induction w as [|p w IH]; intros [|x a] [|y b] L; try discriminate; cbn;
    try ring.
  rewrite IH by (cbn in L; lia). ring.
Qed.

Lemma dot_scale l c x : dot (map (Qmult l) c) x == l * dot c x.
Proof.
  revert x. induction c as [|p c IH]; intros [|y x]; cbn; try ring.
  rewrite IH. ring.
Qed.

Lemma dot_repeat0 n x : dot (repeat 0 n) x == 0.
Proof.
  revert x. induction n as [|n IH]; intros [|y x]; cbn; try ring.
  rewrite IH. ring.
Qed.

Lemma lincomb_length n cols lam :
  Forall (fun c => length c = n) cols -> length (lincomb n cols lam) = n.
Proof.
  intro H. revert lam. induction H as [|c cs Hc Hcs IH]; intros [|l ls]; cbn [lincomb];
    try apply repeat_length.
  unfold vadd. rewrite zipw_length, map_length, Hc, IH. lia.
Qed.

(* the exchange of sums: (U lam) . x = lam . (U^T x) *)
Lemma dot_lincomb n cols lam x :
  Forall (fun c => length c = n) cols ->
  dot (lincomb n cols lam) x == dot lam (map (fun c => dot c x) cols).
Proof.
  intro H. revert lam. induction H as [|c cs Hc Hcs IH]; intros [|l ls]; cbn [lincomb map dot].
  - apply dot_repeat0.
  - rewrite dot_repeat0. reflexivity.
  - apply dot_repeat0.
  - rewrite dot_vadd by (rewrite map_length, lincomb_length; auto).
    rewrite dot_scale, IH. reflexivity.
Qed.

Lemma dot_map_negdiv {A} (f : A -> Q) n lam l :
  dot lam (map (fun c => - f c / n) l) == - dot lam (map f l) / n.
Proof.
  revert lam. induction l as [|c l IH]; intros [|x lam]; cbn [map dot]; unfold Qdiv; try ring.
  rewrite IH. unfold Qdiv. ring.
Qed.

Lemma Umat_lengths k r rows : Forall (fun c => length c = length rows) (Umat k r rows).
Proof.
  unfold Umat. apply Forall_forall. intros c Hc. apply in_map_iff in Hc.
  destruct Hc as ([s [e g]] & <- & _). unfold ucol. apply map_length.
Qed.

(* lambda . gamma(h) = -((U lambda) . pred(h)) / n *)
Lemma lam_gamma_lincomb k r rows lam h :
  lam_gamma k r rows lam h
  == - dot (lincomb (length rows) (Umat k r rows) lam) (pred k rows h) / nrows rows.
Proof.
  unfold lam_gamma, gamma.
  rewrite (dot_map_negdiv (fun c => dot c (pred k rows h))).
  rewrite dot_lincomb by apply Umat_lengths. reflexivity.
Qed.

Lemma dot_pred k rows a h :
  length a = length rows -> length h = length rows ->
  dot a (pred k rows h) == dot (vmul (map (udiff k) rows) a) h + dot a (map (u0 k) rows).
Proof.
  revert a h. induction rows as [|x rows IH]; intros [|p a] [|y h] La Lh; try discriminate.
  - cbn. ring.
  - unfold pred, vmul. cbn [zipw map dot]. fold (pred k rows h) (vmul (map (udiff k) rows) a).
    rewrite IH by (cbn in *; lia). ring.
Qed.

(* gamma is affine in the prediction vector, with slope -(1/n) * signed_weights *)
Lemma lam_gamma_affine k r rows lam h :
  length h = length rows ->
  lam_gamma k r rows lam h
  == - (1 / nrows rows) * dot (signed_weights k r rows lam) h
     - dot (lincomb (length rows) (Umat k r rows) lam) (map (u0 k) rows) / nrows rows.
Proof.
  intro Lh. rewrite lam_gamma_lincomb. unfold signed_weights.
  rewrite dot_pred by (auto; apply lincomb_length, Umat_lengths).
  unfold Qdiv. ring.
Qed.

(* reduction_identity: for EVERY multiplier vector and any two soft predictors *)
Theorem reduction_identity (k : kind) (r : Q) (rows : list row) (lam h h' : list Q) :
  length h = length rows -> length h' = length rows ->
  lam_gamma k r rows lam h - lam_gamma k r rows lam h'
  == - (1 / nrows rows) * dot (signed_weights k r rows lam) (vsub h h').
Proof.
  intros L1 L2. rewrite !lam_gamma_affine by assumption.
  rewrite dot_vsub by congruence. ring.
Qed.

(* ---------- ErrorRate ---------- *)

Lemma Qltb_lt a b : Qltb a b = true <-> a < b.
Proof.
  unfold Qltb. rewrite negb_true_iff. split.
  - intro H. apply Qnot_le_lt. intro C. apply Qle_bool_iff in C. congruence.
  - intro H. destruct (Qle_bool b a) eqn:E; [|reflexivity].
    apply Qle_bool_iff in E. lra.
Qed.

Lemma Qltb_ge a b : Qltb a b = false <-> b <= a.
Proof.
  destruct (Qltb a b) eqn:E.
  - apply Qltb_lt in E. split; [discriminate | lra].
  - split; [|reflexivity]. intros _. apply Qnot_lt_le. intro C. apply Qltb_lt in C. congruence.
Qed.

Definition binary_rows (rows : list row) : Prop := Forall (fun rw => ry rw = 0%Z \/ ry rw = 1%Z) rows.
Definition soft (h : list Q) : Prop := Forall (fun x => 0 <= x /\ x <= 1) h.
Definition hard (h : list Q) : Prop := Forall (fun x => x == 0 \/ x == 1) h.

Lemma hard_soft h : hard h -> soft h.
Proof. apply Forall_impl. intros x [E|E]; rewrite E; split; lra. Qed.

(* cost of one row under a soft prediction: fn * y * (1 - h) + fp * (1 - y) * h *)
Definition er_cost (fp fn : Q) (rw : row) (hi : Q) : Q :=
  fn * inject_Z (ry rw) * (1 - hi) + fp * (1 - inject_Z (ry rw)) * hi.

Lemma er_numerator fp fn rows h :
  binary_rows rows -> soft h -> length h = length rows ->
  let se := zipw (fun rw hi => inject_Z (ry rw) - hi) rows h in
  qsum (map (fun s => s * fn) (filter (fun s => Qltb 0 s) se))
  + qsum (map (fun s => (- s) * fp) (filter (fun s => Qltb s 0) se))
  == qsum (zipw (er_cost fp fn) rows h).
Proof.
  intros Hb Hs. revert h Hs. induction Hb as [|x rows Hx Hb IH]; intros [|y h] Hs L; try discriminate.
  - cbn. ring.
  - inversion Hs as [|? ? [Hy0 Hy1] Hs']; subst. cbn zeta in IH |- *.
    cbn [zipw filter]. specialize (IH h Hs' ltac:(cbn in L; lia)).
    unfold er_cost at 1.
    destruct Hx as [-> | ->]; [change (inject_Z 0) with 0 | change (inject_Z 1) with 1].
    + assert (A : Qltb 0 (0 - y) = false) by (apply Qltb_ge; lra). rewrite A.
      destruct (Qltb (0 - y) 0) eqn:B; cbn [map qsum].
      * rewrite <- IH. ring.
      * apply Qltb_ge in B. rewrite <- IH. assert (y == 0) as -> by lra. ring.
    + assert (A : Qltb (1 - y) 0 = false) by (apply Qltb_ge; lra). rewrite A.
      destruct (Qltb 0 (1 - y)) eqn:B; cbn [map qsum].
      * rewrite <- IH. ring.
      * apply Qltb_ge in B. rewrite <- IH. assert (y == 1) as -> by lra. ring.
Qed.

(* error_rate_gamma_spec: c_fn * P[y=1, h=0] + c_fp * P[y=0, h=1], linearly extended to soft h *)
Theorem error_rate_gamma_spec (fp fn : Q) (rows : list row) (h : list Q) :
  binary_rows rows -> soft h -> length h = length rows ->
  er_gamma fp fn rows h == qsum (zipw (er_cost fp fn) rows h) / nrows rows.
Proof.
  intros Hb Hs L. unfold er_gamma. rewrite (er_numerator fp fn rows h Hb Hs L). reflexivity.
Qed.

Lemma er_cost_diff fp fn rows h h' :
  length h = length rows -> length h' = length rows ->
  qsum (zipw (er_cost fp fn) rows h) - qsum (zipw (er_cost fp fn) rows h')
  == - dot (er_signed_weights fp fn rows) (vsub h h').
Proof.
  revert h h'. induction rows as [|x rows IH]; intros [|y h] [|y' h'] L1 L2; try discriminate.
  - cbn. ring.
  - unfold er_signed_weights, vsub. cbn [zipw qsum map dot].
    fold (er_signed_weights fp fn rows) (vsub h h').
    specialize (IH h h' ltac:(cbn in L1; lia) ltac:(cbn in L2; lia)).
    unfold er_cost at 1 3.
    setoid_replace (dot (er_signed_weights fp fn rows) (vsub h h'))
      with (- (qsum (zipw (er_cost fp fn) rows h) - qsum (zipw (er_cost fp fn) rows h')))
      by (rewrite IH; ring).
    ring.
Qed.

(* objective_identity *)
Theorem objective_identity (fp fn : Q) (rows : list row) (h h' : list Q) :
  binary_rows rows -> soft h -> soft h' -> length h = length rows -> length h' = length rows ->
  er_gamma fp fn rows h - er_gamma fp fn rows h'
  == - (1 / nrows rows) * dot (er_signed_weights fp fn rows) (vsub h h').
Proof.
  intros Hb S1 S2 L1 L2. rewrite !error_rate_gamma_spec by assumption.
  setoid_replace (dot (er_signed_weights fp fn rows) (vsub h h'))
    with (- (qsum (zipw (er_cost fp fn) rows h) - qsum (zipw (er_cost fp fn) rows h')))
    by (rewrite er_cost_diff by assumption; ring).
  unfold Qdiv. ring.
Qed.

(* ---------- the Lagrangian and the cost-sensitive problem ---------- *)

Lemma bound_length eps k rows h r : length (gamma k r rows h) = length (bound eps k rows).
Proof. rewrite gamma_length. unfold bound. rewrite map_length. reflexivity. Qed.

(* L(h, lambda) - L(h', lambda) = -(1/n) sum_i w_i (h_i - h'_i), w = objective weights + constraint weights *)
Theorem lagrangian_identity (k : kind) (r eps fp fn : Q) (rows : list row) (lam h h' : list Q) :
  binary_rows rows -> soft h -> soft h' -> length h = length rows -> length h' = length rows ->
  lagrangian k r eps fp fn rows lam h - lagrangian k r eps fp fn rows lam h'
  == - (1 / nrows rows) * dot (oracle_weights k r fp fn rows lam) (vsub h h').
Proof.
  intros Hb S1 S2 L1 L2. unfold lagrangian, oracle_weights.
  rewrite !dot_vsub by apply bound_length.
  rewrite dot_vadd.
  2:{ unfold er_signed_weights, signed_weights, vmul.
      rewrite zipw_length, !map_length, lincomb_length by apply Umat_lengths. lia. }
  pose proof (objective_identity fp fn rows h h' Hb S1 S2 L1 L2) as O.
  pose proof (reduction_identity k r rows lam h h' L1 L2) as R. unfold lam_gamma in R.
  lra.
Qed.

(* weighted 0/1 error against the relabelled data, for hard predictions *)
Lemma w01_hard (w h : list Q) :
  hard h -> length h = length w ->
  w01 (reweight w) (relabel w) h == qsum (map (fun x => if Qltb 0 x then x else 0) w) - dot w h.
Proof.
  intro Hh. revert w. induction Hh as [|y h Hy Hh IH]; intros [|x w] L; try discriminate.
  - cbn. ring.
  - unfold w01, reweight, relabel. cbn [map combine zipw qsum dot fst snd].
    fold (reweight w) (relabel w) (w01 (reweight w) (relabel w) h).
    rewrite IH by (cbn in L; lia).
    destruct (qabs_spec x) as [P N].
    destruct (Qltb 0 x) eqn:B.
    + apply Qltb_lt in B. rewrite P by lra.
      destruct (Qeqb 1 y) eqn:E; unfold Qeqb in E.
      * apply Qeq_bool_iff in E. rewrite <- E. ring.
      * destruct Hy as [Hy|Hy]; [rewrite Hy; ring|].
        exfalso. apply Qeq_bool_neq in E. apply E. rewrite Hy. reflexivity.
    + apply Qltb_ge in B. rewrite N by lra.
      destruct (Qeqb 0 y) eqn:E; unfold Qeqb in E.
      * apply Qeq_bool_iff in E. rewrite <- E. ring.
      * destruct Hy as [Hy|Hy]; [|rewrite Hy; ring].
        exfalso. apply Qeq_bool_neq in E. apply E. rewrite Hy. reflexivity.
Qed.

(* cost_sensitive_equiv: on hard hypotheses the weighted 0/1 error against labels 1[w>0] with weights |w|
   differs from n * (objective + lambda . (gamma - bound)) by a constant, so both order hypotheses identically *)
Theorem cost_sensitive_identity (k : kind) (r eps fp fn : Q) (rows : list row) (lam h h' : list Q) :
  binary_rows rows -> hard h -> hard h' -> length h = length rows -> length h' = length rows ->
  let w := oracle_weights k r fp fn rows lam in
  w01 (reweight w) (relabel w) h - w01 (reweight w) (relabel w) h'
  == nrows rows * (lagrangian k r eps fp fn rows lam h - lagrangian k r eps fp fn rows lam h').
Proof.
  intros Hb H1 H2 L1 L2 w.
  assert (Lw : length w = length rows).
  { unfold w, oracle_weights, vadd, er_signed_weights, signed_weights, vmul.
    rewrite !zipw_length, !map_length, lincomb_length by apply Umat_lengths. lia. }
  rewrite (lagrangian_identity k r eps fp fn rows lam h h' Hb (hard_soft _ H1) (hard_soft _ H2) L1 L2).
  fold w. rewrite !w01_hard by (auto; congruence).
  rewrite dot_vsub by congruence.
  destruct rows as [|x rows].
  - destruct h, h'; try discriminate. destruct w; try discriminate. cbn. ring.
  - assert (Hn : 0 < nrows (x :: rows)) by (apply inject_nat_pos; cbn; lia).
    field. lra.
Qed.

Theorem cost_sensitive_equiv (k : kind) (r eps fp fn : Q) (rows : list row) (lam h h' : list Q) :
  rows <> [] ->
  binary_rows rows -> hard h -> hard h' -> length h = length rows -> length h' = length rows ->
  let w := oracle_weights k r fp fn rows lam in
  w01 (reweight w) (relabel w) h <= w01 (reweight w) (relabel w) h'
  <-> lagrangian k r eps fp fn rows lam h <= lagrangian k r eps fp fn rows lam h'.
Proof.
  intros Hne Hb H1 H2 L1 L2 w.
  pose proof (cost_sensitive_identity k r eps fp fn rows lam h h' Hb H1 H2 L1 L2) as I.
  cbv zeta in I. fold w in I.
  assert (Hn : 0 < nrows rows) by (apply inject_nat_pos; destruct rows; [contradiction | cbn; lia]).
  set (a := w01 (reweight w) (relabel w) h) in *. set (b := w01 (reweight w) (relabel w) h') in *.
  set (c := lagrangian k r eps fp fn rows lam h) in *.
  set (d := lagrangian k r eps fp fn rows lam h') in *.
  split; intro H; nra.
Qed.


(* ---------- project_lambda ---------- *)

Lemma max0_spec x : 0 <= max0 x /\ ((0 <= x /\ max0 x == x) \/ (x <= 0 /\ max0 x == 0)).
Proof.
  unfold max0. destruct (Qltb x 0) eqn:B.
  - apply Qltb_lt in B. split; [lra | right; split; lra].
  - apply Qltb_ge in B. split; [lra | left; split; lra].
Qed.

Lemma max0_pos x : 0 <= x -> max0 x == x.
Proof. intro H. destruct (max0_spec x) as [_ [[_ E]|[S E]]]; [exact E | rewrite E; lra]. Qed.
Lemma max0_neg x : x <= 0 -> max0 x == 0.
Proof. intro H. destruct (max0_spec x) as [_ [[S E]|[_ E]]]; [rewrite E; lra | exact E]. Qed.

Lemma dot_app a b c d : length a = length c -> dot (a ++ b) (c ++ d) == dot a c + dot b d.
Proof.
  revert c. induction a as [|x a IH]; intros [|y c] L; try discriminate; cbn [app dot].
  - ring.
  - rewrite IH by (cbn in L; lia). ring.
Qed.

Lemma vsub_const eps l : vsub l (map (fun _ => eps) l) = map (fun x => x - eps) l.
Proof.
  unfold vsub. induction l as [|x l IH]; cbn [map zipw]; [reflexivity | rewrite IH; reflexivity].
Qed.

(* the pairwise core: with gm = -gp, replacing (lp, lm) by (max0 (lp-lm), max0 (lm-lp)) never lowers
   lp.(gp-eps) + lm.(gm-eps) when lp, lm >= 0 and eps >= 0 *)
Lemma project_pairs eps (lp lm gp gm : list Q) :
  0 <= eps ->
  length lm = length lp -> length gp = length lp ->
  Forall2 (fun a b => b == - a) gp gm ->
  Forall (fun x => 0 <= x) lp -> Forall (fun x => 0 <= x) lm ->
  dot lp (map (fun x => x - eps) gp) + dot lm (map (fun x => x - eps) gm)
  <= dot (map max0 (vsub lp lm)) (map (fun x => x - eps) gp)
     + dot (map max0 (map Qopp (vsub lp lm))) (map (fun x => x - eps) gm).
Proof.
  intros He. revert lm gp gm.
  induction lp as [|a lp IH]; intros [|b lm] [|p gp] gm L1 L2 HG Hp Hm; try discriminate.
  (* the all-nil case is closed by computation *)
  inversion HG as [|? q ? gm' Hq HG']; subst.
  inversion Hp as [|? ? Ha Hp']; inversion Hm as [|? ? Hb Hm']; subst.
    specialize (IH lm gp gm' ltac:(cbn in L1; lia) ltac:(cbn in L2; lia) HG' Hp' Hm').
    unfold vsub. cbn [zipw map dot]. fold (vsub lp lm).
    assert (Pa : 0 <= a * eps) by (apply Qmult_le_0_compat; assumption).
    assert (Pb : 0 <= b * eps) by (apply Qmult_le_0_compat; assumption).
    destruct (Qlt_le_dec 0 (a - b)) as [D|D].
    + rewrite (max0_pos (a - b)) by lra. rewrite (max0_neg (- (a - b))) by lra. rewrite Hq. lra.
    + rewrite (max0_neg (a - b)) by lra. rewrite (max0_pos (- (a - b))) by lra. rewrite Hq. lra.
Qed.

Lemma gamma_at_minus_plus k r rows h p :
  r == 1 -> gamma_at k r rows h (Minus, p) == - gamma_at k r rows h (Plus, p).
Proof.
  intro Hr. unfold gamma_at, ucol. destruct p as [e g].
  set (pe := prob_event k rows e). set (peg := prob_group_event k rows e g).
  clearbody pe peg.
  assert (D : forall x, dot (map (uentry k r Minus e g pe peg) rows) x
                        == - dot (map (uentry k r Plus e g pe peg) rows) x).
  { induction rows as [|rw rows' IH]; intros [|y x]; cbn [map dot]; try ring.
    rewrite IH. unfold uentry. rewrite Hr. unfold Qdiv. ring. }
  rewrite D. unfold Qdiv. ring.
Qed.

Lemma Forall2_map_pm k r rows h l :
  r == 1 ->
  Forall2 (fun a b => b == - a) (map (fun p => gamma_at k r rows h (Plus, p)) l)
          (map (fun p => gamma_at k r rows h (Minus, p)) l).
Proof.
  intro Hr. induction l as [|p l IH]; cbn; constructor; auto.
  apply gamma_at_minus_plus. exact Hr.
Qed.

Lemma Forall_max0 l : Forall (fun x => 0 <= x) (map max0 l).
Proof. induction l; cbn; constructor; auto. apply max0_spec. Qed.

Theorem project_lambda_sound (k : kind) (r eps : Q) (rows : list row) (lam : list Q) :
  r == 1 -> 0 <= eps ->
  length lam = length (index k rows) -> Forall (fun x => 0 <= x) lam ->
  let m := length (pairs_of k rows) in
  let lam' := project_lambda r m lam in
  Forall (fun x => 0 <= x) lam' /\ length lam' = length lam /\
  forall h, dot lam (vsub (gamma k r rows h) (bound eps k rows))
            <= dot lam' (vsub (gamma k r rows h) (bound eps k rows)).
Proof.
  intros Hr He HL Hpos m lam'.
  assert (Hm : length (index k rows) = (m + m)%nat).
  { unfold index. rewrite app_length, !map_length. reflexivity. }
  assert (Hlam : lam = firstn m lam ++ skipn m lam) by (symmetry; apply firstn_skipn).
  set (lp := firstn m lam) in *. set (lm := skipn m lam) in *.
  assert (Llp : length lp = m) by (unfold lp; rewrite firstn_length; lia).
  assert (Llm : length lm = m) by (unfold lm; rewrite skipn_length; lia).
  assert (E : lam' = map max0 (vsub lp lm) ++ map max0 (map Qopp (vsub lp lm))).
  { unfold lam', project_lambda. fold lp lm.
    assert (B : Qeqb r 1 = true) by (apply Qeq_bool_iff; exact Hr). rewrite B. reflexivity. }
  assert (Lv : length (vsub lp lm) = m) by (unfold vsub; rewrite zipw_length; lia).
  split; [|split].
  - rewrite E. apply Forall_app. split; apply Forall_max0.
  - rewrite E, app_length, !map_length, Lv. lia.
  - intro h. rewrite gamma_is_map. unfold bound.
    replace (map (fun _ : idx => eps) (index k rows))
      with (map (fun _ : Q => eps) (map (gamma_at k r rows h) (index k rows)))
      by (rewrite map_map; reflexivity).
    rewrite vsub_const. unfold index. rewrite !map_app, !map_map.
    rewrite E. rewrite Hlam at 1.
    rewrite !dot_app by (rewrite ?map_length; lia).
    rewrite <- !(map_map (fun p => gamma_at k r rows h (_, p)) (fun x => x - eps)).
    apply project_pairs; try assumption; try lia.
    + rewrite map_length. fold m. lia.
    + apply Forall2_map_pm. exact Hr.
    + rewrite Hlam in Hpos. apply Forall_app in Hpos. tauto.
    + rewrite Hlam in Hpos. apply Forall_app in Hpos. tauto.
Qed.

Theorem project_lambda_ratio (r : Q) (m : nat) (lam : list Q) :
  ~ r == 1 -> project_lambda r m lam = lam.
Proof.
  intro H. unfold project_lambda. destruct (Qeqb r 1) eqn:B; [|reflexivity].
  apply Qeq_bool_iff in B. contradiction.
Qed.

(* shape restated in props/C07.v with the generated sw_entry *)
Lemma src_signed_weights k r rows lam :
  signed_weights k r rows lam
  = zipw (fun ud ul => ud * ul) (map (udiff k) rows) (lincomb (length rows) (Umat k r rows) lam).
Proof. reflexivity. Qed.


(* ---------- BoundedGroupLoss: loss_identity ---------- *)

Lemma zinsert_sorted x l : StronglySorted Z.lt l -> StronglySorted Z.lt (zinsert x l).
Proof.
  induction l as [|y l IH]; intro S; cbn [zinsert].
  - repeat constructor.
  - inversion S as [|? ? S' F]; subst.
    destruct (x <? y)%Z eqn:A.
    + apply Z.ltb_lt in A. constructor; [exact S|]. constructor; [exact A|].
      eapply Forall_impl; [|exact F]. intros z Hz. cbn beta in Hz. lia.
    + destruct (x =? y)%Z eqn:B; [exact S|].
      apply Z.ltb_ge in A. apply Z.eqb_neq in B.
      constructor; [apply IH; exact S'|].
      apply Forall_forall. intros z Hz. apply zinsert_In in Hz. destruct Hz as [->|Hz]; [lia|].
      rewrite Forall_forall in F. apply F. exact Hz.
Qed.

Lemma zuniq_sorted l : StronglySorted Z.lt (zuniq l).
Proof. unfold zuniq. induction l; cbn [fold_right]; [constructor | apply zinsert_sorted; assumption]. Qed.

Lemma sorted_NoDup l : StronglySorted Z.lt l -> NoDup l.
Proof.
  induction 1 as [|a l S IH F]; constructor; [|exact IH].
  intro H. rewrite Forall_forall in F. specialize (F a H). lia.
Qed.

Lemma zuniq_NoDup l : NoDup (zuniq l).
Proof. apply sorted_NoDup, zuniq_sorted. Qed.

Definition gcol (g : Z) (gs : list Z) : list Q := map (fun gi => ind (gi =? g)%Z) gs.
Definition glookup (g : Z) (m : list (Z * Q)) : Q := match zassoc g m with Some a => a | None => 0 end.

Lemma dot_ext a b x : Forall2 Qeq a b -> dot a x == dot b x.
Proof.
  intro H. revert x. induction H as [|p q a b Hpq H IH]; intros [|y x]; cbn [dot]; try reflexivity.
  rewrite Hpq, IH. reflexivity.
Qed.

Lemma group_sel_sum gs vals g :
  qsum (map snd (filter (fun t : Z * Q => (fst t =? g)%Z) (combine gs vals))) == dot (gcol g gs) vals.
Proof.
  unfold gcol. revert vals. induction gs as [|gi gs IH]; intros [|v vals]; cbn [combine filter map qsum dot];
    try reflexivity.
  cbn [fst]. destruct (gi =? g)%Z; cbn [map qsum snd ind]; rewrite IH; unfold ind; ring.
Qed.

Lemma group_sel_len (rows : list lrow) vals g :
  length vals = length rows ->
  length (filter (fun t : Z * Q => (fst t =? g)%Z) (combine (map snd rows) vals))
  = count_if (fun rw : lrow => (snd rw =? g)%Z) rows.
Proof.
  unfold count_if. revert vals. induction rows as [|rw rows IH]; intros [|v vals] L; try discriminate;
    cbn [map combine filter]; [reflexivity|].
  cbn [fst]. destruct (snd rw =? g)%Z; cbn [length]; rewrite IH by (cbn in L; lia); reflexivity.
Qed.

Lemma zassoc_notin {V} g idx (b : list V) : ~ In g idx -> zassoc g (combine idx b) = None.
Proof.
  revert b. induction idx as [|i idx IH]; intros [|x b] H; cbn [combine zassoc]; try reflexivity.
  destruct (g =? i)%Z eqn:E; [apply Z.eqb_eq in E; subst; exfalso; apply H; left; reflexivity|].
  apply IH. intro C. apply H. right. exact C.
Qed.

(* sum_g beta_g 1[g_i = g] is the lookup of g_i, for a duplicate-free index *)
Lemma lincomb_lookup n gs idx beta :
  n = length gs -> NoDup idx ->
  Forall2 Qeq (lincomb n (map (fun g => gcol g gs) idx) beta)
              (map (fun gi => glookup gi (combine idx beta)) gs).
Proof.
  intros -> ND. revert beta. induction ND as [|g idx Hg ND IH]; intro beta.
  - cbn [map lincomb combine]. induction gs; cbn; constructor; [reflexivity | assumption].
  - destruct beta as [|b beta].
    + cbn [map lincomb combine]. clear. induction gs; cbn; constructor; [reflexivity | assumption].
    + cbn [map lincomb combine]. specialize (IH beta).
      set (rest := lincomb (length gs) (map (fun g0 => gcol g0 gs) idx) beta) in *.
      assert (Lr : length rest = length gs).
      { unfold rest. apply lincomb_length. apply Forall_forall. intros c Hc. apply in_map_iff in Hc.
        destruct Hc as (g0 & <- & _). unfold gcol. apply map_length. }
      clearbody rest. unfold gcol, vadd. revert rest IH Lr.
      induction gs as [|gi gs IHg]; intros [|p rest] IH Lr; try discriminate; cbn [map zipw].
      * constructor.
      * inversion IH as [|? ? ? ? Hp IH']; subst. constructor; [|apply IHg; [exact IH' | cbn in Lr; lia]].
        unfold glookup. cbn [zassoc]. unfold glookup in Hp.
        destruct (gi =? g)%Z eqn:E.
        -- apply Z.eqb_eq in E. subst gi. rewrite Hp, (zassoc_notin g idx beta Hg). unfold ind. ring.
        -- rewrite Hp. unfold ind. ring.
Qed.

Lemma glookup_scale N g idx (a b : list Q) :
  Forall2 (fun x y => x == N * y) a b ->
  glookup g (combine idx a) == N * glookup g (combine idx b).
Proof.
  intro H. revert idx. unfold glookup.
  induction H as [|x y a b Hxy H IH]; intros [|i idx]; cbn [combine zassoc]; try ring.
  destruct (g =? i)%Z; [exact Hxy | apply IH].
Qed.

Definition gcount (rows : list lrow) (g : Z) : Q := inject_nat (count_if (fun rw : lrow => (snd rw =? g)%Z) rows).

Lemma adjust_scale N lam (cs : list Q) :
  Forall2 (fun x y => x == N * y) (zipw Qdiv lam (map (fun c => c / N) cs)) (zipw Qdiv lam cs).
Proof.
  revert cs. induction lam as [|l lam IH]; intros [|c cs]; cbn [map zipw]; constructor; [|apply IH].
  unfold Qdiv. rewrite Qinv_mult_distr, Qinv_involutive. ring.
Qed.

Lemma dot_div_swap lam (S C : list Q) :
  length S = length C ->
  dot lam (zipw Qdiv S C) == dot (zipw Qdiv lam C) S.
Proof.
  revert S C. induction lam as [|l lam IH]; intros [|s S] [|c C] L; try discriminate; cbn [zipw dot];
    try reflexivity.
  rewrite IH by (cbn in L; lia). unfold Qdiv. ring.
Qed.

Lemma zipw_map_map {A} (f g : A -> Q) (l : list A) :
  zipw Qdiv (map f l) (map g l) = map (fun x => f x / g x) l.
Proof. induction l as [|x l IH]; cbn [map zipw]; [reflexivity | rewrite IH; reflexivity]. Qed.

Lemma dot_ext_r x a b : Forall2 Qeq a b -> dot x a == dot x b.
Proof.
  intro H. revert x. induction H as [|p q a b Hpq H IH]; intros [|y x]; cbn [dot]; try reflexivity.
  rewrite Hpq, IH. reflexivity.
Qed.

Lemma dot_map_scale {A} (f f' : A -> Q) N (l : list A) vals :
  (forall a, f a == N * f' a) -> dot (map f l) vals == N * dot (map f' l) vals.
Proof.
  intro H. revert vals. induction l as [|a l IH]; intros [|v vals]; cbn [map dot]; try ring.
  rewrite H, IH. ring.
Qed.

(* loss_identity: lambda . gamma(h) = (1/n) sum_i w_i loss_i(h) with w_i = lambda_{g(i)} / P(g(i)) *)
Theorem loss_identity (l : loss) (rows : list lrow) (lam h : list Q) :
  length h = length rows ->
  dot lam (bgl_gamma l rows h)
  == (1 / inject_nat (length rows)) * dot (bgl_signed_weights rows lam) (losses l rows h).
Proof.
  intro Lh.
  destruct rows as [|rw0 rows0].
  { unfold bgl_gamma, bgl_signed_weights. cbn [map bgl_index zuniq fold_right]. rewrite dot_nil_r. cbn [dot]. ring. }
  set (rows := rw0 :: rows0) in *.
  assert (HN : 0 < inject_nat (length rows)) by (apply inject_nat_pos; cbn; lia).
  clearbody rows. clear rw0 rows0.
  unfold bgl_gamma, bgl_signed_weights.
  set (vals := losses l rows h).
  assert (Lv : length vals = length rows).
  { unfold vals, losses. rewrite zipw_length, Lh. apply Nat.min_id. }
  clearbody vals. set (gs := map snd rows). set (idx := bgl_index rows).
  set (N := inject_nat (length rows)) in *.
  set (beta := zipw Qdiv lam (map (gcount rows) idx)).
  set (D := dot (map (fun gi => glookup gi (combine idx beta)) gs) vals).
  assert (LHS : dot lam (map (group_mean gs vals) idx) == D).
  { assert (GM : Forall2 Qeq (map (group_mean gs vals) idx)
                   (zipw Qdiv (map (fun g => dot (gcol g gs) vals) idx) (map (gcount rows) idx))).
    { rewrite zipw_map_map. clear - Lv. induction idx as [|g idx IH]; cbn [map]; constructor; [|exact IH].
      unfold group_mean, gcount. fold gs. rewrite group_sel_sum.
      unfold gs. rewrite group_sel_len by assumption. reflexivity. }
    rewrite (dot_ext_r _ _ _ GM).
    rewrite dot_div_swap by (rewrite !map_length; reflexivity). fold beta.
    rewrite <- (map_map (fun g => gcol g gs) (fun c => dot c vals)).
    rewrite <- (dot_lincomb (length gs)).
    2:{ apply Forall_forall. intros c Hc. apply in_map_iff in Hc. destruct Hc as (g0 & <- & _).
        unfold gcol. apply map_length. }
    apply dot_ext. apply lincomb_lookup; [reflexivity | apply zuniq_NoDup]. }
  assert (RHS : dot (map (fun rw : lrow => match zassoc (snd rw) (combine idx (zipw Qdiv lam (prob_attr rows))) with
                                           | Some a => a | None => 0 end) rows) vals == N * D).
  { unfold D, gs. rewrite map_map.
    apply dot_map_scale. intro rw. fold (glookup (snd rw) (combine idx (zipw Qdiv lam (prob_attr rows)))).
    apply glookup_scale. unfold beta, prob_attr. fold idx. fold N.
    rewrite <- (map_map (gcount rows) (fun c => c / N)). apply adjust_scale. }
  rewrite LHS, RHS. field. intro C. rewrite C in HN. apply (Qlt_irrefl 0). exact HN.
Qed.


(* ---------- the n / sum|w| normalisation of _call_oracle ---------- *)

Lemma w01_scale c ww yy h : w01 (map (fun x => c * x) ww) yy h == c * w01 ww yy h.
Proof.
  unfold w01. generalize (combine yy h) as l. induction ww as [|x ww IH]; intros [|t l]; cbn [map zipw qsum];
    try ring.
  rewrite IH. ring.
Qed.

Lemma w01_div_map K s a yy h :
  w01 (map (fun x => K * x / s) a) yy h == w01 (map (fun x => K / s * x) a) yy h.
Proof.
  unfold w01. generalize (combine yy h) as l. induction a as [|x a IH]; intros [|t l];
    cbn [map zipw qsum]; try reflexivity.
  rewrite IH. unfold Qdiv. ring.
Qed.

Lemma qsum_abs_nonneg w : 0 <= qsum (map qabs w).
Proof.
  induction w as [|x w IH]; cbn [map qsum]; [lra|].
  destruct (qabs_spec x) as [P N]. destruct (Qlt_le_dec x 0); [rewrite N by lra | rewrite P by lra]; lra.
Qed.

Lemma reweight_eg_scale w ww :
  reweight_eg w = Some ww ->
  exists c, 0 < c /\ forall yy h, w01 ww yy h == c * w01 (reweight w) yy h.
Proof.
  unfold reweight_eg, reweight. set (a := map qabs w). set (s := qsum a).
  destruct (Qeqb s 0) eqn:E; [discriminate|]. intros [= <-].
  assert (Hs : 0 < s).
  { pose proof (qsum_abs_nonneg w) as H. fold a s in H. unfold Qeqb in E. apply Qeq_bool_neq in E.
    destruct (Qlt_le_dec 0 s); [assumption|]. exfalso. apply E. lra. }
  assert (Hn : 0 < inject_nat (length w)).
  { apply inject_nat_pos. destruct w; [|cbn; lia]. exfalso. unfold s, a in Hs. cbn in Hs. lra. }
  exists (inject_nat (length w) / s). split.
  - apply Qlt_shift_div_l; lra.
  - intros yy h. rewrite <- w01_scale. apply w01_div_map.
Qed.

(* the order of hypotheses under the weights _call_oracle really passes (n |w| / sum |w|) is the order under |w| *)
Theorem reweight_eg_order (w ww yy h h' : list Q) :
  reweight_eg w = Some ww ->
  (w01 ww yy h <= w01 ww yy h' <-> w01 (reweight w) yy h <= w01 (reweight w) yy h').
Proof.
  intro H. destruct (reweight_eg_scale w ww H) as (c & Hc & E). rewrite !E.
  set (a := w01 (reweight w) yy h). set (b := w01 (reweight w) yy h').
  split; intro L; nra.
Qed.
